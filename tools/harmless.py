#!/usr/bin/env python3
"""harmless.py — the false-alarm rehearsal: apply each behaviour-preserving patch of /verif/harmless to a private copy of /repo, make sure the
repository's own test suite still passes there, run all registered quick checks on it from a private copy of /verif, and report every alarm.

usage: harmless.py [patch ...]        (default: every /verif/harmless/*.diff)
Scratch copies live under /tmp/utcp-harmless-* and are removed at the end."""
import concurrent.futures
import glob
import json
import os
import shutil
import subprocess
import sys
import tempfile

VERIF = os.path.dirname(os.path.dirname(os.path.abspath(__file__)))
REPO = os.environ.get("UTCP_REPO", "/repo")


def sh(cmd, cwd=None, env=None, timeout=3600):
    p = subprocess.run(cmd, shell=True, cwd=cwd, env=env, stdout=subprocess.PIPE, stderr=subprocess.STDOUT, text=True, timeout=timeout)
    return p.returncode, p.stdout


def main():
    patches = [os.path.abspath(p) for p in sys.argv[1:]] or sorted(glob.glob(os.path.join(VERIF, "harmless", "*.diff")))
    top = tempfile.mkdtemp(prefix="utcp-harmless-")
    repo2, verif2 = os.path.join(top, "repo"), os.path.join(top, "verif")
    bad = 0
    try:
        sh("rsync -a --exclude _build %s/ %s/" % (REPO, repo2))
        sh("rsync -a --exclude 'build/h-*' --exclude replays %s/ %s/" % (VERIF, verif2))
        sh("cmake -G Ninja -B _build -DCMAKE_BUILD_TYPE=Release", cwd=repo2)
        props = [c["property_id"] for c in json.load(open(os.path.join(VERIF, "MANIFEST.json")))["checks"]]
        for patch in patches:
            name = os.path.basename(patch)
            sh("git checkout -q -- .", cwd=repo2)
            rc, o = sh("git apply %s" % patch, cwd=repo2)
            if rc != 0:
                print("%s: does not apply: %s" % (name, o.strip()[-200:]))
                bad += 1
                continue
            rc, o = sh("cmake --build _build 2>&1 | tail -3 && ctest --test-dir _build/test -j8 2>&1 | tail -4", cwd=repo2)
            tests_ok = "100% tests passed" in o
            env = dict(os.environ, UTCP_REPO=repo2, VERIF_EVIDENCE_DIR=os.path.join(verif2, "build", "ev-harmless"), VERIF_SEED=os.environ.get("VERIF_SEED", "1"))

            def one(prop):
                rc, o = sh("python3 tools/check.py %s --tier quick" % prop, cwd=verif2, env=env)
                return prop, rc, [l for l in o.splitlines() if l.startswith("VIOLATION") or l.startswith("NOTE regeneration")]
            alarms, notes = [], set()
            with concurrent.futures.ThreadPoolExecutor(max_workers=5) as ex:
                for prop, rc, lines in ex.map(one, props):
                    for l in lines:
                        if l.startswith("VIOLATION"):
                            alarms.append(l)
                        else:
                            notes.add(l)
                    if rc != 0 and not any(l.startswith("VIOLATION") for l in lines):
                        alarms.append("%s: exit %d without a VIOLATION line" % (prop, rc))
            print("%s: test suite %s; %d checks, %d alarms, %d regeneration notes" % (name, "passes" if tests_ok else "FAILS (not a harmless patch)", len(props), len(alarms), len(notes)), flush=True)
            for a in alarms:
                print("   " + a[:220])
            if alarms or not tests_ok:
                bad += 1
    finally:
        shutil.rmtree(top, ignore_errors=True)
    sys.exit(1 if bad else 0)


if __name__ == "__main__":
    main()
