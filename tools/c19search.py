#!/usr/bin/env python3
"""c19search.py — exhaustive check of the *compiled* large_bunch splitter for every payload length 0..N bits (default 64 KiB in bits):
fragment count, lengths summing to the payload, each within the single-bunch limit, flags.  Prints OK or COUNTEREXAMPLE."""
import glob, os, subprocess, sys
HERE = os.path.dirname(os.path.abspath(__file__))
sys.path.insert(0, HERE)
import buildlib
SRC = r'''
#include <cstdio>
#include <cstdlib>
#include <memory>
#include <vector>
#include "%(hpp)s"
int main(int argc, char** argv)
{
	long maxbits = argc > 1 ? atol(argv[1]) : 524288;
	std::vector<uint8_t> data(maxbits / 8 + 16, 0x5A);
	std::unique_ptr<utcp::large_bunch> lb;
	for (long n = 0; n <= maxbits; ++n)
	{
		lb.reset(new utcp::large_bunch(data.data(), (size_t)n));
		int cnt = lb->num();
		int want = n <= 7264 ? 1 : (int)(n / 7264 + 1);
		if (cnt != want) { printf("COUNTEREXAMPLE payload of %%ld bits: num() = %%d, expected %%d fragments\n", n, cnt, want); return 1; }
		long sum = 0;
		for (int pos = 0; pos < cnt; ++pos)
		{
			utcp_bunch& sub = lb->sub_bunch(pos);
			sum += sub.DataBitsLen;
			if (sub.DataBitsLen > 7265) { printf("COUNTEREXAMPLE payload of %%ld bits: fragment %%d has %%u bits\n", n, pos, (unsigned)sub.DataBitsLen); return 1; }
			if (cnt > 1 && (!sub.bPartial || (sub.bPartialInitial != (pos == 0)) || (sub.bPartialFinal != (pos == cnt - 1))))
			{ printf("COUNTEREXAMPLE payload of %%ld bits: fragment %%d of %%d has flags partial=%%d initial=%%d final=%%d\n", n, pos, cnt, sub.bPartial, sub.bPartialInitial, sub.bPartialFinal); return 1; }
		}
		if (sum != n) { printf("COUNTEREXAMPLE payload of %%ld bits: fragment lengths sum to %%ld\n", n, sum); return 1; }
	}
	printf("OK\n");
	return 0;
}
'''
def main():
    maxbits = sys.argv[1] if len(sys.argv) > 1 else "80000"
    os.makedirs(buildlib.BUILD, exist_ok=True)
    src = os.path.join(buildlib.BUILD, "c19search_%d.cpp" % os.getpid())
    exe = os.path.join(buildlib.BUILD, "c19search_%d.exe" % os.getpid())
    open(src, "w").write(SRC % {"hpp": os.path.join(buildlib.REPO, "abstract/utcp.hpp")})
    objs = []
    for s in sorted(glob.glob(os.path.join(buildlib.REPO, "utcp/*.c")) + glob.glob(os.path.join(buildlib.REPO, "utcp/3rd/*.c"))):
        o = os.path.join(buildlib.BUILD, "c19_%d_%s.o" % (os.getpid(), os.path.basename(s)))
        subprocess.run(["gcc", "-std=gnu11", "-O1", "-w", "-DNDEBUG", "-I" + buildlib.REPO, "-I" + os.path.join(buildlib.REPO, "utcp"), "-c", s, "-o", o], check=True)
        objs.append(o)
    p = subprocess.run(["g++", "-std=gnu++17", "-O1", "-w", "-DNDEBUG", "-I" + buildlib.REPO, "-I" + os.path.join(buildlib.REPO, "utcp"), src, os.path.join(buildlib.REPO, "abstract/utcp.cpp")] + objs + ["-o", exe],
                       stdout=subprocess.PIPE, stderr=subprocess.STDOUT, text=True)
    for o in objs + [src]:
        os.remove(o)
    if p.returncode != 0:
        print("ERROR probe does not compile: " + p.stdout[-800:]); sys.exit(2)
    r = subprocess.run([exe, maxbits], stdout=subprocess.PIPE, text=True, timeout=1800)
    os.remove(exe)
    print(r.stdout.strip())
    sys.exit(0 if r.stdout.startswith("OK") else 1)
if __name__ == "__main__":
    main()
