"""Scenario generators.  Every choice derives from one random.Random(seed); the scenario text is the replay.
A scenario is a list of op lines (see PROTOCOL.md).  Comment lines starting with '#!' carry expectations
for the monitors (they are ignored by the harness and by the Lean driver)."""
import random

MASK32 = 0xFFFFFFFF
FLAG = dict(open=1, close=2, paused=4, rel=8, exports=16, guids=32, partial=64, pinit=128, pfinal=256)

BOUNDARY_BITS = [0, 1, 7, 8, 9, 15, 16, 17, 63, 64, 65, 1000, 4000, 7000, 7264, 7265]


def seq_choice(rng):
    r = rng.random()
    if r < 0.35:
        return rng.choice([0, 1, 2, 16383, 16382, 16380, 8191, 8192, 8193, 1023, 1024, 1025, 511, 512])
    if r < 0.55:
        return (16384 - rng.randint(1, 40)) % 16384
    if r < 0.7:
        return (1024 * rng.randint(0, 15) - rng.randint(1, 12)) % 16384
    return rng.randint(0, 16383)


def payload_bits(rng, small=False):
    r = rng.random()
    if small:
        return rng.choice([0, 1, 7, 8, 9, 16, 31, 32, 33, 100])
    if r < 0.3:
        return rng.choice(BOUNDARY_BITS)
    if r < 0.7:
        return rng.randint(0, 300)
    if r < 0.9:
        return rng.randint(300, 3000)
    return rng.randint(3000, 7265)


def ch_choice(rng):
    return rng.choice([0, 1, 2, 3, 63, 64, 127, 128, 129, 8191, 8192, 16383, 16384, 20000, 32766])


class Session:
    """helper that tracks what the generator has asked for (never what the code did)"""

    def __init__(self, rng):
        self.rng = rng
        self.ops = []
        self.pseed = rng.randint(1, 1 << 30)

    def op(self, s):
        self.ops.append(s)

    def note(self, s):
        self.ops.append("#! " + s)

    def next_pseed(self):
        self.pseed = (self.pseed * 6364136223846793005 + 1442695040888963407) & 0x3FFFFFFF
        return self.pseed


def fate_deliver(s, rng, dst, src, p_drop, p_dup, p_reorder, wrapper=False):
    """apply a fate to the next pending datagram of src"""
    w = "w" if wrapper else ""
    r = rng.random()
    if r < p_drop:
        s.op("drop %d" % src)
    elif r < p_drop + p_dup:
        s.op("%sdln %d %d" % (w, dst, src))
        s.op("%sdlv %d %d -1" % (w, dst, src))
    elif r < p_drop + p_dup + p_reorder:
        # deliver a later one first (if any), then this one
        s.op("%sdlv %d %d %d" % (w, dst, src, rng.randint(1, 3)))
        s.op("%sdln %d %d" % (w, dst, src))
    else:
        s.op("%sdln %d %d" % (w, dst, src))


def drain(s, a=1, b=2, rounds=8, update=False, wrapper=False):
    w = "w" if wrapper else ""
    for _ in range(rounds):
        s.op("tick 250000000")
        s.op("flush %d" % a)
        s.op("%sdla %d %d" % (w, b, a))
        if update:
            s.op("update %d" % b)
        s.op("flush %d" % b)
        s.op("%sdla %d %d" % (w, a, b))
        if update:
            s.op("update %d" % a)


def data_session(seed, n_steps=120, faults=True, with_close=False, with_partial=True, with_invalid=False, updates=False, p_rel=0.6,
                 magic=None, window_respect=True, big_groups=False, tiny=False):
    rng = random.Random(seed)
    s = Session(rng)
    s.op("reset")
    if magic is None:
        magic = rng.choice([(0, 0), (0, 0), (1, 1), (7, 0x55), (8, 0xA5), (13, 0x1234), (31, 0x7FFFFFFF), (32, 0xDEADBEEF)])
    if magic[0]:
        s.op("cfg magic %d %d" % magic)
    if rng.random() < 0.3:
        s.op("tick %d" % (rng.randint(0, 3600 * 5) * 1000000000))
    s.op("conn 1")
    s.op("conn 2")
    a_out, b_out = seq_choice(rng), seq_choice(rng)
    s.op("seqinit 1 %d %d" % (b_out, a_out))
    s.op("seqinit 2 %d %d" % (a_out, b_out))
    s.note("peers 1 2")
    if not faults and not with_close and not with_invalid:
        s.note("cleanlink")    # nothing is lost, duplicated or reordered and no channel is closed: no bunch can be refused, so no packet may be NAKed
    p_drop = (rng.choice([0, 0.05, 0.15, 0.3]) if not tiny else rng.choice([0.3, 0.45])) if faults else 0
    p_dup = rng.choice([0, 0.05, 0.15]) if faults else 0
    p_reo = rng.choice([0, 0.1, 0.25]) if faults else 0
    # channels: opened lazily by the first (open) bunch
    chans = {1: {}, 2: {}}  # side -> ch -> state dict
    nchan = rng.randint(1, 5)
    pool = rng.sample([0, 1, 2, 3, 63, 64, 127, 128, 8191, 8192, 16384, 32766], nchan)
    closed = {1: set(), 2: set()}
    budget = {"pk": 0, "rel": {}}

    def sync():
        # fault-free exchange: afterwards nothing is awaiting a verdict (keeps the run inside the send window
        # and inside 256 unacknowledged reliable bunches per channel, as the properties require of the sender)
        drain(s, 1, 2, rounds=4, update=False)
        budget["pk"] = 0
        budget["rel"] = {}

    for step in range(n_steps):
        side = rng.choice([1, 2])
        other = 3 - side
        r = rng.random()
        if budget["pk"] > 150 or any(v > 150 for v in budget["rel"].values()):
            sync()
        if r < 0.45:
            ch = rng.choice(pool)
            if ch in closed[side] or ch in closed[other]:
                continue
            if with_close and pool.index(ch) % 2 != side % 2:
                continue  # sessions that close channels use each channel in one direction only (data flowing *toward* a closer is outside C01/C10)
            st = chans[side].get(ch)
            if window_respect:
                s.op("wb %d 3" % side)
            reliable = rng.random() < p_rel
            flags = 0
            if st is None:
                # opening bunch; reliable most of the time
                flags |= FLAG["open"]
                reliable = reliable or rng.random() < 0.7
                chans[side][ch] = {"nrel": 0}
                st = chans[side][ch]
            if reliable:
                flags |= FLAG["rel"]
            if rng.random() < 0.1:
                flags |= FLAG["paused"]
            if rng.random() < 0.1:
                flags |= FLAG["exports"]
            if rng.random() < 0.1:
                flags |= FLAG["guids"]
            name = rng.choice([0, 1, 5, 127, 128, 16383, 16384, 2097151, 2097152, 268435455, 268435456, 4294967295]) if (flags & (FLAG["rel"] | FLAG["open"])) else 0
            reason = 0
            if with_partial and rng.random() < 0.25 and not (flags & FLAG["open"]):
                # a partial group
                k = rng.randint(2, 5) if not big_groups else rng.choice([2, 3, 50, 255, 256])
                if k > 40:
                    sync()
                budget["pk"] += k + 1
                if reliable:
                    budget["rel"][(side, ch)] = budget["rel"].get((side, ch), 0) + k
                for i in range(k):
                    fl = flags | FLAG["partial"] | (FLAG["pinit"] if i == 0 else 0) | (FLAG["pfinal"] if i == k - 1 else 0)
                    bits = payload_bits(rng, small=k > 8) if i == k - 1 else (rng.choice([7264, 7264, payload_bits(rng, small=k > 8)]) if k <= 8 else payload_bits(rng, small=True))
                    s.op("send %d %d %d %d %d %d %d" % (side, ch, fl, 0, name, bits, s.next_pseed()))
                    if not reliable and rng.random() < 0.15:
                        s.op("flush %d" % side)  # fragments in consecutive packets
                if k > 40:
                    sync()
            elif with_close and rng.random() < 0.06 and not (flags & FLAG["open"]):
                # a closing bunch too large for one packet: the C++ layer puts the close flag on every fragment
                k = rng.randint(2, 4)
                reason = rng.randint(0, 14)
                closed[side].add(ch)
                for i in range(k):
                    fl = FLAG["rel"] | FLAG["close"] | FLAG["partial"] | (FLAG["pinit"] if i == 0 else 0) | (FLAG["pfinal"] if i == k - 1 else 0)
                    s.op("send %d %d %d %d %d %d %d" % (side, ch, fl, reason, name, rng.choice([7264, 3000, 40]), s.next_pseed()))
                    s.op("flush %d" % side)
                    if rng.random() < 0.7:
                        s.op("dla %d %d" % (other, side))
                        s.op("update %d" % other)
                budget["pk"] += k + 1
                budget["rel"][(side, ch)] = budget["rel"].get((side, ch), 0) + k
                flags |= FLAG["rel"]
            else:
                if with_close and st["nrel"] >= 0 and rng.random() < 0.12 and not (flags & FLAG["open"]):
                    flags |= FLAG["close"] | FLAG["rel"]
                    reason = rng.choice(list(range(15)))
                    closed[side].add(ch)
                bits = payload_bits(rng) if not tiny else rng.choice([0, 1, 1, 1, 2, 3, 7, 8, 9, 15, 16, 17])
                s.op("send %d %d %d %d %d %d %d" % (side, ch, flags, reason, name, bits, s.next_pseed()))
                budget["pk"] += 1
                if flags & FLAG["rel"]:
                    budget["rel"][(side, ch)] = budget["rel"].get((side, ch), 0) + 1
            if flags & FLAG["rel"]:
                st["nrel"] += 1
        elif r < 0.5 and with_invalid:
            kind = rng.random()
            if kind < 0.35:
                ch = rng.choice(pool)
                bits = rng.choice([7845, 7900, 8000, 8191, 8192, 8193, 9000, 11616, 20000, 65535, rng.randint(7700, 65535)])
                fl = FLAG["rel"] if rng.random() < 0.6 else 0
                if ch not in chans[side]:
                    fl |= FLAG["open"]
                s.op("send %d %d %d %d %d %d %d" % (side, ch, fl, 0, 3, bits, s.next_pseed()))
            elif kind < 0.6:
                ch = rng.choice([32767, 32768, 40000, 65535, rng.randint(32767, 65535)])
                s.op("send %d %d %d %d %d %d %d" % (side, ch, rng.choice([1, 9, 8, 0, 11]), 0, 3, payload_bits(rng), s.next_pseed()))
            elif kind < 0.85:
                unknown = [c for c in [4, 5, 6, 100, 200, 9000, 30000] if c not in chans[side]]
                ch = rng.choice(unknown)
                s.op("send %d %d %d %d %d %d %d" % (side, ch, rng.choice([0, 8, 2, 10, 72]), 0, 3, payload_bits(rng), s.next_pseed()))
            else:
                ch = rng.choice(pool)
                fl = FLAG["close"] | (FLAG["open"] if ch not in chans[side] else 0) | FLAG["rel"]
                s.op("send %d %d %d %d %d %d %d" % (side, ch, fl, 15, 3, 8, s.next_pseed()))  # close reason 15 cannot be serialised
        elif r < 0.53 and chans[side]:
            # fill the current packet exactly (or leave 1-2 bits): the boundary of the send buffer
            ch = rng.choice(sorted(chans[side]))
            if ch not in closed[side] and ch not in closed[other]:
                s.op("send %d %d %d 0 3 %d %d" % (side, ch, rng.choice([0, 8]), rng.choice([600, 1500, 3000, 5000]), s.next_pseed()))
                rel = rng.choice([0, 8])
                s.op("sendfill %d %d %d 3 %d %d" % (side, ch, rel, rng.choice([0, 0, 1, 2, 7]), s.next_pseed()))
                budget["pk"] += 2
                if rel:
                    budget["rel"][(side, ch)] = budget["rel"].get((side, ch), 0) + 1
                    chans[side][ch]["nrel"] += 1
        elif r < 0.7:
            s.op("flush %d" % side)
            budget["pk"] += 1
        elif r < 0.78:
            s.op("tick %d" % rng.choice([1000000, 50000000, 199000000, 200000000, 201000000, 250000000]))
        elif r < (0.9 if with_close else 0.82) and updates:
            s.op("update %d" % rng.choice([1, 2]))
        else:
            for _ in range(rng.randint(1, 3)):
                fate_deliver(s, rng, other, side, p_drop, p_dup, p_reo)
    s.note("drain")
    drain(s, 1, 2, rounds=10, update=updates or with_close)
    s.note("drained")
    s.op("nodes")
    s.op("closed 1")
    s.op("closed 2")
    s.op("chans 1")
    s.op("chans 2")
    if rng.random() < 0.3:
        s.op("uninit %d" % rng.choice([1, 2]))
    return s.ops


def deep_session(seed):
    """C01 / C04 / C13: one reliable bunch is lost (or is processed but its packet NAKed) and 100-250 later reliable bunches of the
    same channel reach the peer before its retransmission: the receive queue is deep and the 10-bit wire residue is far from the
    reference, on either side of the 1024 wrap"""
    rng = random.Random(seed)
    s = Session(rng)
    s.op("reset")
    s.op("conn 1")
    s.op("conn 2")
    a_out, b_out = seq_choice(rng), seq_choice(rng)
    s.op("seqinit 1 %d %d" % (b_out, a_out))
    s.op("seqinit 2 %d %d" % (a_out, b_out))
    s.note("peers 1 2")
    ch = rng.choice([0, 1, 3, 64, 8192])
    s.op("send 1 %d 9 0 1 8 %d" % (ch, s.next_pseed()))
    drain(s, 1, 2, rounds=1)
    # move the channel sequence toward (or across) the 10-bit wrap first
    pre = rng.choice([0, 0, 200, 500, 760, 900, 1010])
    for i in range(pre):
        s.op("send 1 %d 8 0 0 %d %d" % (ch, rng.choice([0, 1, 8]), s.next_pseed()))
        if i % 40 == 39:
            drain(s, 1, 2, rounds=1)
    if pre:
        drain(s, 1, 2, rounds=2)
    nvictims = rng.choice([1, 1, 2])
    for v in range(nvictims):
        s.op("send 1 %d 8 0 0 %d %d" % (ch, rng.choice([8, 100, 1000]), s.next_pseed()))
        orphan = rng.random() < 0.35
        if orphan:
            # an unreliable follow-up fragment without its initial one: refused, so the packet is processed but not acknowledged
            s.op("send 1 %d 64 0 0 16 %d" % (ch, s.next_pseed()))
        s.op("flush 1")
        s.op("dln 2 1" if orphan else "drop 1")
        n_after = rng.randint(100, 250) // nvictims
        i = 0
        while i < n_after:
            k = rng.randint(3, 14)
            for _ in range(min(k, n_after - i)):
                s.op("send 1 %d 8 0 0 %d %d" % (ch, rng.choice([0, 1, 8, 9, 33]), s.next_pseed()))
            i += k
            s.op("flush 1")
            s.op("dln 2 1")
    s.note("drain")
    drain(s, 1, 2, rounds=8)
    # keep the channel going until the reference has passed every parked sequence
    for i in range(rng.choice([0, 10, 140, 270])):
        s.op("send 1 %d 8 0 0 8 %d" % (ch, s.next_pseed()))
        if i % 30 == 29:
            drain(s, 1, 2, rounds=1)
    drain(s, 1, 2, rounds=6)
    s.note("drained")
    s.op("nodes")
    s.op("closed 1")
    s.op("closed 2")
    return s.ops


def queue_full_session(seed, groups=False):
    """C01 / C02 / C03 / C16: the packet of one reliable bunch is lost again and again while the sender (which keeps at most 255 bunches
    unacknowledged: `ifroom`) goes on, so the receiver's out-of-order queue fills up to its bound (255) and the next bunches of the
    channel are REFUSED (their packets must not be acknowledged, the bunches must come again later).  The refused bunches travel alone
    or together with a bunch of another kind behind them in the same datagram (partial fragments, plain bunches, other channels)."""
    rng = random.Random(seed)
    s = Session(rng)
    s.op("reset")
    s.op("conn 1")
    s.op("conn 2")
    a_out, b_out = seq_choice(rng), seq_choice(rng)
    s.op("seqinit 1 %d %d" % (b_out, a_out))
    s.op("seqinit 2 %d %d" % (a_out, b_out))
    s.note("peers 1 2")
    ch = rng.choice([1, 3, 64])
    other = ch + 1
    s.op("send 1 %d 9 0 1 8 %d" % (ch, s.next_pseed()))
    s.op("send 1 %d 9 0 1 8 %d" % (other, s.next_pseed()))
    drain(s, 1, 2, rounds=1)
    # the victim
    s.op("send 1 %d 8 0 0 %d %d" % (ch, rng.choice([8, 100]), s.next_pseed()))
    s.op("flush 1")
    s.op("drop 1")
    extra = rng.randint(1, 6)
    trailer = rng.choice(["upart", "rpart-other", "rpart-same", "upart", "plain", "ufinal-orphan", "none", "rpart-other", "upart", "rpart-same"])
    if groups:
        trailer = rng.choice(["rpart-other", "upart", "upart", "plain"])       # C03: the bunches that are refused are themselves the fragments of a group (below)
    for k in range(255 + extra):
        fl = 8
        if groups and k >= 252:
            # the bunches that meet the full queue are the fragments of one reliable group
            fl = 200 if k == 252 else (328 if k == 255 + extra - 1 else 72)
        s.op("ifroom 1 %d send 1 %d %d 0 0 %d %d" % (ch, ch, fl, rng.choice([0, 1, 8]) if fl == 8 else rng.choice([8, 16]), s.next_pseed()))
        if k >= 254 and trailer != "none":
            if trailer == "plain":
                s.op("send 1 %d 0 0 0 8 %d" % (other, s.next_pseed()))
            elif trailer == "upart":
                s.op("send 1 %d 192 0 0 16 %d" % (other, s.next_pseed()))          # unreliable partial initial
                s.op("send 1 %d 320 0 0 16 %d" % (other, s.next_pseed()))          # ... and final
            elif trailer == "rpart-other":
                s.op("send 1 %d 200 0 0 16 %d" % (other, s.next_pseed()))          # reliable partial initial
                s.op("send 1 %d 328 0 0 16 %d" % (other, s.next_pseed()))
            elif trailer == "ufinal-orphan":
                s.op("send 1 %d 320 0 0 16 %d" % (other, s.next_pseed()))          # final fragment without an initial one: refused itself
            elif trailer == "rpart-same":
                s.op("ifroom 1 %d send 1 %d 200 0 0 16 %d" % (ch, ch, s.next_pseed()))
                s.op("ifroom 1 %d send 1 %d 328 0 0 16 %d" % (ch, ch, s.next_pseed()))
        s.op("flush 1")
        s.op("dln 2 1")
        if k % 12 == 11 or k >= 254:
            s.op("tick 250000000")
            s.op("flush 2")
            s.op("dla 1 2")
            s.op("flush 1")          # what the NAKs made the sender re-send: lost again
            s.op("drop 1")
    s.op("chans 2")
    s.note("drain")
    drain(s, 1, 2, rounds=rng.choice([10, 14]))
    s.note("drained")
    s.op("nodes")
    s.op("chans 1")
    s.op("chans 2")
    return s.ops


def bad_group_session(seed):
    """C16 / C03 / C09: the application sends MALFORMED partial sequences - a second initial fragment while a reliable group is still
    open, a stray final, fragments of the other reliability in between, a plain reliable bunch in mid-group - so the receiver refuses
    fragments (merge failed / fatal).  Refused fragments must be released, nothing may leak at teardown, no callback may mix groups.
    Delivery of everything sent is NOT expected here (the library drops what it refuses): judged by the robustness monitors only."""
    rng = random.Random(seed)
    s = Session(rng)
    s.op("reset")
    s.op("conn 1")
    s.op("conn 2")
    a_out, b_out = seq_choice(rng), seq_choice(rng)
    s.op("seqinit 1 %d %d" % (b_out, a_out))
    s.op("seqinit 2 %d %d" % (a_out, b_out))
    s.note("peers 1 2")
    s.note("hostile")
    ch = rng.choice([1, 3, 64])
    s.op("send 1 %d 9 0 1 8 %d" % (ch, s.next_pseed()))
    drain(s, 1, 2, rounds=1)
    REL, PART, INIT, FIN = 8, 64, 128, 256
    for _ in range(rng.randint(2, 6)):
        rel = rng.choice([REL, REL, 0])
        other = REL - rel
        pat = rng.choice(["init-init", "init-init-fin", "init-plain-fin", "init-otherinit", "fin-only", "init-mid-otherfin", "init-init-otherfin"])
        seqs = {"init-init": [rel | PART | INIT, rel | PART | INIT],
                "init-init-fin": [rel | PART | INIT, rel | PART | INIT, rel | PART | FIN],
                "init-plain-fin": [rel | PART | INIT, rel, rel | PART | FIN],
                "init-otherinit": [rel | PART | INIT, other | PART | INIT, other | PART | FIN],
                "fin-only": [rel | PART | FIN],
                "init-mid-otherfin": [rel | PART | INIT, rel | PART, other | PART | FIN],
                "init-init-otherfin": [rel | PART | INIT, rel | PART | INIT, other | PART | FIN]}[pat]
        together = rng.random() < 0.5
        for fl in seqs:
            s.op("send 1 %d %d 0 0 %d %d" % (ch, fl, rng.choice([0, 8, 16]), s.next_pseed()))
            if not together:
                s.op("flush 1")
                if rng.random() < 0.15:
                    s.op("drop 1")          # lost: comes again (if reliable), possibly out of the waiting queue
                else:
                    s.op("dln 2 1")
        if together:
            s.op("flush 1")
            s.op("dln 2 1")
        if rng.random() < 0.5:
            drain(s, 1, 2, rounds=2)
    drain(s, 1, 2, rounds=6)
    s.op("nodes")
    s.op("uninit 1")
    s.op("uninit 2")
    s.op("reset")
    return s.ops


def wrap_partial_session(seed):
    """C03 / C13: unreliable (and reliable) partial groups whose fragments travel in consecutive packets on either side of the 14-bit
    packet-sequence wrap and of the 10-bit channel-sequence wrap; no loss, so every group must be delivered"""
    rng = random.Random(seed)
    s = Session(rng)
    s.op("reset")
    magic = rng.choice([(0, 0), (0, 0), (8, 0xA5)])
    if magic[0]:
        s.op("cfg magic %d %d" % magic)
    s.op("conn 1")
    s.op("conn 2")
    a_out = (16384 - rng.randint(1, 12)) % 16384
    b_out = seq_choice(rng)
    s.op("seqinit 1 %d %d" % (b_out, a_out))
    s.op("seqinit 2 %d %d" % (a_out, b_out))
    s.note("peers 1 2")
    ch = rng.choice([1, 2, 64])
    s.op("send 1 %d 9 0 1 8 %d" % (ch, s.next_pseed()))
    s.op("flush 1")
    s.op("dla 2 1")
    for g in range(rng.randint(3, 8)):
        k = rng.randint(2, 4)
        rel = 8 if rng.random() < 0.25 else 0
        for i in range(k):
            fl = rel | FLAG["partial"] | (FLAG["pinit"] if i == 0 else 0) | (FLAG["pfinal"] if i == k - 1 else 0)
            s.op("send 1 %d %d 0 0 %d %d" % (ch, fl, rng.choice([7264, 4000, 64, 8]), s.next_pseed()))
            if rng.random() < 0.8:
                s.op("flush 1")
        s.op("flush 1")
        s.op("dla 2 1")
        if rng.random() < 0.4:
            s.op("tick 250000000")
            s.op("flush 2")
            s.op("dla 1 2")
    s.note("drain")
    drain(s, 1, 2, rounds=4)
    s.note("drained")
    s.op("nodes")
    return s.ops


def close_burst_session(seed):
    """C10 / C16: several channels that are neighbours in the open-channel table are closed together, their closes are acknowledged
    together and one deferred-teardown sweep has to release all of them; a released index is then opened again"""
    rng = random.Random(seed)
    s = Session(rng)
    s.op("reset")
    s.op("conn 1")
    s.op("conn 2")
    a_out, b_out = seq_choice(rng), seq_choice(rng)
    s.op("seqinit 1 %d %d" % (b_out, a_out))
    s.op("seqinit 2 %d %d" % (a_out, b_out))
    s.note("peers 1 2")
    pool = sorted(rng.sample([0, 1, 2, 3, 4, 5, 6, 63, 64, 65, 8191, 8192, 32766], rng.randint(3, 7)))
    for ch in pool:
        s.op("send 1 %d 9 0 1 %d %d" % (ch, rng.choice([8, 40]), s.next_pseed()))
    drain(s, 1, 2, rounds=2, update=True)
    closing = sorted(rng.sample(pool, rng.randint(2, len(pool))))
    for ch in pool:
        for _ in range(rng.randint(0, 2)):
            s.op("send 1 %d 8 0 0 %d %d" % (ch, payload_bits(rng, small=True), s.next_pseed()))
    for ch in closing:
        s.op("send 1 %d 10 %d 0 %d %d" % (ch, rng.randint(0, 14), rng.choice([0, 8]), s.next_pseed()))
    s.op("flush 1")
    lost = rng.random() < 0.5
    if lost:
        s.op("drop 1")
        rest = [c for c in pool if c not in closing]
        if rest:
            s.op("send 1 %d 8 0 0 8 %d" % (rest[0], s.next_pseed()))
        s.op("tick 250000000")
        s.op("flush 1")
        s.op("dla 2 1")
        if rng.random() < 0.5:
            s.op("update 2")
        s.op("tick 250000000")
        s.op("flush 2")
        s.op("dla 1 2")          # nak -> retransmission buffered
        if rng.random() < 0.5:
            s.op("update 1")
        s.op("flush 1")
    s.op("dla 2 1")
    s.op("tick 250000000")
    s.op("flush 2")
    s.op("dla 1 2")              # every close acknowledged by the same datagram
    s.note("drain")
    drain(s, 1, 2, rounds=4, update=True)
    s.note("drained")
    s.op("nodes")
    s.op("chans 1")
    s.op("chans 2")
    # a released index is opened again and used; an unrelated channel is closed afterwards
    re = rng.choice(closing)
    s.op("send 1 %d 9 0 1 8 %d" % (re, s.next_pseed()))
    drain(s, 1, 2, rounds=2, update=True)
    others = [c for c in pool if c not in closing]
    if others:
        s.op("send 1 %d 10 0 0 8 %d" % (others[0], s.next_pseed()))
    drain(s, 1, 2, rounds=3, update=True)
    s.op("send 1 %d 8 0 0 24 %d" % (re, s.next_pseed()))
    drain(s, 1, 2, rounds=3, update=True)
    s.op("nodes")
    s.op("chans 1")
    s.op("chans 2")
    return s.ops


def renak_session(seed):
    """C04 / C01 / C10: reliable bunches that are PROCESSED BUT NOT ACKNOWLEDGED - they share their datagram with a fragment the receiver refuses (an
    unreliable fragment whose initial fragment was lost), so the datagram is NAKed although its other bunches were delivered - and come again as
    retransmissions: every one of them must be recognised as a duplicate, whether it is a plain bunch, opens its channel, closes it, or both.  The receiver
    does not run `utcp_update` between the delivery and the retransmission (that history is the known finding K18); updates follow afterwards."""
    rng = random.Random(seed)
    s = Session(rng)
    s.op("reset")
    s.op("conn 1")
    s.op("conn 2")
    a_out, b_out = seq_choice(rng), seq_choice(rng)
    s.op("seqinit 1 %d %d" % (b_out, a_out))
    s.op("seqinit 2 %d %d" % (a_out, b_out))
    s.note("peers 1 2")
    carrier = rng.choice([5, 64])
    s.op("send 1 %d 9 0 1 8 %d" % (carrier, s.next_pseed()))
    s.op("send 1 2 9 0 1 8 %d" % s.next_pseed())
    drain(s, 1, 2, rounds=1)
    fresh = [7, 9, 11, 130, 8200]
    for _ in range(rng.randint(1, 4)):
        # the initial fragment of an unreliable group is lost ...
        s.op("send 1 %d 192 0 0 %d %d" % (carrier, rng.choice([8, 16]), s.next_pseed()))
        s.op("flush 1")
        s.op("drop 1")
        # ... the next datagram carries reliable bunches and the now orphaned later fragment of that group
        riders = []
        for _ in range(rng.randint(1, 3)):
            kind = rng.choice(["plain", "open", "close", "openclose", "open", "openclose"])
            if kind == "plain":
                riders.append("send 1 2 8 0 0 %d %d" % (rng.choice([0, 8, 24]), s.next_pseed()))
            elif kind == "close" and fresh:
                ch = fresh.pop()
                s.op("send 1 %d 9 0 1 8 %d" % (ch, s.next_pseed()))
                drain(s, 1, 2, rounds=1)
                riders.append("send 1 %d 10 %d 0 %d %d" % (ch, rng.randint(0, 14), rng.choice([0, 8]), s.next_pseed()))
            elif fresh:
                ch = fresh.pop()
                riders.append("send 1 %d %d 0 1 %d %d" % (ch, 9 if kind == "open" else 11, rng.choice([8, 24]), s.next_pseed()))
        orphan = "send 1 %d %d 0 0 16 %d" % (carrier, rng.choice([320, 64]), s.next_pseed())
        pos = rng.randint(0, len(riders))
        for l in riders[:pos] + [orphan] + riders[pos:]:
            s.op(l)
        s.op("flush 1")
        s.op("dla 2 1")
        s.op("tick 250000000")
        s.op("flush 2")
        s.op("dla 1 2")          # the NAK: the sender queues the retransmissions
        s.op("flush 1")
        s.op("dla 2 1")          # ... which arrive before the receiver's next update
        s.op("chans 2")
        drain(s, 1, 2, rounds=2, update=True)
    s.note("drain")
    drain(s, 1, 2, rounds=4, update=True)
    s.note("drained")
    s.op("nodes")
    s.op("chans 1")
    s.op("chans 2")
    return s.ops


def stale_group_session(seed):
    """C04 / C03: an unreliable group that lost its tail stays half assembled; exactly 1024 / 1025 / 16384 packets later (and at other distances) the middle of
    another group - whose initial fragment was lost - arrives on the same channel: the two must never be taken for one group"""
    rng = random.Random(seed)
    s = Session(rng)
    s.op("reset")
    s.op("conn 1")
    s.op("conn 2")
    a_out, b_out = seq_choice(rng), seq_choice(rng)
    s.op("seqinit 1 %d %d" % (b_out, a_out))
    s.op("seqinit 2 %d %d" % (a_out, b_out))
    s.note("peers 1 2")
    ch = rng.choice([1, 3])
    s.op("send 1 %d 9 0 1 8 %d" % (ch, s.next_pseed()))
    drain(s, 1, 2, rounds=1)
    # group A: the initial fragment arrives, the rest is lost
    s.op("send 1 %d 192 0 0 16 %d" % (ch, s.next_pseed()))
    s.op("flush 1")
    s.op("dla 2 1")
    for fl in (64, 320):
        s.op("send 1 %d %d 0 0 16 %d" % (ch, fl, s.next_pseed()))
        s.op("flush 1")
        s.op("drop 1")
    gap = rng.choice([1024, 1024, 1025, 1023, 512, 2048])
    # ordinary traffic in between: one packet each (A's initial fragment travelled 3 packets ago; B's second fragment must ride `gap` packets after it)
    for k in range(gap - 4):
        s.op("send 1 %d 0 0 0 %d %d" % (ch, rng.choice([0, 8]), s.next_pseed()))
        s.op("flush 1")
        if k % 40 == 39:
            s.op("dla 2 1")
            s.op("tick 250000000")
            s.op("flush 2")
            s.op("dla 1 2")
    s.op("dla 2 1")
    # group B: the initial fragment is lost, the later ones arrive
    s.op("send 1 %d 192 0 0 24 %d" % (ch, s.next_pseed()))
    s.op("flush 1")
    s.op("drop 1")
    for fl in (64, 320):
        s.op("send 1 %d %d 0 0 24 %d" % (ch, fl, s.next_pseed()))
        s.op("flush 1")
        s.op("dla 2 1")
    s.op("send 1 %d 0 0 0 8 %d" % (ch, s.next_pseed()))
    s.note("drain")
    drain(s, 1, 2, rounds=3)
    s.note("drained")
    s.op("nodes")
    return s.ops


def ack256_session(seed):
    """C02: one header that acknowledges a whole acknowledgement history at once - up to exactly 256 packets awaiting a verdict (the proviso of C02 allows 256),
    all delivered in order on a link without faults, nothing coming back until the peer's single answer: every one of them must be reported ACK, in order"""
    rng = random.Random(seed)
    s = Session(rng)
    s.op("reset")
    s.op("conn 1")
    s.op("conn 2")
    a_out, b_out = seq_choice(rng), seq_choice(rng)
    s.op("seqinit 1 %d %d" % (b_out, a_out))
    s.op("seqinit 2 %d %d" % (a_out, b_out))
    s.note("peers 1 2")
    s.note("cleanlink")
    s.op("send 1 1 9 0 1 8 %d" % s.next_pseed())
    drain(s, 1, 2, rounds=1)
    for _ in range(rng.randint(1, 2)):
        n = rng.choice([64, 200, 254, 255, 256, 256, 256])
        for k in range(n):
            s.op("send 1 1 %d 0 0 %d %d" % (rng.choice([0, 8]), rng.choice([0, 8]), s.next_pseed()))
            s.op("flush 1")
            if k % 16 == 15:
                s.op("dla 2 1")
        s.op("dla 2 1")
        s.op("tick 250000000")
        s.op("flush 2")
        s.op("dla 1 2")
        drain(s, 1, 2, rounds=2)
    s.note("drained")
    s.op("nodes")
    return s.ops


def fill_ack_session(seed):
    """C16 / C02: packets filled to the last bit (or leaving 1-2 bits) by a reliable bunch, each followed by one clean round trip and nothing else: as soon
    as the peer's acknowledgement is in, the sender must hold no bunch buffer - not only after later traffic has come and gone"""
    rng = random.Random(seed)
    s = Session(rng)
    s.op("reset")
    if rng.random() < 0.4:
        s.op("cfg magic %d %d" % rng.choice([(3, 5), (8, 0xA5), (32, 0xDEADBEEF)]))
    s.op("conn 1")
    s.op("conn 2")
    a_out, b_out = seq_choice(rng), seq_choice(rng)
    s.op("seqinit 1 %d %d" % (b_out, a_out))
    s.op("seqinit 2 %d %d" % (a_out, b_out))
    s.note("peers 1 2")
    ch = rng.choice([1, 3, 200])
    s.op("send 1 %d 9 0 1 8 %d" % (ch, s.next_pseed()))
    drain(s, 1, 2, rounds=2)
    for _ in range(rng.randint(2, 6)):
        s.op("send 1 %d 8 0 3 %d %d" % (ch, rng.choice([100, 800, 1500, 3000, 5000]), s.next_pseed()))
        s.op("sendfill 1 %d 8 3 %d %d" % (ch, rng.choice([0, 0, 0, 1, 2]), s.next_pseed()))
        s.op("flush 1")
        s.op("dla 2 1")
        s.op("tick 250000000")
        s.op("flush 2")
        s.op("dla 1 2")
        s.note("drained")
        s.op("nodes")
    drain(s, 1, 2, rounds=3)
    s.op("nodes")
    return s.ops


def burst_session(seed):
    """C10 / C01 / C16: a whole channel life in one burst - open, data, close: 254 ... 256 reliable bunches of one channel unacknowledged at once (the
    proviso of C01 allows 256) - with the sender's update running while everything is still in flight, one of the datagrams lost, then a fault-free drain:
    everything must arrive once and in order, the close last, and both sides must release the channel only then"""
    rng = random.Random(seed)
    s = Session(rng)
    s.op("reset")
    s.op("conn 1")
    s.op("conn 2")
    a_out, b_out = seq_choice(rng), seq_choice(rng)
    s.op("seqinit 1 %d %d" % (b_out, a_out))
    s.op("seqinit 2 %d %d" % (a_out, b_out))
    s.note("peers 1 2")
    ch = rng.choice([1, 3, 64, 8192])
    n = rng.choice([200, 254, 255, 256, 256, 256])
    s.op("send 1 %d 9 0 1 %d %d" % (ch, rng.choice([0, 8]), s.next_pseed()))
    for _ in range(n - 2):
        s.op("send 1 %d 8 0 0 %d %d" % (ch, rng.choice([0, 0, 8, 24]), s.next_pseed()))
    s.op("send 1 %d 10 %d 0 %d %d" % (ch, rng.randint(0, 14), rng.choice([0, 8]), s.next_pseed()))
    if rng.random() < 0.8:
        s.op("update 1")
    s.op("flush 1")
    # the burst is two or three datagrams: the first or the second one is lost
    if rng.random() < 0.5:
        s.op("dln 2 1")
    s.op("drop 1")
    s.op("dla 2 1")
    if rng.random() < 0.5:
        s.op("update 2")
    s.op("update 1")
    s.note("drain")
    drain(s, 1, 2, rounds=8, update=True)
    s.note("drained")
    s.op("nodes")
    s.op("chans 1")
    s.op("chans 2")
    return s.ops


def many_channels_session(seed):
    """C16 / C10 / C14: many channels open at the same time - the open-channel index has to grow (32, 64, 128 entries) - opened from both sides, some
    closed and released again, then everything torn down: every block must come back, the index stays sorted, traffic keeps flowing"""
    rng = random.Random(seed)
    s = Session(rng)
    s.op("reset")
    s.op("conn 1")
    s.op("conn 2")
    a_out, b_out = seq_choice(rng), seq_choice(rng)
    s.op("seqinit 1 %d %d" % (b_out, a_out))
    s.op("seqinit 2 %d %d" % (a_out, b_out))
    s.note("peers 1 2")
    n = rng.choice([31, 32, 33, 34, 40, 63, 64, 65, 66, 100, 128, 129, 130])
    universe = list(range(0, 200)) + [8191, 8192, 16383, 16384, 32765, 32766]
    pool = rng.sample(universe, n)
    side_of = {}
    for k, ch in enumerate(pool):
        side = 1 if rng.random() < 0.8 else 2
        side_of[ch] = side
        s.op("send %d %d 9 0 1 %d %d" % (side, ch, rng.choice([0, 8, 40]), s.next_pseed()))
        if k % 7 == 6 or k in (30, 31, 32, 33, 62, 63, 64, 65, 126, 127, 128, 129):
            drain(s, 1, 2, rounds=1, update=rng.random() < 0.5)
    drain(s, 1, 2, rounds=2, update=True)
    s.op("chans 1")
    s.op("chans 2")
    closing = rng.sample([c for c in pool if c != 0], rng.randint(0, min(12, n - 1)))
    for ch in closing:
        s.op("send %d %d 10 %d 0 %d %d" % (side_of[ch], ch, rng.randint(0, 14), rng.choice([0, 8]), s.next_pseed()))
    for ch in rng.sample(pool, min(10, n)):
        if ch not in closing:
            s.op("send %d %d 8 0 0 %d %d" % (side_of[ch], ch, payload_bits(rng, small=True), s.next_pseed()))
    s.note("drain")
    drain(s, 1, 2, rounds=5, update=True)
    s.note("drained")
    s.op("nodes")
    s.op("chans 1")
    s.op("chans 2")
    # more channels after some were released: the index grows again or re-uses the room
    for ch in rng.sample([c for c in universe if c not in pool], rng.randint(0, 40)):
        s.op("send 1 %d 9 0 1 8 %d" % (ch, s.next_pseed()))
    drain(s, 1, 2, rounds=3, update=True)
    s.op("nodes")
    s.op("chans 1")
    s.op("chans 2")
    if rng.random() < 0.5:
        s.op("uninit %d" % rng.choice([1, 2]))
    return s.ops


def window_session(seed):
    """many packets in flight with the peer's acks delayed or withheld: ack-history length 1..8 words, more than 256 packets
    awaiting a verdict, data pending in the send buffer while acknowledgements arrive"""
    rng = random.Random(seed)
    s = Session(rng)
    s.op("reset")
    if rng.random() < 0.4:
        s.op("cfg magic %d %d" % rng.choice([(3, 5), (8, 0xA5), (32, 0xDEADBEEF)]))
    s.op("conn 1")
    s.op("conn 2")
    a_out, b_out = seq_choice(rng), seq_choice(rng)
    s.op("seqinit 1 %d %d" % (b_out, a_out))
    s.op("seqinit 2 %d %d" % (a_out, b_out))
    s.note("peers 1 2")
    s.op("send 1 1 9 0 1 8 %d" % s.next_pseed())
    s.op("send 2 1 9 0 1 8 %d" % s.next_pseed())
    burst = rng.choice([20, 40, 70, 100, 130, 200, 250, 254, 258, 300, 330])
    respect = rng.random() < 0.7 and burst <= 254
    if burst > 240:
        s.note("window-exceeded")
    p_back = rng.choice([0.0, 0.05, 0.15, 0.4]) if burst <= 254 else 0.0      # beyond the window: more than 256 verdicts arrive at once
    silent = burst > 254 and rng.random() < 0.6      # the peer emits nothing during the burst: its first header afterwards covers it all
    for i in range(burst):
        if respect:
            s.op("wb 1 1")
        if rng.random() < 0.5:
            s.op("send 1 1 %d 0 1 %d %d" % (8 if rng.random() < 0.7 else 0, payload_bits(rng, small=True), s.next_pseed()))
        s.op("tick 200000000")
        s.op("flush 1")
        if rng.random() < 0.8:
            s.op("dln 2 1")
        else:
            s.op("drop 1")
        r = rng.random() if not silent else 1.0
        if r < 0.15:
            s.op("flush 2")  # emitted, but possibly withheld from endpoint 1 until later
        elif r < 0.3:
            # data waits in endpoint 2's send buffer (header placeholder written now) while more packets arrive
            s.op("send 2 1 %d 0 1 %d %d" % (rng.choice([8, 0]), payload_bits(rng, small=True), s.next_pseed()))
        if rng.random() < p_back:
            s.op(rng.choice(["dln 1 2", "dln 1 2", "drop 2"]))
    if rng.random() < 0.5:
        s.op("drop 2")
    s.note("drain")
    drain(s, 1, 2, rounds=12)
    s.note("drained")
    s.op("nodes")
    s.op("closed 1")
    s.op("closed 2")
    return s.ops


def clock_session(seed):
    """C15: keep-alive and timeout thresholds, on server-style and (via handshake) client endpoints"""
    rng = random.Random(seed)
    s = Session(rng)
    s.op("reset")
    # process clocks from a fresh start to months of uptime: the millisecond clock is 64 bits wide, 2^31 ms are 24.9 days and 2^32 ms 49.7 days
    start = rng.choice([0, 1, 1000, 119999, 120000, 120001, 3600000, 36000000, 2147482647, 2147483647, 2147483648, 2147603648, 2592000000, 4294966296,
                        4294967296, 4295087296, 8640000000]) * 1000000
    if start:
        s.op("tick %d" % start)
    client = rng.random() < 0.5
    if client:
        s.op("seed %d %d" % (rng.randint(1, 1 << 30), rng.randint(1, 1 << 30)))
        s.op("listener 10")
        s.op("conn 1")
        s.op("connect 1")
        s.op("onaccept 10 9.9.9.9:9 2")
        s.note("clock")
        # the handshake may be slow: update calls and clock advances while the client is still handshaking
        for _ in range(rng.choice([0, 0, 1, 2, 4])):
            s.op("tick %d" % (rng.choice([100, 999, 1000, 1001, 30000, 119000, 121000]) * 1000000))
            s.op("update 1")
            if rng.random() < 0.4:
                s.op("drop 1")
        for _ in range(3):
            for _ in range(3):
                s.op("route 10 9.9.9.9:9 1")
            s.op("dla 1 10")
            s.op("dla 1 2")
        s.note("peers 1 2")
    else:
        s.op("conn 1")
        s.op("conn 2")
        a_out, b_out = seq_choice(rng), seq_choice(rng)
        s.op("seqinit 1 %d %d" % (b_out, a_out))
        s.op("seqinit 2 %d %d" % (a_out, b_out))
        s.note("peers 1 2")
    s.note("clock")
    if rng.random() < 0.6:
        s.op("send 1 1 9 0 1 8 %d" % s.next_pseed())
        s.op("send 2 1 9 0 1 8 %d" % s.next_pseed())
    for _ in range(rng.randint(10, 40)):
        r = rng.random()
        if r < 0.2:
            side = rng.choice([1, 2])
            s.op("tick %d" % (rng.choice([0, 1, 50, 199, 200, 201, 300]) * 1000000))
            s.op("send %d 1 %d 0 1 %d %d" % (side, rng.choice([0, 8]), payload_bits(rng, small=True), s.next_pseed()))
            s.op("flush %d" % side)
            s.op("tick %d" % (rng.choice([1, 50, 100, 199]) * 1000000))
            s.op("flush %d" % side)
            if rng.random() < 0.7:
                s.op("dla %d %d" % (3 - side, side))
        elif r < 0.5:
            s.op("tick %d" % (rng.choice([1, 50, 100, 199, 200, 201, 250, 400, 1000]) * 1000000))
            side = rng.choice([1, 2])
            s.op("flush %d" % side)
            if rng.random() < 0.7:
                s.op("dla %d %d" % (3 - side, side))
        elif r < 0.7:
            s.op("tick %d" % (rng.choice([119000, 119999, 120000, 120001, 60000, 30000]) * 1000000))
            s.op("update %d" % rng.choice([1, 2]))
        elif r < 0.85:
            s.op("update %d" % rng.choice([1, 2]))
        else:
            side = rng.choice([1, 2])
            s.op("flush %d" % side)
            s.op("flush %d" % side)
    return s.ops


def handshake_session(seed, fates=None, n_fate=6, hostile=False, tick_ms=None, addr=None, rotations=False):
    rng = random.Random(seed)
    s = Session(rng)
    s.op("reset")
    magic = rng.choice([(0, 0), (0, 0), (1, 1), (5, 0x15), (8, 0xA5), (17, 0x1ABCD), (32, 0xDEADBEEF)])
    if magic[0]:
        s.op("cfg magic %d %d" % magic)
    if rng.random() < 0.3:
        s.op("cfg travel %d" % rng.randint(0, 7))
    if rng.random() < 0.3:
        s.op("cfg checksum %d" % rng.randint(0, MASK32))
    if rng.random() < 0.4:
        s.op("tick %d" % (rng.randint(0, 7200) * 1000000000))
    s.op("seed %d %d" % (rng.randint(1, 1 << 30), rng.randint(1, 1 << 30)))
    s.op("listener 10")
    if addr is None:
        addr = rng.choice(["1.2.3.4:5", "a", "[fe80::1]:65535", "x" * rng.randint(1, 63), "y" * 63, "z" * 61])
    s.op("conn 1")
    s.op("connect 1")
    s.op("onaccept 10 %s 2" % addr)
    s.note("peers 1 2")
    s.note("handshake %s" % addr)
    if tick_ms is None:
        tick_ms = rng.choice([100, 250, 500, 999, 1000, 1001, 1500])
    if fates is None:
        fates = [rng.choice("ddddxxur") for _ in range(n_fate)]  # d deliver, x drop, u duplicate, r hold (reorder)
    fi = 0
    held = []  # (direction, index relative handled by explicit dlv) -- we hold by skipping cursor and delivering later with dlv -k
    for rnd in range(14):
        # client -> server side
        for direction in (0, 1):
            # deliver everything pending in this direction, applying fates to the first n_fate datagrams overall
            for _ in range(3):
                f = fates[fi] if fi < len(fates) else "d"
                fi += 1
                if direction == 0:
                    if f == "x":
                        s.op("drop 1")
                    elif f == "u":
                        s.op("route 10 %s 1" % addr)
                        s.op("ldlv 10 %s 1 -1" % addr) if rng.random() < 0.5 else s.op("route 10 %s 1" % addr)
                    elif f == "r":
                        s.op("drop 1")
                        held.append(["c", rng.randint(1, 3), 0])
                    else:
                        s.op("route 10 %s 1" % addr)
                else:
                    for src in (10, 2):
                        if f == "x":
                            s.op("drop %d" % src)
                        elif f == "u":
                            s.op("dln 1 %d" % src)
                            s.op("dlv 1 %d -1" % src)
                        elif f == "r":
                            s.op("drop %d" % src)
                            held.append(["s%d" % src, rng.randint(1, 3), 0])
                        else:
                            s.op("dln 1 %d" % src)
        # held-back datagrams arrive late (the cursor has moved on: they are addressed relative to it, best effort)
        for h in held:
            h[1] -= 1
            h[2] += 1
            if h[1] == 0:
                back = rng.randint(1, 4)
                if h[0] == "c":
                    s.op("routeat 10 %s 1 -%d" % (addr, back))
                else:
                    s.op("dlv 1 %s -%d" % (h[0][1:], back))
        held[:] = [h for h in held if h[1] > 0]
        if rotations and rng.random() < 0.2:
            s.op("rot 10")
        if hostile and rng.random() < 0.5:
            s.note("hostile")
            hostile_ops(s, rng, [1, 2], [1, 2, 10], listener=(10, addr), magic_bits=magic[0])
        s.op("tick %d" % (tick_ms * 1000000))
        s.op("update 1")
        s.op("update 2")
        if rnd >= 4:
            s.op("flush 1")
            s.op("flush 2")
    s.note("settled")
    # data after the handshake
    s.op("ifconn 1 send 1 0 9 0 1 30 %d" % s.next_pseed())   # the application sends only on an endpoint that reported connected
    s.op("ifconn 2 send 2 0 9 0 1 40 %d" % s.next_pseed())
    for _ in range(4):
        s.op("tick 250000000")
        s.op("flush 1")
        s.op("route 10 %s 1" % addr)
        s.op("route 10 %s 1" % addr)
        s.op("flush 2")
        s.op("dla 1 2")
        s.op("dla 1 10")
    s.note("drained")
    return s.ops


def hostile_ops(s, rng, conns, srcs, listener=None, n=None, magic_bits=0):
    for _ in range(n or rng.randint(1, 6)):
        r = rng.random()
        dst = rng.choice(conns)
        src = rng.choice(srcs)
        if listener and r < 0.08:
            # a restart-handshake request in the current wire format, built from a datagram of the listener or of the server-side connection
            s.op("craft %d %d %d %d 4 -1 %d -1 -1 -1 %d" % (rng.choice(conns), listener[0], -rng.randint(1, 6), rng.choice([1, 1, 1, 0]), rng.randint(0, 255), rng.choice([8, 9, 12, 16, 17, 0])))
        elif r < 0.12:
            # every field of the packed packet header of a data datagram: history word count (4 bits), acked sequence, sequence
            # (layout: magic, 2+3 id bits, handshake bit, then the 32-bit packed header LSB first)
            off = magic_bits + 6 + rng.choice([0, 0, 0, 4, 8, 12, 14, 18, 22, 26, 28])
            s.op("%s %d %d %d nib %d %d" % (rng.choice(["mut", "mut", "wmut"]), dst, src, -rng.randint(1, 6), off, rng.choice([8, 9, 15, 15, 7, 0, rng.randint(0, 15)])))
        elif r < 0.45:
            kind = rng.choice(["flip", "flip", "flip", "setb", "trunc", "app"])
            a = rng.randint(0, 9000) if kind != "flip" or rng.random() < 0.5 else rng.randint(0, 400)
            b = rng.choice([0, 1, 255, 128, rng.randint(0, 255)])
            j = -rng.randint(1, 6)
            if listener and rng.random() < 0.4:
                s.op("lmut %d %s %d %d %s %d %d" % (listener[0], rng.choice([listener[1], "6.6.6.6:6"]), src, j, kind, a, b))
            else:
                s.op("mut %d %d %d %s %d %d" % (dst, src, j, kind, a, b))
        elif r < 0.75:
            n_bytes = rng.choice([0, 1, 2, 3, 5, 8, 16, 29, 40, 45, 50, 52, 60, 64, 100, 300, 1024, 1025, 1100])
            data = bytes(rng.getrandbits(8) for _ in range(n_bytes))
            if n_bytes and rng.random() < 0.6:
                data = data[:-1] + bytes([rng.choice([1, 2, 4, 8, 16, 32, 64, 128, rng.randint(1, 255)])])
            hx = data.hex() or "-"
            if listener and rng.random() < 0.4:
                s.op("lraw %d %s %s" % (listener[0], rng.choice([listener[1], "6.6.6.6:6", "q" * 63]), hx))
            else:
                s.op("raw %d %s" % (dst, hx))
        else:
            j = -rng.randint(1, 8)
            if listener and rng.random() < 0.4:
                s.op("ldlv %d %s %d %d" % (listener[0], rng.choice([listener[1], "6.6.6.6:6"]), src, j))
            else:
                s.op("dlv %d %d %d" % (dst, src, j))  # replay / misrouted datagram


def hostile_session(seed):
    rng = random.Random(seed)
    base = data_session(rng.randint(0, 1 << 30), n_steps=60, with_close=rng.random() < 0.3, updates=True)
    s = Session(rng)
    out = []
    mb = 0
    for line in base:
        if line.startswith("cfg magic"):
            mb = int(line.split()[2])
    for line in base:
        out.append(line)
        if line.startswith(("dln", "flush", "send")) and rng.random() < 0.15:
            s.ops = []
            hostile_ops(s, rng, [1, 2], [1, 2], n=rng.randint(1, 3), magic_bits=mb)
            out += s.ops
    out.append("closed 1")
    out.append("closed 2")
    return ["#! hostile"] + [l for l in out if not l.startswith("#! drain")]


def listener_session(seed):
    """C06/C07/C08: many addresses, rotations, delays, corruptions; expectations are tagged by construction"""
    rng = random.Random(seed)
    rng2 = random.Random(seed * 2654435761 % (1 << 32) + 17)   # for ops added later: leaves the established streams as they were
    s = Session(rng)
    s.op("reset")
    magic = rng.choice([(0, 0), (0, 0), (3, 5), (8, 0xA5), (32, 0xDEADBEEF)])
    if magic[0]:
        s.op("cfg magic %d %d" % magic)
    if rng.random() < 0.4:
        s.op("tick %d" % (rng.randint(0, 7200) * 1000000000 + rng.randint(0, 999999999)))
    sa, sb = rng.randint(1, 1 << 30), rng.randint(1, 1 << 30)
    s.op("seed %d %d" % (sa, sb))
    s.op("listener 10")
    # a twin that starts with the same secrets and sees the same rotations, but none of the traffic
    s.op("seed %d %d" % (sa, sb))
    s.op("listener 11")
    nclients = rng.randint(1, 4)
    cid = 100
    for k in range(nclients):
        c = k + 1
        addr = rng.choice(["10.0.0.%d:%d" % (k, 1000 + k), "a%d" % k, ("b%d" % k) * 20, ("c%d" % k).ljust(63, "c"), ("d%d" % k).ljust(61, "d"),
                           ("e%d" % k).ljust(rng.randint(2, 63), "e"), ("f%d" % k).ljust(rng.randint(2, 63), "f"),
                           ("[fe80:0000:0000:0000:0202:b3ff:fe1e:832%d%%eth0]:6553%d" % (k, k))[:rng.choice([48, 47, 49, 48])]])
        s.op("conn %d" % c)
        s.op("connect %d" % c)
        if rng.random() < 0.6:
            s.op("tick %d" % (rng.choice([1, 500, 3000, 14000, 20000]) * 1000000))
        # initial packet -> challenge
        s.op("skip 10")
        s.note("expect noaccept")
        s.op("ldlv 10 %s %d 0" % (addr, c))
        s.op("drop %d" % c)
        s.op("dln %d 10" % c)  # client answers with a response (datagram index 1 of the client)
        # what happens between challenge and response
        rot = rng.choice([0, 0, 1, 1, 2, 3])
        delay_ms = rng.choice([0, 1, 1000, 14000, 20000, 39000, 39999, 40000, 40001, 41000, 100000])
        parts = sorted(rng.sample(range(0, delay_ms + 1), min(rot, delay_ms + 1))) if delay_ms > 0 else [0] * rot
        t = 0
        special = rng.random() < 0.3
        for p in parts[:rot] + [0] * (rot - len(parts[:rot])):
            if p > t:
                s.op("tick %d" % ((p - t) * 1000000))
                t = p
            if special:
                hx = bytes(rng.getrandbits(8) for _ in range(64)).hex()
                s.op("rot 10 %s" % hx)
                s.op("rot 11 %s" % hx)
            else:
                ra, rb = rng.randint(1, 1 << 30), rng.randint(1, 1 << 30)
                s.op("seed %d %d" % (ra, rb))
                s.op("rot 10")
                s.op("seed %d %d" % (ra, rb))
                s.op("rot 11")
        if delay_ms > t:
            s.op("tick %d" % ((delay_ms - t) * 1000000))
        # corrupted / foreign attempts first: never accepted
        for _ in range(rng.randint(0, 4)):
            s.note("expect noaccept")
            kind = rng.random()
            if kind < 0.5:
                # any bit of the payload proper (beyond the magic/session/client/handshake/restart header bits, before padding)
                # any bit of the echoed secret id, timestamp or cookie (layout: magic, 2+3+1 header bits, restart bit, 4 version/type/count bytes, 32-bit net version)
                s.op("lmut 10 %s %d 0 flip %d 0" % (addr, c, rng.randint(magic[0] + 71, magic[0] + 71 + 1 + 64 + 160 - 1)))
            elif kind < 0.65:
                s.op("ldlv 10 %s %d 0" % (addr + "x" if len(addr) < 63 else addr[:-1], c))
            elif kind < 0.8:
                # a different address string of the same length (one character changed)
                i = rng.randrange(len(addr))
                s.op("ldlv 10 %s %d 0" % (addr[:i] + ("q" if addr[i] != "q" else "r") + addr[i + 1:], c))
            else:
                s.op("lmut 10 %s %d 0 trunc %d 0" % (addr, c, rng.randint(0, 40)))  # always cuts into the cookie or before it
        cid += 1
        s.op("onaccept 10 %s %d" % (addr, cid))
        ok = delay_ms < 40000 and rot <= 1
        if delay_ms == 40000:
            # exactly on the lifetime boundary the binary64 subtraction of two ~1e5 s clock values decides (±1 ulp): either verdict is fine
            s.note("expect any")
        elif rot >= 2 and delay_ms < 40000:
            # rejected unless both rotations happened at the very instant of the challenge (documented residual case) -- avoid tagging it
            if len(parts) >= 2 and parts[1] == 0:
                s.note("expect any")
            else:
                s.note("expect noaccept")
        else:
            s.note("expect accept" if ok else "expect noaccept")
        s.op("ldlv 10 %s %d 0" % (addr, c))
        if rng.random() < 0.5:
            s.note("expect any")
            s.op("ldlv 10 %s %d 0" % (addr, c))  # replayed response: accepted again by a stateless listener (allowed by the property: same issued cookie)
        # structure-aware variants of the valid response (every header field): the echoed (secret id, timestamp, cookie) is
        # what authenticates; restart bit / type / version / count / padding are free, a touched cookie or secret id is not
        for _ in range(rng.randint(0, 3)):
            kind = rng.random()
            if kind < 0.35:
                s.note("expect noaccept")
                s.op("lcraft 10 %s %d 0 -1 -1 -1 -1 -1 %d -1 -1" % (addr, c, rng.randint(0, 19)))
            elif kind < 0.5:
                s.note("expect any")   # the secret id is set, not flipped: it may coincide with the echoed one
                s.op("lcraft 10 %s %d 0 -1 -1 -1 -1 %d -1 -1 -1" % (addr, c, rng.choice([0, 1])))
            elif kind < 0.8:
                # a restart response echoing the same cookie: reported as a re-connect when the echo is valid
                s.note("expect %s" % ("any" if delay_ms == 40000 else "restart-accept" if ok else "noaccept"))
                s.op("lcraft 10 %s %d 0 1 5 -1 %d -1 -1 %d %d" % (addr, c, rng.randint(0, 255), rng.randint(0, 200), rng.choice([9, 12, 16])))
                # ... after which a bare initial packet from that address must again be answered by a challenge only
                s.note("expect noaccept")
                s.op("ldlv 10 %s %d -1" % (addr, c))
            else:
                s.note("expect any")
                s.op("lcraft 10 %s %d 0 -1 %d %d %d -1 -1 -1 %d" % (addr, c, rng.choice([0, 1, 2, 3, 4, 5, 6, 255]), rng.choice([0, 1, 2, 3, 4, 200]), rng.randint(0, 255), rng.randint(0, 31)))
        s.note("hostile")
        hostile_ops(s, rng, [c], [c, 10], listener=(10, addr), n=rng.randint(0, 3), magic_bits=magic[0])
        if rng2.random() < 0.4:
            # a server travel: the application changes GlobalNetTravelCount; from now on every reply carries the new session id,
            # whatever traffic the listener has answered before
            s.op("cfg travel %d" % rng2.randint(0, 9))
        if rng2.random() < 0.5:
            # a datagram in the CURRENT field layout that advertises another handshake version (older, newer, absurd): whatever the listener
            # makes of it, it must not change how later datagrams are read (the version variables are not per-listener state: a twin cannot see this,
            # the comparison with the model does)
            # ... asked before and after, with the same clock and random state, the same bare initial packet must get the same answer
            qa, qb = rng2.randint(1, 1 << 30), rng2.randint(1, 1 << 30)
            who2 = rng2.choice([addr, "7.7.7.7:7"])
            s.op("seed %d %d" % (qa, qb))
            s.note("twin-a")
            s.op("ldlv 10 %s %d -1" % (who2, c))
            s.note("expect any")
            s.op("lcraft 10 %s %d 0 -1 -1 %d -1 -1 -1 -1 -1" % (rng2.choice([addr, "6.6.6.6:6"]), c, 300 + rng2.choice([0, 1, 2, 2, 3, 4, 255])))
            s.op("seed %d %d" % (qa, qb))
            s.note("twin-b")
            s.op("ldlv 10 %s %d -1" % (who2, c))
        # the twin is asked the same question with the same clock and random state: the answers must be identical
        for _ in range(rng.randint(1, 3)):
            pa, pb = rng.randint(1, 1 << 30), rng.randint(1, 1 << 30)
            which = rng.choice([-1, 0, -2])
            who = rng.choice([addr, addr, "7.7.7.7:7"])
            s.op("seed %d %d" % (pa, pb))
            s.note("twin-a")
            s.op("ldlv 10 %s %d %d" % (who, c, which))
            s.op("seed %d %d" % (pa, pb))
            s.note("twin-b")
            s.op("ldlv 11 %s %d %d" % (who, c, which))
    return s.ops


def wrapper_pair(seed):
    """C20: the same batch delivered through the wrapper in sending order and in a permuted order"""
    rng = random.Random(seed)
    pre = ["reset", "conn 1", "conn 2"]
    a_out, b_out = seq_choice(rng), seq_choice(rng)
    if rng.random() < 0.4:
        # a connection that has been up for a while: the full packet ids are far beyond the 14-bit wire sequence (and beyond 16 bits)
        a_out += 16384 * rng.choice([3, 4, 4, 5, 8, 61, 1024])
        b_out += 16384 * rng.choice([0, 3, 4, 4, 8, 1024])
    pre += ["seqinit 1 %d %d" % (b_out, a_out), "seqinit 2 %d %d" % (a_out, b_out), "#! peers 1 2"]
    s = Session(rng)
    pre.append("send 1 1 9 0 1 8 %d" % s.next_pseed())
    pre += ["flush 1", "wdla 2 1", "tick 250000000", "flush 2", "wdla 1 2"]
    nb = rng.randint(2, 7)
    if rng.random() < 0.2:
        nb = rng.choice([31, 32, 33, 34, 40, 70])       # long reorder windows: one datagram overtaken by dozens of later ones
    for i in range(nb):
        for _ in range(rng.randint(0, 3) if nb < 20 else rng.randint(0, 1)):
            fl = rng.choice([8, 8, 0])
            pre.append("send 1 1 %d 0 1 %d %d" % (fl, payload_bits(rng, small=True), s.next_pseed()))
        if rng.random() < 0.3:
            k = rng.randint(2, 4)
            rel = rng.choice([8, 0])
            for q in range(k):
                pre.append("send 1 1 %d 0 1 %d %d" % (rel | 64 | (128 if q == 0 else 0) | (256 if q == k - 1 else 0), 8 * rng.randint(0, 10), s.next_pseed()))
        pre.append("tick 200000000")
        pre.append("flush 1")
    idx = list(range(nb))
    # gaps and duplicates
    chosen = [i for i in idx if rng.random() < 0.85] or [0]
    chosen += [rng.choice(chosen) for _ in range(rng.randint(0, 2))]
    sorted_order = sorted(chosen)
    perm = chosen[:]
    rng.shuffle(perm)
    if nb >= 20 and rng.random() < 0.6:
        # the first datagram of the batch arrives last, everything else in order
        perm = sorted(set(chosen))[1:] + sorted(set(chosen))[:1]
        sorted_order = sorted(set(chosen))
    post = ["wflush 2"]
    tail = ["tick 250000000", "flush 2", "dla 1 2", "tick 250000000", "flush 1", "wdla 2 1", "tick 250000000", "flush 2", "dla 1 2", "nodes"]

    def deliver(order):
        return ["wdlv 2 1 %d" % i for i in order]

    return pre + deliver(sorted_order) + post + tail, pre + deliver(perm) + post + tail


def large_session(seed):
    """C19: large_bunch split on the sender, C++ reassembly of the delivered group on the receiver"""
    rng = random.Random(seed)
    s = Session(rng)
    s.op("reset")
    s.op("conn 1")
    s.op("conn 2")
    a_out, b_out = seq_choice(rng), seq_choice(rng)
    s.op("seqinit 1 %d %d" % (b_out, a_out))
    s.op("seqinit 2 %d %d" % (a_out, b_out))
    s.note("peers 1 2")
    s.op("send 1 2 9 0 5 8 %d" % s.next_pseed())
    for _ in range(rng.randint(1, 4)):
        k = rng.randint(0, 30)
        bits = rng.choice([0, 1, 7263, 7264, 7265, 7264 * k + rng.choice([-8, -7, -1, 0, 1, 7, 8, 7257, 7260, 7263]), rng.randint(0, 7264 * 30)])
        if rng.random() < 0.2:
            # up to the largest payload the layer accepts (its buffer holds 64 datagrams' worth: 92 927 bytes), around 64 KiB and around the end
            bits = rng.choice([524280, 524287, 524288, 524289, 524296, 531552, 743408, 743415, 743416, 7264 * rng.randint(31, 102) + rng.choice([-1, 0, 1, 7263]),
                               rng.randint(7264 * 30, 743416)])
            bits = min(bits, 743416)
        bits = max(0, min(bits, 256 * 7264 - 1))
        rel = rng.choice([8, 8, 0])
        s.note("large %d" % bits)
        s.op("lsend 1 2 %d 5 %d %d" % (rel, bits, s.next_pseed()))
        for _ in range(3):
            s.op("flush 1")
            s.op("dla 2 1")
            s.op("tick 250000000")
            s.op("flush 2")
            s.op("dla 1 2")
    s.note("drained")
    return s.ops


def hs_replay_session(seed):
    """C04: after the handshake has completed and data has flowed, every earlier handshake datagram is presented again"""
    rng = random.Random(seed)
    base = handshake_session(rng.randint(0, 1 << 30), fates=["d"] * 6, hostile=False, rotations=False)
    addr = [l for l in base if l.startswith("#! handshake")][0].split()[2]
    out = [l for l in base if not l.startswith("#! drained")]
    s = Session(rng)
    for _ in range(rng.randint(2, 8)):
        who = rng.random()
        s.note("replay")
        if who < 0.5:
            s.op("dlv 1 10 -%d" % rng.randint(1, 3))      # listener's challenge / ack to the connected client
        elif who < 0.8:
            s.op("dlv 1 2 -%d" % rng.randint(1, 6))
        else:
            s.op("rpl 2 1 %d" % rng.randint(0, 6))          # old client datagrams to the server-side connection
        if rng.random() < 0.5:
            s.op("ifconn 1 send 1 0 8 0 1 %d %d" % (payload_bits(rng, small=True), s.next_pseed()))
            s.op("ifconn 2 send 2 0 8 0 1 %d %d" % (payload_bits(rng, small=True), s.next_pseed()))
            s.op("tick 250000000")
            s.op("flush 1")
            s.op("route 10 %s 1" % addr)
            s.op("flush 2")
            s.op("dla 1 2")
    out += s.ops
    for _ in range(4):
        out += ["tick 250000000", "flush 1", "route 10 %s 1" % addr, "route 10 %s 1" % addr, "flush 2", "dla 1 2"]
    out.append("#! drained")
    return out


FLAG_COMBOS = None


def unit_session(seed, n=400):
    """C11 / C12: the codec and the bit-buffer primitives driven directly, at every bit offset"""
    rng = random.Random(seed)
    ops = ["reset"]
    for _ in range(n):
        r = rng.random()
        if r < 0.45:
            flags = rng.randint(0, 511)
            reason = rng.randint(0, 14) if rng.random() < 0.9 else 15
            name = rng.choice([0, 1, 127, 128, 16383, 16384, 2097151, 2097152, 268435455, 268435456, 4294967295, rng.randint(0, 4294967295)])
            ch = rng.choice([0, 1, 63, 64, 127, 128, 8191, 8192, 16383, 16384, 32766, 32767, 65535, rng.randint(0, 65535)])
            chseq = rng.choice([0, 1, 511, 512, 1022, 1023, 1024, 1025, 2047, 2048, 65535, 1 << 20, rng.randint(0, 1 << 21)])
            bits = rng.choice([0, 1, 7, 8, 9, 63, 64, 65, 7264, 7265, rng.randint(0, 7265)])
            ops.append("codec %d %d %d %d %d %d %d %d" % (ch, flags, reason, name, chseq, bits, rng.randint(1, 1 << 30), rng.randint(0, 63)))
        elif r < 0.75:
            mx = rng.choice([2, 3, 4, 5, 7, 8, 9, 15, 16, 17, 255, 256, 257, 1023, 1024, 1025, 8191, 8192, 8193, 65535, 65536, (1 << 31) - 1, 1 << 31, (1 << 32) - 1,
                             rng.randint(2, (1 << 32) - 1), rng.randint(2, 70000)])
            v = rng.choice([0, 1, mx - 1, mx // 2, max(0, mx // 2 - 1), rng.randint(0, mx - 1)])
            if rng.random() < 0.1:
                v = mx + rng.randint(0, 3)   # refused by the writer
            ops.append("bbint %d %d %d" % (v, mx, rng.randint(0, 63)))
        elif r < 0.85:
            k = rng.randint(1, 32)
            ops.append("bbwrapped %d %d %d" % (rng.randint(0, (1 << 32) - 1), 1 << k if k < 32 else (1 << 32) - 1, rng.randint(0, 63)))
        elif r < 0.90:
            v = rng.choice([0, 1, 127, 128, 16383, 16384, 2097151, 2097152, 268435455, 268435456, 4294967295, rng.randint(0, 4294967295)])
            ops.append("bbpacked %d %d" % (v, rng.randint(0, 63)))
        elif r < 0.95:
            # a read from a buffer that is too short (by 1 .. all of its bits): failure must leave the cursor inside the buffer
            kind = rng.choice([0, 1, 2, 2])
            mx = rng.choice([2, 3, 16, 17, 255, 256, 1024, 65536, (1 << 32) - 1, rng.randint(2, 70000)]) if kind != 1 else (1 << rng.randint(1, 31))
            v = rng.choice([0, 1, 127, 128, 16383, 16384, 2097151, 2097152, 268435455, 268435456, 4294967295, rng.randint(0, 4294967295)]) if kind == 2 else rng.randint(0, mx - 1)
            ops.append("bbcut %d %d %d %d %d" % (kind, v, mx, rng.randint(0, 63), rng.choice([1, 1, 2, 7, 8, 9, 15, 16, rng.randint(1, 40)])))
        else:
            # a run of bits of any length at any bit offset (the byte-level copy routine with its lead-in / lead-out masks)
            ops.append("bbbits %d %d %d" % (rng.choice([0, 1, 7, 8, 9, 15, 16, 17, 27, 63, 64, 65, rng.randint(0, 2048)]), rng.randint(0, 63), rng.randint(1, 1 << 30)))
    return ops


def bytebuf_session(seed, n=60, exhaustive=False):
    """C12 at the level of the byte array: scripts of bit-buffer calls on one exact-size buffer (writers, then the terminator and
    bitbuf_read_init over exactly the bytes written, then readers - matching ones, and mismatching ones that run into the end),
    and bare appBitsCpy calls for (destination bit, source bit, count) triples on arrays of exactly the bytes the ranges occupy.
    The model (lean/Utcp/ByteBuf.lean) executes the same byte operations; a byte touched outside an array is `memfault` there
    and an AddressSanitizer report here."""
    rng = random.Random(seed)
    ops = ["reset"]
    edge_mx = [2, 3, 4, 5, 7, 8, 9, 15, 16, 17, 255, 256, 257, 1023, 1024, 1025, 65535, 65536, 65537, (1 << 31) - 1, 1 << 31, (1 << 31) + 1, (1 << 32) - 1]
    edge_v = [0, 1, 127, 128, 16383, 16384, 2097151, 2097152, 268435455, 268435456, 4294967295]
    if exhaustive:
        # every alignment pair, every count that selects a different path or mask (0, the <= 8 path, 9.. with and without lead-out)
        toks = []
        for d in range(8):
            for sb in range(8):
                for cnt in list(range(0, 42)) + [63, 64, 65, 127, 128, 129]:
                    toks.append("cp:%d:%d:%d:%d" % (d + 8 * rng.randint(0, 2), sb + 8 * rng.randint(0, 2), cnt, rng.randint(1, 1 << 30)))
        for i in range(0, len(toks), 48):
            ops.append("bbs 0 " + " ".join(toks[i:i + 48]))
    for _ in range(n):
        r = rng.random()
        if r < 0.25:
            toks = ["cp:%d:%d:%d:%d" % (rng.randint(0, 40), rng.randint(0, 40), rng.choice([0, 1, 2, 7, 8, 9, 10, 15, 16, 17, 23, 24, 25, rng.randint(0, 64), rng.randint(0, 12000)]), rng.randint(1, 1 << 30))
                    for _ in range(rng.randint(1, 24))]
            ops.append("bbs 0 " + " ".join(toks))
            continue
        # a write script and its read-back
        w = []
        rd = []
        bits = rng.randint(0, 7) if rng.random() < 0.7 else 0
        for _ in range(bits):
            w.append("wb:%d" % rng.choice([0, 1, 1, 2, 255, 256]))
            rd.append("rb")
        for _ in range(rng.randint(1, 14)):
            k = rng.random()
            if k < 0.15:
                w.append("wb:%d" % rng.choice([0, 1]))
                rd.append("rb")
            elif k < 0.35:
                nb = rng.choice([0, 1, 2, 7, 8, 9, 15, 16, 17, 31, 32, 33, rng.randint(0, 80), rng.randint(0, 3000)])
                w.append("ws:%d:%d" % (nb, rng.randint(1, 1 << 30)))
                rd.append("rs:%d" % nb)
            elif k < 0.45:
                nb = rng.choice([0, 1, 2, 3, rng.randint(0, 40)])
                w.append("wy:%d:%d" % (nb, rng.randint(1, 1 << 30)))
                rd.append("ry:%d" % nb)
            elif k < 0.62:
                mx = rng.choice(edge_mx + [rng.randint(2, (1 << 32) - 1), rng.randint(2, 70000)])
                v = rng.choice([0, 1, mx - 1, mx // 2, rng.randint(0, mx - 1)])
                if rng.random() < 0.08:
                    v = min(mx + rng.randint(0, 3), (1 << 32) - 1)      # refused (or, when clipped to max-1.., accepted) by the writer
                w.append("wi:%d:%d" % (v, mx))
                if v < mx:
                    rd.append("ri:%d" % mx)
            elif k < 0.72:
                mx = rng.choice(edge_mx + [1 << rng.randint(1, 31)])
                w.append("ww:%d:%d" % (rng.randint(0, (1 << 32) - 1), mx))
                rd.append("ri:%d" % mx)
            elif k < 0.9:
                w.append("wp:%d" % rng.choice(edge_v + [rng.randint(0, 4294967295), rng.randint(0, 70000)]))
                rd.append("rp")
            else:
                w.append("wu:%d" % rng.randint(0, 4294967295))
                rd.append("ru")
        # capacity: roomy, exactly full, one bit short, a few bytes short (writes start to fail; a failed write leaves everything untouched)
        need = 0
        for t in w:
            f = t.split(":")
            if f[0] == "wb":
                need += 1
            elif f[0] == "ws":
                need += int(f[1])
            elif f[0] == "wy":
                need += 8 * int(f[1])
            elif f[0] in ("wi", "ww"):
                need += max(1, (int(f[2]) - 1).bit_length())
            elif f[0] == "wp":
                need += 8 * max(1, (int(f[1]).bit_length() + 6) // 7)
            else:
                need += 32
        def bits_of(t):
            f = t.split(":")
            if f[0] == "wb":
                return 1
            if f[0] == "ws":
                return int(f[1])
            if f[0] == "wy":
                return 8 * int(f[1])
            if f[0] in ("wi", "ww"):
                return max(1, (int(f[2]) - 1).bit_length())
            if f[0] == "wp":
                return 8 * max(1, (int(f[1]).bit_length() + 6) // 7)
            return 32
        if rng.random() < 0.3:
            # exact fit: single bits are inserted before the last write so that it ends on the very last bit of the buffer
            # (a store that runs one byte over although every value is right is only visible here); the terminator then does not fit
            last = w[-1]
            pad = (-(need % 8)) % 8
            if last.startswith("wb"):
                pad = (-(need % 8)) % 8
            w = w[:-1] + ["wb:%d" % rng.choice([0, 1]) for _ in range(pad)] + [last]
            rd = rd[:-1] + ["rb"] * pad + rd[-1:] if rd else rd
            need += pad
            ops.append("bbs %d %s end %s" % (min(need // 8, 4000), " ".join(w), " ".join(rd)))
            continue
        mode = rng.random()
        if mode < 0.4:
            cap = (need + 1 + 7) // 8 + rng.randint(0, 3)
        elif mode < 0.6:
            cap = (need + 1 + 7) // 8
        elif mode < 0.75:
            cap = need // 8          # the terminator (or the last write) does not fit
        else:
            cap = max(0, (need + 7) // 8 - rng.randint(1, 6))
        # readers: the matching sequence, or a perturbed one (other widths, reads past the end)
        if rng.random() < 0.35:
            for _ in range(rng.randint(1, 4)):
                alt = rng.choice(["rb", "rs:%d" % rng.choice([1, 2, 8, 9, 17, 33, rng.randint(0, 200)]), "ry:%d" % rng.randint(0, 9), "ri:%d" % rng.choice(edge_mx), "rp", "ru"])
                rd.insert(rng.randint(0, len(rd)), alt)
        rd += [rng.choice(["rb", "rp", "ru", "rs:9", "ri:1024", "ry:1"]) for _ in range(rng.randint(0, 3))]
        ops.append("bbs %d %s end %s" % (min(cap, 4000), " ".join(w), " ".join(rd)))
    return ops


def hs_stray_session(seed):
    """C05: the challenge ack is lost; before the client's retry, earlier (duplicated / held-back) client handshake datagrams reach the
    server-side connection through the routing policy; the handshake must still complete once and both ends must agree"""
    rng = random.Random(seed)
    s = Session(rng)
    s.op("reset")
    magic = rng.choice([(0, 0), (0, 0), (5, 0x15), (8, 0xA5), (32, 0xDEADBEEF)])
    if magic[0]:
        s.op("cfg magic %d %d" % magic)
    if rng.random() < 0.4:
        s.op("tick %d" % (rng.randint(0, 7200) * 1000000000))
    s.op("seed %d %d" % (rng.randint(1, 1 << 30), rng.randint(1, 1 << 30)))
    s.op("listener 10")
    addr = rng.choice(["1.2.3.4:5", "a", "x" * 63])
    s.op("conn 1")
    s.op("connect 1")
    s.op("onaccept 10 %s 2" % addr)
    s.note("peers 1 2")
    s.note("handshake %s" % addr)
    n_initial = rng.randint(1, 3)
    for _ in range(n_initial - 1):
        # extra initial packets (the client's timer fired before the challenge arrived); all but the last are held back
        s.op("tick 1000000000")
        s.op("update 1")
    for _ in range(n_initial - 1):
        s.op("drop 1")
    s.op("route 10 %s 1" % addr)       # initial -> challenge
    s.op("skip 10") if False else None
    s.ops = [o for o in s.ops if o is not None]
    s.op("dla 1 10")                   # challenge -> response
    s.op("route 10 %s 1" % addr)       # response -> accept, ack emitted by the listener
    s.op("drop 10")                    # ... and lost
    # stray client handshake datagrams now reach the accepted connection
    for _ in range(rng.randint(1, 3)):
        r = rng.random()
        if r < 0.6:
            s.op("routeat 10 %s 1 -%d" % (addr, rng.randint(1, n_initial + 1)))
        else:
            s.op("craft 2 1 -%d -1 %d -1 %d -1 -1 -1 %d" % (rng.randint(1, n_initial + 1), rng.choice([0, 1, 2, 3]), rng.randint(0, 255), rng.choice([9, 16])))
        if rng.random() < 0.7:
            s.op("dla 1 2")            # whatever the server-side connection answered
    for rnd in range(8):
        s.op("tick %d" % (rng.choice([500, 1000, 1100]) * 1000000))
        s.op("update 1")
        s.op("update 2")
        for _ in range(3):
            s.op("route 10 %s 1" % addr)
        s.op("dla 1 2")
        s.op("dla 1 10")
        if rnd >= 3:
            s.op("flush 1")
            s.op("flush 2")
    s.note("settled")
    s.op("ifconn 1 send 1 0 9 0 1 30 %d" % s.next_pseed())   # the application sends only on an endpoint that reported connected
    s.op("ifconn 2 send 2 0 9 0 1 40 %d" % s.next_pseed())
    for _ in range(4):
        s.op("tick 250000000")
        s.op("flush 1")
        s.op("route 10 %s 1" % addr)
        s.op("route 10 %s 1" % addr)
        s.op("flush 2")
        s.op("dla 1 2")
        s.op("dla 1 10")
    s.note("drained")
    s.op("closed 1")
    s.op("closed 2")
    return s.ops


def hs_outage_session(seed):
    """C05 / C07: the handshake is interrupted for a long time (the challenge response and its re-sends are lost for 3 .. 60 s, the
    listener may rotate its secret meanwhile); once the network is fault-free again the handshake must complete, once"""
    rng = random.Random(seed)
    s = Session(rng)
    s.op("reset")
    magic = rng.choice([(0, 0), (0, 0), (8, 0xA5), (32, 0xDEADBEEF)])
    if magic[0]:
        s.op("cfg magic %d %d" % magic)
    if rng.random() < 0.4:
        s.op("tick %d" % (rng.randint(0, 7200) * 1000000000))
    s.op("seed %d %d" % (rng.randint(1, 1 << 30), rng.randint(1, 1 << 30)))
    s.op("listener 10")
    addr = rng.choice(["1.2.3.4:5", "a", "x" * 63])
    s.op("conn 1")
    s.op("connect 1")
    s.op("onaccept 10 %s 2" % addr)
    s.note("peers 1 2")
    s.note("handshake %s" % addr)
    stage = rng.choice(["initial", "challenge", "response", "response", "response", "ack"])
    if stage != "initial":
        s.op("route 10 %s 1" % addr)          # initial -> challenge
        if stage != "challenge":
            s.op("dla 1 10")                  # challenge -> response emitted
            if stage == "ack":
                s.op("route 10 %s 1" % addr)  # response -> accept + ack (which will be lost)
    outage = rng.choice([3, 14, 16, 30, 41, 45, 60])
    step_ms = rng.choice([250, 1000, 1000, 1100, 5000])
    t = 0
    rot_at = sorted(rng.sample(range(1, outage * 1000), rng.choice([0, 0, 1, 2, 2]))) if outage > 1 else []
    while t < outage * 1000:
        t += step_ms
        s.op("tick %d" % (step_ms * 1000000))
        while rot_at and rot_at[0] <= t:
            rot_at.pop(0)
            s.op("rot 10")
        s.op("update 1")
        s.op("update 2")
        # everything the client and the server side emit during the outage is lost
        s.op("skip 1")
        s.op("skip 10")
        s.op("skip 2")
    # the network heals
    for rnd in range(24):
        s.op("tick %d" % (rng.choice([500, 1000, 1000, 1100]) * 1000000))
        s.op("update 1")
        s.op("update 2")
        for _ in range(3):
            s.op("route 10 %s 1" % addr)
        s.op("dla 1 10")
        s.op("dla 1 2")
        if rnd >= 20:
            s.op("flush 1")
            s.op("flush 2")
    s.note("settled")
    s.op("ifconn 1 send 1 0 9 0 1 30 %d" % s.next_pseed())
    s.op("ifconn 2 send 2 0 9 0 1 40 %d" % s.next_pseed())
    for _ in range(4):
        s.op("tick 250000000")
        s.op("flush 1")
        s.op("route 10 %s 1" % addr)
        s.op("route 10 %s 1" % addr)
        s.op("flush 2")
        s.op("dla 1 2")
        s.op("dla 1 10")
    s.note("drained")
    s.op("closed 1")
    s.op("closed 2")
    return s.ops


def hs_migrate_session(seed):
    """C05 / C06 / C08: after a completed handshake and some traffic the client's datagrams arrive from a new address; the listener asks
    it to restart the handshake, the client answers with a restart response that echoes its original cookie, the application re-binds the
    existing connection (the sample's policy) and reliable traffic continues on the same sequence numbers"""
    rng = random.Random(seed)
    s = Session(rng)
    s.op("reset")
    magic = rng.choice([(0, 0), (0, 0), (8, 0xA5), (32, 0xDEADBEEF)])
    if magic[0]:
        s.op("cfg magic %d %d" % magic)
    if rng.random() < 0.4:
        s.op("tick %d" % (rng.randint(0, 7200) * 1000000000))
    s.op("seed %d %d" % (rng.randint(1, 1 << 30), rng.randint(1, 1 << 30)))
    s.op("listener 10")
    a1 = rng.choice(["1.2.3.4:5", "a", "x" * 63])
    a2 = rng.choice(["9.8.7.6:5", "b", "y" * 63, a1 + "1" if len(a1) < 63 else "zz"])
    s.op("conn 1")
    s.op("connect 1")
    s.op("onaccept 10 %s 2" % a1)
    s.note("peers 1 2")
    s.note("hostile")      # C01-C05 monitors assume one address; these sessions are judged by correspondence and the robustness monitors
    for _ in range(3):
        for _ in range(2):
            s.op("route 10 %s 1" % a1)
        s.op("dla 1 10")
        s.op("dla 1 2")
    # traffic on the established connection
    s.op("ifconn 1 send 1 0 9 0 1 30 %d" % s.next_pseed())
    s.op("ifconn 2 send 2 0 9 0 1 40 %d" % s.next_pseed())
    for _ in range(rng.randint(1, 4)):
        s.op("tick 250000000")
        s.op("ifconn 1 send 1 0 8 0 1 %d %d" % (payload_bits(rng, small=True), s.next_pseed()))
        s.op("flush 1")
        s.op("route 10 %s 1" % a1)
        s.op("flush 2")
        s.op("dla 1 2")
    # the client moves
    if rng.random() < 0.3:
        s.op("rot 10")
    # mode "current": the listener's own restart request (sent in the original wire format, which this client refuses and closes on) is
    # lost; a request in the current wire format arrives instead, so the restart handshake actually runs
    current = rng.random() < 0.6
    requested = False
    for rnd in range(rng.randint(6, 12)):
        s.op("tick %d" % (rng.choice([100, 250, 1000, 1100]) * 1000000))
        if rng.random() < 0.6:
            s.op("ifconn 1 send 1 0 8 0 1 %d %d" % (payload_bits(rng, small=True), s.next_pseed()))
        s.op("flush 1")
        s.op("update 1")
        s.op("update 2")
        for _ in range(3):
            if rng.random() < 0.85:
                s.op("route 10 %s 1" % a2)
            else:
                s.op("drop 1")
        if current and not requested:
            # the handshake datagrams of the listener so far are its challenge and its ack: either serves as the template
            s.op("craft 1 10 -%d 1 4 -1 %d -1 -1 -1 %d" % (rng.randint(1, 2), rng.randint(0, 255), rng.choice([9, 12, 16])))
            s.op("skip 10")
            requested = True
        elif current:
            s.op("hsdla 1 10")      # only handshake-sized replies (challenge, ack); the 1-byte requests are lost
        else:
            s.op("dla 1 10")
        s.op("flush 2")
        s.op("dla 1 2")
        if rng.random() < 0.15:
            s.op("routeat 10 %s 1 -%d" % (rng.choice([a1, a2]), rng.randint(1, 5)))   # a late datagram, possibly via the old address
    for _ in range(4):
        s.op("tick 250000000")
        s.op("ifconn 1 send 1 0 8 0 1 8 %d" % s.next_pseed())
        s.op("ifconn 2 send 2 0 8 0 1 8 %d" % s.next_pseed())
        s.op("flush 1")
        s.op("route 10 %s 1" % a2)
        s.op("route 10 %s 1" % a2)
        s.op("flush 2")
        s.op("dla 1 2")
        s.op("dla 1 10")
    s.op("closed 1")
    s.op("closed 2")
    s.op("nodes")
    return s.ops


# ---------------------------------------------------------------------------------------------------------------------------------
# forged packet bodies: a Python copy of the bunch wire format, able to write out-of-range values, used to inject arbitrary bunch
# encodings into a *genuine* packet (valid packet header and sequence) through WriteBitsToSendBuffer

def _bits_int(v, mx):
    """bitbuf_write_int / write_int_wrapped: shortened encoding of v below mx (v taken as is, also when out of range)"""
    out, nv, mask = [], 0, 1
    while nv + mask < mx and mask < (1 << 32):
        if v & mask:
            out.append(1)
            nv += mask
        else:
            out.append(0)
        mask *= 2
    return out


def _bits_packed(v):
    out = []
    v &= 0xFFFFFFFF
    for _ in range(5):
        more = 1 if (v >> 7) else 0
        byte = ((v & 127) << 1) | more
        out += [(byte >> i) & 1 for i in range(8)]
        v >>= 7
        if not more:
            break
    return out


def enc_bunch(ch, flags, reason, name, chseq, nbits_field, data_bits):
    """flags as in the scenario language; nbits_field is what the length field says (it may lie)"""
    o, c = bool(flags & 1), bool(flags & 2)
    bits = [1 if (o or c) else 0]
    if o or c:
        bits += [int(o), int(c)]
        if c:
            bits += _bits_int(reason, 15)
    bits += [int(bool(flags & 4)), int(bool(flags & 8))]
    bits += _bits_packed(ch)
    bits += [int(bool(flags & 16)), int(bool(flags & 32)), int(bool(flags & 64))]
    if flags & 8:
        bits += _bits_int(chseq % 1024, 1024)
    if flags & 64:
        bits += [int(bool(flags & 128)), int(bool(flags & 256))]
    if flags & 9:
        bits += [1 if not (flags & 512) else 0] + _bits_packed(name)     # flag 512: clear the "hardcoded name" bit (refused by the reader)
    bits += _bits_int(nbits_field % 8192, 8192)
    return bits + list(data_bits)


def _hexbits(bits):
    by = bytearray((len(bits) + 7) // 8)
    for i, b in enumerate(bits):
        if b:
            by[i >> 3] |= 1 << (i & 7)
    return by.hex() or "00"


def inject_session(seed):
    """C09 / C11: genuine packets (valid header, valid sequence, delivered in order) whose *body* is forged: bunch encodings with
    out-of-range channel indices, lying length fields, unrepresentable close reasons, cleared name bits, truncated tails, random bits"""
    rng = random.Random(seed)
    s = Session(rng)
    s.op("reset")
    magic = rng.choice([(0, 0), (0, 0), (8, 0xA5), (32, 0xDEADBEEF)])
    if magic[0]:
        s.op("cfg magic %d %d" % magic)
    s.op("conn 1")
    s.op("conn 2")
    a_out, b_out = seq_choice(rng), seq_choice(rng)
    s.op("seqinit 1 %d %d" % (b_out, a_out))
    s.op("seqinit 2 %d %d" % (a_out, b_out))
    s.note("peers 1 2")
    s.note("hostile")
    s.op("send 1 1 9 0 1 8 %d" % s.next_pseed())
    s.op("send 1 3 9 0 1 8 %d" % s.next_pseed())
    drain(s, 1, 2, rounds=1)
    relseq = {1: 1, 3: 1}
    for _ in range(rng.randint(4, 14)):
        if rng.random() < 0.35:
            # sequence games on one reliable channel: the next few sequence numbers in a shuffled order, some of them twice, each as a plain bunch or as a
            # well-formed / stray fragment (in-sequence bunches that are *refused* while successors wait in the queue, queued copies that arrive again, ...)
            ch = rng.choice([1, 3])
            base = relseq[ch]
            offs = rng.sample([0, 1, 2, 3], rng.randint(2, 4))
            for k in range(rng.randint(0, 2)):
                offs.insert(rng.randint(0, len(offs)), rng.choice(offs))
            for o in offs:
                flags = rng.choice([8, 8, 8, 72, 72, 200, 328, 456])
                n = rng.choice([0, 1, 8, 9, 64])
                bits = enc_bunch(ch, flags, 0, 0, base + o, n, [rng.getrandbits(1) for _ in range(n)])
                s.op("inject 1 %d %s" % (len(bits), _hexbits(bits)))
                if rng.random() < 0.5:
                    s.op("tick 250000000"); s.op("flush 1"); s.op("dla 2 1")
            if 0 in offs:
                k = 0
                while k in offs:
                    k += 1
                relseq[ch] = base + k
            s.op("tick 250000000"); s.op("flush 1"); s.op("dla 2 1"); s.op("flush 2"); s.op("dla 1 2")
            continue
        for _ in range(rng.randint(1, 4)):
            kind = rng.random()
            n = rng.choice([0, 1, 7, 8, 9, 64, 300])
            data = [rng.getrandbits(1) for _ in range(n)]
            ch = rng.choice([1, 3, 1, 3, 0, 5, 127, 128, 16383, 16384, 32766, 32767, 32768, 65535, 1 << 20, (1 << 32) - 1])
            flags = rng.choice([0, 8, 8, 9, 1, 2, 10, 11, 72, 200, 328, 456, 64, 192, 320, 448, 16, 32, 4, 520, 521]) | (rng.choice([0, 0, 0, 4, 16, 32]))
            reason = rng.choice([0, 1, 7, 14, 15])
            name = rng.choice([0, 1, 127, 128, 1 << 31, (1 << 32) - 1])
            if kind < 0.55:
                chseq = relseq.get(ch, 1) + rng.choice([0, 0, 0, 1, 2, 5, -1, 511, 512, 513, 1023])
                if rng.random() < 0.6 and ch in relseq and flags & 8:
                    relseq[ch] = chseq + 1
                bits = enc_bunch(ch, flags, reason, name, chseq, n, data)
            elif kind < 0.8:
                # the length field lies
                bits = enc_bunch(ch, flags, reason, name, relseq.get(ch, 1), rng.choice([n + 1, n + 8, 8191, 8000, max(0, n - 1), 0]), data)
            elif kind < 0.9:
                bits = enc_bunch(ch, flags, reason, name, relseq.get(ch, 1), n, data)
                bits = bits[:rng.randint(0, len(bits))]        # truncated inside the header or the payload
            else:
                bits = [rng.getrandbits(1) for _ in range(rng.choice([1, 2, 5, 8, 13, 40, 100, 1000]))]
            s.op("inject 1 %d %s" % (len(bits), _hexbits(bits)))
            if rng.random() < 0.3:
                s.op("send 1 %d 8 0 0 %d %d" % (rng.choice([1, 3]), payload_bits(rng, small=True), s.next_pseed()))
        s.op("tick 250000000")
        s.op("flush 1")
        s.op("dla 2 1")
        if rng.random() < 0.5:
            s.op("update 2")
        s.op("flush 2")
        s.op("dla 1 2")
    s.op("closed 1")
    s.op("closed 2")
    s.op("nodes")
    s.op("chans 2")
    return s.ops


def agreed_session(seed):
    """C05 (the state a completed handshake leaves behind): two endpoints initialised with mirrored sequence numbers — every special value,
    0 and the wrap included — each sends before it has received anything; the first packet in each direction must be accepted and
    reliable data must flow"""
    rng = random.Random(seed)
    s = Session(rng)
    s.op("reset")
    magic = rng.choice([(0, 0), (0, 0), (8, 0xA5), (32, 0xDEADBEEF)])
    if magic[0]:
        s.op("cfg magic %d %d" % magic)
    s.op("conn 1")
    s.op("conn 2")
    special = [0, 0, 1, 2, 3, 16383, 16382, 8191, 8192, 8193, 1023, 1024]
    a_out = rng.choice(special + [rng.randint(0, 16383)])
    b_out = rng.choice(special + [rng.randint(0, 16383)])
    s.op("seqinit 1 %d %d" % (b_out, a_out))
    s.op("seqinit 2 %d %d" % (a_out, b_out))
    s.note("peers 1 2")
    s.note("agreed")
    first = rng.choice([1, 2])
    for side in (first, 3 - first):
        for k in range(rng.randint(1, 3)):
            s.op("send %d 1 %d 0 1 %d %d" % (side, 9 if k == 0 else 8, payload_bits(rng, small=True), s.next_pseed()))
        s.op("tick 250000000")
        s.op("flush %d" % side)
    s.op("dla 2 1")
    s.op("dla 1 2")
    for _ in range(rng.randint(2, 6)):
        side = rng.choice([1, 2])
        s.op("send %d 1 8 0 1 %d %d" % (side, payload_bits(rng, small=True), s.next_pseed()))
        s.op("tick 250000000")
        s.op("flush %d" % side)
        s.op("dla %d %d" % (3 - side, side))
    s.note("drain")
    drain(s, 1, 2, rounds=6)
    s.note("drained")
    s.op("nodes")
    return s.ops


def refresh_session(seed):
    """C02: one end queues a bunch without flushing (its header placeholder is written), then accepts 30-70 packets, then flushes — the
    refresh of the placeholder is refused or not, the packet leaves, is acknowledged, and the following headers must still carry a
    verdict for every packet accepted (no false NAK on a fault-free link)"""
    rng = random.Random(seed)
    s = Session(rng)
    s.op("reset")
    s.op("conn 1")
    s.op("conn 2")
    a_out, b_out = seq_choice(rng), seq_choice(rng)
    s.op("seqinit 1 %d %d" % (b_out, a_out))
    s.op("seqinit 2 %d %d" % (a_out, b_out))
    s.note("peers 1 2")
    s.op("send 1 1 9 0 1 8 %d" % s.next_pseed())
    s.op("send 2 1 9 0 1 8 %d" % s.next_pseed())
    drain(s, 1, 2, rounds=2)
    for rnd in range(rng.randint(1, 3)):
        s.op("send 2 1 %d 0 1 %d %d" % (rng.choice([8, 0]), payload_bits(rng, small=True), s.next_pseed()))     # waits in 2's send buffer
        for _ in range(rng.choice([10, 31, 32, 33, 40, 64, 65, 70])):
            if rng.random() < 0.4:
                s.op("send 1 1 %d 0 1 %d %d" % (rng.choice([8, 0]), payload_bits(rng, small=True), s.next_pseed()))
            s.op("tick 200000000")
            s.op("flush 1")
            s.op("dln 2 1")
        s.op("flush 2")
        s.op("dla 1 2")
        s.op("tick 200000000")
        s.op("flush 1")
        s.op("dla 2 1")
        for _ in range(rng.randint(2, 5)):
            s.op("tick 200000000")
            if rng.random() < 0.5:
                s.op("send 2 1 8 0 1 8 %d" % s.next_pseed())
            s.op("flush 2")
            s.op("dla 1 2")
            s.op("flush 1")
            s.op("dla 2 1")
    s.note("drain")
    drain(s, 1, 2, rounds=6)
    s.note("drained")
    s.op("nodes")
    return s.ops
