#!/bin/bash
# usage: allseeds.sh "<seeds>" [tier]   — run every property's check at several VERIF_SEED values on the clean tree (false-alarm hunt)
cd "$(dirname "$0")/.."
tier=${2:-quick}
export VERIF_EVIDENCE_DIR=${VERIF_EVIDENCE_DIR:-$PWD/build/evidence-seeds}
for s in $1; do
  for p in 01 02 03 04 05 06 07 08 09 10 11 12 13 14 15 16 17 18 19 20; do
    echo "VERIF_SEED=$s python3 tools/check.py C$p --tier $tier 2>&1 | grep -v conda | tail -2"
  done
done | xargs -P 4 -I{} bash -c "{}"
echo ALLSEEDS-DONE
