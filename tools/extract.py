#!/usr/bin/env python3
"""extract.py — regenerate lean/Utcp/Gen/Consts.lean from /repo's current sources.

Every constant, table and array extent the Lean model depends on is *evaluated by the compiler* in a
probe translation unit that #includes the repo's own .c/.h files, or (for local arrays) read from the
clang AST.  A harmless respelling of a constant changes nothing; a changed value changes Consts.lean and
every theorem depending on it is re-checked.
"""
import json
import os
import re
import subprocess
import sys
import hashlib

REPO = os.environ.get("UTCP_REPO", "/repo")
VERIF = os.path.dirname(os.path.dirname(os.path.abspath(__file__)))
BUILD = os.path.join(VERIF, "build")


class ExtractError(Exception):
    pass


HDR_NAMES = """SequenceNumberBits SeqNumberCount SeqNumberHalf SeqNumberMask UTCP_RELIABLE_BUFFER UTCP_MAX_CHSEQUENCE
MaxSequenceHistoryLength SequenceHistoryBitsPerWord SequenceHistoryWordCount UTCP_MAX_PACKET DEFAULT_MAX_CHANNEL_SIZE UDP_MTU_SIZE
RING_BUFFER_SIZE HANDSHAKE_PACKET_SIZE_BITS RESTART_HANDSHAKE_PACKET_SIZE_BITS RESTART_RESPONSE_SIZE_BITS SECRET_BYTE_SIZE SECRET_COUNT
COOKIE_BYTE_SIZE ADDRSTR_PORT_SIZE UTCP_CONNECT_TIMEOUT NumBitsForJitterClockTimeInHeader PACKET_ID_INDEX_NONE
ControlChannelClose SocketSendFailure ConnectionLost Cleanup PacketHandlerIncomingError PrematureSend ConnectionTimeout ZeroLastByte ZeroSize
ReadHeaderFail ReadHeaderExtraFail AckSequenceMismatch BunchBadChannelIndex BunchOverflow ReliableBufferOverflow""".split()

PROBES = {
    # file included -> (prelude, list of (lean_name, C expression))
    "utcp/utcp_packet.c": [(n, n) for n in ["MAX_PACKET_TRAILER_BITS", "MAX_PACKET_RELIABLE_SEQUENCE_HEADER_BITS", "MAX_PACKET_INFO_HEADER_BITS", "MAX_PACKET_HEADER_BITS",
                                            "MAX_PACKET_HANDLER_BITS"]] + [("PKT_MAX_SINGLE_BUNCH_SIZE_BITS", "MAX_SINGLE_BUNCH_SIZE_BITS")] + [(n, n) for n in HDR_NAMES] + [
        ("MAX_COOKIE_LIFETIME_S", "(long)(MAX_COOKIE_LIFETIME)"), ("MIN_COOKIE_LIFETIME_S", "(long)(MIN_COOKIE_LIFETIME)"),
        ("SIZEOF_BUNCH_DATA", "sizeof(((struct utcp_bunch*)0)->Data)"), ("SIZEOF_SEND_BUFFER", "sizeof(((struct utcp_connection*)0)->SendBuffer)"),
        ("SECRET_ROW_STRIDE", "sizeof(((struct utcp_listener*)0)->HandshakeSecret[0])"),
        ("SECRET_ROWS", "sizeof(((struct utcp_listener*)0)->HandshakeSecret)/sizeof(((struct utcp_listener*)0)->HandshakeSecret[0])"),
        ("SIZEOF_NODE_BUNCH_DATA", "sizeof(((struct utcp_bunch_node*)0)->bunch_data)"),
        ("CHANNEL_TABLE_EXTENT", "sizeof(((struct utcp_channels*)0)->Channels)/sizeof(((struct utcp_channels*)0)->Channels[0])"),
        ("HISTORY_WORDS_EXTENT", "sizeof(((struct notification_header*)0)->History)/sizeof(((struct notification_header*)0)->History[0])"),
        ("SIZEOF_SIZE_T", "sizeof(size_t)"), ("SIZEOF_DOUBLE", "sizeof(double)"),
    ],
    "utcp/utcp_packet_notify.c": [(n, n) for n in ["HistoryWordCountBits", "HistoryWordCountMask", "AckSeqShift", "SeqShift"]],
    "utcp/utcp_bunch.c": [("EChannelCloseReasonMAX", "EChannelCloseReasonMAX")],
    "utcp/utcp.c": [("KeepAliveTime", "KeepAliveTime"),
                    ("GETTIME_MS_AT_0", "(utcp_get_config()->ElapsedTime = 0, utcp_gettime_ms())"),
                    ("GETTIME_MS_AT_1S", "(utcp_get_config()->ElapsedTime = 1000000, utcp_gettime_ms())"),
                    ("GETTIME_US_AT_0", "(utcp_get_config()->ElapsedTime = 0, (long)(utcp_gettime()*1000000.0))"),
                    ("GETTIME_US_AT_1S", "(utcp_get_config()->ElapsedTime = 1000000, (long)(utcp_gettime()*1000000.0))"),
                    ("ELAPSED_US_PER_MS_OF_NS", "(utcp_get_config()->ElapsedTime = 0, utcp_add_elapsed_time(1000000), utcp_get_config()->ElapsedTime)")],
    "utcp/utcp_handshake.c": [(n, n) for n in ["MAX_PACKETID", "SessionIDSizeBits", "ClientIDSizeBits", "BaseRandomDataLengthBytes", "RandomDataLengthVarianceBytes",
                                                 "OriginalHandshakePacketSizeBits", "OriginalRestartHandshakePacketSizeBits", "OriginalRestartResponseSizeBits",
                                                 "VerRandomizedHandshakePacketSizeBits", "VerRandomizedRestartHandshakePacketSizeBits", "VerRandomizedRestartResponseSizeBits",
                                                 "EHandshakePacketType_InitialPacket", "EHandshakePacketType_Challenge", "EHandshakePacketType_Response", "EHandshakePacketType_Ack",
                                                 "EHandshakePacketType_RestartHandshake", "EHandshakePacketType_RestartResponse",
                                                 "EHandshakeVersion_Original", "EHandshakeVersion_Randomized", "EHandshakeVersion_NetCLVersion", "EHandshakeVersion_SessionClientId",
                                                 "EHandshakeVersion_Latest", "UnInitialized", "InitializedOnLocal", "InitializeOnRemote", "Initialized"]] + [
        ("CurrentHandshakeVersionVar", "CurrentHandshakeVersionVar"), ("LastRemoteHandshakeVersionVar", "LastRemoteHandshakeVersionVar"),
        ("MinSupportedHandshakeVersionVar", "MinSupportedHandshakeVersionVar")],
    "utcp/bit_buffer.c": [("GShift_%d" % i, "GShift[%d]" % i) for i in range(8)] + [("GMask_%d" % i, "GMask[%d]" % i) for i in range(8)] +
                         [("CeilLogTwo_%d" % x, "CeilLogTwo(%du)" % x) for x in [2, 3, 4, 5, 8, 9, 15, 16, 17, 255, 256, 257, 1024, 1025, 8192, 8193, 65536, 65537, 4294967295]],
}

CXX_PROBE = [("NetMaxConstructedPartialBunchSizeBytes", "utcp::NetMaxConstructedPartialBunchSizeBytes"),
             ("CXX_MAX_SINGLE_BUNCH_SIZE_BITS", "utcp::MAX_SINGLE_BUNCH_SIZE_BITS"), ("CXX_MAX_SINGLE_BUNCH_SIZE_BYTES", "utcp::MAX_SINGLE_BUNCH_SIZE_BYTES"),
             ("CXX_MAX_PARTIAL_BUNCH_SIZE_BITS", "utcp::MAX_PARTIAL_BUNCH_SIZE_BITS"), ("SIZEOF_EXT_DATA", "sizeof(((utcp::large_bunch*)0)->ExtData)"),
             ("SIZEOF_PACKET_VIEW_DATA", "sizeof(((utcp::packet_view*)0)->_data)")]

# local arrays: (function, file, variable) -> lean name
LOCAL_EXTENTS = [("ReceivedNextBunch", "utcp/utcp_packet.c", "HandleBunch", "EXTENT_HandleBunch"),
                 ("GenerateCookie", "utcp/utcp_handshake.c", "CookieData", "EXTENT_CookieData"),
                 ("sha1_hmac_buffer", "utcp/sha1.c", "IKeyPad_Data", "EXTENT_IKeyPad_Data"),
                 ("utcp_channels_on_ack", "utcp/utcp_channel.c", "utcp_bunch_node", "EXTENT_on_ack_nodes"),
                 ("utcp_channels_on_nak", "utcp/utcp_channel.c", "utcp_bunch_node", "EXTENT_on_nak_nodes"),
                 ("bitbuf_write_int_packed", "utcp/bit_buffer.c", "BytesAsWords", "EXTENT_BytesAsWords"),
                 ("SendRawBunch", "utcp/utcp_packet.c", "buffer", "EXTENT_SendRawBunch_buffer")]


def src_hash():
    h = hashlib.sha256()
    import glob
    for pat in ["utcp/*.c", "utcp/*.h", "utcp/3rd/*", "abstract/*"]:
        for f in sorted(glob.glob(os.path.join(REPO, pat))):
            h.update(open(f, "rb").read())
    h.update(open(os.path.abspath(__file__), "rb").read())
    return h.hexdigest()[:16]


SNAPSHOT = os.path.join(os.path.dirname(os.path.abspath(__file__)), "consts_snapshot.json")
NOTES = []


def _snapshot():
    return json.load(open(SNAPSHOT)) if os.path.exists(SNAPSHOT) else {}


def _probe_once(path, items, lang, tag):
    """compile and run one probe; returns dict or raises ExtractError"""
    src = os.path.join(BUILD, "probe_%s.%s" % (tag, "c" if lang == "c" else "cpp"))
    exe = os.path.join(BUILD, "probe_%s.exe" % tag)
    with open(src, "w") as f:
        f.write("#include <stdio.h>\n#include <stddef.h>\n")
        f.write('#include "%s"\n' % os.path.join(REPO, path))
        f.write("int main(void){\n")
        for lean, cexpr in items:
            f.write('  printf("%s=%%lld\\n", (long long)(%s));\n' % (lean, cexpr))
        f.write("  return 0;\n}\n")
    extra = []
    if path.endswith("utcp.c") or path.endswith("utcp_packet.c") or path.endswith("utcp_handshake.c") or path.endswith("utcp_packet_notify.c") or path.endswith("utcp_bunch.c"):
        # these need the rest of the library to link
        import glob
        extra = [s for s in sorted(glob.glob(os.path.join(REPO, "utcp/*.c")) + glob.glob(os.path.join(REPO, "utcp/3rd/*.c"))) if not s.endswith("/" + os.path.basename(path))]
    cc = ["gcc", "-std=gnu11"] if lang == "c" else ["g++", "-std=gnu++17"]
    cmd = cc + ["-w", "-DNDEBUG", "-I" + REPO, "-I" + os.path.join(REPO, "utcp"), src] + extra + ["-o", exe, "-lm"]
    p = subprocess.run(cmd, stdout=subprocess.PIPE, stderr=subprocess.STDOUT, text=True)
    try:
        if p.returncode != 0:
            raise ExtractError("probe for %s does not compile:\n%s" % (path, p.stdout[-2000:]))
        out = subprocess.run([exe], stdout=subprocess.PIPE, text=True, timeout=20).stdout
    finally:
        for f in (exe, src):
            if os.path.exists(f):
                os.remove(f)
    vals = {}
    for line in out.splitlines():
        k, v = line.split("=")
        vals[k] = int(v)
    for lean, _ in items:
        if lean not in vals:
            raise ExtractError("probe did not print %s" % lean)
    return vals


def run_probe(path, items, lang="c"):
    """all items of one source file in one probe; if that does not compile (an identifier was renamed, a macro became a function, ...)
    the items are probed one by one, a function-like spelling `name()` is tried for bare identifiers, and what still cannot be
    evaluated keeps its snapshot value - with a note: that constant is then tied to the code by the correspondence runs only."""
    os.makedirs(BUILD, exist_ok=True)
    tag = re.sub(r"\W", "_", path)
    try:
        return _probe_once(path, items, lang, tag)
    except ExtractError as whole:
        snap = _snapshot()
        vals = {}
        import concurrent.futures

        def one(ix):
            lean, cexpr = items[ix]
            variants = [cexpr] + ([cexpr + "()"] if re.fullmatch(r"\w+", cexpr) else [])
            for v in variants:
                try:
                    return lean, _probe_once(path, [(lean, v)], lang, "%s_%d" % (tag, ix))[lean], v
                except ExtractError:
                    continue
            return lean, None, None
        with concurrent.futures.ThreadPoolExecutor(max_workers=8) as ex:
            for lean, val, used in ex.map(one, range(len(items))):
                if val is not None:
                    vals[lean] = val
                    if used != dict(items)[lean]:
                        NOTES.append("constant %s: `%s` is no longer a constant expression in %s; evaluated as `%s`" % (lean, dict(items)[lean], path, used))
                elif lean in snap:
                    vals[lean] = snap[lean]
                    NOTES.append("constant %s (`%s` in %s) can no longer be evaluated by the compiler; the last extracted value %d is kept and is tied to the code by the correspondence runs only" % (lean, dict(items)[lean], path, snap[lean]))
                else:
                    raise whole
        return vals


def local_extent(fn, path, var, lean=None):
    sys.path.insert(0, os.path.dirname(os.path.abspath(__file__)))
    import ctrans
    snap = _snapshot()
    try:
        node = ctrans.load_ast(path, "c", fn)
    except ctrans.TransError as e:
        if lean in snap:
            NOTES.append("array extent %s: function %s is no longer found in %s; the last extracted value %d is kept (tie: correspondence runs under ASan)" % (lean, fn, path, snap[lean]))
            return snap[lean]
        raise ExtractError(str(e))
    found = []
    arrays = []

    def walk(n):
        if n.get("kind") == "VarDecl":
            q = (n.get("type") or {}).get("qualType", "")
            m = re.search(r"\[(\d+)\]", q)
            if m:
                arrays.append((n.get("name"), int(m.group(1))))
                if n.get("name") == var:
                    found.append(int(m.group(1)))
        for c in n.get("inner", []) or []:
            if isinstance(c, dict):
                walk(c)

    walk(node)
    if found:
        return found[0]
    # the array was renamed: if the function has exactly one local array, or exactly one of the previous extent, that is the one
    if len(arrays) == 1:
        NOTES.append("array extent %s: local array %s of %s was renamed to %s" % (lean, var, fn, arrays[0][0]))
        return arrays[0][1]
    same = [a for a in arrays if lean in snap and a[1] == snap[lean]]
    if len(same) == 1:
        NOTES.append("array extent %s: local array %s of %s is no longer found by name; %s has the previous extent and is taken for it" % (lean, var, fn, same[0][0]))
        return same[0][1]
    if lean in snap:
        NOTES.append("array extent %s: local array %s of %s is no longer found; the last extracted value %d is kept (tie: correspondence runs under ASan)" % (lean, var, fn, snap[lean]))
        return snap[lean]
    raise ExtractError("local array %s not found in %s" % (var, fn))


_cache = None


def extract_consts():
    global _cache
    if _cache is not None:
        return _cache
    os.makedirs(BUILD, exist_ok=True)
    cache_file = os.path.join(BUILD, "consts-%s.json" % src_hash())
    if os.path.exists(cache_file):
        c = json.load(open(cache_file))
        NOTES[:] = c.pop("__notes__", [])
        _cache = c
        _write_notes()
        return _cache
    vals = {}
    for path, items in PROBES.items():
        vals.update(run_probe(path, items))
    # C++ probe
    src = os.path.join(BUILD, "probe_cxx.cpp")
    exe = os.path.join(BUILD, "probe_cxx.exe")
    with open(src, "w") as f:
        f.write('#include <stdio.h>\n#include "%s"\nint main(){\n' % os.path.join(REPO, "abstract/utcp.hpp"))
        for lean, cexpr in CXX_PROBE:
            f.write('  printf("%s=%%lld\\n", (long long)(%s));\n' % (lean, cexpr))
        f.write("  return 0;}\n")
    p = subprocess.run(["g++", "-std=gnu++17", "-w", "-I" + REPO, src, "-o", exe], stdout=subprocess.PIPE, stderr=subprocess.STDOUT, text=True)
    if p.returncode != 0:
        raise ExtractError("C++ probe does not compile:\n" + p.stdout[-2000:])
    for line in subprocess.run([exe], stdout=subprocess.PIPE, text=True).stdout.splitlines():
        k, v = line.split("=")
        vals[k] = int(v)
    os.remove(exe)
    os.remove(src)
    for fn, path, var, lean in LOCAL_EXTENTS:
        vals[lean] = local_extent(fn, path, var, lean)
    for old in os.listdir(BUILD):
        if old.startswith("consts-") and old.endswith(".json"):
            os.remove(os.path.join(BUILD, old))
    json.dump(dict(vals, __notes__=list(NOTES)), open(cache_file, "w"), indent=1, sort_keys=True)
    _cache = vals
    _write_notes()
    return vals


def _write_notes():
    json.dump(list(NOTES), open(os.path.join(BUILD, "regen_notes_extract.json"), "w"), indent=1)


def write_lean(vals):
    lines = ["/- GENERATED by tools/extract.py from the sources in /repo (values evaluated by the compiler) — do not edit. -/", "namespace Utcp.Gen", ""]
    for k in sorted(vals):
        v = vals[k]
        if k.startswith(("GShift_", "GMask_", "CeilLogTwo_")):
            continue
        lines.append("def %s : Int := %s" % (k, v if v >= 0 else "(%d)" % v))
    lines.append("")
    lines.append("def GShift : List Nat := [%s]" % ", ".join(str(vals["GShift_%d" % i]) for i in range(8)))
    lines.append("def GMask : List Nat := [%s]" % ", ".join(str(vals["GMask_%d" % i]) for i in range(8)))
    ks = sorted(int(k.split("_")[1]) for k in vals if k.startswith("CeilLogTwo_"))
    lines.append("/-- sampled values of `CeilLogTwo` (x, result) -/")
    lines.append("def CeilLogTwoSamples : List (Nat × Nat) := [%s]" % ", ".join("(%d, %d)" % (x, vals["CeilLogTwo_%d" % x]) for x in ks))
    lines += ["", "end Utcp.Gen", ""]
    text = "\n".join(lines)
    out = os.path.join(VERIF, "lean", "Utcp", "Gen", "Consts.lean")
    old = open(out).read() if os.path.exists(out) else None
    if old != text:
        open(out, "w").write(text)


if __name__ == "__main__":
    try:
        v = extract_consts()
    except ExtractError as e:
        print("extract: %s" % e, file=sys.stderr)
        sys.exit(2)
    write_lean(v)
    for nt in NOTES:
        print("extract: NOTE " + nt, file=sys.stderr)
    if "--snapshot" in sys.argv[1:]:
        if NOTES:
            print("extract: cannot take a snapshot while values are kept from the previous one", file=sys.stderr)
            sys.exit(2)
        json.dump(v, open(SNAPSHOT, "w"), indent=1, sort_keys=True)
    if len(sys.argv) > 1 and sys.argv[1] == "--print":
        print(json.dumps(v, indent=1, sort_keys=True))
