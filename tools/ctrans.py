#!/usr/bin/env python3
"""ctrans.py — translate the loop-free integer functions of dpull/utcp from clang's JSON AST into Lean
definitions over `Int` with explicit C integer semantics (casts become wraps, `& (2^k-1)` becomes
`% 2^k`, unsigned arithmetic wraps, signed arithmetic is exact — signed overflow is UB and is flagged
by the differential validation, not modelled).  Output: lean/Utcp/Gen/PureFns.lean.

Anything the translator does not understand makes it fail loudly (exit 2): the caller then reports the
dependent properties as no longer shown.
"""
import json
import os
import re
import subprocess
import sys

REPO = os.environ.get("UTCP_REPO", "/repo")
VERIF = os.path.dirname(os.path.dirname(os.path.abspath(__file__)))

# (function name, file, language, specialisation {param: C-constant-expression}, lean name)
TARGETS = [
    ("seq_num_init", "utcp/utcp_packet_notify.c", "c", {}, None),
    ("seq_num_greater_than", "utcp/utcp_packet_notify.c", "c", {}, None),
    ("seq_num_greater_equal", "utcp/utcp_packet_notify.c", "c", {}, None),
    ("seq_num_inc", "utcp/utcp_packet_notify.c", "c", {}, None),
    ("seq_num_diff", "utcp/utcp_packet_notify.c", "c", {}, None),
    ("packet_notify_delta_seq", "utcp/utcp_packet_notify.c", "c", {}, None),
    ("BestSignedDifference", "utcp/utcp_packet.c", "c", {"Max": "UTCP_MAX_CHSEQUENCE"}, "BestSignedDifference_chseq"),
    ("MakeRelative", "utcp/utcp_packet.c", "c", {"Max": "UTCP_MAX_CHSEQUENCE"}, "MakeRelative_chseq"),
    ("GetFreeSendBufferBits", "utcp/utcp_packet.c", "c", {}, None),
    ("utcp_send_would_block", "utcp/utcp.c", "c", {}, None),
    ("utcp_gettime_ms", "utcp/utcp.c", "c", {}, None),
    ("PackedHeader_Pack", "utcp/utcp_packet_notify.c", "c", {}, None),
    ("ClAMP", "utcp/utcp_packet_notify.c", "c", {}, None),
    ("MIN", "utcp/utcp_packet_notify.c", "c", {}, None),
    ("bits2bytes", "abstract/utcp.cpp", "c++", {}, None),
    ("num", "abstract/utcp.cpp", "c++", {}, "large_bunch_num"),
]

# call sites whose constant arguments justify a specialisation: (file, regex that must match)
CALLSITE_CHECKS = [
    ("utcp/utcp_packet.c", r"MakeRelative\(\s*utcp_bunch->ChSequence\s*,\s*utcp_channel->InReliable\s*,\s*UTCP_MAX_CHSEQUENCE\s*\)"),
    ("utcp/utcp_packet.c", r"return\s+Reference\s*\+\s*BestSignedDifference\(\s*Value\s*,\s*Reference\s*,\s*Max\s*\)"),
]


class TransError(Exception):
    pass


TYPES = {
    "int": (True, 32), "unsigned int": (False, 32), "short": (True, 16), "unsigned short": (False, 16),
    "long": (True, 64), "unsigned long": (False, 64), "long long": (True, 64), "unsigned long long": (False, 64),
    "char": (True, 8), "signed char": (True, 8), "unsigned char": (False, 8), "_Bool": (False, 1), "bool": (False, 1),
    "int32_t": (True, 32), "uint32_t": (False, 32), "int16_t": (True, 16), "uint16_t": (False, 16), "int64_t": (True, 64),
    "uint64_t": (False, 64), "size_t": (False, 64), "uint8_t": (False, 8), "int8_t": (True, 8),
}


def ctype(node):
    t = node.get("type") or {}
    q = t.get("desugaredQualType") or t.get("qualType") or ""
    q = q.replace("const ", "").replace("volatile ", "").strip()
    if q in TYPES:
        return TYPES[q]
    q2 = (t.get("qualType") or "").replace("const ", "").strip()
    if q2 in TYPES:
        return TYPES[q2]
    if q.startswith("enum ") or q2.startswith("enum ") or "(unnamed enum" in q or "(anonymous enum" in q:
        return (False, 32)
    raise TransError("unknown C type %r" % (t,))


def wrap_py(v, ty):
    signed, bits = ty
    if bits == 1:
        return 1 if v != 0 else 0
    m = 1 << bits
    v %= m
    if signed and v >= m // 2:
        v -= m
    return v


def wrap_lean(e, ty, src_ty=None):
    """Lean expression for converting Int expression e to C type ty."""
    signed, bits = ty
    if src_ty is not None:
        s_signed, s_bits = src_ty
        # value-preserving conversions need no wrap
        if (not s_signed and not signed and s_bits <= bits) or (s_signed and signed and s_bits <= bits) or (not s_signed and signed and s_bits < bits):
            return e
    if bits == 1:
        return "(if %s != 0 then 1 else 0)" % e
    m = 1 << bits
    if signed:
        return "((%s + %d) %% %d - %d)" % (e, m // 2, m, m // 2)
    return "(%s %% %d)" % (e, m)


class Val:
    """translated expression: either python constant (const) or Lean text; kind 'int' or 'bool'."""

    def __init__(self, text=None, const=None, kind="int"):
        self.text = text
        self.const = const
        self.kind = kind

    def lean(self):
        if self.const is not None:
            if self.kind == "bool":
                return "true" if self.const else "false"
            return str(self.const) if self.const >= 0 else "(%d)" % self.const
        return self.text

    def as_int(self):
        if self.kind == "int":
            return self
        if self.const is not None:
            return Val(const=1 if self.const else 0)
        return Val(text="(if %s then 1 else 0)" % self.text)

    def as_bool(self):
        if self.kind == "bool":
            return self
        if self.const is not None:
            return Val(const=self.const != 0, kind="bool")
        return Val(text="(%s != 0)" % self.text, kind="bool")


SIZEOF = {"int32_t": 4, "DifferenceType": 4, "int": 4, "uint32_t": 4, "uint16_t": 2, "size_t": 8, "SequenceHistoryWord": 4}


class Fn:
    def __init__(self, node, consts, spec, known, resolve=None):
        self.node = node
        self.resolve = resolve  # callable(name) -> None: translate a callee on demand (registers it in `known`)
        self.consts = consts  # enum constants name -> int
        self.spec = spec  # param -> int
        self.known = known  # translated function names -> (lean name, params)
        self.params = []
        self.extra_params = []  # member expressions read
        self.locals = {}
        self.ignored_locals = set()

    # ---------- expressions
    def expr(self, n):
        k = n["kind"]
        if k in ("ParenExpr", "ConstantExpr", "ExprWithCleanups", "CXXFunctionalCastExpr") and k != "CXXFunctionalCastExpr":
            return self.expr(n["inner"][0])
        if k == "IntegerLiteral":
            return Val(const=wrap_py(int(n["value"]), ctype(n)))
        if k == "CXXBoolLiteralExpr":
            return Val(const=bool(n["value"]), kind="bool")
        if k == "UnaryExprOrTypeTraitExpr":
            if n.get("name") != "sizeof":
                raise TransError("unsupported trait " + str(n.get("name")))
            at = (n.get("argType") or {}).get("qualType")
            if at is None and n.get("inner"):
                at = (n["inner"][0].get("type") or {}).get("qualType")
            at = (at or "").replace("const ", "")
            if at in SIZEOF:
                return Val(const=SIZEOF[at])
            if at in TYPES:
                return Val(const=TYPES[at][1] // 8)
            raise TransError("sizeof(%s) unknown" % at)
        if k == "DeclRefExpr":
            rd = n.get("referencedDecl") or {}
            name = rd.get("name")
            if rd.get("kind") == "EnumConstantDecl":
                if name not in self.consts:
                    raise TransError("enum constant %s has no extracted value" % name)
                return Val(const=self.consts[name])
            if name in self.spec:
                return Val(const=self.spec[name])
            if name in self.locals:
                return self.locals[name]
            if name in self.params:
                return Val(text=name)
            if rd.get("kind") == "VarDecl" and name in self.consts:
                return Val(const=self.consts[name])
            if rd.get("kind") == "VarDecl" and ("CXX_" + name) in self.consts:
                return Val(const=self.consts["CXX_" + name])
            raise TransError("reference to unknown declaration %s" % name)
        if k == "MemberExpr":
            name = n.get("name")
            if name not in self.extra_params:
                self.extra_params.append(name)
            return Val(text=name)
        if k in ("ImplicitCastExpr", "CStyleCastExpr", "CXXStaticCastExpr", "CXXFunctionalCastExpr"):
            ck = n.get("castKind")
            inner = n["inner"][-1]
            if ck in ("LValueToRValue", "NoOp", "FunctionToPointerDecay"):
                return self.expr(inner)
            v = self.expr(inner)
            if ck == "IntegralToBoolean":
                return v.as_bool()
            if ck in ("IntegralCast", "BooleanToSignedIntegral"):
                dst = ctype(n)
                try:
                    src = ctype(inner)
                except TransError:
                    src = None
                v = v.as_int()
                if v.const is not None:
                    return Val(const=wrap_py(v.const, dst))
                if dst[1] == 1:
                    return Val(text="(%s != 0)" % v.text, kind="bool")
                return Val(text=wrap_lean(v.text, dst, src))
            raise TransError("unsupported cast kind %s" % ck)
        if k == "UnaryOperator":
            op = n["opcode"]
            v = self.expr(n["inner"][0])
            if op == "!":
                b = v.as_bool()
                if b.const is not None:
                    return Val(const=not b.const, kind="bool")
                return Val(text="(!%s)" % b.text, kind="bool")
            if op == "-":
                i = v.as_int()
                ty = ctype(n)
                if i.const is not None:
                    return Val(const=wrap_py(-i.const, ty))
                t = "(-%s)" % i.text
                return Val(text=t if ty[0] else wrap_lean(t, ty))
            if op == "+":
                return v
            raise TransError("unsupported unary operator " + op)
        if k == "ConditionalOperator":
            c = self.expr(n["inner"][0]).as_bool()
            a = self.expr(n["inner"][1])
            b = self.expr(n["inner"][2])
            if a.kind != b.kind:
                a, b = a.as_int(), b.as_int()
            if c.const is not None:
                return a if c.const else b
            return Val(text="(if %s then %s else %s)" % (c.lean(), a.lean(), b.lean()), kind=a.kind)
        if k == "CallExpr":
            callee = n["inner"][0]
            while callee["kind"] in ("ImplicitCastExpr", "ParenExpr"):
                callee = callee["inner"][0]
            cname = (callee.get("referencedDecl") or {}).get("name")
            if cname not in self.known and self.resolve is not None:
                self.resolve(cname)
            if cname not in self.known:
                raise TransError("call to untranslated function %s" % cname)
            lname, cparams, ckind, cspec, _full = self.known[cname]
            args = [self.expr(a) for a in n["inner"][1:]]
            # drop arguments that were specialised away in the callee; they must agree
            actual = []
            orig = _full
            for p, a in zip(orig, args):
                if p in cspec:
                    if a.const is None or a.const != cspec[p]:
                        raise TransError("call to %s passes non-matching value for specialised parameter %s" % (cname, p))
                else:
                    actual.append(a.as_int().lean() if True else None)
            return Val(text="(%s %s)" % (lname, " ".join(actual)), kind=ckind)
        if k == "BinaryOperator":
            return self.binop(n)
        raise TransError("unsupported expression kind %s" % k)

    def binop(self, n):
        op = n["opcode"]
        a = self.expr(n["inner"][0])
        b = self.expr(n["inner"][1])
        if op in ("&&", "||"):
            a, b = a.as_bool(), b.as_bool()
            if a.const is not None and b.const is not None:
                return Val(const=(a.const and b.const) if op == "&&" else (a.const or b.const), kind="bool")
            return Val(text="(%s %s %s)" % (a.lean(), op, b.lean()), kind="bool")
        if op in ("<", "<=", ">", ">=", "==", "!="):
            a, b = a.as_int(), b.as_int()
            if a.const is not None and b.const is not None:
                return Val(const=eval("%d %s %d" % (a.const, op, b.const)), kind="bool")
            lop = {"==": "==", "!=": "!="}.get(op, op)
            if op in ("==", "!="):
                return Val(text="(%s %s %s)" % (a.lean(), lop, b.lean()), kind="bool")
            return Val(text="(decide (%s %s %s))" % (a.lean(), op, b.lean()), kind="bool")
        ty = ctype(n)
        a, b = a.as_int(), b.as_int()
        signed, bits = ty
        if a.const is not None and b.const is not None:
            x, y = a.const, b.const
            if op == "+":
                r = x + y
            elif op == "-":
                r = x - y
            elif op == "*":
                r = x * y
            elif op == "/":
                if y == 0:
                    raise TransError("constant division by zero")
                r = abs(x) // abs(y) * (1 if (x >= 0) == (y >= 0) else -1)
            elif op == "%":
                r = x - y * (abs(x) // abs(y) * (1 if (x >= 0) == (y >= 0) else -1))
            elif op == "&":
                r = x & y
            elif op == "|":
                r = x | y
            elif op == "^":
                r = x ^ y
            elif op == "<<":
                r = x << y
            elif op == ">>":
                r = x >> y
            else:
                raise TransError("unsupported operator " + op)
            return Val(const=wrap_py(r, ty))
        al, bl = a.lean(), b.lean()
        if op in ("+", "-", "*"):
            t = "(%s %s %s)" % (al, op, bl)
            return Val(text=t if signed else wrap_lean(t, ty))
        if op == "/":
            if b.const is not None and b.const > 0 and not signed:
                return Val(text="(%s / %d)" % (al, b.const))
            return Val(text="(Int.tdiv %s %s)" % (al, bl))
        if op == "%":
            if b.const is not None and b.const > 0 and not signed:
                return Val(text="(%s %% %d)" % (al, b.const))
            return Val(text="(Int.tmod %s %s)" % (al, bl))
        if op == "&":
            for x, y in ((a, b), (b, a)):
                if y.const is not None and y.const >= 0 and (y.const & (y.const + 1)) == 0:
                    # mask 2^k - 1: two's complement AND == Euclidean remainder
                    return Val(text="(%s %% %d)" % (x.lean(), y.const + 1))
            if signed:
                raise TransError("bitwise & of signed operands")
            return Val(text="((Int.toNat %s &&& Int.toNat %s : Nat) : Int)" % (al, bl))
        if op == "|":
            # core Lean has no bitwise operations on Int: unsigned operands are non-negative here, so go through Nat
            if signed:
                raise TransError("bitwise | of signed operands")
            return Val(text="((Int.toNat %s ||| Int.toNat %s : Nat) : Int)" % (al, bl))
        if op == "^":
            if signed:
                raise TransError("bitwise ^ of signed operands")
            return Val(text="((Int.toNat %s ^^^ Int.toNat %s : Nat) : Int)" % (al, bl))
        if op == "<<":
            if b.const is None or not (0 <= b.const < bits):
                raise TransError("shift by non-constant / out-of-range amount")
            t = "(%s * %d)" % (al, 1 << b.const)
            if signed:
                raise TransError("left shift of a signed operand (undefined for negative values)")
            return Val(text=wrap_lean(t, ty))
        if op == ">>":
            if b.const is None or not (0 <= b.const < bits):
                raise TransError("shift by non-constant / out-of-range amount")
            # arithmetic shift of a signed value == floor division (gcc/clang behaviour)
            return Val(text="(%s / %d)" % (al, 1 << b.const))
        raise TransError("unsupported operator " + op)

    # ---------- statements (continuation style)
    def assigned_vars(self, stmts):
        out = []
        for s in stmts:
            k = s["kind"]
            if k in ("BinaryOperator", "CompoundAssignOperator") and (s["opcode"] == "=" or k == "CompoundAssignOperator"):
                lhs = s["inner"][0]
                if lhs["kind"] == "DeclRefExpr":
                    nm = lhs["referencedDecl"]["name"]
                    if nm not in out:
                        out.append(nm)
            elif k == "CompoundStmt":
                for v in self.assigned_vars(s.get("inner", [])):
                    if v not in out:
                        out.append(v)
        return out

    def returns(self, stmts):
        for s in stmts:
            if s["kind"] == "ReturnStmt":
                return True
            if s["kind"] == "CompoundStmt" and self.returns(s.get("inner", [])):
                return True
            if s["kind"] == "IfStmt":
                inner = s["inner"]
                if len(inner) == 3 and self.returns([inner[1]]) and self.returns([inner[2]]):
                    return True
        return False

    def block(self, stmts, tail=None):
        """translate a statement list to a Lean expression text; `tail` = tuple expression to yield if no return."""
        if not stmts:
            if tail is None:
                raise TransError("control reaches end of non-void function")
            return tail()
        s, rest = stmts[0], stmts[1:]
        k = s["kind"]
        if k == "CompoundStmt":
            return self.block(s.get("inner", []) + rest, tail)
        if k == "NullStmt":
            return self.block(rest, tail)
        if k == "ReturnStmt":
            v = self.expr(s["inner"][0])
            self.ret_kind_seen = v.kind
            return v.lean() if self.ret_kind == v.kind else (v.as_bool().lean() if self.ret_kind == "bool" else v.as_int().lean())
        if k == "DeclStmt":
            for d in s["inner"]:
                if d["kind"] != "VarDecl":
                    raise TransError("unsupported declaration")
                name = d["name"]
                init = d.get("inner", [None])[-1] if d.get("inner") else None
                if init is None:
                    # declared now, assigned later (typically in both branches of the next `if`): nothing to bind yet
                    continue
                q = (d.get("type") or {}).get("qualType", "")
                if "*" in q:
                    self.ignored_locals.add(name)  # pointer locals (e.g. config pointer): members read through them become parameters
                    continue
                v = self.expr(init)
                if v.const is not None:
                    self.locals[name] = v
                else:
                    self.locals[name] = Val(text=name, kind=v.kind)
                    body = self.block(rest, tail)
                    return "(let %s := %s; %s)" % (name, v.lean(), body)
            return self.block(rest, tail)
        if k in ("BinaryOperator", "CompoundAssignOperator") and (s.get("opcode") == "=" or k == "CompoundAssignOperator"):
            lhs = s["inner"][0]
            if lhs["kind"] != "DeclRefExpr":
                raise TransError("assignment to non-local")
            name = lhs["referencedDecl"]["name"]
            if k == "CompoundAssignOperator":
                op = s["opcode"][:-1]
                fake = {"kind": "BinaryOperator", "opcode": op, "type": s.get("computeResultType", s["type"]), "inner": [
                    {"kind": "ImplicitCastExpr", "castKind": "LValueToRValue", "type": lhs["type"], "inner": [lhs]}, s["inner"][1]]}
                v = self.expr(fake)
            else:
                v = self.expr(s["inner"][1])
            if v.const is not None:
                self.locals[name] = v
                return self.block(rest, tail)
            self.locals[name] = Val(text=name, kind=v.kind)
            return "(let %s := %s; %s)" % (name, v.lean(), self.block(rest, tail))
        if k == "IfStmt":
            inner = s["inner"]
            c = self.expr(inner[0]).as_bool()
            thn = [inner[1]]
            els = [inner[2]] if len(inner) > 2 else []
            if self.returns(thn) and (not els or self.returns(els)):
                saved = dict(self.locals)
                a = self.block(thn, None)
                self.locals = dict(saved)
                b = self.block(els + rest, tail) if not (els and self.returns(els)) else self.block(els, None)
                if c.const is not None:
                    return a if c.const else b
                return "(if %s then %s else %s)" % (c.lean(), a, b)
            # pure assignment branches: merge the assigned variables
            vars_ = self.assigned_vars(thn + els)
            if not vars_:
                return self.block(rest, tail)
            saved = dict(self.locals)

            def tup():
                for v in vars_:
                    if v not in self.locals:
                        raise TransError("local %s is not assigned on every path" % v)
                return "(" + ", ".join(self.locals[v].lean() for v in vars_) + ")" if len(vars_) > 1 else (self.locals[vars_[0]].lean())

            a = self.block(thn, tup)
            self.locals = dict(saved)
            b = self.block(els, tup)
            self.locals = dict(saved)
            for v in vars_:
                self.locals[v] = Val(text=v)
            pat = "(" + ", ".join(vars_) + ")" if len(vars_) > 1 else vars_[0]
            cond = c.lean()
            return "(let %s := (if %s then %s else %s); %s)" % (pat, cond, a, b, self.block(rest, tail))
        if k in ("CallExpr", "CStyleCastExpr", "ParenExpr", "ConditionalOperator"):
            # expression statement without effect on locals (e.g. an `assert` compiled out)
            return self.block(rest, tail)
        raise TransError("unsupported statement kind %s" % k)

    def translate(self, lean_name):
        n = self.node
        body = None
        self.params_full = []
        for c in n.get("inner", []):
            if c["kind"] == "ParmVarDecl":
                self.params_full.append(c["name"])
                if c["name"] not in self.spec:
                    q = (c.get("type") or {}).get("qualType", "")
                    if "*" in q:
                        continue  # pointer parameter (fd): fields read through it become parameters
                    self.params.append(c["name"])
            elif c["kind"] == "CompoundStmt":
                body = c
        if body is None:
            raise TransError("no body")
        rq = (n.get("type") or {}).get("qualType", "")
        rtype = rq.split("(")[0].strip()
        self.ret_kind = "bool" if rtype in ("bool", "_Bool") else "int"
        text = self.block(body.get("inner", []))
        params = self.params + self.extra_params
        sig = " ".join(params)
        rt = "Bool" if self.ret_kind == "bool" else "Int"
        hdr = "def %s %s: %s :=\n  %s\n" % (lean_name, ("(" + sig + " : Int) ") if params else "", rt, text)
        return hdr, params


def load_ast(path, lang, fname):
    std = ["-std=gnu11"] if lang == "c" else ["-x", "c++", "-std=gnu++17"]
    cmd = ["clang-14" if lang == "c" else "clang++-14"] + std + ["-DNDEBUG", "-w", "-I" + REPO, "-I" + os.path.join(REPO, "utcp"), "-fsyntax-only",
                                                                 "-Xclang", "-ast-dump=json", "-Xclang", "-ast-dump-filter=" + fname, os.path.join(REPO, path)]
    p = subprocess.run(cmd, stdout=subprocess.PIPE, stderr=subprocess.PIPE, text=True)
    txt = p.stdout
    dec = json.JSONDecoder()
    i = 0
    docs = []
    while i < len(txt):
        while i < len(txt) and txt[i] in " \n\r\t":
            i += 1
        if i >= len(txt):
            break
        if txt[i] != "{":
            j = txt.find("\n", i)
            i = j + 1 if j >= 0 else len(txt)
            continue
        d, j = dec.raw_decode(txt, i)
        docs.append(d)
        i = j
    cands = [d for d in docs if d.get("kind") in ("FunctionDecl", "CXXMethodDecl") and d.get("name") == fname and any(c.get("kind") == "CompoundStmt" for c in d.get("inner", []))]
    if not cands:
        raise TransError("function %s not found in %s (clang: %s)" % (fname, path, p.stderr[-300:]))
    return cands[-1]


SNAPSHOT = os.path.join(os.path.dirname(os.path.abspath(__file__)), "purefns_snapshot.json")


def find_renamed(path, lang, fname, lean_name, spec_v, snap_entry, consts, known, resolve):
    """the function of `path` that is `fname` under another name: same number of parameters and a translation identical to the snapshot's"""
    if snap_entry is None:
        raise TransError("function %s not found in %s" % (fname, path))
    src = open(os.path.join(REPO, path), encoding="utf-8-sig", errors="replace").read()
    arity = len(snap_entry["params_full"])
    cands = []
    for m in re.finditer(r"^[A-Za-z_][\w\s\*:<>]*?\b([A-Za-z_]\w*)\s*\(([^;{}()]*)\)\s*(?:const\s*)?\{", src, re.M):
        nme, plist = m.group(1), m.group(2).strip()
        n = 0 if plist in ("", "void") else plist.count(",") + 1
        if n == arity and nme not in cands and nme not in ("if", "for", "while", "switch", "return", "sizeof"):
            cands.append(nme)
    for cand in cands:
        if cand in known or cand == fname:
            continue
        try:
            node = load_ast(path, lang, cand)
            saved = dict(known)
            fn = Fn(node, consts, spec_v, known, None)
            text, params = fn.translate(lean_name)
            known.clear()
            known.update(saved)
            if text == snap_entry["text"]:
                return cand, node
        except TransError:
            continue
    raise TransError("function %s not found in %s (and no function of that file translates to its snapshot definition)" % (fname, path))


def translate_all(consts, snapshot=None):
    """returns (defs, meta, failed, notes): defs = [(lean name, text, is_aux)], failed = {C name: reason}.
    A target that cannot be translated does not stop the others; callers of it are translated against its snapshot signature."""
    notes = []
    for path, rx in CALLSITE_CHECKS:
        src = open(os.path.join(REPO, path), encoding="utf-8-sig", errors="replace").read()
        if not re.search(rx, src):
            notes.append("the call site that justifies a specialisation is no longer found textually (%s in %s): the specialised parameter value is tied by the correspondence runs only" % (rx, path))
    snap = {e["c"]: e for e in (snapshot or [])}
    known = {}
    defs = []
    meta = []
    failed = {}
    by_name = {t[0]: t for t in TARGETS}
    done = set()

    def do_target(fname):
        if fname in done:
            return
        done.add(fname)
        _, path, lang, spec, lname = by_name[fname]
        lean_name = lname or fname
        aux_before = len(defs)

        def resolve(cname, path=path, lang=lang):
            if cname in known:
                return
            if cname in by_name:
                do_target(cname)   # a target that is defined further down in the list
                return
            node = load_ast(path, lang, cname)
            f2 = Fn(node, consts, {}, known, resolve)
            t2, p2 = f2.translate(cname)
            known[cname] = (cname, p2, f2.ret_kind, {}, f2.params_full)
            defs.append((cname, t2, True))
        try:
            spec_v = {}
            for p, cexpr in spec.items():
                if cexpr not in consts:
                    raise TransError("specialisation constant %s not extracted" % cexpr)
                spec_v[p] = consts[cexpr]
            c_now = fname
            try:
                node = load_ast(path, lang, fname)
            except TransError:
                # not found under its name: a function of the same file whose translation is, word for word, the snapshot's is the same
                # function under a new name
                c_now, node = find_renamed(path, lang, fname, lean_name, spec_v, snap.get(fname), consts, known, resolve)
                notes.append("%s is no longer defined in %s; %s translates to the same definition and is taken for it" % (fname, path, c_now))
            fn = Fn(node, consts, spec_v, known, resolve)
            text, params = fn.translate(lean_name)
            known[fname] = (lean_name, params, fn.ret_kind, spec_v, fn.params_full)
            known[c_now] = known[fname]
            defs.append((lean_name, text, False))
            meta.append({"c": fname, "c_now": c_now, "lean": lean_name, "file": path, "params": params, "ret": fn.ret_kind, "spec": spec_v, "params_full": fn.params_full, "text": text})
        except TransError as e:
            failed[fname] = str(e)
            if fname in snap:
                se = snap[fname]
                known[fname] = (se["lean"], se["params"], se["ret"], se["spec"], se["params_full"])

    for t in TARGETS:
        do_target(t[0])
    order = {t[0]: i for i, t in enumerate(TARGETS)}
    meta.sort(key=lambda m: order[m["c"]])
    return defs, meta, failed, notes


EQUIV_TACTIC = """  intros
  first
    | rfl
    | (simp only [%(defs)s]; done)
    | (simp only [%(defs)s]; omega)
    | (simp only [%(defs)s]; split <;> (try split) <;> (try split) <;> omega)
    | (simp only [%(defs)s, Bool.and_eq_true, bne_iff_ne, decide_eq_true_eq, Bool.or_eq_true, beq_iff_eq]; rw [Bool.eq_iff_iff]; simp only [Bool.and_eq_true, bne_iff_ne, decide_eq_true_eq, Bool.or_eq_true, beq_iff_eq, ne_eq]; omega)
    | (simp only [%(defs)s]; grind)"""


def compose(defs, meta, failed, notes, snapshot):
    """the generated file: the definitions the theorems are stated for (= the snapshot of the last translation they were checked
    against), and - where today's translation of the current source reads differently - today's definitions in `namespace Regen`
    together with a machine-checked proof that they are the same functions.  A target the translator cannot handle today keeps its
    snapshot definition; its tie to the code is then the differential validation (tools/transval.py) alone."""
    snap = {e["c"]: e for e in snapshot}
    new = {m["c"]: m for m in meta}
    out = ["/- GENERATED by tools/ctrans.py from the C sources in /repo — do not edit; regenerated on every run. -/", "namespace Utcp.Gen", ""]
    for e in snapshot:
        out.append(e["text"])
    changed = []
    for fname, _, _, _, _ in TARGETS:
        if fname in new and fname in snap and new[fname]["text"] != snap[fname]["text"]:
            if sorted(new[fname]["params"]) != sorted(snap[fname]["params"]) or new[fname]["ret"] != snap[fname]["ret"]:
                failed[fname] = "the translated signature changed (%s -> %s)" % (snap[fname]["params"], new[fname]["params"])
            else:
                changed.append(fname)
    for fname in failed:
        notes.append("%s: the translator cannot handle the current source text (%s); the definition the theorems use is the last translated one and its tie to the code is the differential validation of this run" % (fname, failed[fname]))
    if changed:
        out.append("/-! today's translation reads differently for: %s -/" % ", ".join(changed))
        out.append("set_option linter.unusedSimpArgs false\nnamespace Regen\n")
        names = []
        failed_lean = {snap[f]["lean"] for f in failed if f in snap}
        for lean_name, text, is_aux in defs:
            if lean_name in failed_lean:
                continue
            out.append(text)
            names.append(lean_name)
        for fname in failed:
            if fname in snap:
                out.append(snap[fname]["text"])
                names.append(snap[fname]["lean"])
        out.append("end Regen\n")
        alldefs = ", ".join(["Regen." + nme for nme in names] + [e["lean"] for e in snapshot])
        for fname in changed:
            m = new[fname]
            ps = snap[fname]["params"]
            binder = ("(" + " ".join(ps) + " : Int) ") if ps else ""
            out.append("/-- today's translation of `%s` is the function the theorems are about -/" % fname)
            out.append("theorem regen_%s %s: Regen.%s %s = %s %s := by\n%s\n" % (m["lean"], binder, m["lean"], " ".join(m["params"]), m["lean"], " ".join(ps), EQUIV_TACTIC % {"defs": alldefs}))
            notes.append("%s: today's translation of the current source reads differently from the definition the theorems were written for; theorem Utcp.Gen.regen_%s (checked this run) shows they are the same function" % (fname, m["lean"]))
    out.append("end Utcp.Gen\n")
    return "\n".join(out)


def main():
    sys.path.insert(0, os.path.dirname(os.path.abspath(__file__)))
    import extract
    consts = extract.extract_consts()
    snapshot = json.load(open(SNAPSHOT)) if os.path.exists(SNAPSHOT) else None
    defs, meta, failed, notes = translate_all(consts, snapshot)
    if "--snapshot" in sys.argv[1:]:
        if failed:
            print("ctrans: cannot take a snapshot, untranslatable: %s" % failed, file=sys.stderr)
            sys.exit(2)
        json.dump(meta, open(SNAPSHOT, "w"), indent=1)
        snapshot = meta
    if snapshot is None:
        print("ctrans: no snapshot (tools/purefns_snapshot.json); run ctrans.py --snapshot on a tree the proofs were checked against", file=sys.stderr)
        sys.exit(2)
    missing = [f for f in failed if f not in {e["c"] for e in snapshot}]
    if missing:
        print("ctrans: cannot translate: %s" % {f: failed[f] for f in missing}, file=sys.stderr)
        sys.exit(2)
    if "--direct" in sys.argv[1:]:
        # second chance after an equivalence theorem did not go through: today's translations ARE the definitions (targets the
        # translator cannot handle keep their snapshot text); the property theorems are then re-checked against them directly
        today = {m["c"]: m for m in meta}
        snapshot = [today.get(e["c"], e) for e in snapshot]
        aux = [(nme, t) for nme, t, is_aux in defs if is_aux]
        text = compose([], [], failed, notes, snapshot)
        if aux:
            text = text.replace("namespace Utcp.Gen\n", "namespace Utcp.Gen\n\n" + "\n".join(t for _, t in aux), 1)
        notes.append("the generated definitions are today's translations (direct mode)")
    else:
        text = compose(defs, meta, failed, notes, snapshot)
    out = os.path.join(VERIF, "lean", "Utcp", "Gen", "PureFns.lean")
    if "--print" in sys.argv[1:]:
        print(text)
        return
    old = open(out).read() if os.path.exists(out) else None
    if old != text:
        open(out, "w").write(text)
    os.makedirs(os.path.join(VERIF, "build"), exist_ok=True)
    today_names = {m_["c"]: m_.get("c_now", m_["c"]) for m_ in meta}
    json.dump([dict({k: v for k, v in e.items() if k != "text"}, c_now=today_names.get(e["c"], e["c"])) for e in snapshot],
              open(os.path.join(VERIF, "build", "purefns.meta.json"), "w"), indent=1)
    json.dump(notes, open(os.path.join(VERIF, "build", "regen_notes_ctrans.json"), "w"), indent=1)
    for nt in notes:
        print("ctrans: NOTE " + nt, file=sys.stderr)


if __name__ == "__main__":
    main()
