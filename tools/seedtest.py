#!/usr/bin/env python3
"""seedtest.py — confirm a seeded change (patch + demonstration) in its scratch worktree, then apply it to /repo, run the
registered quick checks, undo it, and report which checks raised an alarm.

usage: seedtest.py confirm <worktree>            (build + tests + demo with / without the change)
       seedtest.py detect <patch.diff> [props…]  (apply to /repo, run checks, undo)"""
import concurrent.futures
import glob
import json
import os
import re
import subprocess
import sys
import time

VERIF = os.path.dirname(os.path.dirname(os.path.abspath(__file__)))
REPO = os.environ.get("UTCP_REPO", "/repo")


def sh(cmd, cwd=None, timeout=1800):
    p = subprocess.run(cmd, shell=True, cwd=cwd, stdout=subprocess.PIPE, stderr=subprocess.STDOUT, text=True, timeout=timeout)
    return p.returncode, p.stdout


def confirm(wt):
    out = {}
    rc, o = sh("cmake --build _build 2>&1 | tail -2 && ctest --test-dir _build/test -j8 2>&1 | tail -4", cwd=wt)
    out["tests_with_change"] = "100% tests passed" in o
    demo = (glob.glob(os.path.join(wt, "OUT", "demo.cpp")) + glob.glob(os.path.join(wt, "OUT", "demo.c")))[0]
    exe = os.path.join(wt, "OUT", "demo_bin")

    def build_demo():
        if demo.endswith(".c"):
            cmd = "gcc -std=gnu11 -w -I %s -I %s/utcp %s %s/_build/utcp/libutcp.a -o %s" % (wt, wt, demo, wt, exe)
        else:
            cmd = "g++ -std=gnu++17 -w -I %s -I %s/utcp %s %s/_build/abstract/libabstract.a %s/_build/utcp/libutcp.a -o %s" % (wt, wt, demo, wt, wt, exe)
        return sh(cmd, cwd=wt)
    rc, o = build_demo()
    out["demo_builds"] = rc == 0
    rc1, o1 = sh(exe + " 2>&1 | tail -3", cwd=wt, timeout=300)
    rc1 = subprocess.run([exe], cwd=wt, stdout=subprocess.DEVNULL, stderr=subprocess.DEVNULL, timeout=300).returncode
    out["demo_with_change_rc"] = rc1
    # NB: never `git stash` here — the stash is shared by all worktrees of a repository
    pf = os.path.join(wt, "OUT", "_confirm.patch")
    rc, diff = sh("git diff -- utcp abstract", cwd=wt)
    open(pf, "w").write(diff)
    out["files_changed"] = re.findall(r"^diff --git a/(\S+)", diff, re.M)
    sh("git apply -R %s" % pf, cwd=wt)
    try:
        sh("cmake --build _build 2>&1 | tail -1", cwd=wt)
        build_demo()
        rc0 = subprocess.run([exe], cwd=wt, stdout=subprocess.DEVNULL, stderr=subprocess.DEVNULL, timeout=300).returncode
        out["demo_without_change_rc"] = rc0
        rc, o = sh("ctest --test-dir _build/test -j8 2>&1 | tail -4", cwd=wt)
        out["tests_without_change"] = "100% tests passed" in o
    finally:
        sh("git apply %s" % pf, cwd=wt)
        os.remove(pf)
        sh("cmake --build _build 2>&1 | tail -1", cwd=wt)
    out["confirmed"] = bool(out["tests_with_change"] and out["demo_builds"] and out["demo_with_change_rc"] != 0 and out.get("demo_without_change_rc") == 0)
    return out


def run_check(prop, seed=1):
    t = time.time()
    env = dict(os.environ)
    env["VERIF_SEED"] = str(seed)
    env["VERIF_EVIDENCE_DIR"] = os.path.join(VERIF, "build", "evidence-seeded")
    p = subprocess.run([sys.executable, os.path.join(VERIF, "tools", "check.py"), prop, "--tier", "quick"], cwd=VERIF, stdout=subprocess.PIPE, stderr=subprocess.STDOUT, text=True, env=env)
    viol = [l for l in p.stdout.splitlines() if l.startswith("VIOLATION")]
    return prop, p.returncode, viol, time.time() - t, p.stdout[-600:]


def detect(patch, props):
    rc, o = sh("git -C %s status --porcelain -- utcp abstract" % REPO)
    if o.strip():
        print("refusing: /repo has uncommitted changes:\n" + o)
        sys.exit(2)
    rc, o = sh("git -C %s apply %s" % (REPO, patch))
    if rc != 0:
        print("patch does not apply: " + o)
        return None
    res = {}
    try:
        with concurrent.futures.ThreadPoolExecutor(max_workers=3) as ex:
            for prop, rc, viol, dt, tail in ex.map(run_check, props):
                res[prop] = {"rc": rc, "violations": viol, "wall_s": round(dt, 1)}
                kind = "-"
                if viol:
                    kind = "no-failing-input-found" if viol[0].endswith("no-failing-input-found") else "WITNESS"
                print("  %s rc=%d %s %.0fs" % (prop, rc, kind, dt), flush=True)
    finally:
        sh("git -C %s checkout -- ." % REPO)
    return res


def store(wt, sid, change, needs):
    """copy a confirmed change from its scratch worktree into seeded/<sid>/"""
    import shutil
    c = confirm(wt)
    if not c["confirmed"]:
        print("NOT CONFIRMED: " + json.dumps(c))
        sys.exit(1)
    d = os.path.join(VERIF, "seeded", sid)
    os.makedirs(d, exist_ok=True)
    rc, diff = sh("git diff -- utcp abstract", cwd=wt)
    open(os.path.join(d, "patch.diff"), "w").write(diff)
    demo = (glob.glob(os.path.join(wt, "OUT", "demo.cpp")) + glob.glob(os.path.join(wt, "OUT", "demo.c")))[0]
    shutil.copy(demo, os.path.join(d, os.path.basename(demo)))
    for r in ("README.md", "README.txt", "NOTES.md"):
        if os.path.exists(os.path.join(wt, "OUT", r)):
            shutil.copy(os.path.join(wt, "OUT", r), os.path.join(d, "README.agent.md"))
    meta = {"id": sid, "breaks_property": sid.split("-")[0], "change": change, "needs_to_manifest": needs,
            "written_by": "fresh sub-agent given only the property text, a note which mechanism an earlier change already used, and its own scratch worktree of /repo",
            "confirmed_by_me": {"how": "python3 tools/seedtest.py confirm <worktree>: cmake --build + ctest (26/26 pass with the change), demo built against the changed libraries exits non-zero; git stash + rebuild: demo exits 0 and 26/26 pass", "result": "confirmed", "detail": c},
            "files": {"patch": "patch.diff", "demonstration": os.path.basename(demo), "agent_notes": "README.agent.md"},
            "detected_by": {}}
    json.dump(meta, open(os.path.join(d, "meta.json"), "w"), indent=1)
    print("stored " + d)


if __name__ == "__main__":
    if sys.argv[1] == "confirm":
        print(json.dumps(confirm(sys.argv[2]), indent=1))
    elif sys.argv[1] == "store":
        store(sys.argv[2], sys.argv[3], sys.argv[4], sys.argv[5])
    else:
        props = sys.argv[3:] or ["C%02d" % i for i in range(1, 21)]
        r = detect(sys.argv[2], props)
        print(json.dumps(r, indent=1))
