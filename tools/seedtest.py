#!/usr/bin/env python3
"""seedtest.py — confirm a seeded change (patch + demonstration) in its scratch worktree, then apply it to /repo, run the
registered quick checks, undo it, and report which checks raised an alarm.

usage: seedtest.py confirm <worktree>            (build + tests + demo with / without the change)
       seedtest.py detect <patch.diff> [props…]  (apply to /repo, run checks, undo)"""
import concurrent.futures
import glob
import json
import os
import re
import subprocess
import sys
import time

VERIF = os.path.dirname(os.path.dirname(os.path.abspath(__file__)))
REPO = "/repo"


def sh(cmd, cwd=None, timeout=1800):
    p = subprocess.run(cmd, shell=True, cwd=cwd, stdout=subprocess.PIPE, stderr=subprocess.STDOUT, text=True, timeout=timeout)
    return p.returncode, p.stdout


def confirm(wt):
    out = {}
    rc, o = sh("cmake --build _build 2>&1 | tail -2 && ctest --test-dir _build/test -j8 2>&1 | tail -4", cwd=wt)
    out["tests_with_change"] = "100% tests passed" in o
    demo = (glob.glob(os.path.join(wt, "OUT", "demo.cpp")) + glob.glob(os.path.join(wt, "OUT", "demo.c")))[0]
    exe = os.path.join(wt, "OUT", "demo_bin")

    def build_demo():
        if demo.endswith(".c"):
            cmd = "gcc -std=gnu11 -w -I %s -I %s/utcp %s %s/_build/utcp/libutcp.a -o %s" % (wt, wt, demo, wt, exe)
        else:
            cmd = "g++ -std=gnu++17 -w -I %s -I %s/utcp %s %s/_build/abstract/libabstract.a %s/_build/utcp/libutcp.a -o %s" % (wt, wt, demo, wt, wt, exe)
        return sh(cmd, cwd=wt)
    rc, o = build_demo()
    out["demo_builds"] = rc == 0
    rc1, o1 = sh(exe + " 2>&1 | tail -3", cwd=wt, timeout=300)
    rc1 = subprocess.run([exe], cwd=wt, stdout=subprocess.DEVNULL, stderr=subprocess.DEVNULL, timeout=300).returncode
    out["demo_with_change_rc"] = rc1
    sh("git stash -q -- utcp abstract", cwd=wt)
    try:
        sh("cmake --build _build 2>&1 | tail -1", cwd=wt)
        build_demo()
        rc0 = subprocess.run([exe], cwd=wt, stdout=subprocess.DEVNULL, stderr=subprocess.DEVNULL, timeout=300).returncode
        out["demo_without_change_rc"] = rc0
        rc, o = sh("ctest --test-dir _build/test -j8 2>&1 | tail -4", cwd=wt)
        out["tests_without_change"] = "100% tests passed" in o
    finally:
        sh("git stash pop -q", cwd=wt)
        sh("cmake --build _build 2>&1 | tail -1", cwd=wt)
    out["confirmed"] = bool(out["tests_with_change"] and out["demo_builds"] and out["demo_with_change_rc"] != 0 and out.get("demo_without_change_rc") == 0)
    return out


def run_check(prop, seed=1):
    t = time.time()
    env = dict(os.environ)
    env["VERIF_SEED"] = str(seed)
    p = subprocess.run([sys.executable, os.path.join(VERIF, "tools", "check.py"), prop, "--tier", "quick"], cwd=VERIF, stdout=subprocess.PIPE, stderr=subprocess.STDOUT, text=True, env=env)
    viol = [l for l in p.stdout.splitlines() if l.startswith("VIOLATION")]
    return prop, p.returncode, viol, time.time() - t, p.stdout[-600:]


def detect(patch, props):
    rc, o = sh("git -C /repo status --porcelain -- utcp abstract")
    if o.strip():
        print("refusing: /repo has uncommitted changes:\n" + o)
        sys.exit(2)
    rc, o = sh("git -C /repo apply %s" % patch)
    if rc != 0:
        print("patch does not apply: " + o)
        return None
    res = {}
    try:
        with concurrent.futures.ThreadPoolExecutor(max_workers=3) as ex:
            for prop, rc, viol, dt, tail in ex.map(run_check, props):
                res[prop] = {"rc": rc, "violations": viol, "wall_s": round(dt, 1)}
                kind = "-"
                if viol:
                    kind = "no-failing-input-found" if viol[0].endswith("no-failing-input-found") else "WITNESS"
                print("  %s rc=%d %s %.0fs" % (prop, rc, kind, dt), flush=True)
    finally:
        sh("git -C /repo checkout -- .")
    return res


if __name__ == "__main__":
    if sys.argv[1] == "confirm":
        print(json.dumps(confirm(sys.argv[2]), indent=1))
    else:
        props = sys.argv[3:] or ["C%02d" % i for i in range(1, 21)]
        r = detect(sys.argv[2], props)
        print(json.dumps(r, indent=1))
