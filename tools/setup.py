#!/usr/bin/env python3
"""setup: build everything the checks share, offline, from files on disk: generated Lean sources, the Lean library with all
theorem files, the model driver, and the harness for the current /repo tree."""
import os, subprocess, sys
HERE = os.path.dirname(os.path.abspath(__file__))
sys.path.insert(0, HERE)
import buildlib
VERIF = buildlib.VERIF
def run(cmd, **kw):
    print("+", " ".join(cmd), flush=True)
    r = subprocess.run(cmd, **kw)
    if r.returncode != 0:
        sys.exit(r.returncode)
os.makedirs(os.path.join(VERIF, "build"), exist_ok=True)
run([sys.executable, os.path.join(HERE, "extract.py")])
run([sys.executable, os.path.join(HERE, "ctrans.py")])
props = ["Utcp.Props.C%02d" % i for i in range(1, 21)]
run(["lake", "build", "Utcp", "driver"] + props, cwd=os.path.join(VERIF, "lean"))
run([sys.executable, os.path.join(HERE, "transval.py")])
for fl in ("ndebug", "assert"):
    print(buildlib.build_harness(fl), flush=True)
print("setup ok")
