#!/usr/bin/env python3
"""coverage.py — diagnostic (not a registered check): which lines of the library do the seeded scenarios of the quick tier execute?
Builds a gcov-instrumented harness in a scratch directory OUTSIDE /verif, runs every scenario of every property's plan, prints the
unexecuted lines per source file, removes the scratch directory.  usage: coverage.py [tier] [outfile]"""
import glob
import os
import shutil
import subprocess
import sys
import tempfile

HERE = os.path.dirname(os.path.abspath(__file__))
sys.path.insert(0, HERE)
import buildlib
import check

tier = sys.argv[1] if len(sys.argv) > 1 else "quick"
outfile = sys.argv[2] if len(sys.argv) > 2 else None
REPO = buildlib.REPO
tmp = tempfile.mkdtemp(prefix="utcpcov-")
try:
    objs = []
    for pat in buildlib.C_SOURCES:
        for src in sorted(glob.glob(os.path.join(REPO, pat))):
            obj = os.path.join(tmp, os.path.relpath(src, REPO).replace("/", "_") + ".o")
            subprocess.run(["gcc", "-std=gnu11", "-O0", "-g", "-w", "--coverage", "-DUTCP_VERIF", "-DNDEBUG", "-I" + REPO, "-I" + os.path.join(REPO, "utcp"), "-c", src, "-o", obj], check=True)
            objs.append(obj)
    for src in [os.path.join(REPO, "abstract/utcp.cpp"), os.path.join(buildlib.VERIF, "harness", "drv.cpp")]:
        obj = os.path.join(tmp, os.path.basename(src) + ".o")
        subprocess.run(["g++", "-std=gnu++17", "-O0", "-g", "-w", "--coverage", "-DUTCP_VERIF", "-DNDEBUG", "-I" + REPO, "-I" + os.path.join(REPO, "utcp"), "-c", src, "-o", obj], check=True)
        objs.append(obj)
    exe = os.path.join(tmp, "drv")
    subprocess.run(["g++", "--coverage"] + objs + ["-o", exe], check=True)
    n = 0
    for i in range(1, 21):
        prop = "C%02d" % i
        groups = check.corpus_groups(prop) + check.plan(prop, tier, 1)
        for g in groups:
            for name, lines in g:
                subprocess.run([exe], input="\n".join(lines) + "\n", stdout=subprocess.DEVNULL, stderr=subprocess.DEVNULL, text=True, timeout=300)
                n += 1
    report = ["%d scenarios (tier %s)" % (n, tier)]
    for gcno in sorted(glob.glob(os.path.join(tmp, "*.gcno"))):
        base = os.path.basename(gcno)
        if base.startswith("drv.cpp"):
            continue
        p = subprocess.run(["gcov", "-o", tmp, gcno], cwd=tmp, stdout=subprocess.PIPE, stderr=subprocess.STDOUT, text=True)
    for gc in sorted(glob.glob(os.path.join(tmp, "*.gcov"))):
        name = os.path.basename(gc)[:-5]
        if not (name.endswith(".c") or name == "utcp.cpp" or name.endswith(".h") or name.endswith(".hpp")):
            continue
        src = open(gc, errors="replace").read().splitlines()
        if not src or REPO not in src[0]:
            continue
        missed = []
        total = 0
        for l in src:
            parts = l.split(":", 2)
            if len(parts) < 3:
                continue
            cnt = parts[0].strip()
            if cnt == "-":
                continue
            total += 1
            if cnt in ("#####", "====="):
                missed.append((int(parts[1]), parts[2].rstrip()))
        report.append("== %s: %d of %d executable lines never executed" % (name, len(missed), total))
        for ln, text in missed:
            report.append("   %5d: %s" % (ln, text.strip()[:140]))
    txt = "\n".join(report)
    if outfile:
        open(outfile, "w").write(txt + "\n")
    else:
        print(txt)
finally:
    shutil.rmtree(tmp, ignore_errors=True)
