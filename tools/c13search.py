#!/usr/bin/env python3
"""c13search.py — search the *compiled C code* for a concrete counter-example to C13 (circular order of 14-bit sequence
numbers; MakeRelative for 10-bit channel sequences).  Used when a C13 proof obligation no longer checks (and always in the
thorough tier).  Exhaustive over all 2^14 x 2^14 packet-sequence pairs and all 1024 residues x references 0..2^21 (+ sampled
up to 2^30).  Prints "OK" or one line "COUNTEREXAMPLE <text>" and exits 1."""
import glob
import os
import subprocess
import sys

HERE = os.path.dirname(os.path.abspath(__file__))
sys.path.insert(0, HERE)
import buildlib

SRC = r'''
#include <stdio.h>
#include <stdint.h>
#include "%(packet_c)s"
int main(int argc, char** argv)
{
	long maxref = argc > 1 ? atol(argv[1]) : (1L << 21);
	for (unsigned a = 0; a < 16384; ++a)
	{
		if (seq_num_greater_than((uint16_t)a, (uint16_t)a)) { printf("COUNTEREXAMPLE seq_num_greater_than(%%u,%%u) is true: not irreflexive\n", a, a); return 1; }
		for (unsigned b = 0; b < 16384; ++b)
		{
			bool gt = seq_num_greater_than((uint16_t)a, (uint16_t)b), lt = seq_num_greater_than((uint16_t)b, (uint16_t)a);
			int32_t d = seq_num_diff((uint16_t)a, (uint16_t)b), e = seq_num_diff((uint16_t)b, (uint16_t)a);
			if (gt && lt) { printf("COUNTEREXAMPLE seq_num_greater_than(%%u,%%u) and (%%u,%%u) both true: not antisymmetric\n", a, b, b, a); return 1; }
			if (gt != (d > 0)) { printf("COUNTEREXAMPLE a=%%u b=%%u: greater_than=%%d but diff=%%d\n", a, b, (int)gt, (int)d); return 1; }
			if (seq_num_greater_equal((uint16_t)a, (uint16_t)b) != (d >= 0)) { printf("COUNTEREXAMPLE a=%%u b=%%u: greater_equal disagrees with diff=%%d\n", a, b, (int)d); return 1; }
			if (d != -8192 && d != -e) { printf("COUNTEREXAMPLE diff(%%u,%%u)=%%d but diff(%%u,%%u)=%%d\n", a, b, (int)d, b, a, (int)e); return 1; }
			if (d < -8192 || d > 8191 || ((d - ((int)a - (int)b)) & 16383) != 0) { printf("COUNTEREXAMPLE diff(%%u,%%u)=%%d is not the representative of a-b in [-8192,8191]\n", a, b, (int)d); return 1; }
		}
		for (int k = -8192; k < 8192; k += (a %% 64 == 0 ? 1 : 257))
		{
			uint16_t x = seq_num_inc((uint16_t)a, (uint16_t)k);
			if (x > 16383 || seq_num_diff(x, (uint16_t)a) != k) { printf("COUNTEREXAMPLE inc(%%u,%%d)=%%u, diff back = %%d\n", a, k, (unsigned)x, (int)seq_num_diff(x, (uint16_t)a)); return 1; }
		}
	}
	/* unmasked 16-bit operands: diff / greater_equal only depend on the residues */
	for (unsigned a = 0; a < 65536; a += 7)
		for (unsigned b = 0; b < 65536; b += 11)
			if (seq_num_diff((uint16_t)a, (uint16_t)b) != seq_num_diff((uint16_t)(a & 16383), (uint16_t)(b & 16383)))
			{ printf("COUNTEREXAMPLE diff(%%u,%%u) differs from diff of the masked operands\n", a, b); return 1; }
	for (long ref = 0; ref <= maxref; ++ref)
		for (int v = 0; v < 1024; ++v)
		{
			int32_t x = MakeRelative(v, (int32_t)ref, UTCP_MAX_CHSEQUENCE);
			if (x < ref - 512 || x > ref + 511 || ((x - v) & 1023) != 0)
			{ printf("COUNTEREXAMPLE MakeRelative(wire=%%d, reference=%%ld, 1024) = %%d: not the value congruent to the wire residue within [reference-512, reference+511]\n", v, ref, (int)x); return 1; }
		}
	for (long ref = maxref; ref < (1L << 30); ref += 1048573)
		for (int v = 0; v < 1024; v += 3)
		{
			int32_t x = MakeRelative(v, (int32_t)ref, UTCP_MAX_CHSEQUENCE);
			if (x < ref - 512 || x > ref + 511 || ((x - v) & 1023) != 0)
			{ printf("COUNTEREXAMPLE MakeRelative(wire=%%d, reference=%%ld, 1024) = %%d\n", v, ref, (int)x); return 1; }
		}
	printf("OK\n");
	return 0;
}
'''


def main():
    maxref = sys.argv[1] if len(sys.argv) > 1 else str(1 << 16)
    os.makedirs(buildlib.BUILD, exist_ok=True)
    src = os.path.join(buildlib.BUILD, "c13search_%d.c" % os.getpid())
    exe = os.path.join(buildlib.BUILD, "c13search_%d.exe" % os.getpid())
    open(src, "w").write(SRC % {"packet_c": os.path.join(buildlib.REPO, "utcp/utcp_packet.c")})
    others = [s for s in sorted(glob.glob(os.path.join(buildlib.REPO, "utcp/*.c")) + glob.glob(os.path.join(buildlib.REPO, "utcp/3rd/*.c"))) if not s.endswith("/utcp_packet.c")]
    p = subprocess.run(["gcc", "-std=gnu11", "-O2", "-w", "-DNDEBUG", "-I" + buildlib.REPO, "-I" + os.path.join(buildlib.REPO, "utcp"), src] + others + ["-o", exe], stdout=subprocess.PIPE, stderr=subprocess.STDOUT, text=True)
    os.remove(src)
    if p.returncode != 0:
        print("ERROR probe does not compile: " + p.stdout[-800:])
        sys.exit(2)
    r = subprocess.run([exe, maxref], stdout=subprocess.PIPE, text=True, timeout=1200)
    os.remove(exe)
    print(r.stdout.strip())
    sys.exit(0 if r.stdout.startswith("OK") else 1)


if __name__ == "__main__":
    main()
