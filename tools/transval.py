#!/usr/bin/env python3
"""transval.py — validate ctrans.py on every run: evaluate the generated Lean definitions and the compiled C
functions on the same inputs (all boundary values, plus seeded random ones) and compare."""
import glob
import hashlib
import json
import os
import random
import re
import subprocess
import sys

HERE = os.path.dirname(os.path.abspath(__file__))
sys.path.insert(0, HERE)
import buildlib

VERIF = buildlib.VERIF
REPO = buildlib.REPO
BUILD = buildlib.BUILD

U16 = [0, 1, 2, 3, 255, 256, 1023, 1024, 8190, 8191, 8192, 8193, 16382, 16383, 16384, 16385, 32767, 32768, 49151, 49152, 65534, 65535]
I32 = [-(1 << 30), -70000, -1025, -1024, -1023, -513, -512, -511, -2, -1, 0, 1, 2, 510, 511, 512, 513, 1022, 1023, 1024, 1025, 1535, 1536, 1537, 2047, 2048, 4095, 4096,
       (1 << 21) - 1, 1 << 21, (1 << 21) + 1, (1 << 30) - 1, 1 << 30]
S14 = [0, 1, 2, 8191, 8192, 8193, 16382, 16383]
CHSEQ = list(range(0, 1024, 37)) + [0, 1, 511, 512, 513, 1022, 1023]
SIZES = [0, 1, 2, 7, 8, 9, 15, 16, 17, 100, 308, 309, 310, 327, 1000, 7264, 7265, 7844, 7845, 8190, 8191, 8192, 8193, 65535, 524288]
EXT = [0, 1, 7263, 7264, 7265, 7266, 14527, 14528, 14529, 21791, 21792, 7264 * 9 + 7257, 7264 * 9 + 7263, 7264 * 10, 524287, 524288, (1 << 28) - 1]

# lean name -> (C call expression template, list of domains)
CASES = {
    "seq_num_init": ("seq_num_init((uint16_t)%d)", [U16]),
    "seq_num_greater_than": ("seq_num_greater_than((uint16_t)%d,(uint16_t)%d)", [U16, U16]),
    "seq_num_greater_equal": ("seq_num_greater_equal((uint16_t)%d,(uint16_t)%d)", [U16, U16]),
    "seq_num_inc": ("seq_num_inc((uint16_t)%d,(uint16_t)%d)", [U16, U16]),
    "seq_num_diff": ("seq_num_diff((uint16_t)%d,(uint16_t)%d)", [U16, U16]),
    "packet_notify_delta_seq": ("(probe_nh.Seq=%d, probe_pn.InSeq=%d, probe_nh.AckedSeq=%d, probe_pn.OutAckSeq=%d, probe_pn.OutSeq=%d, packet_notify_delta_seq(&probe_pn,&probe_nh))",
                                [S14, S14, S14, S14, S14]),
    "BestSignedDifference_chseq": ("BestSignedDifference(%d,%d,UTCP_MAX_CHSEQUENCE)", [CHSEQ, I32]),
    "MakeRelative_chseq": ("MakeRelative(%d,%d,UTCP_MAX_CHSEQUENCE)", [CHSEQ, I32]),
    "GetFreeSendBufferBits": ("(probe_conn.SendBufferBitsNum=%d, GetFreeSendBufferBits(&probe_conn))", [[s for s in SIZES if s <= 8200]]),
    "utcp_send_would_block": ("(probe_conn.OutPacketId=%d, probe_conn.OutAckPacketId=%d, utcp_send_would_block(&probe_conn,%d))", None),
    "utcp_gettime_ms": ("(utcp_get_config()->ElapsedTime=%dLL, utcp_gettime_ms())", [[0, 1, 999, 1000, 1001, 1999999, 120000000, 7200000000, 36000000000]]),
    "PackedHeader_Pack": ("PackedHeader_Pack((uint16_t)%d,(uint16_t)%d,(size_t)%d)", [S14 + [16384, 65535], S14 + [16384, 65535], [0, 1, 2, 7, 8, 15, 16, 17, 255]]),
    "ClAMP": ("ClAMP((size_t)%d,(size_t)%d,(size_t)%d)", [[0, 1, 2, 7, 8, 9, 100], [0, 1, 2], [1, 8, 9]]),
    "MIN": ("MIN((size_t)%d,(size_t)%d)", [[0, 1, 7, 8, 9, 255, 65536], [0, 1, 8, 9, 256]]),
}
CXX_CASES = {
    "bits2bytes": ("utcp::bits2bytes(%dULL)", [SIZES]),
    "large_bunch_num": ("(lb->ExtDataBitsLen=%du, lb->num())", [EXT]),
}


def main():
    h = hashlib.sha256()
    for f in buildlib.repo_sources() + [os.path.join(VERIF, "lean", "Utcp", "Gen", "PureFns.lean"), os.path.abspath(__file__), os.path.join(HERE, "ctrans.py")]:
        h.update(open(f, "rb").read())
    stamp = os.path.join(BUILD, "transval-%s.ok" % h.hexdigest()[:16])
    if os.path.exists(stamp):
        print(open(stamp).read().strip() + " (cached for this source tree)")
        return
    run(stamp)


def run(stamp):
    meta = json.load(open(os.path.join(BUILD, "purefns.meta.json")))
    by_lean = {m["lean"]: m for m in meta}
    rng = random.Random(20260929)
    c_lines = []
    cxx_lines = []
    lean_lines = []
    n = 0

    def product(domains):
        if not domains:
            yield ()
            return
        for x in domains[0]:
            for rest in product(domains[1:]):
                yield (x,) + rest

    def add(name, args, tmpl, cxx=False):
        nonlocal n
        m = by_lean[name]
        # map C-call argument order to lean parameter order: identical except would_block (count first in Lean)
        lean_args = list(args)
        if name == "utcp_send_would_block":
            lean_args = [args[2], args[0], args[1]]
        call = tmpl % args
        if m.get("c_now", m["c"]) != m["c"]:
            call = re.sub(r"\b%s\(" % re.escape(m["c"]), m["c_now"] + "(", call)   # the function was renamed in this tree (see ctrans.find_renamed)
        (cxx_lines if cxx else c_lines).append('  printf("%d %%lld\\n", (long long)(%s));' % (n, call))
        lean_lines.append("%d %s %s" % (n, name, " ".join(str(a) for a in lean_args)))
        n += 1

    for name, (tmpl, doms) in CASES.items():
        if name not in by_lean:
            print("translated function %s missing" % name)
            sys.exit(1)
        if name == "utcp_send_would_block":
            for o in [0, 1, 100, 253, 254, 255, 256, 16383, 1 << 20]:
                for d in [0, 1, 2, 250, 251, 252, 253, 254, 255, 256, 300]:
                    for c in [0, 1, 2, 3, 10, 74]:
                        add(name, (o, o - d, c), tmpl)
            continue
        for args in product(doms):
            add(name, args, tmpl)
        for _ in range(3000):
            args = tuple(rng.choice(d) if rng.random() < 0.3 else rng.randint(min(d), max(d)) for d in doms)
            add(name, args, tmpl)
    for name, (tmpl, doms) in CXX_CASES.items():
        for args in product(doms):
            add(name, args, tmpl, cxx=True)
        for _ in range(3000):
            args = tuple(rng.randint(min(d), max(d)) for d in doms)
            add(name, args, tmpl, cxx=True)
    # ---- C probe (includes the .c files that define the static functions)
    os.makedirs(BUILD, exist_ok=True)
    src = os.path.join(BUILD, "transval_%d.c" % os.getpid())
    exe = os.path.join(BUILD, "transval_%d.exe" % os.getpid())
    with open(src, "w") as f:
        f.write('#include <stdio.h>\n#include "%s"\n#include "%s"\nstatic struct utcp_connection probe_conn;\nstatic struct packet_notify probe_pn;\nstatic struct notification_header probe_nh;\nint main(void){\n' % (os.path.join(REPO, "utcp/utcp_packet.c"), os.path.join(REPO, "utcp/utcp_packet_notify.c")))
        f.write("\n".join(c_lines))
        f.write("\n  return 0;\n}\n")
    others = [s for s in sorted(glob.glob(os.path.join(REPO, "utcp/*.c")) + glob.glob(os.path.join(REPO, "utcp/3rd/*.c"))) if not s.endswith(("/utcp_packet.c", "/utcp_packet_notify.c"))]
    p = subprocess.run(["gcc", "-std=gnu11", "-O0", "-w", "-DNDEBUG", "-I" + REPO, "-I" + os.path.join(REPO, "utcp"), src] + others + ["-o", exe], stdout=subprocess.PIPE, stderr=subprocess.STDOUT, text=True)
    if p.returncode != 0:
        print("C probe does not compile:\n" + p.stdout[-1500:])
        sys.exit(1)
    c_out = subprocess.run([exe], stdout=subprocess.PIPE, text=True).stdout
    os.remove(src)
    os.remove(exe)
    srcx = os.path.join(BUILD, "transval_%d.cpp" % os.getpid())
    with open(srcx, "w") as f:
        f.write('#include <stdio.h>\n#include <memory>\n#include "%s"\nint main(){\n  std::unique_ptr<utcp::large_bunch> lb(new utcp::large_bunch());\n' % os.path.join(REPO, "abstract/utcp.hpp"))
        f.write("\n".join(cxx_lines))
        f.write("\n  return 0;\n}\n")
    p = subprocess.run(["g++", "-std=gnu++17", "-O0", "-w", "-DNDEBUG", "-I" + REPO, "-I" + os.path.join(REPO, "utcp"), srcx, os.path.join(REPO, "abstract/utcp.cpp")] + sorted(
        glob.glob(os.path.join(REPO, "utcp/*.c")) + glob.glob(os.path.join(REPO, "utcp/3rd/*.c"))) + ["-o", exe], stdout=subprocess.PIPE, stderr=subprocess.STDOUT, text=True)
    if p.returncode != 0:
        # C sources need a C compiler: build objects separately
        objs = []
        for s in sorted(glob.glob(os.path.join(REPO, "utcp/*.c")) + glob.glob(os.path.join(REPO, "utcp/3rd/*.c"))):
            o = os.path.join(BUILD, "tv_%d_%s.o" % (os.getpid(), os.path.basename(s)))
            subprocess.run(["gcc", "-std=gnu11", "-O0", "-w", "-DNDEBUG", "-I" + REPO, "-I" + os.path.join(REPO, "utcp"), "-c", s, "-o", o], check=True)
            objs.append(o)
        p = subprocess.run(["g++", "-std=gnu++17", "-O0", "-w", "-DNDEBUG", "-I" + REPO, "-I" + os.path.join(REPO, "utcp"), srcx, os.path.join(REPO, "abstract/utcp.cpp")] + objs + ["-o", exe],
                           stdout=subprocess.PIPE, stderr=subprocess.STDOUT, text=True)
        for o in objs:
            os.remove(o)
        if p.returncode != 0:
            print("C++ probe does not compile:\n" + p.stdout[-1500:])
            sys.exit(1)
    cxx_out = subprocess.run([exe], stdout=subprocess.PIPE, text=True).stdout
    os.remove(srcx)
    os.remove(exe)
    # ---- Lean side: a small dispatcher reads the cases from stdin
    lf = os.path.join(BUILD, "transval_%d.lean" % os.getpid())
    arms = []
    for m in meta:
        args = " ".join("(a[%d]!)" % i for i in range(len(m["params"])))
        if m["ret"] == "bool":
            arms.append('  | "%s" => if Utcp.Gen.%s %s then "1" else "0"' % (m["lean"], m["lean"], args))
        else:
            arms.append('  | "%s" => toString (Utcp.Gen.%s %s)' % (m["lean"], m["lean"], args))
    with open(lf, "w") as f:
        f.write("import Utcp.Gen.PureFns\ndef evalCase (name : String) (a : Array Int) : String :=\n  match name with\n" + "\n".join(arms) + '\n  | _ => "?"\n')
        f.write("""partial def loop (h : IO.FS.Stream) : IO Unit := do
  let line ← h.getLine
  if line.isEmpty then return ()
  let t := (line.trimAscii.toString.splitOn " ").filter (· != "")
  match t with
  | idx :: name :: rest => IO.println s!"{idx} {evalCase name (rest.map (fun x => x.toInt?.getD 0)).toArray}"
  | _ => pure ()
  loop h
def main : IO Unit := do loop (← IO.getStdin)
""")
    p = subprocess.run(["lake", "env", "lean", "--run", lf], cwd=os.path.join(VERIF, "lean"), input="\n".join(lean_lines) + "\n", stdout=subprocess.PIPE, stderr=subprocess.PIPE, text=True)
    os.remove(lf)
    if p.returncode != 0:
        print("Lean evaluation failed: " + (p.stderr + p.stdout)[-800:])
        sys.exit(1)
    want = dict(l.split() for l in (c_out + cxx_out).splitlines() if l.strip())
    got = dict(l.split() for l in p.stdout.splitlines() if l.strip())
    bad = [(k, want[k], got.get(k)) for k in want if got.get(k) != want[k]]
    print("translator validation: %d evaluations, %d disagreements" % (len(want), len(bad)))
    if not bad:
        for old in glob.glob(os.path.join(BUILD, "transval-*.ok")):
            os.remove(old)
        open(stamp, "w").write("translator validation: %d evaluations, 0 disagreements" % len(want))
    if bad:
        all_lines = c_lines + cxx_lines
        for k, w, g in bad[:5]:
            print("  case %s: C says %s, generated Lean says %s   [%s]" % (k, w, g, all_lines[int(k)].strip()[:160]))
        sys.exit(1)


if __name__ == "__main__":
    main()
