"""Implementation-level oracles.  They look only at the trace the REAL code produced (never at the model),
so a replay they flag is evidence against the implementation."""
import re

FNV_OFF = 1469598103934665603
FNV_PRIME = 1099511628211
M64 = (1 << 64) - 1


def fnv64(data):
    h = FNV_OFF
    for b in data:
        h ^= b
        h = (h * FNV_PRIME) & M64
    return h


def payload_bytes(pseed, n, start=0):
    return bytes((((pseed * 1103515245 + 12345 + i * 2654435761) & 0xFFFFFFFF) >> 16) & 0xFF for i in range(n))


def payload_hash(pseed, bits, maxbytes=1452):
    nb = min((bits + 7) // 8, maxbytes)
    d = bytearray(payload_bytes(pseed, nb))
    if bits % 8 and nb == (bits + 7) // 8:
        d[-1] &= (1 << (bits % 8)) - 1
    return "%016x" % fnv64(d)


def large_payload(pseed, bits):
    nb = (bits + 7) // 8
    d = bytearray()
    k = 0
    while len(d) < nb:
        d += payload_bytes((pseed + k) & 0xFFFFFFFFFFFF, min(1024, nb - len(d)))
        k += 1
    return d


def bits_of(data, nbits):
    out = []
    for i in range(nbits):
        out.append((data[i >> 3] >> (i & 7)) & 1)
    return out


def pack_bits(bits):
    d = bytearray((len(bits) + 7) // 8)
    for i, b in enumerate(bits):
        if b:
            d[i >> 3] |= 1 << (i & 7)
    return d


class Step:
    __slots__ = ("line", "op", "args", "events", "notes", "idx")

    def __init__(self, line, idx):
        self.line = line
        t = line.split()
        self.op = t[0]
        self.args = t[1:]
        self.events = []
        self.notes = []
        self.idx = idx


def parse_trace(scenario_lines, out_text):
    """align the echo lines of the trace with the scenario (comments '#!' become notes of the next op)"""
    steps = []
    cur = None
    pending_notes = []
    ops = []
    for l in scenario_lines:
        l = l.strip()
        if not l:
            continue
        if l.startswith("#!"):
            pending_notes.append(l[2:].strip())
            continue
        if l.startswith("#"):
            continue
        ops.append((" ".join(l.split()), pending_notes))
        pending_notes = []
    oi = 0
    trailing = []
    for l in out_text.splitlines():
        if l.startswith("> "):
            if oi < len(ops):
                line, notes = ops[oi]
            else:
                line, notes = l[2:], []
            cur = Step(l[2:], oi)
            cur.notes = notes
            steps.append(cur)
            oi += 1
        elif cur is not None:
            cur.events.append(l)
        else:
            trailing.append(l)
    return steps, pending_notes


class Violation:
    def __init__(self, prop, rule, text, step=None):
        self.prop = prop
        self.rule = rule
        self.text = text
        self.step = step

    def sig(self):
        return "%s/%s" % (self.prop, self.rule)

    def __repr__(self):
        return "%s/%s: %s%s" % (self.prop, self.rule, self.text, (" @op#%d '%s'" % (self.step.idx, self.step.line)) if self.step else "")


def parse_recv(ev):
    # recv id count | ch flags reason name chseq pktid bits hash | ...
    parts = ev.split(" | ")
    head = parts[0].split()
    ep = int(head[1])
    count = int(head[2])
    bs = []
    for p in parts[1:]:
        t = p.split()
        bs.append(dict(ch=int(t[0]), flags=int(t[1]), reason=int(t[2]), name=int(t[3]), chseq=int(t[4]), pktid=int(t[5]), bits=int(t[6]), hash=t[7]))
    return ep, count, bs


def analyse(steps, trailing_notes=()):
    """run every monitor over one trace; returns (violations, stats)"""
    V = []
    stats = dict(sends=0, sends_rejected=0, recv_bunches=0, recv_groups=0, status=0, acks=0, naks=0, outs=0, drops=0, accepts=0, connects=0, skipacks=0,
                 replays=0, hostile=0, max_out=0, close_reasons={}, ret_codes={}, groups_max=0, large=0, timeouts=0)
    peers = {}
    cfg_travel, cfg_magic_bits, lsn_ids = 0, 0, set()
    sent = {}  # (src, ch, reliable) -> list of dict
    sent_all = {}  # src -> list (all accepted sends in order)
    recvd = {}  # (dst, ch, reliable) -> list of delivered bunch dicts
    recv_all = {}
    status = {}  # ep -> list of (pid, ack)
    accepted = {}  # ep -> {pid: acked}
    first_out = {}
    outstanding_hi = {}
    drained = False
    section = None
    expectations = []
    large_expect = []
    joined = []
    last_emit = {}  # ep -> ms of last data emission (None: never)
    now_ns = 0
    clock_mode = False
    connected_at = {}
    last_recv = {}
    handshake_addr = None
    settled = False
    cleanlink = False
    connects = {}
    accepts = {}
    pending_since_emit = {}
    closed_conn = {}
    uninit = set()
    skipack_seen = set()
    window_exceeded = set()
    out_pids = {}  # ep -> next data packet id (tracked from send returns)
    hostile = False
    agreed = False
    window_exceeded_flag = False
    closed_state = {}
    twin_a = None
    flush_log = []  # (ep, now_ms, emitted, step)
    update_log = []
    connected_ms = {}
    nodes_checks = []
    chans_checks = []   # (ep, ret, step, drained at that point)
    acc_step = {}       # ep -> {pid: step index at which the packet was accepted}
    connected = {}      # ep -> True once the endpoint is in the connected state (seqinit, connect event, accept)
    onaccept_id = {}    # address -> endpoint id the harness gives the accepted connection
    last_update_idx = {}
    drain_idx = None
    for st in steps:
        if st.op == "ifroom":
            # conditional application call: skipped while the channel holds 255 unacknowledged reliable bunches, otherwise the inner op
            if "ret skip" in st.events or len(st.args) < 3:
                st.op, st.args = "noop", []
            else:
                st.op, st.args = st.args[2], st.args[3:]
        if st.op == "ifconn":
            # conditional application call: skipped on an endpoint that is not connected (or closed), otherwise the inner op
            if "ret skip" in st.events or len(st.args) < 2:
                st.op, st.args = "noop", []
            else:
                st.op, st.args = st.args[1], st.args[2:]
    for st in steps:
        for n in st.notes:
            t = n.split()
            if t[0] == "peers":
                peers[int(t[1])] = int(t[2])
                peers[int(t[2])] = int(t[1])
            elif t[0] == "drained":
                drained = True
                if drain_idx is None:
                    drain_idx = st.idx
            elif t[0] == "drain":
                section = "drain"
            elif t[0] == "expect":
                expectations.append((st, t[1:]))
            elif t[0] == "large":
                large_expect.append(int(t[1]))
            elif t[0] == "clock":
                clock_mode = True
            elif t[0] == "handshake":
                handshake_addr = t[1]
            elif t[0] == "cleanlink":
                cleanlink = True
            elif t[0] == "settled":
                settled = True
            elif t[0] == "hostile":
                hostile = True
            elif t[0] == "agreed":
                agreed = True
            elif t[0] == "window-exceeded":
                window_exceeded_flag = True
        op = st.op
        a = st.args
        if op == "reset":
            # new session inside the same file: flush per-session state
            pass
        if op == "tick":
            now_ns += int(a[0])
        now_ms = (now_ns // 1000) // 1000 + 1000
        ret = None
        for ev in st.events:
            if ev.startswith("ret "):
                ret = ev[4:]
        if op == "send":
            ep = int(a[0])
            ch, flags, reason, name, bits, pseed = (int(x) for x in a[1:7])
            stats["sends"] += 1
            r = int(ret) if ret is not None and re.match(r"^-?\d+$", ret) else None
            if r is not None and r < 0:
                stats["sends_rejected"] += 1
                cs = [e for e in st.events if e.startswith("cstate")]
                if not cs or cs[0] != "cstate same":
                    V.append(Violation("C14", "effect", "rejected send changed the connection", st))
                others = [e for e in st.events if not e.startswith(("cstate", "ret"))]
                if others:
                    V.append(Violation("C14", "effect", "rejected send caused events %s" % others[:3], st))
                # was the rejection justified?
                if not (ch >= 32767 or bits > 7265 or reason >= 15 or (not (flags & 1))):
                    V.append(Violation("C14", "spurious-reject", "valid send refused", st))
            elif r is not None:
                hb = payload_hash(pseed, bits)
                rec = dict(ch=ch, flags=flags, reason=reason if flags & 2 else 0, name=name if flags & 9 else 0, bits=bits, hash=hb, pid=r, step=st)
                rel = bool(flags & 8)
                sent.setdefault((ep, ch, rel), []).append(rec)
                sent_all.setdefault(ep, []).append(rec)
                pending_since_emit[ep] = True
                # the library's limit is header + payload <= 7844 bits (utcp_packet.c: MAX_SINGLE_BUNCH_SIZE_BITS); the shortest header
                # has 27 bits, so a payload above 7817 can never fit (7265 is the C++ layer's fragment size, not this limit)
                if bits > 7817 or ch >= 32767:
                    V.append(Violation("C14", "accepted-invalid", "over-size / out-of-range send accepted (ret %d)" % r, st))
        if op == "sendfill":
            ep = int(a[0])
            ch, flags, name, slack, pseed = (int(x) for x in a[1:6])
            stats["sends"] += 1
            rr = ret.split() if ret else []
            if len(rr) == 2 and re.match(r"^-?\d+$", rr[0]):
                r, bits = int(rr[0]), int(rr[1])
                if r >= 0:
                    fl = flags & 9
                    rec = dict(ch=ch, flags=fl, reason=0, name=name if fl & 9 else 0, bits=bits, hash=payload_hash(pseed, bits), pid=r, step=st)
                    sent.setdefault((ep, ch, bool(fl & 8)), []).append(rec)
                    sent_all.setdefault(ep, []).append(rec)
                    pending_since_emit[ep] = True
                else:
                    stats["sends_rejected"] += 1
        if op == "lsend":
            stats["large"] += 1
            ep = int(a[0])
            ch, flags, name, bits, pseed = (int(x) for x in a[1:6])
            data = large_payload(pseed, bits)
            allbits = bits_of(data, bits)
            nfrag = 1 if bits <= 7264 else bits // 7264 + 1
            base = flags & (1 | 2 | 8)
            for k in range(nfrag):
                fb = allbits[k * 7264:(k + 1) * 7264] if nfrag > 1 else allbits
                fl = base | ((64 | (128 if k == 0 else 0) | (256 if k == nfrag - 1 else 0)) if nfrag > 1 else 0)
                rec = dict(ch=ch, flags=fl, reason=0, name=name if fl & 9 else 0, bits=len(fb), hash="%016x" % fnv64(pack_bits(fb)), pid=None, step=st)
                sent.setdefault((ep, ch, bool(fl & 8)), []).append(rec)
                sent_all.setdefault(ep, []).append(rec)
            pending_since_emit[ep] = True
        if op == "onaccept" and len(a) >= 3:
            onaccept_id[a[1]] = int(a[2])
        if clock_mode and op == "flush" and a:
            ep = int(a[0])
            le = last_emit.get(ep)
            emitted = any(e.startswith("out %d " % ep) for e in st.events)
            if connected.get(ep) and ep not in closed_conn and le is not None and now_ms - le >= 200 and not emitted:
                V.append(Violation("C15", "keepalive-missing", "connected endpoint %d flushed %d ms after its previous emission and sent nothing" % (ep, now_ms - le), st))
        if clock_mode and op == "update" and a:
            ep = int(a[0])
            if ep not in closed_conn:
                timed_out = any(e == "disconnect %d 6" % ep or e.startswith("disconnect %d 6 " % ep) for e in st.events)
                lr = last_recv.get(ep)
                if timed_out and not connected.get(ep):
                    V.append(Violation("C15", "timeout-spurious", "endpoint %d reported a connection timeout while not connected (still handshaking)" % ep, st))
                elif timed_out and lr is not None and now_ms - lr <= 120000:
                    V.append(Violation("C15", "timeout-spurious", "endpoint %d reported a timeout %d ms after its last received packet" % (ep, now_ms - lr), st))
                elif not timed_out and connected.get(ep) and lr is not None and now_ms - lr > 120000 and not any(e.startswith("disconnect %d " % ep) for e in st.events):
                    V.append(Violation("C15", "timeout-missing", "endpoint %d is connected, silent for %d ms, and update reported no timeout" % (ep, now_ms - lr), st))
        if op == "update" and a:
            last_update_idx[int(a[0])] = st.idx
        for ev in st.events:
            if ev.startswith("out "):
                t = ev.split()
                ep, ln, lastb = int(t[1]), int(t[2]), int(t[4]) if len(t) > 4 else 1
                stats["outs"] += 1
                stats["max_out"] = max(stats["max_out"], ln)
                if ln < 1 or ln > 1025:
                    V.append(Violation("C18", "size", "datagram of %d bytes" % ln, st))
                if lastb == 0:
                    V.append(Violation("C18", "frame", "datagram ends in a zero byte", st))
                if clock_mode and op == "flush":
                    le = last_emit.get(ep)
                    if le is not None and not pending_since_emit.get(ep) and now_ms - le < 200:
                        V.append(Violation("C15", "keepalive-early", "empty packet %d ms after the previous emission" % (now_ms - le), st))
                if op in ("flush", "send", "sendfill", "lsend"):
                    # only packets of the data path count for the keep-alive cadence; a handshake datagram re-sent by a connected
                    # endpoint in answer to a stray handshake datagram does not (nor does it in the protocol this code re-implements)
                    last_emit[ep] = now_ms
                    pending_since_emit[ep] = False
            elif ev.startswith("recv "):
                ep, count, bs = parse_recv(ev)
                stats["recv_groups"] += 1
                stats["recv_bunches"] += len(bs)
                stats["groups_max"] = max(stats["groups_max"], count)
                if count < 1 or count != len(bs) or count > 256:
                    V.append(Violation("C03", "count", "callback with count %d" % count, st))
                    V.append(Violation("C09", "arg", "callback with count %d" % count, st))
                    continue
                for b in bs:
                    if b["ch"] >= 32767:
                        V.append(Violation("C09", "arg", "callback with channel index %d" % b["ch"], st))
                    if b["bits"] > 8191:
                        V.append(Violation("C09", "arg", "callback with %d payload bits" % b["bits"], st))
                if count > 1:
                    ok = (bs[0]["flags"] & 128) and (bs[-1]["flags"] & 256) and all(b["flags"] & 64 for b in bs) and not any(b["flags"] & 128 for b in bs[1:]) and not any(
                        b["flags"] & 256 for b in bs[:-1])
                    if not ok:
                        V.append(Violation("C03", "flags", "group shape wrong: %s" % [b["flags"] for b in bs], st))
                    if len(set(bool(b["flags"] & 8) for b in bs)) != 1 or len(set(b["ch"] for b in bs)) != 1:
                        V.append(Violation("C03", "mixed", "group mixes reliability or channels", st))
                    elif bs[0]["flags"] & 8:
                        if any(bs[i + 1]["chseq"] != bs[i]["chseq"] + 1 for i in range(len(bs) - 1)):
                            V.append(Violation("C03", "mixed", "reliable group with non-consecutive sequences", st))
                    else:
                        if any(not (0 <= bs[i + 1]["pktid"] - bs[i]["pktid"] <= 1) for i in range(len(bs) - 1)):
                            V.append(Violation("C03", "mixed", "unreliable group spans non-adjacent packets", st))
                elif bs[0]["flags"] & 64:
                    V.append(Violation("C03", "flags", "single partial bunch delivered", st))
                for b in bs:
                    rel = bool(b["flags"] & 8)
                    recvd.setdefault((ep, b["ch"], rel), []).append(dict(b, group=count, step=st))
                    recv_all.setdefault(ep, []).append(dict(b, group=count, step=st))
            elif ev.startswith("joined "):
                t = ev.split()
                joined.append((int(t[1]), int(t[2]), t[3], st))
            elif ev.startswith("status "):
                t = ev.split()
                ep, pid, ack = int(t[1]), int(t[2]), int(t[3])
                stats["status"] += 1
                stats["acks" if ack else "naks"] += 1
                status.setdefault(ep, []).append((pid, ack, st))
            elif ev.startswith("acc "):
                t = ev.split()
                ep, pid, acked = int(t[1]), int(t[2]), int(t[3])
                if pid in accepted.setdefault(ep, {}):
                    V.append(Violation("C04", "dup-packet", "packet %d accepted twice" % pid, st))
                if accepted[ep] and pid <= max(accepted[ep]):
                    V.append(Violation("C04", "old-packet", "packet %d accepted after a newer one" % pid, st))
                accepted[ep][pid] = acked
                acc_step.setdefault(ep, {})[pid] = st.idx
                if not acked:
                    stats["skipacks"] += 1
                    skipack_seen.add(ep)
                last_recv[ep] = now_ms
            elif ev.startswith("connect "):
                t = ev.split()
                stats["connects"] += 1
                connects[int(t[1])] = connects.get(int(t[1]), 0) + 1
                last_recv[int(t[1])] = now_ms
                last_emit[int(t[1])] = now_ms     # the keep-alive interval of a client starts when its handshake completes
                connected[int(t[1])] = True
            elif ev.startswith("accept "):
                t = ev.split()
                stats["accepts"] += 1
                accepts[t[3]] = accepts.get(t[3], 0) + 1
                if t[3] in onaccept_id:
                    connected[onaccept_id[t[3]]] = True
                    last_recv[onaccept_id[t[3]]] = now_ms
                    last_emit[onaccept_id[t[3]]] = now_ms
            elif ev.startswith("disconnect "):
                t = ev.split()
                reason = int(t[2])
                stats["close_reasons"][reason] = stats["close_reasons"].get(reason, 0) + 1
                closed_conn[int(t[1])] = reason
                if reason == 6:
                    stats["timeouts"] += 1
            elif ev.startswith("lstate") or ev.startswith("cstate") or ev.startswith("ret") or ev[:2] in ("A ", "F ", "R ") or ev.startswith(("live", "hexdump")):
                pass
            elif ev.startswith(("abort", "badfree")):
                V.append(Violation("C09", "assert:" + ev.split()[-1], ev, st))
            elif ev == "badop":
                pass
        if op == "flush" and a:
            flush_log.append((int(a[0]), now_ms, any(e.startswith("out ") for e in st.events), st))
        if op == "update" and a:
            update_log.append((int(a[0]), now_ms, [e for e in st.events if e.startswith("disconnect ")], st))
        if op == "nodes":
            nodes_checks.append((ret, st, drained))
        if op == "closed" and ret:
            rr = ret.split()
            if len(rr) == 2 and rr[0] == "1":
                closed_state[int(a[0])] = int(rr[1])
        if "twin-a" in st.notes:
            twin_a = st
        if "twin-b" in st.notes and twin_a is not None:
            norm = lambda evs, lid: [re.sub(r"^(out|accept) %s " % lid, r"\1 L ", e) for e in evs if e.startswith(("out ", "accept ", "ret "))]
            ea = norm(twin_a.events, twin_a.args[0])
            eb = norm(st.events, a[0])
            if ea != eb:
                V.append(Violation("C08", "history", "a listener that saw earlier traffic answers differently from its twin that did not: %s vs %s" % (ea[:4], eb[:4]), st))
            twin_a = None
        if op == "seqinit":
            last_recv[int(a[0])] = now_ms
            last_emit[int(a[0])] = now_ms
            connected[int(a[0])] = True
        if op == "chans" and a:
            chans_checks.append((int(a[0]), ret, st, drained))
        for ev in st.events:
            if ev.startswith("A conn") and op in ("route", "ldlv", "lmut", "lraw"):
                pass
        # would-block observation: the sender consulted the window
        if op == "wb" and ret == "1":
            pass
        if op in ("raw", "mut", "lraw", "lmut", "craft", "lcraft"):
            stats["hostile"] += 1
        if op == "codec":
            stats["unit"] = stats.get("unit", 0) + 1
            ch, flags, reason, name, chseq, bits, pseed, off = (int(x) for x in a[:8])
            res = [e for e in st.events if e.startswith("codec")]
            want_fail = bool(flags & 2) and (reason & 15) == 15
            if not res:
                V.append(Violation("C11", "codec", "no result", st))
            elif want_fail:
                if res[0] != "codec encfail":
                    V.append(Violation("C11", "codec", "unrepresentable close reason was serialised: %s" % res[0], st))
            elif not res[0].startswith("codec ok"):
                V.append(Violation("C11", "codec", "in-range bunch does not round-trip at bit offset %d: %s" % (off % 64, res[0]), st))
        if op == "bbcut":
            stats["unit"] = stats.get("unit", 0) + 1
            res = [e for e in st.events if e.startswith("bb cut")]
            if res:
                t = res[0].split()
                if t[5] != "1":
                    V.append(Violation("C12", "cursor", "a read from a buffer %s bits too short left the cursor outside the valid range: %s" % (a[4], res[0]), st))
                if t[2] == "1" and int(a[4]) > 0 and int(a[0]) != 2 and False:
                    pass
        if op == "bbs":
            # byte-level scripts: the reads after `end` are judged against the datagram image the real code printed itself - a run of bits
            # read into an exact-size array must be those bits with nothing but zeros above them, a single bit / a 32-bit word likewise
            stats["unit"] = stats.get("unit", 0) + 1
            res = [e for e in st.events if e.startswith("bbs")]
            if res:
                outs = res[0].split()[1:]
                toks = [t for t in a[1:]]
                img = None
                cursor = 0
                for tok, o in zip(toks, outs):
                    if tok == "end" and o.startswith("end:1:"):
                        img = bytes.fromhex(o.split(":")[3]) if len(o.split(":")) > 3 else b""
                        cursor = 0
                        continue
                    if img is None or tok.startswith("cp:"):
                        continue
                    f, r = tok.split(":"), o.split(":")
                    if len(r) != 3 or r[0] != "1":
                        if len(r) == 3 and r[0] == "0" and f[0] in ("rb", "rs", "ry", "ru", "ri"):
                            if int(r[2]) != cursor:
                                V.append(Violation("C12", "readback", "a failed %s moved the cursor from %d to %s" % (tok, cursor, r[2]), st))
                        if len(r) == 3:
                            cursor = int(r[2])
                        continue
                    n = {"rb": 1, "ru": 32}.get(f[0], None)
                    if f[0] == "rs":
                        n = int(f[1])
                    elif f[0] == "ry":
                        n = 8 * int(f[1])
                    if n is not None:
                        bits_ = [(img[(cursor + i) // 8] >> ((cursor + i) % 8)) & 1 if (cursor + i) // 8 < len(img) else 0 for i in range(n)]
                        if f[0] in ("rs", "ry"):
                            want = "%016x" % fnv64(pack_bits(bits_))
                            if r[1] != want:
                                V.append(Violation("C12", "readback", "%s at bit %d of the datagram returned an array that is not those %d bits (with zeros above them)" % (tok, cursor, n), st))
                        else:
                            want = sum(b << i for i, b in enumerate(bits_))
                            if int(r[1]) != want:
                                V.append(Violation("C12", "readback", "%s at bit %d of the datagram returned %s, the bits there are %d" % (tok, cursor, r[1], want), st))
                        if int(r[2]) != cursor + n:
                            V.append(Violation("C12", "readback", "%s moved the cursor from %d to %s" % (tok, cursor, r[2]), st))
                    cursor = int(r[2])
        if op == "bbs":
            # ... and against what the script WROTE (rule C12/roundtrip): when every writer of the script succeeded, the k-th reader of the matching
            # kind must return the k-th value written (a run of bits: exactly those source bits, nothing of the source byte above them)
            res = [e for e in st.events if e.startswith("bbs")]
            if res and "end" in a[1:]:
                outs = res[0].split()[1:]
                toks = list(a[1:])
                ie = toks.index("end")
                wr = [(t, o) for t, o in zip(toks[:ie], outs[:ie]) if not t.startswith("cp:")]
                rdp = [(t, o) for t, o in zip(toks[ie + 1:], outs[ie + 1:]) if not t.startswith("cp:")]
                all_ok = len(outs) > ie and outs[ie].startswith("end:1:") and all(o.split(":")[0] == "1" or (t.startswith("wi:") and int(t.split(":")[1]) >= int(t.split(":")[2])) for t, o in wr)
                if all_ok:
                    wvals = [t for t, o in wr if o.split(":")[0] == "1"]
                    for wt, (rt, ro) in zip(wvals, rdp):
                        wf, rf, r = wt.split(":"), rt.split(":"), ro.split(":")
                        pair = (wf[0], rf[0])
                        if len(r) != 3:
                            break
                        want = None
                        if pair == ("wb", "rb"):
                            want = str(1 if int(wf[1]) % 256 else 0)
                        elif pair == ("wi", "ri") and wf[2] == rf[1]:
                            want = wf[1]
                        elif pair == ("ww", "ri") and wf[2] == rf[1] and int(wf[2]) & (int(wf[2]) - 1) == 0:
                            want = str(int(wf[1]) % int(wf[2]))
                        elif pair == ("wp", "rp") or pair == ("wu", "ru"):
                            want = wf[1]
                        elif pair in (("ws", "rs"), ("wy", "ry")) and wf[1] == rf[1]:
                            nb = int(wf[1]) if pair[0] == "ws" else 8 * int(wf[1])
                            want = payload_hash(int(wf[2]), nb, maxbytes=1 << 20)
                        elif pair in (("ww", "ri"),):
                            continue
                        else:
                            break                     # the reads of this script are not the matching ones from here on
                        if r[0] != "1" or r[1] != want:
                            V.append(Violation("C12", "roundtrip", "%s wrote, the matching %s returned %s (expected 1:%s)" % (wt, rt, ro, want), st))
                            break
        if op == "bbbits":
            stats["unit"] = stats.get("unit", 0) + 1
            res = [e for e in st.events if e.startswith("bb")]
            nbits = int(a[0]) % 2049
            pseed = int(a[2])
            data = bytearray(payload_bytes(pseed, 300))
            bits_ = bits_of(data, nbits)
            want_h = "%016x" % fnv64(pack_bits(bits_))
            if not res or not res[0].startswith("bb ok"):
                V.append(Violation("C12", "bb", "a run of %d bits at bit offset %d could not be written and read back: %s" % (nbits, int(a[1]) % 64, res[:1]), st))
            else:
                t = res[0].split()
                if t[3] != want_h or t[4] != "1" or int(t[5]) != nbits + 1:
                    V.append(Violation("C12", "bb", "a run of %d bits written at bit offset %d reads back differently (or the following bit / the cursor is wrong): %s" % (nbits, int(a[1]) % 64, res[0]), st))
        if op in ("bbint", "bbwrapped", "bbpacked"):
            stats["unit"] = stats.get("unit", 0) + 1
            res = [e for e in st.events if e.startswith("bb")]
            v = int(a[0]) % (1 << 32)
            mx = int(a[1]) % (1 << 32) if op != "bbpacked" else 0
            if not res:
                V.append(Violation("C12", "bb", "no result", st))
            elif op == "bbint" and v >= mx:
                if res[0] != "bb fail":
                    V.append(Violation("C12", "bb", "out-of-range value accepted: %s" % res[0], st))
            else:
                t = res[0].split()
                if t[1] != "ok":
                    V.append(Violation("C12", "bb", "write/read failed: %s" % res[0], st))
                else:
                    used, got, consumed = int(t[2]), int(t[3]), int(t[4])
                    if op == "bbint":
                        want, maxbits = v, max(1, (mx - 1).bit_length())
                        if got != want or consumed != used or used > maxbits:
                            V.append(Violation("C12", "bb", "bounded int %d/%d: used %d bits (limit %d), read %d consuming %d" % (v, mx, used, maxbits, got, consumed), st))
                    elif op == "bbwrapped":
                        k = (mx).bit_length() - 1 if mx & (mx - 1) == 0 else None
                        if consumed != used or (k is not None and (used != k or got != v % mx)):
                            V.append(Violation("C12", "bb", "wrapped int %d/%d: used %d, read %d consuming %d" % (v, mx, used, got, consumed), st))
                    else:
                        nbytes = max(1, (v.bit_length() + 6) // 7)
                        if got != v or consumed != used or used != 8 * nbytes:
                            V.append(Violation("C12", "bb", "packed int %d: used %d bits (expected %d), read %d consuming %d" % (v, used, 8 * nbytes, got, consumed), st))
        for ev in st.events:
            if ev.startswith("live ") and ev != "live 0":
                V.append(Violation("C16", "leak", "%s block(s) still allocated after every object was destroyed" % ev.split()[1], st))
        if op == "drop":
            stats["drops"] += 1
        if op == "uninit":
            uninit.add(int(a[0]))
        if op == "peek":
            cs = [e for e in st.events if e.startswith("cstate")]
            if cs and cs[0] != "cstate same":
                V.append(Violation("C20", "peek-state", "peek changed the connection", st))
        if op == "cfg" and a and a[0] == "travel":
            cfg_travel = int(a[1])
        if op == "cfg" and a and a[0] == "magic":
            cfg_magic_bits = int(a[1])
        if op == "reset":
            cfg_travel, cfg_magic_bits = 0, 0
        if op == "ldlv" and cfg_magic_bits == 0 and any(x is st for x, _ in expectations):
            # (only the steps the listener sessions tag with an expectation: genuine initial packets and responses in the current wire format, answered
            # by a challenge or an ack; restart requests travel in the original format, which has no session id)
            # the reply to a genuine client datagram starts with the 2-bit session id = GlobalNetTravelCount mod 4 as configured NOW - it does not
            # depend on what the listener answered before (C08: every later datagram is answered as it would have been without that traffic)
            for ev in st.events:
                t = ev.split()
                if ev.startswith("out ") and len(t) > 5 and lsn_ids and int(t[1]) in lsn_ids and (int(t[5]) & 3) != cfg_travel % 4:
                    V.append(Violation("C08", "session", "reply carries session id %d, the configured travel count is %d" % (int(t[5]) & 3, cfg_travel), st))
        if op == "listener" and a:
            lsn_ids.add(int(a[0]))
        # listener statelessness
        if op in ("lraw", "lmut", "ldlv", "route"):
            acc = [e for e in st.events if e.startswith("accept ")]
            ls = [e for e in st.events if e.startswith("lstate")]
            outs = [e for e in st.events if e.startswith("out ")]
            allocs = [e for e in st.events if e.startswith("A ")]
            if ls:  # the datagram went to the listener
                if not acc:
                    if ls[0] != "lstate same":
                        V.append(Violation("C08", "state", "non-completing datagram changed the listener", st))
                    if allocs:
                        V.append(Violation("C08", "alloc", "non-completing datagram allocated", st))
                if len(outs) > 1:
                    V.append(Violation("C08", "replies", "%d replies to one datagram" % len(outs), st))
        if ret is not None:
            stats["ret_codes"][op + ":" + ret.split()[0]] = stats["ret_codes"].get(op + ":" + ret.split()[0], 0) + 1
    # ---------------- expectations tagged by construction (C06 / C07)
    for st, exp in expectations:
        acc = [e for e in st.events if e.startswith("accept ")]
        if exp[0] == "restart-accept":
            if not acc or acc[0].split()[2] != "1":
                V.append(Violation("C07", "rejected-valid", "restart response echoing a fresh cookie was not reported as a re-connect (%s)" % (acc or [e for e in st.events if e.startswith("ret")]), st))
            continue
        if exp[0] == "accept" and not acc:
            V.append(Violation("C07", "rejected-valid", "fresh response within one rotation was refused (%s)" % [e for e in st.events if e.startswith("ret")], st))
        if exp[0] == "noaccept" and acc:
            if st.op == "lmut" or (st.op == "ldlv" and False):
                V.append(Violation("C06", "forged", "corrupted / foreign datagram accepted", st))
            else:
                V.append(Violation("C06", "unissued", "datagram accepted although stale, rotated out or not issued to that address", st))
                V.append(Violation("C07", "accepted-stale", "response accepted after lifetime / two rotations", st))
    # ---------------- C02: status order, soundness
    for ep, lst in status.items():
        for i in range(1, len(lst)):
            if lst[i][0] != lst[i - 1][0] + 1:
                V.append(Violation("C02", "gap" if lst[i][0] > lst[i - 1][0] + 1 else "repeat", "status ids %d then %d" % (lst[i - 1][0], lst[i][0]), lst[i][2]))
        peer = peers.get(ep)
        if peer is None:
            continue
        acc = accepted.get(peer, {})
        wrapped = any(s.op.startswith("w") and s.op not in ("wb",) for s in steps)
        if wrapped:
            continue  # deliveries through the wrapper are not individually observable
        if cleanlink:
            # on a link that loses, duplicates and reorders nothing (and with no channel closed) the peer accepts every packet and refuses none of
            # its bunches: a NAK is wrong whatever the peer's own bookkeeping says (the acc lines are the peer's bookkeeping, not evidence)
            for pid, ack, st in lst:
                if not ack:
                    V.append(Violation("C02", "nak-clean-link", "packet %d reported NAK on a link without faults" % pid, st))
        for pid, ack, st in lst:
            if ack and not acc.get(pid):
                V.append(Violation("C02", "false-ack", "packet %d reported ACK but the peer %s" % (pid, "refused it" if pid in acc else "never accepted it"), st))
        # false NAK: only claimed when no skip-ack happened and the window was respected
        if peer not in skipack_seen:
            out_ids = [r["pid"] for r in sent_all.get(ep, [])]
            for k, (pid, ack, st) in enumerate(lst):
                if not ack and acc.get(pid) is not None:
                    # how many packets were awaiting a verdict when this one was emitted?  conservative: skip if the run ever had > 250 outstanding
                    V.append(Violation("C02", "false-nak", "packet %d reported NAK but the peer accepted it" % pid, st))
    # window: drop false-nak claims when too many packets were outstanding
    big_window = False
    for ep, lst in status.items():
        pass
    # ---------------- C01 / C03 / C04 / C10 : sent vs delivered
    for (dst, ch, rel), got in recvd.items():
        src = peers.get(dst)
        if src is None:
            continue
        want = sent.get((src, ch, rel), [])
        if rel:
            for i, g in enumerate(got):
                if i >= len(want):
                    V.append(Violation("C01", "dup", "reliable bunch delivered that was not sent (extra delivery #%d on ch %d)" % (i, ch), g["step"]))
                    V.append(Violation("C04", "dup", "more reliable deliveries than sends on ch %d" % ch, g["step"]))
                    break
                w = want[i]
                # partial flags of fragments are compared too
                if (g["flags"], g["reason"], g["name"], g["bits"], g["hash"]) != (w["flags"], w["reason"], w["name"], w["bits"], w["hash"]):
                    # is it a later or earlier bunch (order) or corrupted?
                    same = [j for j, x in enumerate(want) if (x["flags"], x["reason"], x["name"], x["bits"], x["hash"]) == (g["flags"], g["reason"], g["name"], g["bits"], g["hash"])]
                    rule = "order" if same else "corrupt"
                    V.append(Violation("C01", rule, "reliable delivery #%d on ch %d is %s, expected %s" % (i, ch, {k: g[k] for k in ("flags", "bits", "hash")}, {k: w[k] for k in ("flags", "bits", "hash")}), g["step"]))
                    if not same:
                        V.append(Violation("C04", "forged", "delivered bunch matches no sent bunch", g["step"]))
                    elif all(j < i for j in same):
                        # everything before position i was delivered matching the sends, so this content has been handed over before
                        V.append(Violation("C04", "dup", "reliable bunch #%d on ch %d delivered a second time (as delivery #%d)" % (same[0], ch, i), g["step"]))
                    break
        else:
            # unreliable: subsequence of sent, each at most once.  Bunches with equal fields are told apart by the
            # packet id they travelled in (the id `send` returned).
            j = 0
            key = lambda x: (x["flags"], x["reason"], x["name"], x["bits"], x["hash"])
            for g in got:
                cand = [k for k in range(j, len(want)) if key(want[k]) == key(g)]
                exact = [k for k in cand if want[k]["pid"] is None or want[k]["pid"] == g["pktid"]]
                if exact:
                    j = exact[0] + 1
                elif cand:
                    V.append(Violation("C02", "id", "unreliable bunch sent with id %s travelled in packet %d" % (want[cand[0]]["pid"], g["pktid"]), g["step"]))
                    j = cand[0] + 1
                else:
                    anyw = any(key(w) == key(g) for w in want)
                    V.append(Violation("C04", "order" if anyw else "forged", "unreliable delivery on ch %d out of order, duplicated or not sent" % ch, g["step"]))
                    break
    # deliveries on channels nobody sent on
    for (dst, ch, rel), got in recvd.items():
        src = peers.get(dst)
        if src is not None and (src, ch, rel) not in sent and got:
            V.append(Violation("C04", "forged", "delivery on ch %d (%s) but nothing was sent there" % (ch, "reliable" if rel else "unreliable"), got[0]["step"]))
    if drained:
        for (src, ch, rel), want in sent.items():
            dst = peers.get(src)
            if dst is None or not rel or dst in uninit or src in uninit:
                continue
            if closed_conn.get(dst) is not None or closed_conn.get(src) is not None:
                continue
            got = recvd.get((dst, ch, True), [])
            if len(got) < len(want):
                w = want[len(got)]
                rule = "lost"
                V.append(Violation("C01", rule, "reliable bunch #%d on ch %d (%d bits) never delivered after the drain" % (len(got), ch, w["bits"]), w["step"]))
                # C02, judged without the peer's own bookkeeping: the packet whose id `send` returned for this bunch was reported ACK, yet the peer's
                # application never saw the bunch - the peer cannot have accepted that packet with all its bunches
                if w.get("pid") is not None and any(pid == w["pid"] and ack for pid, ack, _ in status.get(src, [])):
                    V.append(Violation("C02", "ack-lost", "packet %s reported ACK but its reliable bunch #%d on ch %d was never handed to the peer application" % (w["pid"], len(got), ch), w["step"]))
                if any(x["flags"] & 2 for x in want):
                    V.append(Violation("C10", "lost", "reliable data of a closed channel %d never delivered" % ch, w["step"]))
                frag = [x for x in want[len(got):] if x["flags"] & 64]
                if frag:
                    V.append(Violation("C03", "lost", "reliable partial group never delivered", frag[0]["step"]))
    # ---------------- C03: an unreliable group whose packets were all accepted, on a channel already open at the receiver, with no
    # reliable group in its way, is delivered
    wrapped_any = any(s_.op.startswith("w") and s_.op != "wb" for s_ in steps)
    if not hostile and not wrapped_any and not closed_conn and not closed_state:
        for (src, ch, rel), want in sent.items():
            dst = peers.get(src)
            if rel or dst is None:
                continue
            on_ch = [r for r in sent_all.get(src, []) if r["ch"] == ch]
            if any(r["flags"] & 2 for r in on_ch) or any((r["flags"] & 64) and (r["flags"] & 8) for r in on_ch):
                continue   # channel closed in this session / reliable groups on this channel: not claimed
            i = 0
            while i < len(on_ch):
                r0 = on_ch[i]
                if not (r0["flags"] & 64 and r0["flags"] & 128 and not r0["flags"] & 8):
                    i += 1
                    continue
                grp = [r0]
                j = i + 1
                while not (grp[-1]["flags"] & 256) and j < len(on_ch) and (on_ch[j]["flags"] & 64) and not (on_ch[j]["flags"] & (8 | 128)):
                    grp.append(on_ch[j])
                    j += 1
                i = j
                if not (grp[-1]["flags"] & 256) or len(grp) < 2 or any(g["pid"] is None for g in grp):
                    continue
                pids = [g["pid"] for g in grp]
                if any(not (0 <= pids[k + 1] - pids[k] <= 1) for k in range(len(pids) - 1)):
                    continue   # the sender itself put other packets between the fragments
                acc = accepted.get(dst, {})
                if any(p not in acc for p in pids):
                    continue
                # a packet that was accepted but not acknowledged only counts when nothing but this group travelled in it
                mine = set(id(g) for g in grp)
                if any(not acc[p] and any(id(x) not in mine for x in sent_all.get(src, []) if x["pid"] == p) for p in set(pids)):
                    continue
                first_step = acc_step.get(dst, {}).get(pids[0])
                opened = [x for x in recv_all.get(dst, []) if x["ch"] == ch and x["step"].idx < first_step]
                if first_step is None or not opened:
                    continue
                got = [x for x in recvd.get((dst, ch, False), []) if x["hash"] == grp[-1]["hash"] and x["pktid"] == pids[-1] and x["group"] == len(grp)]
                if not got:
                    V.append(Violation("C03", "ulost", "unreliable group of %d fragments on ch %d (packets %s, all accepted, channel open, no reliable group pending) was not delivered" % (len(grp), ch, sorted(set(pids))), grp[0]["step"]))
    # ---------------- C10: once the close has been delivered and acknowledged both sides have released the channel
    for ep, r, st, dr in chans_checks:
        if not dr or r is None or hostile or closed_conn or ep in uninit:
            continue
        if drain_idx is None or last_update_idx.get(ep, -1) < drain_idx:
            continue   # the deferred teardown runs in update
        for item in r.split()[1:]:
            f = item.split(":")
            if len(f) == 4 and f[1] == "1":
                V.append(Violation("C10", "held", "endpoint %d still holds closed channel %s (%s sent, %s received bunches queued) after the close was delivered, acknowledged and update ran" % (ep, f[0], f[2], f[3]), st))
    # ---------------- C18 / C11: a genuine datagram that the peer could not parse
    if not hostile:
        for ep, reason in list(closed_state.items()) + list(closed_conn.items()):
            if reason in (4, 7, 9, 10, 12, 13) and stats["groups_max"] <= 256 and not any(s_.op in ("raw", "mut", "craft") for s_ in steps):
                V.append(Violation("C18", "parse", "endpoint %d closed with reason %d: a datagram emitted by its peer and delivered unmodified could not be parsed" % (ep, reason)))
                V.append(Violation("C11", "wire", "endpoint %d closed with reason %d while parsing a genuine datagram" % (ep, reason)))
                break
    # ---------------- C16: nothing retained when quiescent
    # (an unreliable group whose tail was lost legitimately stays half assembled until the next initial fragment: "no partial group is pending" fails)
    unrel_partial_at_risk = any(w["flags"] & 64 and not w["flags"] & 8 for lst in sent.values() for w in lst) and (stats["drops"] > 0 or stats["skipacks"] > 0 or any(s_.op == "dlv" for s_ in steps))
    for r, st, dr in nodes_checks:
        if dr and r is not None and r != "0" and not closed_conn and not hostile and not unrel_partial_at_risk:
            V.append(Violation("C16", "retained", "%s bunch buffers still held after everything was delivered and acknowledged" % r, st))
    # ---------------- C15: keep-alive / timeout rules on the clock sessions
    if clock_mode:
        le = {}
        for st in steps:
            pass
    # ---------------- C05: the handshake completed exactly once on each side, and data flows afterwards
    if handshake_addr is not None and drained and not hostile:
        client = 1
        if connects.get(client, 0) == 0:
            V.append(Violation("C05", "never", "client never reported connected although the network became fault-free"))
        elif connects.get(client, 0) > 1:
            V.append(Violation("C05", "twice", "client reported connected %d times" % connects[client]))
        if accepts.get(handshake_addr, 0) == 0:
            V.append(Violation("C05", "never", "listener never reported an acceptance"))
        elif accepts.get(handshake_addr, 0) > 1:
            V.append(Violation("C05", "twice", "listener reported %d acceptances for one client address" % accepts[handshake_addr]))
        if connects.get(client, 0) == 1 and accepts.get(handshake_addr, 0) == 1:
            for (src, ch, rel), want in sent.items():
                dst = peers.get(src)
                if rel and dst is not None and len(recvd.get((dst, ch, True), [])) < len(want):
                    V.append(Violation("C05", "disagree", "after the handshake reliable data from endpoint %d is not delivered: the ends disagree on the initial sequence numbers" % src, want[0]["step"]))
                    break
    # ---------------- C05: endpoints initialised with mirrored sequence numbers (what a completed handshake leaves) agree
    if agreed and drained and not hostile:
        for ep in (1, 2):
            peer = peers.get(ep)
            outs_ = [r for r in sent_all.get(ep, []) if r["pid"] is not None]
            if peer is None or not outs_:
                continue
            first_pid = min(r["pid"] for r in outs_)
            if first_pid not in accepted.get(peer, {}):
                V.append(Violation("C05", "disagree", "the first data packet of endpoint %d (id %d) was not accepted by its peer: the ends disagree on the initial sequence numbers" % (ep, first_pid)))
            naks = [pid for pid, ack, st_ in status.get(ep, []) if not ack]
            if naks:
                V.append(Violation("C05", "disagree", "fault-free link after sequence initialisation, yet endpoint %d saw NAKs for packets %s" % (ep, naks[:5])))
        for (src, ch, rel), want in sent.items():
            dst = peers.get(src)
            if rel and dst is not None and len(recvd.get((dst, ch, True), [])) < len(want):
                V.append(Violation("C05", "disagree", "after sequence initialisation reliable data from endpoint %d is not delivered" % src, want[0]["step"]))
                break
    # forged / reflected datagrams are outside the fault model of C01-C04 (the protocol is not authenticated): in
    # sessions that inject them only the robustness monitors apply
    if hostile:
        V = [v for v in V if v.prop in ("C09", "C14", "C18", "C08", "C03", "C16", "C11", "C12", "C06", "C07") and v.rule not in ("lost", "mixed", "retained")]
    if window_exceeded_flag:
        V = [v for v in V if not (v.prop == "C02" and v.rule == "false-nak") and v.rule != "lost"]
    return V, stats, dict(sent=sent, recvd=recvd, status=status, accepted=accepted, joined=joined, peers=peers, connects=connects, accepts=accepts,
                          closed=closed_conn, drained=drained, large_expect=large_expect, settled=settled, handshake_addr=handshake_addr)


def check_large(steps, info):
    """C19: every lsend is delivered as fragments whose lengths sum to the payload, each <= 7265, flagged, reassembling to the payload"""
    V = []
    sends = [st for st in steps if st.op == "lsend"]
    recv_groups = []
    for st in steps:
        for i, ev in enumerate(st.events):
            if ev.startswith("recv "):
                ep, count, bs = parse_recv(ev)
                j = None
                if i + 1 < len(st.events) and st.events[i + 1].startswith("joined "):
                    t = st.events[i + 1].split()
                    j = (int(t[2]), t[3])
                recv_groups.append((ep, count, bs, j, st))
    # per receiving endpoint, in order, skipping the opening bunch (8 bits)
    groups = [g for g in recv_groups if not (g[1] == 1 and g[2][0]["flags"] & 1)]
    reliable_sends = []
    for st in sends:
        ch, flags, name, bits, pseed = (int(x) for x in st.args[1:6])
        reliable_sends.append((flags & 8, bits, pseed, st))
    gi = 0
    for rel, bits, pseed, st in reliable_sends:
        data = large_payload(pseed, bits)
        allbits = bits_of(data, bits)
        nfrag = 1 if bits <= 7264 else bits // 7264 + 1
        r = [e for e in st.events if e.startswith("ret ")]
        if r:
            t = r[0].split()
            first, last = (int(x) for x in t[1:3])
            if len(t) >= 6:
                cnt, sm, shape = int(t[3]), int(t[4]), int(t[5])
                if cnt != nfrag:
                    V.append(Violation("C19", "count", "%d bits are split into %d fragments, expected %d" % (bits, cnt, nfrag), st))
                if sm != bits:
                    V.append(Violation("C19", "length", "the fragments of a %d-bit payload carry %d bits in total: something beyond the payload is transmitted" % (bits, sm), st))
                if nfrag > 1 and shape != 15:
                    V.append(Violation("C19", "flags", "first/last fragment flags wrong (shape %d)" % shape, st))
            if first < 0 or last < 0:
                V.append(Violation("C19", "send-failed", "large bunch of %d bits refused" % bits, st))
                continue
        if not rel:
            # may legitimately be refused or lost only under faults; these sessions are fault free
            pass
        if gi >= len(groups):
            V.append(Violation("C19", "lost", "large bunch of %d bits not delivered" % bits, st))
            continue
        ep, count, bs, j, gst = groups[gi]
        gi += 1
        if count != nfrag:
            V.append(Violation("C19", "count", "%d bits delivered as %d fragments, expected %d" % (bits, count, nfrag), gst))
            continue
        if sum(b["bits"] for b in bs) != bits:
            V.append(Violation("C19", "length", "fragment lengths sum to %d, payload has %d bits" % (sum(b["bits"] for b in bs), bits), gst))
        if any(b["bits"] > 7265 for b in bs):
            V.append(Violation("C19", "limit", "fragment above the single-bunch limit", gst))
        off = 0
        for b in bs:
            frag = pack_bits(allbits[off:off + b["bits"]])
            if "%016x" % fnv64(frag) != b["hash"]:
                V.append(Violation("C19", "content", "fragment at bit %d differs from the payload" % off, gst))
                break
            off += b["bits"]
        if count > 1:
            if j is None:
                V.append(Violation("C19", "join", "no reassembly result", gst))
            else:
                exp = pack_bits(allbits)
                if j[0] != bits or j[1] != "%016x" % fnv64(exp):
                    V.append(Violation("C19", "join", "reassembled payload differs (bits %d vs %d)" % (j[0], bits), gst))
    return V
