"""Build helpers: compile the real dpull/utcp sources from /repo's *current working tree* together with
the harness driver, into a content-addressed directory under /verif/build (never /tmp)."""
import concurrent.futures
import fcntl
import glob
import hashlib
import os
import shutil
import subprocess
import sys
import time

VERIF = os.path.dirname(os.path.dirname(os.path.abspath(__file__)))
REPO = os.environ.get("UTCP_REPO", "/repo")
BUILD = os.path.join(VERIF, "build")
GUARD = "UTCP_VERIF"

C_SOURCES = ["utcp/*.c", "utcp/3rd/*.c"]
CXX_SOURCES = ["abstract/utcp.cpp"]
SAN = ["-fsanitize=address,undefined", "-fno-sanitize-recover=all", "-fno-omit-frame-pointer"]


def repo_sources():
    files = []
    for pat in C_SOURCES + CXX_SOURCES + ["utcp/*.h", "utcp/3rd/*.h", "abstract/*.hpp"]:
        files += sorted(glob.glob(os.path.join(REPO, pat)))
    return files


def tree_hash(extra=()):
    h = hashlib.sha256()
    for f in repo_sources() + list(extra):
        h.update(f.encode())
        with open(f, "rb") as fh:
            h.update(fh.read())
    return h.hexdigest()[:16]


class Lock:
    def __init__(self, name="build"):
        os.makedirs(BUILD, exist_ok=True)
        self.path = os.path.join(BUILD, "." + name + ".lock")

    def __enter__(self):
        self.fh = open(self.path, "w")
        fcntl.flock(self.fh, fcntl.LOCK_EX)
        return self

    def __exit__(self, *a):
        fcntl.flock(self.fh, fcntl.LOCK_UN)
        self.fh.close()


def _run(cmd):
    p = subprocess.run(cmd, stdout=subprocess.PIPE, stderr=subprocess.STDOUT, text=True)
    return p.returncode, p.stdout, cmd


def prune(keep_prefixes, pattern, maxkeep=6):
    dirs = sorted(glob.glob(os.path.join(BUILD, pattern)), key=os.path.getmtime, reverse=True)
    for d in dirs[maxkeep:]:
        if not any(os.path.basename(d).startswith(k) for k in keep_prefixes):
            shutil.rmtree(d, ignore_errors=True)


def build_harness(flavor="ndebug", sanitize=True, opt="-O1"):
    """flavor: 'ndebug' (asserts compiled out, like the shipped test build) or 'assert'.
    Returns path to the driver binary.  Raises RuntimeError with compiler output on failure."""
    drv = os.path.join(VERIF, "harness", "drv.cpp")
    shim = os.path.join(VERIF, "harness", "bb_shim.c")
    key = tree_hash([drv, shim]) + "-" + flavor + ("-san" if sanitize else "-plain")
    out = os.path.join(BUILD, "h-" + key)
    exe = os.path.join(out, "drv")
    with Lock("h-" + flavor + ("s" if sanitize else "p")):
        if os.path.exists(exe):
            os.utime(out)
            return exe
        tmp = out + ".part"
        shutil.rmtree(tmp, ignore_errors=True)
        os.makedirs(tmp)
        defs = ["-D" + GUARD] + (["-DNDEBUG"] if flavor == "ndebug" else [])
        san = SAN if sanitize else []
        # the shim exports the file-local bit-run copier; if this tree no longer has it under that name the harness is built without
        # (unit token `cp` then prints cp:unavailable and is not compared) instead of not being built at all
        rc, outp, cmd = _run(["gcc", "-std=gnu11", "-fsyntax-only", "-Werror=implicit-function-declaration", "-I" + REPO, "-I" + os.path.join(REPO, "utcp")] + defs + [shim])
        use_shim = rc == 0
        if not use_shim:
            defs = defs + ["-DVERIF_NO_SHIM"]
        jobs = []
        objs = []
        for pat in C_SOURCES:
            for src in sorted(glob.glob(os.path.join(REPO, pat))):
                if use_shim and os.path.relpath(src, REPO) == "utcp/bit_buffer.c":
                    src = shim  # the same file, #included, plus an exported wrapper for the static bit-run copier
                obj = os.path.join(tmp, os.path.relpath(src, REPO).replace("/", "_") + ".o")
                objs.append(obj)
                jobs.append(["gcc", "-std=gnu11", opt, "-g", "-w", "-I" + REPO, "-I" + os.path.join(REPO, "utcp")] + defs + san + ["-c", src, "-o", obj])
        for src in [os.path.join(REPO, s) for s in CXX_SOURCES] + [drv]:
            obj = os.path.join(tmp, os.path.basename(src) + ".o")
            objs.append(obj)
            jobs.append(["g++", "-std=gnu++17", opt, "-g", "-w", "-I" + REPO, "-I" + os.path.join(REPO, "utcp")] + defs + san + ["-c", src, "-o", obj])
        with concurrent.futures.ThreadPoolExecutor(max_workers=16) as ex:
            for rc, outp, cmd in ex.map(_run, jobs):
                if rc != 0:
                    shutil.rmtree(tmp, ignore_errors=True)
                    raise RuntimeError("compile failed: %s\n%s" % (" ".join(cmd), outp))
        rc, outp, cmd = _run(["g++"] + san + objs + ["-o", os.path.join(tmp, "drv")])
        if rc != 0:
            shutil.rmtree(tmp, ignore_errors=True)
            raise RuntimeError("link failed:\n" + outp)
        for o in objs:
            os.remove(o)
        shutil.rmtree(out, ignore_errors=True)
        os.rename(tmp, out)
        prune([], "h-*", maxkeep=8)
        return exe


HANGS = [0]   # scenarios on which the driver did not return (this process): after the second one the watchdog gets short, so that a tree
              # on which the library spins forever is reported in minutes, not after (scenarios x builds x full time limit)


def run_harness(exe, scenario_text, timeout=120):
    """Run the driver on a scenario; returns (returncode, stdout, stderr)."""
    if HANGS[0] >= 6:
        return -999, "", "TIMEOUT (not run: the driver already failed to return on six scenarios)"
    if HANGS[0] >= 1:
        timeout = min(timeout, 12)
    env = dict(os.environ)
    env["ASAN_OPTIONS"] = "detect_leaks=1:abort_on_error=0:exitcode=88:allocator_may_return_null=1"
    env["UBSAN_OPTIONS"] = "print_stacktrace=1:halt_on_error=1:exitcode=89"
    try:
        p = subprocess.run([exe], input=scenario_text, stdout=subprocess.PIPE, stderr=subprocess.PIPE, text=True, timeout=timeout, env=env)
        return p.returncode, p.stdout, p.stderr
    except subprocess.TimeoutExpired as e:
        HANGS[0] += 1
        return -999, (e.stdout or b"").decode(errors="replace") if isinstance(e.stdout, bytes) else (e.stdout or ""), "TIMEOUT"


if __name__ == "__main__":
    t = time.time()
    for fl in sys.argv[1:] or ["ndebug", "assert"]:
        print(build_harness(fl), "%.1fs" % (time.time() - t))
