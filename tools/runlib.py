"""Run scenarios through the real code (harness) and through the Lean model (driver), compare."""
import concurrent.futures
import os
import re
import subprocess
import sys
import time

sys.path.insert(0, os.path.dirname(os.path.abspath(__file__)))
import buildlib

VERIF = buildlib.VERIF
DRIVER = os.path.join(VERIF, "lean", ".lake", "build", "bin", "driver")


def canon(text):
    """canonicalise a trace: the challenge block and the channel block may have the same size (the harness
    classifies blocks by size), so both are printed as 'chan'."""
    return re.sub(r"^([AFR]) chal$", r"\1 chan", text, flags=re.M)


def run_model(scn_text, timeout=300):
    try:
        p = subprocess.run([DRIVER], input=scn_text, stdout=subprocess.PIPE, stderr=subprocess.PIPE, text=True, timeout=timeout)
        return p.returncode, p.stdout, p.stderr
    except subprocess.TimeoutExpired:
        return -999, "", "TIMEOUT"


def first_diff(a, b):
    la, lb = a.splitlines(), b.splitlines()
    for i in range(max(len(la), len(lb))):
        x = la[i] if i < len(la) else "<end>"
        y = lb[i] if i < len(lb) else "<end>"
        if x != y and "cp:unavailable" in x:
            # the harness could not reach the file-local bit-run copier of this tree (it was renamed or restructured): bare copies are
            # not compared; the copier is still exercised through bitbuf_write_bits / bitbuf_read_bits by every other token
            if re.sub(r"cp:[0-9a-f]{16}", "cp:unavailable", y) == x:
                continue
        if x != y and x[:2] in ("A ", "F ", "R ") and x[:2] == y[:2]:
            # allocator events name blocks by size; where sizes of several kinds coincide the harness names every candidate
            cand = set(canon(x[:2] + k).split()[1] for k in x[2:].strip().split("|"))
            if canon(y).split()[1:2] and canon(y).split()[1] in cand:
                continue
        if x != y:
            # find the op this line belongs to
            op = None
            for k in range(min(i, len(la) - 1), -1, -1):
                if la[k].startswith("> "):
                    op = la[k]
                    break
            return dict(line=i, impl=x, model=y, op=op)
    return None


class Result:
    pass


def run_one(scn_lines, exes, want_model=True, timeout=120):
    """exes: dict flavor->path.  Returns Result with .impl (dict flavor->(rc,out,err)), .model, .diff (dict flavor->first diff or None)"""
    text = "\n".join(scn_lines) + "\n"
    r = Result()
    r.text = text
    r.lines = scn_lines
    r.impl = {}
    for fl, exe in exes.items():
        rc, out, err = buildlib.run_harness(exe, text, timeout=timeout)
        r.impl[fl] = (rc, canon(out), err)
    r.model = None
    r.diff = {}
    if want_model:
        rc, out, err = run_model(text)
        r.model = (rc, canon(out), err)
        for fl in exes:
            r.diff[fl] = first_diff(r.impl[fl][1], r.model[1])
    return r


def run_many(scenarios, exes, want_model=True, workers=14, timeout=120):
    """scenarios: list of list-of-lines. Returns list of Result in order."""
    with concurrent.futures.ThreadPoolExecutor(max_workers=workers) as ex:
        return list(ex.map(lambda s: run_one(s, exes, want_model, timeout), scenarios))


def crash_info(rc, err):
    """classify a non-zero exit of the harness"""
    if rc == 0:
        return None
    if rc == -999:
        return ("hang", "watchdog: the driver did not return within the time limit")
    m = re.search(r"(ERROR: AddressSanitizer: [^\n]*|runtime error: [^\n]*|ERROR: LeakSanitizer[^\n]*)", err or "")
    if rc == 86:
        return ("assert", "assertion failed")
    if rc == 87:
        return ("badfree", "free of unknown pointer")
    if m:
        kind = "ubsan" if "runtime error" in m.group(1) else ("leak" if "LeakSanitizer" in m.group(1) else "asan")
        site = re.search(r"#\d+ 0x[0-9a-f]+ in (\S+) (/repo\S+)", err or "")
        return (kind, m.group(1) + ((" in %s %s" % (site.group(1), site.group(2))) if site else ""))
    return ("crash", "exit code %d: %s" % (rc, (err or "")[-300:]))
