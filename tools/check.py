#!/usr/bin/env python3
"""check.py <property> [--tier quick|thorough] [--replay FILE]

Decides one property of dpull/utcp on /repo's current working tree:
  1. regenerate the generated Lean sources (constants, pure functions) from /repo;
  2. build the Lean library, the property's theorem file and the model driver; audit axioms / sorry;
  3. build the real code into the harness (asserts off and on, ASan+UBSan);
  4. run corpus + seeded scenarios on the real code and on the model; compare; run the monitors;
  5. on a broken proof / correspondence, search for a concrete failing input with the monitors;
  6. write evidence/<id>.json, print the verdict.
Exit 0: property held on everything explored.  Exit 1 + "VIOLATION property=<id> replay=<path>" otherwise.
"""
import argparse
import glob
import hashlib
import json
import os
import random
import re
import shutil
import subprocess
import sys
import time

HERE = os.path.dirname(os.path.abspath(__file__))
sys.path.insert(0, HERE)
import buildlib
import monitors
import runlib
import scen

VERIF = buildlib.VERIF
# evidence goes to /verif/evidence; runs against a scratch copy of the repository (seeded changes) set VERIF_EVIDENCE_DIR
EVID = os.environ.get("VERIF_EVIDENCE_DIR") or os.path.join(VERIF, "evidence")
LEAN = os.path.join(VERIF, "lean")
ALLOWED_AXIOMS = {"propext", "Classical.choice", "Quot.sound"}


def log(*a):
    print(*a, flush=True)


# ------------------------------------------------------------------------------------------------ families
def fam_data(seed, **kw):
    return [("data", scen.data_session(seed, **kw))]


def twin_replay(seed):
    """C04: a session and the same session with replays of already-seen (or older) datagrams injected"""
    rng = random.Random(seed * 7919 + 13)
    base = scen.data_session(seed, n_steps=80, with_close=False, updates=False)
    out = []
    marks = []
    for line in base:
        out.append(line)
        t = line.split()
        if t and t[0] == "dln" and rng.random() < 0.35:
            for _ in range(rng.randint(1, 3)):
                k = rng.choice([1, 1, 2, 3, 5, 8, 13])
                out.append("#! replay")
                out.append("rpl %s %s %d" % (t[1], t[2], k - 1))
    return [("replay-base", base), ("replay-twin", out)]


def twin_fill(seed, kind):
    if kind == "data":
        base = scen.data_session(seed, n_steps=80, with_close=seed % 4 == 0, updates=True, tiny=seed % 2 == 0, p_rel=0.85)
    elif kind == "hs":
        base = scen.handshake_session(seed, hostile=False, rotations=seed % 2 == 0)
    else:
        base = scen.listener_session(seed)
    res = []
    for f in (0, 255, 165, random.Random(seed).randint(1, 254)):
        sc = []
        for l in base:
            sc.append(l)
            if l == "reset":
                sc.append("fill %d" % f)
        res.append(("fill-%d" % f, sc))
    return res


def twin_wrap(seed):
    a, b = scen.wrapper_pair(seed)
    return [("wrap-sorted", a), ("wrap-perm", b)]


def strip_ops(text, pred):
    """remove the echo blocks of ops for which pred(line) holds"""
    out = []
    skip = False
    for l in text.splitlines():
        if l.startswith("> "):
            skip = pred(l[2:])
        if not skip:
            out.append(l)
    return "\n".join(out)


def compare_twins(prop, group, results):
    """returns list of Violation for twin groups"""
    V = []
    names = [g[0] for g in group]
    if names[0] == "replay-base":
        base = results[0].impl["ndebug"][1]
        twin = results[1].impl["ndebug"][1]
        # replay ops: lines in twin scenario preceded by '#! replay'
        sc = group[1][1]
        replay_lines = set()
        for i, l in enumerate(sc):
            if l == "#! replay":
                replay_lines.add(" ".join(sc[i + 1].split()))
        steps, _ = monitors.parse_trace(sc, twin)
        for st in steps:
            if "replay" in st.notes:
                bad = [e for e in st.events if not e.startswith("ret")]
                if bad:
                    V.append(monitors.Violation("C04", "replay", "replayed datagram caused %s" % bad[:3], st))
        # the remaining trace must be identical.  Replays are removed by position: rebuild twin trace without replay steps
        kept = []
        for st in steps:
            if "replay" in st.notes:
                continue
            kept.append("> " + st.line)
            kept += st.events
        trailing = twin.splitlines()[sum(1 + len(st.events) for st in steps):]
        a = base.splitlines()
        b = kept + trailing
        if a != b:
            d = runlib.first_diff("\n".join(a), "\n".join(b))
            V.append(monitors.Violation("C04", "replay", "trace after replays differs from the trace without them: base %r twin %r (at %s)" % (d["impl"], d["model"], d["op"])))
    elif names[0].startswith("fill-"):
        ref = strip_ops(results[0].impl["ndebug"][1], lambda l: l.startswith("fill"))
        for g, r in zip(group[1:], results[1:]):
            other = strip_ops(r.impl["ndebug"][1], lambda l: l.startswith("fill"))
            if other != ref:
                d = runlib.first_diff(ref, other)
                V.append(monitors.Violation("C17", "fill", "trace depends on the contents of fresh memory (%s vs %s): %r / %r at %s" % (names[0], g[0], d["impl"], d["model"], d["op"])))
    elif names[0] == "wrap-sorted":
        def essence(text):
            keep = []
            for l in text.splitlines():
                if l.startswith(("recv ", "status ", "joined ", "disconnect ")):
                    keep.append(l)
            # what happens after the cache flush must be identical too (acks emitted, later traffic)
            idx = text.find("> wflush")
            return keep, text[idx:] if idx >= 0 else ""
        ka, ta = essence(results[0].impl["ndebug"][1])
        kb, tb = essence(results[1].impl["ndebug"][1])
        if ka != kb:
            V.append(monitors.Violation("C20", "perm", "permuted arrival delivers / acknowledges differently from in-order arrival: %s vs %s" % (ka[:4], kb[:4])))
        else:
            ta2 = "\n".join(l for l in ta.splitlines() if not l.startswith(("A ", "F ", "R ")))
            tb2 = "\n".join(l for l in tb.splitlines() if not l.startswith(("A ", "F ", "R ")))
            ia, ib = ta2.find("> tick"), tb2.find("> tick")
            if ta2[ia:] != tb2[ib:]:
                d = runlib.first_diff(ta2[ia:], tb2[ib:])
                V.append(monitors.Violation("C20", "perm", "behaviour after the cache flush differs: %r vs %r at %s" % (d["impl"], d["model"], d["op"])))
    return V


def plan(prop, tier, seed):
    """list of scenario groups for a property.  Each group is a list of (name, lines)."""
    q = tier == "quick"
    rng = random.Random(seed * 1000003 + int(prop[1:]))
    S = lambda: rng.randint(0, 1 << 30)
    G = []
    scale = int(os.environ.get("VERIF_THOROUGH_SCALE", "4"))   # the thorough tier runs `scale` times the scenario counts written below
    n = lambda a, b: a if q else b * scale

    def data(k, **kw):
        for _ in range(k):
            G.append(fam_data(S(), **kw))

    def fam(k, f, name, *a, **kw):
        for _ in range(k):
            G.append([(name, f(S(), *a, **kw))])
    if prop == "C01":
        data(n(50, 600)); data(n(10, 80), with_close=True, updates=True); fam(n(20, 200), scen.window_session, "window"); data(n(3, 30), big_groups=True)
        fam(n(12, 200), scen.deep_session, "deep"); fam(n(6, 60), scen.queue_full_session, "queue-full"); fam(n(10, 150), scen.renak_session, "renak"); fam(n(6, 80), scen.burst_session, "burst")
    elif prop == "C02":
        data(n(40, 400)); data(n(12, 150), faults=False); fam(n(40, 500), scen.window_session, "window"); fam(n(25, 400), scen.refresh_session, "refresh"); fam(n(4, 40), scen.queue_full_session, "queue-full"); fam(n(8, 100), scen.ack256_session, "ack256")
    elif prop == "C03":
        data(n(50, 500), p_rel=0.5); data(n(20, 250), with_close=True, updates=True); data(n(5, 60), big_groups=True); fam(n(30, 400), scen.wrap_partial_session, "wrap-partial"); fam(n(8, 60), scen.queue_full_session, "queue-full", groups=True); fam(n(10, 150), scen.bad_group_session, "bad-groups")
    elif prop == "C04":
        data(n(25, 300))
        for _ in range(n(25, 400)):
            G.append(twin_replay(S()))
        fam(n(25, 400), scen.hs_replay_session, "hs-replay")
        fam(n(12, 200), scen.deep_session, "deep"); fam(n(20, 300), scen.renak_session, "renak"); fam(n(5, 60), scen.stale_group_session, "stale-group")
    elif prop == "C05":
        for _ in range(n(80, 1500)):
            s = S()
            G.append([("hs", scen.handshake_session(s, rotations=s % 4 == 0))])
        fam(n(40, 600), scen.hs_stray_session, "hs-stray")
        fam(n(40, 600), scen.hs_outage_session, "hs-outage"); fam(n(40, 800), scen.agreed_session, "agreed")
        fam(n(25, 400), scen.hs_migrate_session, "hs-migrate")
        if not q:
            # exhaustive fates for the first 6 handshake datagrams (4^6 = 4096 assignments), one seed
            import itertools
            for fates in itertools.product("dxur", repeat=6):
                G.append([("hs-fates", scen.handshake_session(seed, fates=list(fates)))])
    elif prop == "C06":
        fam(n(80, 1500), scen.listener_session, "lsn"); fam(n(20, 300), scen.hs_migrate_session, "hs-migrate")
    elif prop == "C07":
        fam(n(80, 1500), scen.listener_session, "lsn"); fam(n(20, 300), scen.hs_outage_session, "hs-outage")
    elif prop == "C08":
        fam(n(60, 1000), scen.listener_session, "lsn")
        for _ in range(n(20, 300)):
            G.append([("hs-hostile", scen.handshake_session(S(), hostile=True))])
        fam(n(15, 300), scen.hs_migrate_session, "hs-migrate")
    elif prop == "C09":
        fam(n(70, 2000), scen.hostile_session, "hostile")
        for _ in range(n(40, 800)):
            G.append([("hs-hostile", scen.handshake_session(S(), hostile=True, rotations=True))])
        fam(n(30, 500), scen.listener_session, "lsn"); fam(n(15, 300), scen.hs_migrate_session, "hs-migrate")
        fam(n(60, 1500), scen.inject_session, "inject")
        data(n(5, 40), big_groups=True)
    elif prop == "C10":
        data(n(80, 1200), with_close=True, updates=True); fam(n(40, 600), scen.close_burst_session, "close-burst"); fam(n(6, 100), scen.many_channels_session, "many-channels"); fam(n(12, 150), scen.burst_session, "burst")
    elif prop == "C11":
        data(n(30, 400)); data(n(15, 150), with_close=True, updates=True); fam(n(10, 100), scen.large_session, "large"); fam(n(12, 200), scen.unit_session, "unit")
        fam(n(25, 400), scen.inject_session, "inject")
        # packet headers with several history words, reserved first and refreshed in place at the flush (C11's second clause: the packet header round trip)
        fam(n(15, 200), scen.window_session, "window"); fam(n(10, 150), scen.refresh_session, "refresh")
    elif prop == "C12":
        data(n(25, 300)); data(n(15, 150), with_close=True, updates=True); fam(n(10, 150), scen.large_session, "large"); fam(n(10, 100), scen.window_session, "window")
        fam(n(12, 200), scen.unit_session, "unit"); fam(n(10, 150), scen.bytebuf_session, "bytebuf")
        if not q:
            G.append([("bytebuf-all-alignments", scen.bytebuf_session(seed, n=0, exhaustive=True))])
    elif prop == "C13":
        data(n(40, 400)); fam(n(20, 200), scen.window_session, "window"); fam(n(6, 100), scen.deep_session, "deep"); fam(n(10, 150), scen.wrap_partial_session, "wrap-partial")
    elif prop == "C14":
        data(n(80, 1000), with_invalid=True)
    elif prop == "C15":
        fam(n(200, 3000), scen.clock_session, "clock")
        for _ in range(n(20, 200)):
            G.append([("hs", scen.handshake_session(S()))])
    elif prop == "C16":
        data(n(50, 800), with_close=True, updates=True); fam(n(30, 400), scen.window_session, "window"); fam(n(15, 300), scen.close_burst_session, "close-burst")
        for _ in range(n(20, 300)):
            G.append([("hs", scen.handshake_session(S(), hostile=False))])
        fam(n(15, 200), scen.hostile_session, "hostile"); fam(n(15, 200), scen.bad_group_session, "bad-groups")
        fam(n(10, 150), scen.many_channels_session, "many-channels"); fam(n(10, 150), scen.fill_ack_session, "fill-ack")
    elif prop == "C17":
        for _ in range(n(12, 150)):
            G.append(twin_fill(S(), "data"))
        for _ in range(n(12, 150)):
            G.append(twin_fill(S(), "hs"))
        for _ in range(n(6, 80)):
            G.append(twin_fill(S(), "lsn"))
    elif prop == "C18":
        data(n(40, 500)); fam(n(30, 400), scen.window_session, "window")
        for _ in range(n(20, 300)):
            G.append([("hs", scen.handshake_session(S()))])
    elif prop == "C19":
        fam(n(80, 1500), scen.large_session, "large")
    elif prop == "C20":
        for _ in range(n(100, 2000)):
            G.append(twin_wrap(S()))
    # prefix truncation for teardown-after-every-prefix (C16)
    if prop == "C16":
        extra = []
        for g in G[: n(20, 200)]:
            name, lines = g[0]
            cut = rng.randint(5, max(6, len(lines) - 1))
            extra.append([(name + "-prefix", [l for l in lines[:cut] if not l.startswith("#! drain")] + ["uninit 1", "uninit 2"])])
        G += extra
    return G


CORPUS_FOR = {
    "C01": ["D01", "D13", "D15", "K16", "K17", "K18"], "C02": ["D13"], "C03": ["D02"], "C04": ["K17", "K18"], "C05": ["D03", "D13"], "C06": ["D06"], "C07": ["D04", "D05"], "C08": [],
    "C09": ["D02", "D06", "D09"], "C10": ["D08"], "C11": [], "C12": [], "C13": [], "C14": ["D09", "F13"], "C15": ["D10", "D14"], "C16": [], "C17": ["D11", "D13"],
    "C18": ["D09", "D13"], "C19": ["D12"], "C20": [],
}


def corpus_groups(prop):
    G = []
    for tag in CORPUS_FOR.get(prop, []):
        for f in sorted(glob.glob(os.path.join(VERIF, "corpus", tag + "_*.scn"))):
            G.append([("corpus:" + os.path.basename(f), [l.rstrip("\n") for l in open(f)])])
    # minimised past disagreements / seeded-change witnesses kept for this property
    for f in sorted(glob.glob(os.path.join(VERIF, "corpus", prop + "_*.scn"))):
        G.append([("corpus:" + os.path.basename(f), [l.rstrip("\n") for l in open(f)])])
    return G


# ------------------------------------------------------------------------------------------------ lean side
def regenerate(direct=False):
    """returns (ok, message, notes).  notes: what the regeneration could not re-derive from today's source text and how it is tied instead
    (see tools/ctrans.py, tools/extract.py): never an alarm by itself."""
    with buildlib.Lock("gen"):
        for tool in ("extract.py", "ctrans.py"):
            cmd = [sys.executable, os.path.join(HERE, tool)] + (["--direct"] if direct and tool == "ctrans.py" else [])
            p = subprocess.run(cmd, stdout=subprocess.PIPE, stderr=subprocess.STDOUT, text=True)
            if p.returncode != 0:
                return False, "%s failed: %s" % (tool, p.stdout[-1500:]), []
        notes = []
        for f in ("regen_notes_extract.json", "regen_notes_ctrans.json"):
            fp = os.path.join(VERIF, "build", f)
            if os.path.exists(fp):
                notes += json.load(open(fp))
    return True, "", notes


def lake_build(targets):
    with buildlib.Lock("lake"):
        p = subprocess.run(["lake", "build"] + targets, cwd=LEAN, stdout=subprocess.PIPE, stderr=subprocess.STDOUT, text=True)
    return p.returncode == 0, p.stdout


def prop_modules(prop):
    """the theorem file of a property and its continuation files `Props/<prop>_*.lean` (theorems that need later files)"""
    d = os.path.join(LEAN, "Utcp", "Props")
    files = [os.path.join(d, prop + ".lean")] + sorted(glob.glob(os.path.join(d, prop + "_*.lean")))
    return [f for f in files if os.path.exists(f)]


def theorem_names(prop):
    names, txts = [], []
    for path in prop_modules(prop):
        txt = open(path).read()
        ns = re.findall(r"^namespace\s+(\S+)", txt, re.M)
        prefix = ns[0] + "." if ns else ""
        names += [prefix + m for m in re.findall(r"^theorem\s+([A-Za-z0-9_'.]+)", txt, re.M)]
        txts.append(txt)
    return names, "\n".join(txts)


def audit(prop):
    """returns (obligations, discharged, problems, axioms_by_theorem)"""
    names, txt = theorem_names(prop)
    problems = []
    # textual audit of every Lean source
    for f in glob.glob(os.path.join(LEAN, "Utcp", "**", "*.lean"), recursive=True) + glob.glob(os.path.join(LEAN, "Driver", "*.lean")):
        src = open(f).read()
        src_nc = re.sub(r"/-.*?-/", "", src, flags=re.S)
        src_nc = re.sub(r"--.*", "", src_nc)
        for bad in (r"\bsorry\b", r"\badmit\b", r"^\s*axiom\s", r"native_decide", r"implemented_by", r"\bunsafe\s", r"maxHeartbeats\s+0\b", r"bv_decide"):
            if re.search(bad, src_nc, re.M):
                problems.append("%s contains %s" % (os.path.relpath(f, VERIF), bad))
    tmp = os.path.join(VERIF, "build", "audit_%s_%d.lean" % (prop, os.getpid()))
    os.makedirs(os.path.dirname(tmp), exist_ok=True)
    with open(tmp, "w") as fh:
        for f in prop_modules(prop):
            fh.write("import Utcp.Props.%s\n" % os.path.basename(f)[:-5])
        for nme in names:
            fh.write("#print axioms %s\n" % nme)
    p = subprocess.run(["lake", "env", "lean", tmp], cwd=LEAN, stdout=subprocess.PIPE, stderr=subprocess.STDOUT, text=True)
    os.remove(tmp)
    axioms = {}
    cur = None
    out = p.stdout
    for m in re.finditer(r"'([^']+)' (does not depend on any axioms|depends on axioms: \[([^\]]*)\])", out.replace("\n", " ")):
        nme = m.group(1)
        axs = [a.strip() for a in (m.group(3) or "").split(",") if a.strip()]
        axioms[nme] = axs
    discharged = 0
    for nme in names:
        if nme not in axioms:
            problems.append("no axiom report for %s (%s)" % (nme, out[-300:].strip()))
            continue
        extra = [a for a in axioms[nme] if a not in ALLOWED_AXIOMS]
        if extra:
            problems.append("%s depends on %s" % (nme, extra))
        else:
            discharged += 1
    return len(names), discharged, problems, axioms


def validate_translator():
    """differential run: generated Lean definitions vs the compiled C functions on boundary + random inputs"""
    p = subprocess.run([sys.executable, os.path.join(HERE, "transval.py")], stdout=subprocess.PIPE, stderr=subprocess.STDOUT, text=True)
    return p.returncode == 0, p.stdout


# ------------------------------------------------------------------------------------------------ main
def write_replay(prop, seed, k, header_lines, scn_lines):
    os.makedirs(os.path.join(VERIF, "replays"), exist_ok=True)
    path = os.path.join(VERIF, "replays", "%s-%d-%d.scn" % (prop, seed, k))
    with open(path, "w") as fh:
        for h in header_lines:
            fh.write("# " + h + "\n")
        for l in scn_lines:
            fh.write(l + "\n")
    return path


def load_known():
    known = []
    path = os.path.join(VERIF, "known_findings.txt")
    if os.path.exists(path):
        for l in open(path):
            l = l.strip()
            if l.startswith("known:"):
                m = re.match(r"known:\s+property=(\S+)\s+sig=(\S+)\s+replay=(\S+)\s+(.*)", l)
                if m:
                    known.append(dict(prop=m.group(1), sig=m.group(2), replay=m.group(3), text=m.group(4)))
    return known


def shrink(prop, lines, exes, sig, budget=60):
    """delta-debug a scenario while the monitor keeps reporting the same signature (impl only)"""
    def fails(ls):
        r = runlib.run_one(ls, {"ndebug": exes["ndebug"]}, want_model=False, timeout=25 if "hang" in sig else 60)
        rc, out, err = r.impl["ndebug"]
        if runlib.crash_info(rc, err):
            return sig.startswith("C09")
        steps, tn = monitors.parse_trace(ls, out)
        V, _, info = monitors.analyse(steps, tn)
        if prop == "C19":
            V += monitors.check_large(steps, info)
        return any(v.sig() == sig for v in V)
    cur = list(lines)
    chunk = max(1, len(cur) // 4)
    tries = 0
    while chunk >= 1 and tries < budget:
        i = 0
        progressed = False
        while i < len(cur) and tries < budget:
            cand = cur[:i] + cur[i + chunk:]
            # never remove session setup
            removed = cur[i:i + chunk]
            if any(l.split()[0] in ("reset", "conn", "seqinit", "listener", "cfg", "seed", "connect") or l.startswith("#!") for l in removed if l.strip()):
                i += chunk
                continue
            tries += 1
            if fails(cand):
                cur = cand
                progressed = True
            else:
                i += chunk
        if not progressed:
            chunk //= 2
    return cur


def main():
    ap = argparse.ArgumentParser()
    ap.add_argument("prop")
    ap.add_argument("--tier", default=os.environ.get("VERIF_TIER", "quick"))
    ap.add_argument("--replay")
    ap.add_argument("--seed", type=int, default=int(os.environ.get("VERIF_SEED", "1")))
    args = ap.parse_args()
    prop, tier, seed = args.prop, args.tier, args.seed
    if tier not in ("quick", "thorough"):
        tier = "quick"
    t0 = time.time()
    os.makedirs(EVID, exist_ok=True)
    findings = []  # (kind, text, replay_path, has_input)
    notes = []

    # ---- 1/2: generated sources, proofs
    proof_ok = True
    proof_msgs = []
    ok, msg, regen_notes = regenerate()
    if not ok:
        proof_ok = False
        proof_msgs.append("regeneration of the generated Lean definitions failed: " + msg)
    targets = ["Utcp", "driver"] + ["Utcp.Props." + os.path.basename(f)[:-5] for f in prop_modules(prop)]
    build_ok, out = (False, "") if not ok else lake_build(targets)
    if ok and not build_ok and any("reads differently" in nt for nt in regen_notes) and "PureFns" in out:
        # an equivalence theorem (today's translation = the definition the theorems were written for) did not go through with the
        # stock tactics: second chance - make today's translations the definitions and re-check the property theorems against them
        ok2, msg2, notes2 = regenerate(direct=True)
        if ok2:
            build_ok2, out2 = lake_build(targets)
            if build_ok2:
                build_ok, out, regen_notes = True, out2, notes2 + ["an equivalence theorem did not go through with the stock tactics; the property theorems were re-checked directly against today's translations"]
            else:
                regenerate()
                lake_build(["Utcp", "driver"])
    for nt in regen_notes:
        log("NOTE regeneration: " + nt)
    if ok and not build_ok:
        proof_ok = False
        errs = [l for l in out.splitlines() if "error" in l][:8]
        proof_msgs.append("lake build failed: " + " | ".join(errs))
        # the model driver is still needed for correspondence: build what can be built
        lake_build(["Utcp", "driver"])
    obligations = discharged = 0
    axioms = {}
    if build_ok:
        obligations, discharged, problems, axioms = audit(prop)
        if problems:
            proof_ok = False
            proof_msgs += problems
        if tier == "thorough":
            # the compiled theorem files are replayed by Lean's independent checker, one module per call
            for f in prop_modules(prop):
                mod = "Utcp.Props." + os.path.basename(f)[:-5]
                pc = subprocess.run(["lake", "env", "leanchecker", mod], cwd=LEAN, stdout=subprocess.PIPE, stderr=subprocess.STDOUT, text=True)
                if pc.returncode != 0:
                    proof_ok = False
                    proof_msgs.append("leanchecker rejects %s: %s" % (mod, pc.stdout[-300:].strip()))
        tv_ok, tv_out = validate_translator()
        if not tv_ok:
            proof_ok = False
            proof_msgs.append("translator validation: generated Lean and compiled C disagree: " + tv_out[-600:])
    have_model = os.path.exists(runlib.DRIVER)

    # ---- 3: harness
    try:
        exes = {"ndebug": buildlib.build_harness("ndebug"), "assert": buildlib.build_harness("assert")}
    except RuntimeError as e:
        log("harness build failed:\n" + str(e)[-3000:])
        rp = write_replay(prop, seed, 0, ["the real code does not build into the harness", str(e)[-1500:]], [])
        log("VIOLATION property=%s replay=%s no-failing-input-found" % (prop, rp))
        sys.exit(1)

    # ---- replay mode
    if args.replay:
        lines = [l.rstrip("\n") for l in open(args.replay) if not l.startswith("# ")]
        groups = [[("replay", lines)]]
    else:
        groups = corpus_groups(prop) + plan(prop, tier, seed)

    # ---- 4: run
    flat = []
    for gi, g in enumerate(groups):
        for name, lines in g:
            flat.append((gi, name, lines))
    results = runlib.run_many([x[2] for x in flat], exes, want_model=have_model, workers=15, timeout=180)
    by_group = {}
    for (gi, name, lines), r in zip(flat, results):
        by_group.setdefault(gi, []).append((name, lines, r))
    stats_tot = {}
    distinct = set()
    nontrivial = 0
    diffs = []
    viol = []
    crashes = []
    samples = []
    fam_count = {}
    for gi, g in enumerate(groups):
        rs = by_group[gi]
        for name, lines, r in rs:
            fam_count[name.split(":")[0]] = fam_count.get(name.split(":")[0], 0) + 1
            h = hashlib.sha1(r.text.encode()).hexdigest()
            for fl in exes:
                rc, outp, err = r.impl[fl]
                ci = runlib.crash_info(rc, err)
                if ci:
                    crashes.append((name, lines, fl, ci))
            if have_model:
                for fl in exes:
                    if r.diff.get(fl):
                        diffs.append((name, lines, fl, r.diff[fl]))
                        break
            steps, tn = monitors.parse_trace(lines, r.impl["ndebug"][1])
            V, st, info = monitors.analyse(steps, tn)
            if name.startswith("hs-replay"):
                for st_ in steps:
                    if "replay" in st_.notes:
                        bad = [e for e in st_.events if not e.startswith("ret")]
                        if bad:
                            V.append(monitors.Violation("C04", "replay", "a handshake / data datagram presented again caused %s" % bad[:3], st_))
            if prop == "C19" or name.startswith("large"):
                V += monitors.check_large(steps, info)
            for v in V:
                viol.append((name, lines, v))
            for k, val in st.items():
                if isinstance(val, int):
                    stats_tot[k] = stats_tot.get(k, 0) + val
                elif isinstance(val, dict):
                    d = stats_tot.setdefault(k, {})
                    for kk, vv in val.items():
                        d[str(kk)] = d.get(str(kk), 0) + vv
            if h not in distinct:
                distinct.add(h)
                if st["recv_bunches"] + st["status"] + st["accepts"] + st["hostile"] + st["outs"] > 3:
                    nontrivial += 1
            if len(samples) < 3 and not name.startswith("corpus"):
                samples.append({"family": name, "ops": len(lines), "head": [l for l in lines if not l.startswith("#")][:14]})
        if len(rs) > 1:
            for v in compare_twins(prop, [(n_, l_) for n_, l_, _ in rs], [r for _, _, r in rs]):
                viol.append((rs[-1][0], rs[-1][1], v))

    # ---- 4b: exhaustive searches on the compiled code for the properties about pure functions
    direct = []
    if not args.replay and prop in ("C13", "C19"):
        tool, arg = ("c13search.py", "65536" if tier == "quick" else str(1 << 21)) if prop == "C13" else ("c19search.py", "60000" if tier == "quick" else "524288")
        p_ = subprocess.run([sys.executable, os.path.join(HERE, tool), arg], stdout=subprocess.PIPE, stderr=subprocess.STDOUT, text=True)
        line = [l for l in p_.stdout.splitlines() if l.startswith(("OK", "COUNTEREXAMPLE", "ERROR"))]
        notes.append("%s %s: %s" % (tool, arg, line[0] if line else p_.stdout[-200:]))
        if line and line[0].startswith("COUNTEREXAMPLE"):
            direct.append((tool, arg, line[0]))

    # ---- 5: verdict
    known = load_known()
    k = 0
    reported = []
    known_hits = []
    # (a) monitor violations of THIS property (a concrete failing input on the real code)
    mine = [(n_, l_, v) for n_, l_, v in viol if v.prop == prop]
    other = [(n_, l_, v) for n_, l_, v in viol if v.prop != prop]
    seen_sigs = set()
    for name, lines, v in mine:
        # a known finding is one specific history: the corpus scenario named in known_findings.txt, with that monitor verdict.
        # The same verdict on any other scenario is a different violation and is reported.
        kn = [x for x in known if x["prop"] == prop and x["sig"] == v.sig()
              and (name == "corpus:" + os.path.basename(x["replay"]) or (args.replay and os.path.basename(args.replay) == os.path.basename(x["replay"])))]
        if kn:
            if not any(k0 is kn[0] for k0, _ in known_hits):
                known_hits.append((kn[0], v))
            continue
        if v.sig() in seen_sigs:
            continue
        seen_sigs.add(v.sig())
        small = lines
        if not args.replay and len(lines) > 40 and not name.startswith(("replay", "fill", "wrap")):
            try:
                small = shrink(prop, lines, exes, v.sig())
            except Exception as e:  # shrinking is best effort
                small = lines
        k += 1
        rp = write_replay(prop, seed, k, ["monitor verdict on the real code: %r" % v, "family: %s" % name, "re-run: python3 tools/check.py %s --replay <this file>" % prop], small)
        reported.append("VIOLATION property=%s replay=%s" % (prop, rp))
    for tool, arg, line in direct:
        k += 1
        rp = write_replay(prop, seed, k, ["exhaustive search on the compiled code of /repo: " + line, "re-run: python3 tools/%s %s" % (tool, arg)], [])
        reported.append("VIOLATION property=%s replay=%s" % (prop, rp))
    # (b) crashes: memory error / assertion / hang on the real code
    for name, lines, fl, ci in crashes[:3]:
        sig = "C09/" + ci[0]
        if prop != "C09" and any(r_.startswith("VIOLATION") for r_ in reported):
            break
        k += 1
        rp = write_replay(prop, seed, k, ["the real code (%s build) failed on this scenario: %s: %s" % (fl, ci[0], ci[1]), "the behaviour of the code on this input is undefined, so %s is not shown" % prop], lines)
        reported.append("VIOLATION property=%s replay=%s" % (prop, rp))
        break
    # (c) broken correspondence / proof without a monitor-level witness
    if not reported:
        if diffs:
            name, lines, fl, d = diffs[0]
            # search: does any monitor (of any property) see a failure on the diverging scenario?
            k += 1
            hint = [repr(v) for n_, l_, v in other[:3]]
            rp = write_replay(prop, seed, k, ["correspondence broken: the Lean model and the real code (%s build) differ" % fl,
                                              "first difference at output line %d, inside op %s" % (d["line"], d["op"]), "  real code: %s" % d["impl"], "  model    : %s" % d["model"],
                                              "%d of %d scenarios differ; no monitor of %s fired on %d scenarios, so no concrete failing input for %s is known" % (len(diffs), len(flat), prop, len(flat), prop),
                                              "the theorems of Utcp.Props.%s are about a model that no longer describes the code" % prop] + (["other monitors that fired: " + "; ".join(hint)] if hint else []), lines)
            reported.append("VIOLATION property=%s replay=%s no-failing-input-found" % (prop, rp))
        elif not proof_ok:
            k += 1
            rp = write_replay(prop, seed, k, ["proof obligation(s) of Utcp.Props.%s no longer check:" % prop] + proof_msgs[:10] + ["searched %d scenarios with the monitors: no failing input found" % len(flat)], [])
            reported.append("VIOLATION property=%s replay=%s no-failing-input-found" % (prop, rp))
        elif not have_model:
            k += 1
            rp = write_replay(prop, seed, k, ["the model driver could not be built"], [])
            reported.append("VIOLATION property=%s replay=%s no-failing-input-found" % (prop, rp))
    for kn, v in known_hits:
        log("KNOWN-FINDING: property=%s %s (%s)" % (prop, kn["text"], kn["sig"]))

    # ---- 6: evidence
    wall = time.time() - t0
    level = "proof"
    names, _ = theorem_names(prop) if os.path.exists(os.path.join(LEAN, "Utcp", "Props", prop + ".lean")) else ([], "")
    ev = {
        "property_id": prop, "tier": tier, "seed": seed, "level": level,
        "coverage": {
            "obligations": max(obligations, 1), "discharged": discharged if obligations else 0,
            "checker_cmd": "lake build Utcp.Props.%s && lake env lean <#print axioms of every theorem> (cwd /verif/lean)" % prop,
            "trusted_base": ["Lean 4.33 kernel", "axioms: propext, Classical.choice, Quot.sound only (audited per theorem this run)",
                             "tools/extract.py + tools/ctrans.py (constants and pure integer functions regenerated from /repo this run and, where they read differently from the definitions the theorems were written for, proved equal to them by generated theorems regen_*; translator and definitions validated differentially against the compiled C; see regeneration_notes for anything tied differentially only)",
                             "correspondence harness + generators (model and real code run on the same scenarios; outputs compared line by line)", "gcc 12, ASan/UBSan"],
            "theorems": names, "axioms": axioms,
            "evaluations": len(flat) * (3 if have_model else 2), "scenarios": len(flat), "distinct_nontrivial": nontrivial,
            "rule": "scenario = seeded op sequence (see tools/scen.py); distinct by SHA-1 of the op text; non-trivial when the real code produced more than 3 observable events (deliveries, verdicts, datagrams, accepts, hostile injections)",
            "samples": samples, "families": fam_count, "model_vs_code_disagreements": len(diffs), "monitor_violations": len(mine), "crashes": len(crashes),
            "input_distribution": {kk: vv for kk, vv in stats_tot.items() if kk != "ret_codes"}, "direct_searches": notes, "regeneration_notes": regen_notes,
            "return_codes_hit": stats_tot.get("ret_codes", {}),
            "traces_validated_against_impl": len(flat) if have_model else 0,
        },
        "assumptions": ["behaviours not sampled by the generators agree with the model", "int32 packet-id overflow, IEEE double order laws for Float, SHA-1/HMAC and raw C memory safety are modelled/observed, not proved (DESIGN.md section 7)"],
        "wall_s": round(wall, 2), "violations": len(reported),
        "known_findings": [{"signature": kn["sig"], "scenario": kn["replay"], "what": kn["text"]} for kn, _ in known_hits],
    }
    with open(os.path.join(EVID, prop + ".json"), "w") as fh:
        json.dump(ev, fh, indent=1, default=str)
    n_known = sum(1 for n_, l_, v in mine if any(x["prop"] == prop and x["sig"] == v.sig() and n_ == "corpus:" + os.path.basename(x["replay"]) for x in known))
    log("%s tier=%s seed=%d: %d scenarios, %d theorems (%d discharged), %d model/code differences, %d monitor violations%s, %d crashes, %.1fs" % (
        prop, tier, seed, len(flat), obligations, discharged, len(diffs), len(mine) - n_known, (" + %d known finding(s)" % n_known) if n_known else "", len(crashes), wall))
    if proof_msgs:
        for m in proof_msgs[:6]:
            log("  proof: " + m)
    for r_ in reported:
        log(r_)
    sys.exit(1 if reported else 0)


if __name__ == "__main__":
    main()
