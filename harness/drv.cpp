// Correspondence / monitor harness for dpull/utcp.
// Reads a scenario (one op per line) on stdin, executes it against the REAL library built from
// /repo's current working tree, prints the echo of each op ("> op") followed by the events it caused.
// The Lean driver (lean/Driver/Main.lean) implements the same protocol over the model; the two
// outputs are diffed by tools/check.py.  See PROTOCOL.md.
#include "abstract/utcp.hpp"
extern "C" {
#include "utcp/bit_buffer.h"
#include "utcp/utcp_bunch.h"
#include "utcp/utcp.h"
#include "utcp/utcp_channel.h"
#include "utcp/utcp_def_internal.h"
#include "utcp/utcp_handshake.h"
#include "utcp/utcp_packet.h"
#include "utcp/utcp_utils.h"
}
#include <cstdarg>
#include <cstdint>
#include <cstdio>
#include <cstdlib>
#include <cstring>
#include <map>
#include <memory>
#include <sstream>
#include <string>
#include <vector>
#include <unistd.h>

typedef std::vector<uint8_t> Bytes;

#ifndef VERIF_NO_SHIM
extern "C" void verif_appBitsCpy(uint8_t* Dest, int32_t DestBit, const uint8_t* Src, int32_t SrcBit, int32_t BitCount);
#endif
static uint64_t fnv64(const uint8_t* p, size_t n)
{
	uint64_t h = 1469598103934665603ULL;
	for (size_t i = 0; i < n; ++i)
	{
		h ^= p[i];
		h *= 1099511628211ULL;
	}
	return h;
}

// ---------------------------------------------------------------- output
static std::string g_out;
static void emit(const char* fmt, ...)
{
	char buf[4096];
	va_list ap;
	va_start(ap, fmt);
	vsnprintf(buf, sizeof(buf), fmt, ap);
	va_end(ap);
	g_out += buf;
	g_out += '\n';
	if (g_out.size() > (1 << 16))
	{
		fwrite(g_out.data(), 1, g_out.size(), stdout);
		g_out.clear();
	}
}
static void flush_out()
{
	fwrite(g_out.data(), 1, g_out.size(), stdout);
	g_out.clear();
	fflush(stdout);
}

// ---------------------------------------------------------------- deterministic randomness
static uint32_t g_rnd_state = 1, g_librand_state = 1;
static uint32_t lcg_next(uint32_t* s)
{
	*s = (uint32_t)(((uint64_t)(*s) * 1103515245ULL + 12345ULL) & 0x7fffffffULL);
	return *s;
}
static unsigned on_rand_cb()
{
	return lcg_next(&g_rnd_state);
}
extern "C" int rand(void)
{
	return (int)lcg_next(&g_librand_state);
}

// ---------------------------------------------------------------- assert interception (assert-enabled flavour)
extern "C" void __assert_fail(const char* assertion, const char* file, unsigned int line, const char* function)
{
	const char* base = strrchr(file, '/');
	emit("abort %s:%u", base ? base + 1 : file, line);
	flush_out();
	_exit(86);
}

// ---------------------------------------------------------------- allocator
struct Block
{
	size_t size;
	uint64_t serial;
	const char* kind; // classified when the block is first obtained; a block that is grown keeps its kind (sizes of different kinds can coincide)
};
static std::map<void*, Block> g_live;
static uint64_t g_serial = 0;
static int g_fill = 0xA5;
static bool g_allocev = true;

// blocks are named by their size; when the sizes of several kinds coincide every candidate is named ("chan|open") and the comparison with the
// model accepts any of them - a struct that happens to grow or shrink to another kind's size is not a behavioural difference
static const char* kind_of(size_t sz)
{
	static std::map<size_t, std::string> memo;
	auto it = memo.find(sz);
	if (it != memo.end())
		return it->second.c_str();
	std::string k;
	auto add = [&k](const char* n) {
		if (!k.empty())
			k += "|";
		k += n;
	};
	if (sz == sizeof(struct utcp_bunch_node))
		add("node");
	if (sz == sizeof(struct utcp_channel))
		add("chan");
	if (sz == sizeof(struct utcp_challenge_data))
		add("chal");
	if (sz == sizeof(struct utcp_connection))
		add("conn");
	if (sz == sizeof(struct utcp_listener))
		add("lsn");
	if (sz % sizeof(uint16_t) == 0 && sz >= 64 && sz <= 4 * DEFAULT_MAX_CHANNEL_SIZE)
		add("open");
	if (k.empty())
		k = "other";
	return memo.emplace(sz, k).first->second.c_str();
}

static void* on_realloc_cb(void* ptr, size_t size)
{
	if (ptr == NULL)
	{
		if (size == 0)
			return NULL;
		void* p = malloc(size);
		memset(p, g_fill, size);
		g_live[p] = Block{size, g_serial++, kind_of(size)};
		if (g_allocev)
			emit("A %s", kind_of(size));
		return p;
	}
	auto it = g_live.find(ptr);
	if (it == g_live.end())
	{
		emit("badfree unknown-pointer");
		flush_out();
		_exit(87);
	}
	if (size == 0)
	{
		if (g_allocev)
			emit("F %s", it->second.kind);
		g_live.erase(it);
		free(ptr);
		return NULL;
	}
	// grow: new block, copy, fill the rest
	size_t old = it->second.size;
	uint64_t serial = it->second.serial;
	const char* kind = it->second.kind;
	void* p = malloc(size);
	memset(p, g_fill, size);
	memcpy(p, ptr, old < size ? old : size);
	g_live.erase(it);
	free(ptr);
	g_live[p] = Block{size, serial, kind};
	if (g_allocev)
		emit("R %s", kind);
	return p;
}

// digest of every live block, in allocation order (addresses excluded: only contents; pointer-valued
// fields are stable between two digests taken around one op unless the op reallocates)
static uint64_t state_digest()
{
	std::map<uint64_t, std::pair<void*, size_t>> ord;
	for (auto& kv : g_live)
		ord[kv.second.serial] = {kv.first, kv.second.size};
	uint64_t h = 1469598103934665603ULL;
	for (auto& kv : ord)
	{
		uint64_t b = fnv64((const uint8_t*)kv.second.first, kv.second.second);
		h ^= b;
		h *= 1099511628211ULL;
	}
	return h;
}

// ---------------------------------------------------------------- log callback (formats, so a bad format/argument pair is exercised)
static void on_log_cb(int level, const char* msg, va_list args)
{
	static char buf[UTCP_MAX_PACKET * 8 + 256];
	vsnprintf(buf, sizeof(buf), msg, args);
	if (getenv("DRV_LOG"))
		fprintf(stderr, "[log %d] %s\n", level, buf);
}

// ---------------------------------------------------------------- endpoints
struct Endpoint
{
	int id;
	std::vector<Bytes> outbox;
	size_t cur = 0;
	virtual ~Endpoint()
	{
	}
};

static std::map<int, Endpoint*> g_eps;
static std::map<std::pair<int, int>, long> g_maxdelivered; // (dst, src) -> highest outbox index of src handed to dst so far

static void rec_out(Endpoint* ep, const void* data, int len)
{
	const uint8_t* p = (const uint8_t*)data;
	ep->outbox.emplace_back(p, p + len);
	emit("out %d %d %016llx %u %u", ep->id, len, (unsigned long long)fnv64(p, len), len > 0 ? (unsigned)p[len - 1] : 0u, len > 0 ? (unsigned)p[0] : 0u);
}

static unsigned bunch_flags(const struct utcp_bunch* b)
{
	return (b->bOpen ? 1 : 0) | (b->bClose ? 2 : 0) | (b->bIsReplicationPaused ? 4 : 0) | (b->bReliable ? 8 : 0) | (b->bHasPackageMapExports ? 16 : 0) |
		   (b->bHasMustBeMappedGUIDs ? 32 : 0) | (b->bPartial ? 64 : 0) | (b->bPartialInitial ? 128 : 0) | (b->bPartialFinal ? 256 : 0);
}

struct HConn : public utcp::conn, public Endpoint
{
	virtual void on_connect(bool reconnect) override
	{
		emit("connect %d %d", id, reconnect ? 1 : 0);
	}
	virtual void on_disconnect(int close_reason) override
	{
		emit("disconnect %d %d", id, close_reason);
	}
	virtual void on_outgoing(const void* data, int len) override
	{
		rec_out(this, data, len);
	}
	virtual void on_recv_bunch(struct utcp_bunch* const bunches[], int count) override
	{
		std::string s;
		char buf[256];
		snprintf(buf, sizeof(buf), "recv %d %d", id, count);
		s = buf;
		for (int i = 0; i < count && i < 100000; ++i)
		{
			const struct utcp_bunch* b = bunches[i];
			uint8_t tmp[UDP_MTU_SIZE];
			size_t nb = (b->DataBitsLen + 7) / 8;
			if (nb > sizeof(tmp))
				nb = sizeof(tmp);
			memcpy(tmp, b->Data, nb);
			if (b->DataBitsLen % 8)
				tmp[nb - 1] &= (uint8_t)((1u << (b->DataBitsLen % 8)) - 1);
			snprintf(buf, sizeof(buf), " | %u %u %u %u %d %d %u %016llx", (unsigned)b->ChIndex, bunch_flags(b), (unsigned)b->CloseReason, (unsigned)b->NameIndex,
					 (int)b->ChSequence, (int)b->PacketId, (unsigned)b->DataBitsLen, (unsigned long long)fnv64(tmp, nb));
			s += buf;
		}
		g_out += s;
		g_out += '\n';
		if (count > 1 && count <= 256)
		{
			std::unique_ptr<utcp::large_bunch> lb(new utcp::large_bunch(bunches, count));
			size_t nb = ((size_t)lb->ExtDataBitsLen + 7) / 8;
			std::vector<uint8_t> tmp(lb->ExtData, lb->ExtData + nb);
			if (lb->ExtDataBitsLen % 8)
				tmp[nb - 1] &= (uint8_t)((1u << (lb->ExtDataBitsLen % 8)) - 1);
			emit("joined %d %u %016llx", id, (unsigned)lb->ExtDataBitsLen, (unsigned long long)fnv64(tmp.data(), nb));
		}
	}
	virtual void on_delivery_status(int32_t packet_id, bool ack) override
	{
		emit("status %d %d %d", id, packet_id, ack ? 1 : 0);
	}
	void wrapper_incoming(uint8_t* d, int n)
	{
		utcp::conn::incoming(d, n);
	}
};

struct HListener;
static std::map<std::pair<int, std::string>, int> g_onaccept; // (lid, addr) -> conn id to create
static std::map<std::pair<int, std::string>, int> g_routes;	  // (lid, addr) -> accepted conn id

struct HListener : public utcp::listener, public Endpoint
{
	virtual void on_accept(bool reconnect) override;
	virtual void on_outgoing(const void* data, int len) override
	{
		rec_out(this, data, len);
	}
};

void HListener::on_accept(bool reconnect)
{
	std::string addr(get_fd()->LastChallengeSuccessAddress, strnlen(get_fd()->LastChallengeSuccessAddress, sizeof(get_fd()->LastChallengeSuccessAddress)));
	emit("accept %d %d %s", id, reconnect ? 1 : 0, addr.empty() ? "-" : addr.c_str());
	auto key = std::make_pair(id, addr);
	if (reconnect)
	{
		// the sample's policy (udp_utcp_listener::on_accept): the connection whose authorised cookie matches is re-bound to the new address
		for (auto& kv : g_eps)
		{
			HConn* c = dynamic_cast<HConn*>(kv.second);
			if (c && does_restarted_handshake_match(c))
			{
				for (auto rit = g_routes.begin(); rit != g_routes.end();)
					if (rit->second == c->id)
						rit = g_routes.erase(rit);
					else
						++rit;
				g_routes[key] = c->id;
				emit("rebind %d %s", c->id, addr.c_str());
				accept(c, true);
				break;
			}
		}
		return;
	}
	auto it = g_onaccept.find(key);
	if (it != g_onaccept.end() && !reconnect)
	{
		int cid = it->second;
		g_onaccept.erase(it);
		if (g_eps.count(cid) == 0)
		{
			HConn* c = new HConn;
			c->id = cid;
			g_eps[cid] = c;
			accept(c, false);
			g_routes[key] = cid;
		}
	}
}

// ---------------------------------------------------------------- helpers
static HConn* get_conn(int id)
{
	auto it = g_eps.find(id);
	if (it == g_eps.end())
		return nullptr;
	return dynamic_cast<HConn*>(it->second);
}
static HListener* get_lsn(int id)
{
	auto it = g_eps.find(id);
	if (it == g_eps.end())
		return nullptr;
	return dynamic_cast<HListener*>(it->second);
}
static Endpoint* get_ep(int id)
{
	auto it = g_eps.find(id);
	return it == g_eps.end() ? nullptr : it->second;
}

static bool hex2bytes(const std::string& hex, Bytes& out)
{
	out.clear();
	if (hex == "-")
		return true;
	if (hex.size() % 2)
		return false;
	for (size_t i = 0; i < hex.size(); i += 2)
	{
		unsigned v;
		if (sscanf(hex.c_str() + i, "%2x", &v) != 1)
			return false;
		out.push_back((uint8_t)v);
	}
	return true;
}

static void payload_from_seed(uint32_t pseed, size_t nbytes, uint8_t* out)
{
	for (size_t i = 0; i < nbytes; ++i)
	{
		uint32_t x = (uint32_t)(pseed * 1103515245u + 12345u + (uint32_t)i * 2654435761u);
		out[i] = (uint8_t)((x >> 16) & 0xFF);
	}
}

extern "C" int64_t GetFreeSendBufferBits(struct utcp_connection* fd);
extern "C" bool is_connected(struct utcp_connection* fd);
extern "C" int WriteBitsToSendBuffer(struct utcp_connection* fd, const uint8_t* Bits, const int32_t SizeInBits);

// ---------------------------------------------------------------- structure-aware re-encoding of a handshake datagram
struct HsFields
{
	unsigned session = 0, client = 0;
	unsigned restart = 0, minver = 0, curver = 3, type = 0, count = 0;
	unsigned layout = 3; // the version whose field layout the datagram uses (= curver unless crafted otherwise)
	uint32_t netver = 0;
	unsigned sid = 0;
	uint8_t ts[8] = {0};
	uint8_t cookie[20] = {0};
};

static bool hs_decode(const Bytes& d, HsFields& f)
{
	struct utcp_config* cfg = utcp_get_config();
	struct bitbuf rd;
	if (d.empty() || !bitbuf_read_init(&rd, d.data(), d.size()))
		return false;
	uint32_t magic = 0;
	if (cfg->MagicHeaderBits && !bitbuf_read_bits(&rd, &magic, cfg->MagicHeaderBits))
		return false;
	uint8_t v = 0, hs = 0;
	if (!bitbuf_read_bits(&rd, &v, 2))
		return false;
	f.session = v;
	v = 0;
	if (!bitbuf_read_bits(&rd, &v, 3))
		return false;
	f.client = v;
	if (!bitbuf_read_bit(&rd, &hs) || !hs)
		return false;
	uint8_t b = 0;
	if (!bitbuf_read_bit(&rd, &b))
		return false;
	f.restart = b;
	uint8_t x[4];
	if (!bitbuf_read_bytes(&rd, x, 4))
		return false;
	f.minver = x[0];
	f.curver = x[1];
	f.layout = x[1];
	f.type = x[2];
	f.count = x[3];
	if (f.curver >= 2 && !bitbuf_read_bytes(&rd, &f.netver, 4))
		return false;
	if (!bitbuf_read_bit(&rd, &b))
		return false;
	f.sid = b;
	if (!bitbuf_read_bytes(&rd, f.ts, 8) || !bitbuf_read_bytes(&rd, f.cookie, 20))
		return false;
	return true;
}

static Bytes hs_encode(const HsFields& f, const uint8_t* extra, unsigned padbytes)
{
	struct utcp_config* cfg = utcp_get_config();
	uint8_t buf[512];
	struct bitbuf wr;
	bitbuf_write_init(&wr, buf, sizeof(buf));
	if (cfg->MagicHeaderBits)
		bitbuf_write_bits(&wr, &cfg->MagicHeader, cfg->MagicHeaderBits);
	if (f.layout >= 3)
	{
		uint8_t s = (uint8_t)f.session, c = (uint8_t)f.client;
		bitbuf_write_bits(&wr, &s, 2);
		bitbuf_write_bits(&wr, &c, 3);
	}
	bitbuf_write_bit(&wr, 1);
	bitbuf_write_bit(&wr, (uint8_t)f.restart);
	if (f.layout >= 1)
	{
		uint8_t x[4] = {(uint8_t)f.minver, (uint8_t)f.curver, (uint8_t)f.type, (uint8_t)f.count};
		bitbuf_write_bytes(&wr, x, 4);
	}
	if (f.layout >= 2)
		bitbuf_write_bytes(&wr, &f.netver, 4);
	if (f.type != 4) // a restart-handshake request (type 4) carries no secret id / timestamp / cookie
	{
		bitbuf_write_bit(&wr, (uint8_t)f.sid);
		bitbuf_write_bytes(&wr, f.ts, 8);
		bitbuf_write_bytes(&wr, f.cookie, 20);
		if (extra)
			bitbuf_write_bytes(&wr, extra, 20);
	}
	for (unsigned i = 0; i < padbytes; ++i)
	{
		uint8_t z = 0;
		bitbuf_write_bytes(&wr, &z, 1);
	}
	bitbuf_write_bit(&wr, 1);
	return Bytes(buf, buf + bitbuf_num_bytes(&wr));
}

// craft args: restart type curver count sid cookieflip extra pad   (-1 = keep)
static bool craft(const Bytes& src, std::istringstream& is, Bytes& out)
{
	long restart, type, curver, count, sid, cookieflip, extra, pad;
	is >> restart >> type >> curver >> count >> sid >> cookieflip >> extra >> pad;
	HsFields f;
	if (!hs_decode(src, f))
		return false;
	if (restart >= 0)
		f.restart = (unsigned)restart & 1;
	if (type >= 0)
		f.type = (unsigned)type & 255;
	if (curver >= 300) // advertise (curver - 300) but keep the layout of the source datagram
		f.curver = (unsigned)(curver - 300) & 255;
	else if (curver >= 0)
		f.curver = f.layout = (unsigned)curver & 255;
	if (count >= 0)
		f.count = (unsigned)count & 255;
	if (sid >= 0)
		f.sid = (unsigned)sid & 1;
	if (cookieflip >= 0)
		f.cookie[cookieflip % 20] ^= 0x01;
	uint8_t ex[20];
	for (int i = 0; i < 20; ++i)
		ex[i] = (uint8_t)(extra + i);
	out = hs_encode(f, extra >= 0 ? ex : NULL, pad >= 0 ? (unsigned)(pad % 32) : 16);
	return true;
}

// mutation of a datagram copy
static Bytes mutate(const Bytes& in, const std::string& kind, long a, long b)
{
	Bytes d = in;
	if (kind == "flip")
	{
		if (!d.empty())
		{
			size_t bit = (size_t)a % (d.size() * 8);
			d[bit / 8] ^= (uint8_t)(1u << (bit % 8));
		}
	}
	else if (kind == "setb")
	{
		if (!d.empty())
			d[(size_t)a % d.size()] = (uint8_t)b;
	}
	else if (kind == "trunc")
	{
		d.resize((size_t)a % (d.size() + 1));
	}
	else if (kind == "app")
	{
		d.push_back((uint8_t)a);
	}
	else if (kind == "nib") // write the 4-bit value b at bit offset a (LSB first), e.g. the history-word-count field
	{
		for (int k = 0; k < 4; ++k)
		{
			size_t bit = (size_t)a + k;
			if (bit / 8 < d.size())
			{
				d[bit / 8] &= (uint8_t)~(1u << (bit % 8));
				if ((b >> k) & 1)
					d[bit / 8] |= (uint8_t)(1u << (bit % 8));
			}
		}
	}
	return d;
}

// pick datagram index relative to cursor; returns -1 if out of range
static long pick(Endpoint* src, long j)
{
	long idx = (long)src->cur + j;
	if (idx < 0 || idx >= (long)src->outbox.size())
		return -1;
	return idx;
}

static void deliver_conn(HConn* dst, const Bytes& d, bool wrapper)
{
	// exact-size heap copy, so that any over-read is an ASan report
	uint8_t* p = (uint8_t*)malloc(d.size() ? d.size() : 1);
	if (!d.empty())
		memcpy(p, d.data(), d.size());
	if (wrapper)
	{
		dst->wrapper_incoming(p, (int)d.size());
		emit("ret w");
	}
	else
	{
		int32_t before = utcp_expect_packet_id(dst->get_fd());
		bool r = utcp_incoming(dst->get_fd(), p, (int)d.size());
		int32_t after = utcp_expect_packet_id(dst->get_fd());
		if (after != before) // a data packet was accepted: its id, and whether it was acknowledged (history bit 0) or refused (skip-ack)
			emit("acc %d %d %u", dst->id, (int)(after - 1), (unsigned)(dst->get_fd()->packet_notify.InSeqHistory[0] & 1u));
		emit("ret %d", r ? 1 : 0);
	}
	free(p);
}

static void deliver_lsn(HListener* dst, const std::string& addr, const Bytes& d)
{
	uint8_t* p = (uint8_t*)malloc(d.size() ? d.size() : 1);
	if (!d.empty())
		memcpy(p, d.data(), d.size());
	char* a = (char*)malloc(addr.size() + 1); // exact-size address string
	memcpy(a, addr.c_str(), addr.size() + 1);
	uint64_t before = state_digest();
	size_t nlive = g_live.size();
	int r = utcp_listener_incoming(dst->get_fd(), a, p, (int)d.size());
	uint64_t after = state_digest();
	emit("lstate %s", (before == after && nlive == g_live.size()) ? "same" : "changed");
	emit("ret %d", r);
	free(a);
	free(p);
}

static void destroy_all()
{
	std::vector<int> ids;
	for (auto& kv : g_eps)
		ids.push_back(kv.first);
	for (int id : ids)
	{
		Endpoint* e = g_eps[id];
		g_eps.erase(id);
		delete e;
	}
	g_onaccept.clear();
	g_routes.clear();
	g_maxdelivered.clear();
}

static void install_config()
{
	struct utcp_config* cfg = utcp_get_config();
	memset(cfg, 0, sizeof(*cfg));
	utcp::event_handler::config(on_log_cb);
	cfg->on_realloc = on_realloc_cb;
	cfg->on_rand = on_rand_cb;
}

int main(int argc, char** argv)
{
	install_config();
	char* linebuf = NULL;
	size_t cap = 0;
	ssize_t n;
	while ((n = getline(&linebuf, &cap, stdin)) > 0)
	{
		std::string line(linebuf, n);
		while (!line.empty() && (line.back() == '\n' || line.back() == '\r' || line.back() == ' '))
			line.pop_back();
		if (line.empty() || line[0] == '#')
			continue;
		emit("> %s", line.c_str());
		// "ifconn <id> <op ...>": the application only performs <op> on a connection that is connected and has not been closed
		if (line.compare(0, 7, "ifconn ") == 0)
		{
			std::istringstream pre(line);
			std::string kw;
			int id = -1;
			pre >> kw >> id;
			HConn* c = get_conn(id);
			if (!c || !is_connected(c->get_fd()) || c->get_fd()->bClose)
			{
				emit("ret skip");
				continue;
			}
			std::string rest;
			std::getline(pre, rest);
			size_t p0 = rest.find_first_not_of(' ');
			line = p0 == std::string::npos ? std::string() : rest.substr(p0);
		}
		// "ifroom <id> <ch> <op ...>": the application keeps at most 256 unacknowledged reliable bunches per channel (the proviso of
		// C01): it performs <op> only while channel <ch> of connection <id> holds fewer than UTCP_RELIABLE_BUFFER - 1 records
		if (line.compare(0, 7, "ifroom ") == 0)
		{
			std::istringstream pre(line);
			std::string kw;
			int id = -1, chi = -1;
			pre >> kw >> id >> chi;
			HConn* c = get_conn(id);
			struct utcp_channel* uch = (c && chi >= 0 && chi < DEFAULT_MAX_CHANNEL_SIZE) ? c->get_fd()->channels.Channels[chi] : NULL;
			if (!c || (uch && uch->NumOutRec + 1 >= UTCP_RELIABLE_BUFFER))
			{
				emit("ret skip");
				continue;
			}
			std::string rest;
			std::getline(pre, rest);
			size_t p0 = rest.find_first_not_of(' ');
			line = p0 == std::string::npos ? std::string() : rest.substr(p0);
		}
		std::istringstream is(line);
		std::string op;
		is >> op;
		if (op == "reset")
		{
			destroy_all();
			emit("live %zu", g_live.size());
			install_config();
			g_rnd_state = 1;
			g_librand_state = 1;
			g_fill = 0xA5;
		}
		else if (op == "cfg")
		{
			std::string what;
			is >> what;
			struct utcp_config* cfg = utcp_get_config();
			if (what == "magic")
			{
				unsigned bits;
				unsigned long value;
				is >> bits >> value;
				cfg->MagicHeaderBits = (uint8_t)bits;
				cfg->MagicHeader = (uint32_t)value;
			}
			else if (what == "travel")
			{
				unsigned long v;
				is >> v;
				cfg->GlobalNetTravelCount = (uint32_t)v;
			}
			else if (what == "checksum")
			{
				unsigned long v;
				is >> v;
				cfg->CachedNetworkChecksum = (uint32_t)v;
			}
			else if (what == "allocev")
			{
				int v;
				is >> v;
				g_allocev = v != 0;
			}
		}
		else if (op == "seed")
		{
			unsigned long a, b;
			is >> a >> b;
			g_rnd_state = (uint32_t)a;
			g_librand_state = (uint32_t)b;
		}
		else if (op == "fill")
		{
			int v;
			is >> v;
			g_fill = v & 0xFF;
		}
		else if (op == "tick")
		{
			long long ns;
			is >> ns;
			utcp_add_elapsed_time(ns);
		}
		else if (op == "conn")
		{
			int id;
			is >> id;
			if (!get_ep(id))
			{
				HConn* c = new HConn;
				c->id = id;
				g_eps[id] = c;
			}
		}
		else if (op == "seqinit")
		{
			int id;
			long in, out;
			is >> id >> in >> out;
			if (HConn* c = get_conn(id))
			{
				utcp_sequence_init(c->get_fd(), (int32_t)in, (int32_t)out);
				c->get_fd()->LastReceiveRealtime = utcp_gettime_ms();
				c->get_fd()->LastSendTime = utcp_gettime_ms();
			}
		}
		else if (op == "connect")
		{
			int id;
			is >> id;
			if (HConn* c = get_conn(id))
				if (!c->get_fd()->challenge_data)
					c->connect();
		}
		else if (op == "listener")
		{
			int id;
			is >> id;
			if (!get_ep(id))
			{
				HListener* l = new HListener;
				l->id = id;
				g_eps[id] = l;
			}
		}
		else if (op == "onaccept")
		{
			int lid, cid;
			std::string addr;
			is >> lid >> addr >> cid;
			g_onaccept[std::make_pair(lid, addr)] = cid;
		}
		else if (op == "send")
		{
			int id;
			unsigned ch, flags, reason, name, bits, pseed;
			is >> id >> ch >> flags >> reason >> name >> bits >> pseed;
			if (HConn* c = get_conn(id))
			{
				std::unique_ptr<struct utcp_bunch> bp(new struct utcp_bunch);
				struct utcp_bunch& b = *bp;
				memset(&b, 0, sizeof(b));
				b.ChIndex = (uint16_t)ch;
				b.bOpen = flags & 1 ? 1 : 0;
				b.bClose = flags & 2 ? 1 : 0;
				b.bIsReplicationPaused = flags & 4 ? 1 : 0;
				b.bReliable = flags & 8 ? 1 : 0;
				b.bHasPackageMapExports = flags & 16 ? 1 : 0;
				b.bHasMustBeMappedGUIDs = flags & 32 ? 1 : 0;
				b.bPartial = flags & 64 ? 1 : 0;
				b.bPartialInitial = flags & 128 ? 1 : 0;
				b.bPartialFinal = flags & 256 ? 1 : 0;
				b.CloseReason = reason & 15;
				b.NameIndex = name;
				b.DataBitsLen = (uint16_t)bits;
				size_t nb = ((size_t)(uint16_t)bits + 7) / 8;
				if (nb > sizeof(b.Data))
					nb = sizeof(b.Data);
				payload_from_seed(pseed, nb, b.Data);
				uint64_t before = state_digest();
				size_t nlive = g_live.size();
				size_t nout = c->outbox.size();
				int32_t r = utcp_send_bunch(c->get_fd(), &b);
				if (r < 0)
				{
					uint64_t after = state_digest();
					emit("cstate %s", (before == after && nlive == g_live.size() && nout == c->outbox.size()) ? "same" : "changed");
				}
				emit("ret %d", (int)r);
			}
		}
		else if (op == "lsend") // large_bunch through the C++ wrapper: lsend id ch flags name bits pseed
		{
			int id;
			unsigned ch, flags, name, bits, pseed;
			is >> id >> ch >> flags >> name >> bits >> pseed;
			if (HConn* c = get_conn(id))
			{
				size_t nb = ((size_t)bits + 7) / 8;
				std::vector<uint8_t> data(nb + 1);
				for (size_t off = 0; off < nb; off += 1024)
				{
					size_t chunk = nb - off < 1024 ? nb - off : 1024;
					payload_from_seed(pseed + (uint32_t)(off / 1024), chunk, data.data() + off);
				}
				std::unique_ptr<utcp::large_bunch> lb(new utcp::large_bunch(data.data(), bits));
				lb->ChIndex = (uint16_t)ch;
				lb->bOpen = flags & 1 ? 1 : 0;
				lb->bClose = flags & 2 ? 1 : 0;
				lb->bReliable = flags & 8 ? 1 : 0;
				lb->NameIndex = name;
				// what the iterator yields: number of fragments, sum of their lengths, flags of first / last
				int cnt = lb->num();
				long sum = 0;
				unsigned shape = 0;
				for (int pos = 0; pos < cnt && pos < 100000; ++pos)
				{
					utcp_bunch& sub = lb->sub_bunch(pos);
					sum += sub.DataBitsLen;
					if (pos == 0)
						shape |= (sub.bPartial ? 1 : 0) | (sub.bPartialInitial ? 2 : 0);
					if (pos == cnt - 1)
						shape |= (sub.bPartial ? 4 : 0) | (sub.bPartialFinal ? 8 : 0);
				}
				utcp::packet_id_range r = c->send_bunch(lb.get());
				emit("ret %d %d %d %ld %u", (int)r.first, (int)r.last, cnt, sum, shape);
			}
		}
		else if (op == "flush")
		{
			int id;
			is >> id;
			if (HConn* c = get_conn(id))
			{
				int r = utcp_send_flush(c->get_fd());
				emit("ret %d", r);
			}
		}
		else if (op == "update")
		{
			int id;
			is >> id;
			if (HConn* c = get_conn(id))
			{
				int r = utcp_update(c->get_fd());
				emit("ret %d", r);
			}
		}
		else if (op == "wb")
		{
			int id, cnt;
			is >> id >> cnt;
			if (HConn* c = get_conn(id))
				emit("ret %d", utcp_send_would_block(c->get_fd(), cnt) ? 1 : 0);
		}
		else if (op == "expect")
		{
			int id;
			is >> id;
			if (HConn* c = get_conn(id))
				emit("ret %d", (int)utcp_expect_packet_id(c->get_fd()));
		}
		else if (op == "closed")
		{
			int id;
			is >> id;
			if (HConn* c = get_conn(id))
				emit("ret %d %d", c->get_fd()->bClose ? 1 : 0, (int)c->get_fd()->CloseReason);
		}
		else if (op == "inject") // inject <id> <nbits> <hex>: arbitrary bits appended to the send buffer (they leave in a genuine packet)
		{
			int id;
			long nbits;
			std::string hex;
			is >> id >> nbits >> hex;
			Bytes d;
			if (HConn* c = get_conn(id))
			{
				if (hex2bytes(hex, d) && nbits >= 0 && (size_t)nbits <= d.size() * 8)
				{
					d.resize(d.size() + 8, 0);
					emit("ret %d", (int)WriteBitsToSendBuffer(c->get_fd(), d.data(), (int32_t)nbits));
				}
				else
					emit("ret none");
			}
		}
		else if (op == "chans") // open-channel table: index:bClose:NumOutRec:NumInRec, in table order
		{
			int id;
			is >> id;
			if (HConn* c = get_conn(id))
			{
				struct utcp_channels* chs = &c->get_fd()->channels;
				std::string line = "ret " + std::to_string(chs->open_channels.num);
				for (int i = 0; i < chs->open_channels.num; ++i)
				{
					int idx = chs->open_channels.channels[i];
					struct utcp_channel* ch = chs->Channels[idx];
					char tmp[64];
					snprintf(tmp, sizeof(tmp), " %d:%d:%d:%d", idx, ch ? (int)ch->bClose : -1, ch ? (int)ch->NumOutRec : -1, ch ? (int)ch->NumInRec : -1);
					line += tmp;
				}
				emit("%s", line.c_str());
			}
		}
		else if (op == "rpl") // replay: datagram (highest index delivered so far) - k of src, to dst again
		{
			int dst, src;
			long k;
			is >> dst >> src >> k;
			HConn* c = get_conn(dst);
			Endpoint* s = get_ep(src);
			auto it = g_maxdelivered.find(std::make_pair(dst, src));
			long idx = (c && s && it != g_maxdelivered.end()) ? it->second - k : -1;
			if (idx < 0 || idx >= (long)s->outbox.size())
				emit("ret none");
			else
			{
				Bytes d = s->outbox[idx];
				deliver_conn(c, d, false);
			}
		}
		else if (op == "peek" || op == "dlv" || op == "wdlv" || op == "mut" || op == "wmut")
		{
			int dst, src;
			long j;
			is >> dst >> src >> j;
			std::string kind;
			long a = 0, b = 0;
			if (op == "mut" || op == "wmut")
				is >> kind >> a >> b;
			HConn* c = get_conn(dst);
			Endpoint* s = get_ep(src);
			long idx = (c && s) ? pick(s, j) : -1;
			if (idx < 0)
				emit("ret none");
			else
			{
				Bytes d = s->outbox[idx];
				if (!kind.empty())
					d = mutate(d, kind, a, b);
				if (op == "peek")
				{
					uint8_t* p = (uint8_t*)malloc(d.size() ? d.size() : 1);
					if (!d.empty())
						memcpy(p, d.data(), d.size());
					uint64_t before = state_digest();
					int32_t r = utcp_peep_packet_id(c->get_fd(), p, (int)d.size());
					uint64_t after = state_digest();
					emit("cstate %s", before == after ? "same" : "changed");
					emit("ret %d", (int)r);
					free(p);
				}
				else
				{
					if (kind.empty())
					{
						long& m = g_maxdelivered.emplace(std::make_pair(dst, src), -1).first->second;
						if (idx > m)
							m = idx;
					}
					deliver_conn(c, d, op[0] == 'w');
				}
			}
		}
		else if (op == "dln" || op == "wdln")
		{
			int dst, src;
			is >> dst >> src;
			HConn* c = get_conn(dst);
			Endpoint* s = get_ep(src);
			if (!c || !s || s->cur >= s->outbox.size())
				emit("ret none");
			else
			{
				long& m = g_maxdelivered.emplace(std::make_pair(dst, src), -1).first->second;
				if ((long)s->cur > m)
					m = (long)s->cur;
				Bytes d = s->outbox[s->cur++];
				deliver_conn(c, d, op[0] == 'w');
			}
		}
		else if (op == "dla" || op == "wdla" || op == "hsdla") // hsdla: datagrams of at most 4 bytes are lost on the way
		{
			int dst, src;
			is >> dst >> src;
			HConn* c = get_conn(dst);
			Endpoint* s = get_ep(src);
			if (c && s)
			{
				size_t end = s->outbox.size(); // datagrams emitted during delivery wait for the next dla
				while (s->cur < end)
				{
					long& m = g_maxdelivered.emplace(std::make_pair(dst, src), -1).first->second;
					if ((long)s->cur > m)
						m = (long)s->cur;
					Bytes d = s->outbox[s->cur++];
					if (op == "hsdla" && d.size() <= 4)
						continue;
					deliver_conn(c, d, op[0] == 'w');
				}
			}
		}
		else if (op == "skip") // forget everything src has emitted so far (cursor to the end)
		{
			int src;
			is >> src;
			if (Endpoint* s = get_ep(src))
				s->cur = s->outbox.size();
		}
		else if (op == "drop")
		{
			int src;
			is >> src;
			Endpoint* s = get_ep(src);
			if (s && s->cur < s->outbox.size())
				s->cur++;
		}
		else if (op == "wflush")
		{
			int id;
			is >> id;
			if (HConn* c = get_conn(id))
				c->flush_incoming_cache();
		}
		else if (op == "raw" || op == "wraw")
		{
			int dst;
			std::string hex;
			is >> dst >> hex;
			Bytes d;
			HConn* c = get_conn(dst);
			if (c && hex2bytes(hex, d))
				deliver_conn(c, d, op[0] == 'w');
		}
		else if (op == "ldlv" || op == "lmut")
		{
			int lid, src;
			long j;
			std::string addr;
			is >> lid >> addr >> src >> j;
			std::string kind;
			long a = 0, b = 0;
			if (op == "lmut")
				is >> kind >> a >> b;
			HListener* l = get_lsn(lid);
			Endpoint* s = get_ep(src);
			long idx = (l && s) ? pick(s, j) : -1;
			if (idx < 0)
				emit("ret none");
			else
			{
				Bytes d = s->outbox[idx];
				if (!kind.empty())
					d = mutate(d, kind, a, b);
				deliver_lsn(l, addr, d);
			}
		}
		else if (op == "lraw")
		{
			int lid;
			std::string addr, hex;
			is >> lid >> addr >> hex;
			Bytes d;
			HListener* l = get_lsn(lid);
			if (l && hex2bytes(hex, d))
				deliver_lsn(l, addr, d);
		}
		else if (op == "route" || op == "routeat") // sample's routing: route <lid> <addr> <src> (next datagram of src) | routeat <lid> <addr> <src> <j> (relative, cursor untouched)
		{
			int lid, src;
			long j = 0;
			std::string addr;
			is >> lid >> addr >> src;
			if (op == "routeat")
				is >> j;
			HListener* l = get_lsn(lid);
			Endpoint* s = get_ep(src);
			long idx = (l && s) ? (op == "route" ? (s->cur < s->outbox.size() ? (long)s->cur : -1) : pick(s, j)) : -1;
			if (idx < 0)
				emit("ret none");
			else
			{
				Bytes d = s->outbox[idx];
				if (op == "route")
					s->cur++;
				auto it = g_routes.find(std::make_pair(lid, addr));
				HConn* c = it != g_routes.end() ? get_conn(it->second) : nullptr;
				if (c)
					deliver_conn(c, d, false);
				else
					deliver_lsn(l, addr, d);
			}
		}
		else if (op == "rot")
		{
			int lid;
			std::string hex;
			is >> lid >> hex;
			if (HListener* l = get_lsn(lid))
			{
				Bytes d;
				if (!hex.empty() && hex2bytes(hex, d) && d.size() == 64)
					utcp_listener_update_secret(l->get_fd(), d.data());
				else
					utcp_listener_update_secret(l->get_fd(), NULL);
			}
		}
		else if (op == "uninit")
		{
			int id;
			is >> id;
			Endpoint* e = get_ep(id);
			if (e)
			{
				g_eps.erase(id);
				delete e;
				for (auto it = g_routes.begin(); it != g_routes.end();)
					if (it->second == id)
						it = g_routes.erase(it);
					else
						++it;
			}
		}
		else if (op == "craft" || op == "lcraft")
		{
			// craft <dst> <src> <j> <fields…>   |   lcraft <lid> <addr> <src> <j> <fields…>
			int dst, src;
			long j;
			std::string addr;
			is >> dst;
			if (op == "lcraft")
				is >> addr;
			is >> src >> j;
			Endpoint* s = get_ep(src);
			long idx = s ? pick(s, j) : -1;
			Bytes d;
			if (idx < 0 || !craft(s->outbox[idx], is, d))
				emit("ret none");
			else if (op == "lcraft")
			{
				if (HListener* l = get_lsn(dst))
					deliver_lsn(l, addr, d);
			}
			else if (HConn* c = get_conn(dst))
				deliver_conn(c, d, false);
		}
		else if (op == "sendfill") // sendfill <id> <ch> <flags> <name> <slack> <pseed>: payload sized to leave exactly <slack> free bits
		{
			int id;
			unsigned ch, flags, name, slack, pseed;
			is >> id >> ch >> flags >> name >> slack >> pseed;
			if (HConn* c = get_conn(id))
			{
				std::unique_ptr<struct utcp_bunch> bp(new struct utcp_bunch);
				struct utcp_bunch& b = *bp;
				memset(&b, 0, sizeof(b));
				b.ChIndex = (uint16_t)ch;
				b.bOpen = flags & 1 ? 1 : 0;
				b.bReliable = flags & 8 ? 1 : 0;
				b.NameIndex = name;
				uint8_t tmp[UTCP_MAX_PACKET];
				struct bitbuf hb;
				bitbuf_write_init(&hb, tmp, sizeof(tmp));
				utcp_bunch_write_header(&b, &hb);
				long bits = 100;
				if (c->get_fd()->SendBufferBitsNum > 0)
				{
					bits = (long)GetFreeSendBufferBits(c->get_fd()) - (long)hb.num - (long)slack;
					if (bits < 0)
						bits = 0;
				}
				b.DataBitsLen = (uint16_t)bits;
				size_t nb = ((size_t)bits + 7) / 8;
				if (nb > sizeof(b.Data))
					nb = sizeof(b.Data);
				payload_from_seed(pseed, nb, b.Data);
				int32_t r = utcp_send_bunch(c->get_fd(), &b);
				emit("ret %d %ld", (int)r, bits);
			}
		}
		else if (op == "codec") // codec <ch> <flags> <reason> <name> <chseq> <bits> <pseed> <offset>: serialize at a bit offset, parse back
		{
			unsigned ch, flags, reason, name, bits, pseed, offset;
			long chseq;
			is >> ch >> flags >> reason >> name >> chseq >> bits >> pseed >> offset;
			std::unique_ptr<struct utcp_bunch> bp(new struct utcp_bunch), op2(new struct utcp_bunch);
			struct utcp_bunch& b = *bp;
			memset(&b, 0, sizeof(b));
			b.ChIndex = (uint16_t)ch;
			b.bOpen = flags & 1 ? 1 : 0;
			b.bClose = flags & 2 ? 1 : 0;
			b.bIsReplicationPaused = flags & 4 ? 1 : 0;
			b.bReliable = flags & 8 ? 1 : 0;
			b.bHasPackageMapExports = flags & 16 ? 1 : 0;
			b.bHasMustBeMappedGUIDs = flags & 32 ? 1 : 0;
			b.bPartial = flags & 64 ? 1 : 0;
			b.bPartialInitial = flags & 128 ? 1 : 0;
			b.bPartialFinal = flags & 256 ? 1 : 0;
			b.CloseReason = reason & 15;
			b.NameIndex = name;
			b.ChSequence = (int32_t)chseq;
			bits %= 7266;
			b.DataBitsLen = (uint16_t)bits;
			size_t nb = ((size_t)bits + 7) / 8;
			payload_from_seed(pseed, nb, b.Data);
			offset %= 64;
			size_t cap = 1100;
			uint8_t* buf = (uint8_t*)malloc(cap); // exact heap block: over-writes are ASan reports
			struct bitbuf wr;
			bitbuf_write_init(&wr, buf, cap);
			for (unsigned i = 0; i < offset; ++i)
				bitbuf_write_bit(&wr, (uint8_t)((pseed >> (i % 31)) & 1));
			if (!utcp_bunch_write_header(&b, &wr) || !bitbuf_write_bits(&wr, b.Data, bits))
				emit("codec encfail");
			else
			{
				size_t endpos = wr.num;
				uint16_t sentinel = 0xA5C3;
				bitbuf_write_bits(&wr, &sentinel, 16);
				struct bitbuf rd;
				rd.buffer = buf;
				rd.size = wr.num;
				rd.num = offset;
				struct utcp_bunch& o = *op2;
				uint16_t got = 0;
				if (!utcp_bunch_read(&o, &rd))
					emit("codec decfail");
				else if (rd.num != endpos || !bitbuf_read_bits(&rd, &got, 16) || got != sentinel)
					emit("codec mismatch position %zu %zu", rd.num, endpos);
				else
				{
					if (bits % 8 && nb)
						b.Data[nb - 1] &= (uint8_t)((1u << (bits % 8)) - 1);
					bool same = o.bOpen == b.bOpen && o.bClose == b.bClose && o.CloseReason == (b.bClose ? b.CloseReason : 0) && o.bIsReplicationPaused == b.bIsReplicationPaused &&
								o.bReliable == b.bReliable && o.ChIndex == b.ChIndex && o.bHasPackageMapExports == b.bHasPackageMapExports &&
								o.bHasMustBeMappedGUIDs == b.bHasMustBeMappedGUIDs && o.bPartial == b.bPartial && o.bPartialInitial == (b.bPartial ? b.bPartialInitial : 0) &&
								o.bPartialFinal == (b.bPartial ? b.bPartialFinal : 0) && o.NameIndex == ((b.bReliable || b.bOpen) ? b.NameIndex : 0) &&
								o.ChSequence == (b.bReliable ? (int32_t)(((uint32_t)b.ChSequence) & 1023) : 0) && o.DataBitsLen == b.DataBitsLen && memcmp(o.Data, b.Data, nb) == 0;
					if (same)
						emit("codec ok %zu", endpos - offset);
					else
						emit("codec mismatch fields");
				}
			}
			free(buf);
		}
		else if (op == "bbint" || op == "bbwrapped" || op == "bbpacked") // bbint <v> <max> <offset> | bbwrapped <v> <max> <offset> | bbpacked <v> <offset>
		{
			unsigned long v, mx = 0, offset;
			is >> v;
			if (op != "bbpacked")
				is >> mx;
			is >> offset;
			offset %= 64;
			size_t cap = 16;
			uint8_t* buf = (uint8_t*)malloc(cap);
			struct bitbuf wr;
			bitbuf_write_init(&wr, buf, cap);
			for (unsigned i = 0; i < offset; ++i)
				bitbuf_write_bit(&wr, (uint8_t)((v >> (i % 31)) & 1));
			bool okw = op == "bbint" ? bitbuf_write_int(&wr, (uint32_t)v, (uint32_t)mx) : op == "bbwrapped" ? bitbuf_write_int_wrapped(&wr, (uint32_t)v, (uint32_t)mx) : bitbuf_write_int_packed(&wr, (uint32_t)v);
			if (!okw)
				emit("bb fail");
			else
			{
				size_t used = wr.num - offset;
				struct bitbuf rd;
				rd.buffer = buf;
				rd.size = wr.num;
				rd.num = offset;
				uint32_t got = 0;
				bool okr = op == "bbpacked" ? bitbuf_read_int_packed(&rd, &got) : bitbuf_read_int(&rd, &got, (uint32_t)mx);
				if (!okr)
					emit("bb readfail %zu", used);
				else
					emit("bb ok %zu %u %zu", used, (unsigned)got, rd.num - offset);
			}
			free(buf);
		}
		else if (op == "bbs") // bbs <cap> <tok>...: a script of byte-level bit-buffer calls on one buffer (see lean/Utcp/ByteScript.lean); every array is an
							  // exact-size heap block, so that a byte touched outside it is an AddressSanitizer report
		{
			unsigned long cap;
			is >> cap;
			cap %= 4096;
			uint8_t* buf = (uint8_t*)malloc(cap ? cap : 1);
			struct bitbuf bb;
			bitbuf_write_init(&bb, buf, cap);
			uint8_t* rdcopy = nullptr;
			bool reading = false, dead = false;
			std::string line = "bbs";
			char tmp[256];
			auto pbytes = [](unsigned long pseed, size_t n) {
				uint8_t* p = (uint8_t*)malloc(n ? n : 1);
				for (size_t i = 0; i < n; ++i)
					p[i] = (uint8_t)((((pseed * 1103515245UL + 12345UL + i * 2654435761UL) & 0xFFFFFFFFUL) >> 16) & 0xFF);
				return p;
			};
			std::string tok;
			while (!dead && (is >> tok))
			{
				std::vector<unsigned long> a;
				std::string k;
				{
					size_t pos = tok.find(':');
					k = tok.substr(0, pos);
					while (pos != std::string::npos)
					{
						size_t nx = tok.find(':', pos + 1);
						a.push_back(strtoul(tok.substr(pos + 1, nx == std::string::npos ? nx : nx - pos - 1).c_str(), nullptr, 10));
						pos = nx;
					}
					while (a.size() < 4)
						a.push_back(0);
				}
				if (k == "cp")
				{
#ifdef VERIF_NO_SHIM
					line += " cp:unavailable";
					continue;
#else
					size_t dn = (a[0] + a[2] + 7) / 8, sn = (a[1] + a[2] + 7) / 8;
					uint8_t* dest = pbytes(a[3] + 1, dn);
					uint8_t* src = pbytes(a[3], sn);
					uint8_t* dexact = (uint8_t*)malloc(dn ? dn : 1); // exactly the bytes the two bit ranges occupy
					uint8_t* sexact = (uint8_t*)malloc(sn ? sn : 1);
					memcpy(dexact, dest, dn);
					memcpy(sexact, src, sn);
					verif_appBitsCpy(dexact, (int32_t)a[0], sexact, (int32_t)a[1], (int32_t)a[2]);
					snprintf(tmp, sizeof(tmp), " cp:%016llx", (unsigned long long)fnv64(dexact, dn));
					line += tmp;
					free(dest);
					free(src);
					free(dexact);
					free(sexact);
#endif
				}
				else if (!reading)
				{
					bool ok = false;
					bool known = true;
					if (k == "wb")
						ok = bitbuf_write_bit(&bb, (uint8_t)a[0]);
					else if (k == "ws")
					{
						uint8_t* src = pbytes(a[1], (a[0] + 7) / 8);
						ok = bitbuf_write_bits(&bb, src, a[0]);
						free(src);
					}
					else if (k == "wy")
					{
						uint8_t* src = pbytes(a[1], a[0]);
						ok = bitbuf_write_bytes(&bb, src, a[0]);
						free(src);
					}
					else if (k == "wi")
						ok = bitbuf_write_int(&bb, (uint32_t)a[0], (uint32_t)a[1]);
					else if (k == "ww")
						ok = bitbuf_write_int_wrapped(&bb, (uint32_t)a[0], (uint32_t)a[1]);
					else if (k == "wp")
						ok = bitbuf_write_int_packed(&bb, (uint32_t)a[0]);
					else if (k == "wu")
						ok = bitbuf_write_int_byte_order(&bb, (uint32_t)a[0]);
					else if (k == "end")
					{
						if (!bitbuf_write_end(&bb))
						{
							line += " endfail";
							dead = true;
						}
						else
						{
							size_t len = (bb.num + 7) / 8;
							rdcopy = (uint8_t*)malloc(len ? len : 1);
							memcpy(rdcopy, buf, len);
							struct bitbuf rb;
							rb.buffer = nullptr;
							rb.size = 0;
							rb.num = 0;
							bool okr = bitbuf_read_init(&rb, rdcopy, len);
							std::string h;
							char t[4];
							for (size_t i = 0; i < len; ++i)
							{
								snprintf(t, sizeof(t), "%02x", rdcopy[i]);
								h += t;
							}
							snprintf(tmp, sizeof(tmp), " end:%d:%zu:", okr ? 1 : 0, okr ? rb.size : (size_t)0);
							line += tmp;
							line += h;
							bb = rb;
							reading = true;
							if (!okr)
								dead = true;
						}
						continue;
					}
					else
						known = false;
					if (!known)
						line += " badtok";
					else
					{
						snprintf(tmp, sizeof(tmp), " %d:%zu", ok ? 1 : 0, bb.num);
						line += tmp;
					}
				}
				else
				{
					if (k == "rb" || k == "ri" || k == "rp" || k == "ru")
					{
						uint32_t v = 0;
						uint8_t bit = 0;
						bool ok = k == "rb" ? bitbuf_read_bit(&bb, &bit) : k == "ri" ? bitbuf_read_int(&bb, &v, (uint32_t)a[0]) : k == "rp" ? bitbuf_read_int_packed(&bb, &v) : bitbuf_read_int_byte_order(&bb, &v);
						if (k == "rb")
							v = bit;
						snprintf(tmp, sizeof(tmp), " %d:%u:%zu", ok ? 1 : 0, ok ? (unsigned)v : 0u, bb.num);
						line += tmp;
					}
					else if (k == "rs" || k == "ry")
					{
						size_t n = k == "rs" ? (a[0] + 7) / 8 : a[0];
						uint8_t* out = (uint8_t*)malloc(n ? n : 1);
						memset(out, 0xAA, n ? n : 1);
						bool ok = k == "rs" ? bitbuf_read_bits(&bb, out, a[0]) : bitbuf_read_bytes(&bb, out, a[0]);
						snprintf(tmp, sizeof(tmp), " %d:%016llx:%zu", ok ? 1 : 0, (unsigned long long)fnv64(out, n), bb.num);
						line += tmp;
						free(out);
					}
					else
						line += " badtok";
				}
			}
			g_out += line;
			g_out += '\n';
			free(buf);
			free(rdcopy);
		}
		else if (op == "bbcut") // bbcut <kind 0 int|1 wrapped|2 packed> <v> <max> <offset> <cut>: write the value at a bit offset, then READ it back from a
								// buffer that is <cut> bits too short: the read must fail (or succeed early) with the cursor still inside the valid range
		{
			unsigned long kind, v, mx, offset, cut;
			is >> kind >> v >> mx >> offset >> cut;
			offset %= 64;
			size_t cap = 16;
			uint8_t* buf = (uint8_t*)malloc(cap);
			struct bitbuf wr;
			bitbuf_write_init(&wr, buf, cap);
			for (unsigned i = 0; i < offset; ++i)
				bitbuf_write_bit(&wr, (uint8_t)((v >> (i % 31)) & 1));
			bool okw = kind == 0 ? bitbuf_write_int(&wr, (uint32_t)v, (uint32_t)mx) : kind == 1 ? bitbuf_write_int_wrapped(&wr, (uint32_t)v, (uint32_t)mx) : bitbuf_write_int_packed(&wr, (uint32_t)v);
			if (!okw)
				emit("bb fail");
			else
			{
				size_t used = wr.num - offset;
				cut %= (used + 1);
				// the bytes beyond the shortened size are zeroed so that nothing read from there can look like valid data
				struct bitbuf rd;
				rd.buffer = buf;
				rd.size = wr.num - cut;
				rd.num = offset;
				uint32_t got = 0;
				bool okr = kind == 2 ? bitbuf_read_int_packed(&rd, &got) : bitbuf_read_int(&rd, &got, (uint32_t)mx);
				emit("bb cut %d %u %zu %d", okr ? 1 : 0, okr ? (unsigned)got : 0u, okr ? (size_t)(rd.num - offset) : (size_t)0, rd.num <= rd.size ? 1 : 0);
			}
			free(buf);
		}
		else if (op == "bbbits") // bbbits <nbits> <offset> <pseed> <srcoff>: a run of bits written at a bit offset (bitbuf_write_bits from a source that itself starts
								 // at bit <srcoff> of its buffer is not offered by the API; reads are: bitbuf_read_bits at <offset>), then read back; prints a fingerprint of what was read
		{
			unsigned long nbits, offset, pseed;
			is >> nbits >> offset >> pseed;
			nbits %= 2049;
			offset %= 64;
			size_t cap = 300;
			uint8_t* buf = (uint8_t*)malloc(cap);
			uint8_t* src = (uint8_t*)malloc(cap);
			uint8_t* dst = (uint8_t*)malloc(cap);
			memset(dst, 0, cap);
			for (size_t i = 0; i < cap; ++i)
				src[i] = (uint8_t)((((pseed * 1103515245UL + 12345UL + i * 2654435761UL) & 0xFFFFFFFFUL) >> 16) & 0xFF);
			struct bitbuf wr;
			bitbuf_write_init(&wr, buf, cap);
			for (unsigned i = 0; i < offset; ++i)
				bitbuf_write_bit(&wr, (uint8_t)((pseed >> (i % 31)) & 1));
			bool okw = bitbuf_write_bits(&wr, src, nbits);
			bitbuf_write_bit(&wr, 1);
			if (!okw)
				emit("bb fail");
			else
			{
				struct bitbuf rd;
				rd.buffer = buf;
				rd.size = wr.num;
				rd.num = offset;
				bool okr = bitbuf_read_bits(&rd, dst, nbits);
				uint8_t tail = 0;
				bool okt = okr && bitbuf_read_bit(&rd, &tail);
				if (!okr || !okt)
					emit("bb readfail %lu", nbits);
				else
				{
					size_t nb = (nbits + 7) / 8;
					if (nbits % 8 && nb)
						dst[nb - 1] &= (uint8_t)((1u << (nbits % 8)) - 1);
					emit("bb ok %lu %016llx %u %zu", nbits, (unsigned long long)fnv64(dst, nb), (unsigned)tail, rd.num - offset);
				}
			}
			free(buf);
			free(src);
			free(dst);
		}
		else if (op == "nodes") // number of live bunch-node blocks (C16 quiescence)
		{
			size_t cnt = 0;
			for (auto& kv : g_live)
				if (kv.second.size == sizeof(struct utcp_bunch_node))
					cnt++;
			emit("ret %zu", cnt);
		}
		else if (op == "hex") // hex <src> <j>: dump a datagram (debugging / replay files)
		{
			int src;
			long j;
			is >> src >> j;
			Endpoint* s = get_ep(src);
			long idx = s ? pick(s, j) : -1;
			if (idx >= 0)
			{
				std::string h;
				char t[4];
				for (uint8_t v : s->outbox[idx])
				{
					snprintf(t, sizeof(t), "%02x", v);
					h += t;
				}
				g_out += "hexdump " + h + "\n";
			}
			else
				emit("hexdump none");
		}
		else
		{
			emit("badop");
		}
	}
	destroy_all();
	emit("live %zu", g_live.size());
	flush_out();
	free(linebuf);
	return 0;
}
