/* compiled INSTEAD of utcp/bit_buffer.c: the same translation unit (the file is included from /repo's working tree, nothing is
 * copied) plus one exported wrapper, so that the harness can call the file-local bit-run copier with arbitrary
 * (destination bit, source bit, count) triples - the public API only ever passes 0 for one of the two offsets. */
#include "utcp/bit_buffer.c"

void verif_appBitsCpy(uint8_t* Dest, int32_t DestBit, const uint8_t* Src, int32_t SrcBit, int32_t BitCount)
{
	appBitsCpy(Dest, DestBit, Src, SrcBit, BitCount);
}
