/-!
# Executable SHA-1 and HMAC-SHA-1 (driver only)

Used to make the model's challenge datagrams byte-identical to the implementation's.  The theorems about
the handshake treat the MAC as an uninterpreted function; this file is tied to `sha1.c` by test vectors
and differential runs only.
-/
namespace Utcp.Sha1

def rotl (x : UInt32) (n : UInt32) : UInt32 := (x <<< n) ||| (x >>> (32 - n))

def be32 (b0 b1 b2 b3 : UInt8) : UInt32 :=
  (b0.toUInt32 <<< 24) ||| (b1.toUInt32 <<< 16) ||| (b2.toUInt32 <<< 8) ||| b3.toUInt32

def toBE32 (w : UInt32) : List UInt8 :=
  [(w >>> 24).toUInt8, (w >>> 16).toUInt8, (w >>> 8).toUInt8, w.toUInt8]

def pad (msg : List UInt8) : List UInt8 :=
  let l := msg.length
  let k := (119 - l % 64) % 64
  let bits := l * 8
  let lenBytes : List UInt8 := (List.range 8).map fun i => UInt8.ofNat ((bits >>> (8 * (7 - i))) % 256)
  msg ++ [(0x80 : UInt8)] ++ List.replicate k (0 : UInt8) ++ lenBytes

def words (block : Array UInt8) : Array UInt32 :=
  (Array.range 16).map fun i => be32 block[4*i]! block[4*i+1]! block[4*i+2]! block[4*i+3]!

def schedule (w : Array UInt32) : Array UInt32 :=
  (List.range 64).foldl (fun (w : Array UInt32) i =>
    let t := i + 16
    w.push (rotl (w[t-3]! ^^^ w[t-8]! ^^^ w[t-14]! ^^^ w[t-16]!) 1)) w

structure H where
  a : UInt32
  b : UInt32
  c : UInt32
  d : UInt32
  e : UInt32

def compress (h : H) (block : Array UInt8) : H :=
  let w := schedule (words block)
  let r := (List.range 80).foldl (fun (s : H) t =>
    let (f, k) : UInt32 × UInt32 :=
      if t < 20 then ((s.b &&& s.c) ||| ((~~~ s.b) &&& s.d), 0x5A827999)
      else if t < 40 then (s.b ^^^ s.c ^^^ s.d, 0x6ED9EBA1)
      else if t < 60 then ((s.b &&& s.c) ||| (s.b &&& s.d) ||| (s.c &&& s.d), 0x8F1BBCDC)
      else (s.b ^^^ s.c ^^^ s.d, 0xCA62C1D6)
    let tmp := rotl s.a 5 + f + s.e + k + w[t]!
    { a := tmp, b := s.a, c := rotl s.b 30, d := s.c, e := s.d }) h
  { a := h.a + r.a, b := h.b + r.b, c := h.c + r.c, d := h.d + r.d, e := h.e + r.e }

def blocks (bs : List UInt8) (fuel : Nat) : List (Array UInt8) :=
  match fuel with
  | 0 => []
  | fuel+1 => if bs.isEmpty then [] else (bs.take 64).toArray :: blocks (bs.drop 64) fuel

def sha1 (msg : List UInt8) : List UInt8 :=
  let p := pad msg
  let h := (blocks p (p.length / 64 + 1)).foldl compress
    { a := 0x67452301, b := 0xEFCDAB89, c := 0x98BADCFE, d := 0x10325476, e := 0xC3D2E1F0 }
  toBE32 h.a ++ toBE32 h.b ++ toBE32 h.c ++ toBE32 h.d ++ toBE32 h.e

/-- `sha1_hmac_buffer` for a 64-byte key (the only size the library uses) -/
def hmac (key : List UInt8) (data : List UInt8) : List UInt8 :=
  let key := if key.length > 64 then sha1 key else key
  let key := key ++ List.replicate (64 - key.length) 0
  let okey := key.map (· ^^^ 0x5C)
  let ikey := key.map (· ^^^ 0x36)
  sha1 (okey ++ sha1 (ikey ++ data))

end Utcp.Sha1
