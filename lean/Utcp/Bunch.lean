import Utcp.BitIO
import Utcp.Gen.Consts
/-!
# Bunch record and its wire codec (`utcp_bunch.c`)
-/
namespace Utcp

structure Bunch where
  chIndex : Nat := 0
  bOpen : Bool := false
  bClose : Bool := false
  bPaused : Bool := false
  bReliable : Bool := false
  bExports : Bool := false
  bGuids : Bool := false
  bPartial : Bool := false
  bPartialInitial : Bool := false
  bPartialFinal : Bool := false
  closeReason : Nat := 0
  nameIndex : Nat := 0
  chSeq : Int := 0
  packetId : Int := 0
  data : Bits := []
  deriving DecidableEq, Repr, Inhabited

/-- constants used by the codec, from the extractor -/
def closeReasonMax : Nat := Gen.EChannelCloseReasonMAX.toNat
def maxChSequence : Nat := Gen.UTCP_MAX_CHSEQUENCE.toNat
def maxPacketBits : Nat := Gen.UTCP_MAX_PACKET.toNat * 8

/-! The header is written and read in eight stages; each stage has its own writer and reader so that the
round-trip proof composes stage by stage. -/

def writeCtl (bOpen bClose : Bool) (reason : Nat) : Bits :=
  let ctl := bOpen || bClose
  [ctl] ++ (if ctl then [bOpen, bClose] ++ (if bClose then writeInt reason closeReasonMax else []) else [])

def readCtl : Rd (Bool × Bool × Nat) :=
  readBit >>= fun ctl =>
  (if ctl then readBit else pure false) >>= fun bOpen =>
  (if ctl then readBit else pure false) >>= fun bClose =>
  (if bClose then readInt closeReasonMax else pure 0) >>= fun reason =>
  pure (bOpen, bClose, reason)

def writeSeq (reliable : Bool) (chSeq : Int) : Bits :=
  if reliable then writeIntWrapped (chSeq % 4294967296).toNat maxChSequence else []

def readSeq (reliable : Bool) : Rd Nat := if reliable then readInt maxChSequence else pure 0

def writePartialFlags (partial_ pinit pfinal : Bool) : Bits := if partial_ then [pinit, pfinal] else []

def readPartialFlags (partial_ : Bool) : Rd (Bool × Bool) :=
  if partial_ then (readBit >>= fun a => readBit >>= fun b => pure (a, b)) else pure (false, false)

def writeName (has : Bool) (name : Nat) : Bits := if has then [true] ++ writeIntPacked name else []

def readName (has : Bool) : Rd Nat :=
  if has then (readBit >>= fun hard => if !hard then Rd.failHere else readIntPacked) else pure 0

/-- `utcp_bunch_write_header`; `none` when the serializer refuses (close reason out of range). -/
def encodeBunchHeader (b : Bunch) : Option Bits :=
  if b.bClose && !(decide (b.closeReason < closeReasonMax)) then none else
  some (
    writeCtl b.bOpen b.bClose b.closeReason
    ++ [b.bPaused, b.bReliable]
    ++ writeIntPacked b.chIndex
    ++ [b.bExports, b.bGuids, b.bPartial]
    ++ writeSeq b.bReliable b.chSeq
    ++ writePartialFlags b.bPartial b.bPartialInitial b.bPartialFinal
    ++ writeName (b.bReliable || b.bOpen) b.nameIndex
    ++ writeIntWrapped b.data.length maxPacketBits)

/-- header followed by payload bits: what `SendRawBunch` appends to the send buffer -/
def encodeBunch (b : Bunch) : Option Bits :=
  match encodeBunchHeader b with
  | some h => some (h ++ b.data)
  | none => none

/-- `utcp_bunch_read` -/
def decodeBunch : Rd Bunch := do
  let (bOpen, bClose, reason) ← readCtl
  let paused ← readBit
  let reliable ← readBit
  let ch ← readIntPacked
  let exports ← readBit
  let guids ← readBit
  let partial_ ← readBit
  let chSeq ← readSeq reliable
  let (pinit, pfinal) ← readPartialFlags partial_
  let name ← readName (reliable || bOpen)
  let nbits ← readInt maxPacketBits
  let data ← readBits nbits
  pure { chIndex := ch % 65536, bOpen := bOpen, bClose := bClose, bPaused := paused, bReliable := reliable,
         bExports := exports, bGuids := guids, bPartial := partial_, bPartialInitial := pinit,
         bPartialFinal := pfinal, closeReason := reason, nameIndex := name, chSeq := chSeq, packetId := 0,
         data := data }

end Utcp
