import Utcp.BitIO
import Utcp.Gen.Consts
/-!
# Bunch record and its wire codec (`utcp_bunch.c`)
-/
namespace Utcp

structure Bunch where
  chIndex : Nat := 0
  bOpen : Bool := false
  bClose : Bool := false
  bPaused : Bool := false
  bReliable : Bool := false
  bExports : Bool := false
  bGuids : Bool := false
  bPartial : Bool := false
  bPartialInitial : Bool := false
  bPartialFinal : Bool := false
  closeReason : Nat := 0
  nameIndex : Nat := 0
  chSeq : Int := 0
  packetId : Int := 0
  data : Bits := []
  deriving DecidableEq, Repr, Inhabited

/-- constants used by the codec, from the extractor -/
def closeReasonMax : Nat := Gen.EChannelCloseReasonMAX.toNat
def maxChSequence : Nat := Gen.UTCP_MAX_CHSEQUENCE.toNat
def maxPacketBits : Nat := Gen.UTCP_MAX_PACKET.toNat * 8

/-- `utcp_bunch_write_header`; `none` when the serializer refuses (close reason out of range). -/
def encodeBunchHeader (b : Bunch) : Option Bits :=
  let ctl := b.bOpen || b.bClose
  if b.bClose && !(decide (b.closeReason < closeReasonMax)) then none else
  some (
    [ctl]
    ++ (if ctl then [b.bOpen, b.bClose] ++ (if b.bClose then writeInt b.closeReason closeReasonMax else []) else [])
    ++ [b.bPaused, b.bReliable]
    ++ writeIntPacked b.chIndex
    ++ [b.bExports, b.bGuids, b.bPartial]
    ++ (if b.bReliable then writeIntWrapped (b.chSeq % 4294967296).toNat maxChSequence else [])
    ++ (if b.bPartial then [b.bPartialInitial, b.bPartialFinal] else [])
    ++ (if b.bReliable || b.bOpen then [true] ++ writeIntPacked b.nameIndex else [])
    ++ writeIntWrapped b.data.length maxPacketBits)

/-- header followed by payload bits: what `SendRawBunch` appends to the send buffer -/
def encodeBunch (b : Bunch) : Option Bits :=
  match encodeBunchHeader b with
  | some h => some (h ++ b.data)
  | none => none

/-- `utcp_bunch_read` -/
def decodeBunch : Rd Bunch := do
  let ctl ← readBit
  let bOpen ← if ctl then readBit else pure false
  let bClose ← if ctl then readBit else pure false
  let reason ← if bClose then readInt closeReasonMax else pure 0
  let paused ← readBit
  let reliable ← readBit
  let ch ← readIntPacked
  let exports ← readBit
  let guids ← readBit
  let partial_ ← readBit
  let chSeq ← if reliable then readInt maxChSequence else pure 0
  let pinit ← if partial_ then readBit else pure false
  let pfinal ← if partial_ then readBit else pure false
  let name ← if reliable || bOpen then (do
      let hard ← readBit
      if !hard then Rd.failHere else readIntPacked) else pure 0
  let nbits ← readInt maxPacketBits
  let data ← readBits nbits
  pure { chIndex := ch % 65536, bOpen := bOpen, bClose := bClose, bPaused := paused, bReliable := reliable,
         bExports := exports, bGuids := guids, bPartial := partial_, bPartialInitial := pinit,
         bPartialFinal := pfinal, closeReason := reason, nameIndex := name, chSeq := chSeq, packetId := 0,
         data := data }

end Utcp
