import Utcp.Conn
/-!
# Stateless handshake (`utcp_handshake.c`, listener part of `utcp.c`)

Timestamps are IEEE doubles on the wire.  The model is parametric in a `TimeOps T` record so that the
theorems can be proved once for every time algebra satisfying a few order laws; the driver instantiates it
with `Float` (same binary64 operations as the C code on x86-64).  The MAC is a parameter too.
-/
namespace Utcp
open Gen

/-! ## randomness (both streams are inputs; the harness overrides `rand` and installs `on_rand`) -/
structure Rng where
  rnd : Nat := 1     -- `on_rand` stream
  lib : Nat := 1     -- libc `rand` stream
  deriving DecidableEq, Repr

def lcgNext (s : Nat) : Nat := (s * 1103515245 + 12345) % 2147483648

def Rng.nextRnd (r : Rng) : Rng × Nat := let s := lcgNext r.rnd; ({ r with rnd := s }, s)
def Rng.nextLib (r : Rng) : Rng × Nat := let s := lcgNext r.lib; ({ r with lib := s }, s)

def Rng.skipRnd (r : Rng) : Nat → Rng
  | 0 => r
  | k+1 => (r.nextRnd.1).skipRnd k

/-- `k` draws of `utcp_rand() % 255` -/
def Rng.bytes (r : Rng) : Nat → Rng × List UInt8
  | 0 => (r, [])
  | k+1 =>
    let (r, v) := r.nextRnd
    let (r, rest) := r.bytes k
    (r, UInt8.ofNat (v % 255) :: rest)

/-! ## time algebra -/
structure TimeOps (T : Type) where
  now : Int → T                -- `utcp_gettime()` when the µs clock reads the argument
  ofBits : UInt64 → T
  toBits : T → UInt64
  sub : T → T → T
  lifeLeft : T → T             -- `MAX_COOKIE_LIFETIME - x`
  ge0 : T → Bool
  gt0 : T → Bool
  le0 : T → Bool
  lt0 : T → Bool
  isZero : T → Bool

def floatOps : TimeOps Float where
  now := fun us => Float.ofInt us / 1000 / 1000 + 1
  ofBits := Float.ofBits
  toBits := Float.toBits
  sub := fun a b => a - b
  lifeLeft := fun x => Float.ofInt Gen.MAX_COOKIE_LIFETIME_S - x
  ge0 := fun x => x >= 0.0
  gt0 := fun x => x > 0.0
  le0 := fun x => x <= 0.0
  lt0 := fun x => x < 0.0
  isZero := fun x => x == 0.0

/-! ## handshake packets -/

def hsVersionLatest : Nat := Gen.EHandshakeVersion_Latest.toNat   -- 3
def ptInitial : Nat := Gen.EHandshakePacketType_InitialPacket.toNat
def ptChallenge : Nat := Gen.EHandshakePacketType_Challenge.toNat
def ptResponse : Nat := Gen.EHandshakePacketType_Response.toNat
def ptAck : Nat := Gen.EHandshakePacketType_Ack.toNat
def ptRestartHandshake : Nat := Gen.EHandshakePacketType_RestartHandshake.toNat
def ptRestartResponse : Nat := Gen.EHandshakePacketType_RestartResponse.toNat

def bytesBits (bs : List UInt8) : Bits := bytesToBits bs
def bitsBytes (bs : Bits) : List UInt8 := bitsToBytes bs

structure HsData where
  restart : Bool := false
  minVer : Nat := 3
  curVer : Nat := 3
  netVer : Nat := 0
  ptype : Nat := 0
  sentCount : Nat := 0
  secretId : Bool := false
  ts : UInt64 := 0
  cookie : List UInt8 := List.replicate 20 0
  origCookie : List UInt8 := List.replicate 20 0
  deriving DecidableEq, Repr

/-- `write_packet_header` for any protocol version -/
def hsOutgoingHeader (e : Env) (ver session client : Nat) (handshake : Bool) : Bits :=
  natToBits e.magic e.magicBits ++ (if ver ≥ 3 then natToBits session 2 ++ natToBits client 3 else []) ++ [handshake]

/-- `read_packet_header` (latest version framing): session, client, handshake bit -/
def readOutgoingHeader (e : Env) : Rd (Nat × Nat × Bool) := fun bs =>
  match readBits e.magicBits bs with
  | .fail r => .fail r
  | .ok m rest =>
    if e.magicBits != 0 && bitsToNat m != e.magic then .fail rest else
    match readBits 2 rest with
    | .fail r => .fail r
    | .ok s rest =>
      match readBits 3 rest with
      | .fail r => .fail r
      | .ok c rest =>
        match readBit rest with
        | .fail r => .fail r
        | .ok h rest => .ok (bitsToNat s, bitsToNat c, h) rest

/-- `ParseHandshakePacket(bitbuf, bIsClient = false, …)` on the bits after the outgoing header.
`none` = not a valid handshake packet. (On success the C code consumes every remaining bit.) -/
def parseHandshake (bits : Bits) : Option HsData :=
  let left := bits.length
  let minRandom : Int := (Gen.BaseRandomDataLengthBytes - Gen.RandomDataLengthVarianceBytes) * 8
  let maxRandom : Int := Gen.BaseRandomDataLengthBytes * 8
  let maybeHs := decide ((left : Int) - (Gen.VerRandomizedHandshakePacketSizeBits - 1) ≥ minRandom ∧ (left : Int) - (Gen.HANDSHAKE_PACKET_SIZE_BITS - 1) ≤ maxRandom)
  let maybeRR := decide ((left : Int) - (Gen.VerRandomizedRestartResponseSizeBits - 1) ≥ minRandom ∧ (left : Int) - (Gen.RESTART_RESPONSE_SIZE_BITS - 1) ≤ maxRandom)
  match readBit bits with
  | .fail _ => none
  | .ok restart r =>
  match readByte r with
  | .fail _ => none
  | .ok minV r =>
  match readByte r with
  | .fail _ => none
  | .ok curV r =>
  match readByte r with
  | .fail _ => none
  | .ok ptype r =>
  match readByte r with
  | .fail _ => none
  | .ok cnt r =>
  match (if curV ≥ 2 then readU32 r else .ok 0 r) with
  | .fail _ => none
  | .ok netV r =>
    let isHs := maybeHs && decide (ptype ≤ 3)
    let isRR := maybeRR && ptype == ptRestartResponse
    if isHs || isRR then
      match readBit r with
      | .fail _ => none
      | .ok sid r =>
      match readBits 64 r with
      | .fail _ => none
      | .ok ts r =>
      match readBits 160 r with
      | .fail _ => none
      | .ok ck r =>
      match (if isRR then readBits 160 r else .ok [] r) with
      | .fail _ => none
      | .ok ock _ =>
        some { restart := restart, minVer := minV, curVer := curV, netVer := netV, ptype := ptype, sentCount := cnt,
               secretId := sid, ts := UInt64.ofNat (bitsToNat ts), cookie := bitsBytes ck,
               origCookie := if isRR then bitsBytes ock else List.replicate 20 0 }
    else none   -- restart-handshake requests are only valid clientside, and the library parses serverside

/-- `CapHandshakePacket`: random-length zero padding (draws are consumed, values discarded) and terminator -/
def capHandshake (e : Env) (rng : Rng) (ver : Nat) (bits : Bits) : Rng × Bits :=
  if ver ≥ 1 then
    let (rng, r) := rng.nextLib
    let len0 := 16 - r % 8
    let numBits := bits.length - (e.magicBits + (if ver ≥ 3 then 5 else 0))
    let len := if ver < 3 && numBits + len0 * 8 == 387 then len0 - 1 else len0
    (rng.skipRnd len, bits ++ List.replicate (8 * len) false ++ [true])
  else (rng, bits ++ [true])

/-- common layout of challenge / response / ack packets -/
def hsPacket (e : Env) (ver session client : Nat) (restart : Bool) (ptype cnt netVer : Nat) (sid : Bool)
    (ts : UInt64) (cookie : List UInt8) (extra : List UInt8) : Bits :=
  hsOutgoingHeader e ver session client true ++ [restart]
  ++ (if ver ≥ 1 then writeByte 1 ++ writeByte ver ++ writeByte ptype ++ writeByte cnt else [])
  ++ (if ver ≥ 2 then writeU32 netVer else [])
  ++ [sid] ++ writeU64 ts.toNat ++ bytesBits cookie ++ bytesBits extra

/-! ## client side -/

structure Challenge where
  state : Nat := 0                 -- 0 UnInitialized, 1 InitializedOnLocal, 3 Initialized
  restarted : Bool := false
  lastChallengeMs : Int := 0
  lastClientSendMs : Int := 0
  lastTs : UInt64 := 0
  lastSecretId : Bool := false
  lastCookie : List UInt8 := List.replicate 20 0
  sentCount : Nat := 0
  lastRestartMs : Int := 0
  clientId : Nat := 0
  deriving DecidableEq, Repr

/-- a connection endpoint: the data path plus the client handshake state (absent on the server side) -/
structure Endpoint where
  c : Conn := {}
  chal : Option Challenge := none
  deriving DecidableEq, Repr

def stUnInit : Nat := Gen.UnInitialized.toNat
def stLocal : Nat := Gen.InitializedOnLocal.toNat
def stInit : Nat := Gen.Initialized.toNat

def Endpoint.out (ep : Endpoint) (bits : Bits) : Endpoint := { ep with c := ep.c.emit (.out (bitsBytes bits)) }

/-- `SendInitialPacket` -/
def Endpoint.sendInitial (e : Env) (rng : Rng) (ep : Endpoint) (ver : Nat) : Endpoint × Rng :=
  match ep.chal with
  | none => (ep, rng)
  | some ch =>
    let body := hsOutgoingHeader e ver 0 ch.clientId true ++ [ch.restarted]
      ++ (if ver ≥ 1 then writeByte 1 ++ writeByte ver ++ writeByte ptInitial ++ writeByte ch.sentCount else [])
      ++ (if ver ≥ 2 then writeU32 e.checksum else [])
      ++ [false] ++ List.replicate 224 false
    let (rng, pkt) := capHandshake e rng ver body
    let ep := ep.out pkt
    ({ ep with chal := some { ch with sentCount := (ch.sentCount + 1) % 256, lastClientSendMs := e.nowMs } }, rng)

/-- `SendChallengeResponse` -/
def Endpoint.sendResponse (e : Env) (rng : Rng) (ep : Endpoint) (sid : Bool) (ts : UInt64) (cookie : List UInt8) : Endpoint × Rng :=
  match ep.chal with
  | none => (ep, rng)
  | some ch =>
    let ver := hsVersionLatest
    let body := hsPacket e ver 0 ch.clientId ch.restarted (if ch.restarted then ptRestartResponse else ptResponse) ch.sentCount
      e.checksum sid ts cookie (if ch.restarted then ep.c.cookie else [])
    let (rng, pkt) := capHandshake e rng ver body
    let ep := ep.out pkt
    ({ ep with chal := some { ch with sentCount := (ch.sentCount + 1) % 256, lastClientSendMs := e.nowMs,
                                      lastSecretId := sid, lastTs := ts, lastCookie := cookie } }, rng)

/-- `SendChallengeAck(NULL, fd, …)`: the server-side connection re-sends the ack -/
def Endpoint.resendAck (e : Env) (rng : Rng) (ep : Endpoint) (hs : HsData) (clientId : Nat) : Endpoint × Rng :=
  let ver := hs.curVer
  let body := hsPacket e ver (e.travel % 4) clientId false ptAck hs.sentCount hs.netVer true 0xBFF0000000000000 ep.c.cookie []
  let (rng, pkt) := capHandshake e rng ver body
  (ep.out pkt, rng)

def seqFromCookie (cookie : List UInt8) (i : Nat) : Int :=
  (((cookie.getD (2*i) 0).toNat + 256 * (cookie.getD (2*i+1) 0).toNat) % 16384 : Nat)

/-- `handshake_begin`; `clientIdCounter` is the function-static counter -/
def Endpoint.connect (e : Env) (rng : Rng) (counter : Nat) (ep : Endpoint) : Endpoint × Rng × Nat :=
  let ep := { ep with c := ep.c.emit (.alloc .chal) }
  let counter := counter + 1
  let ep := { ep with chal := some { clientId := counter % 8 }, c := { ep.c with connected := false } }
  let (ep, rng) := ep.sendInitial e rng hsVersionLatest
  (ep, rng, counter)

/-- the challenge ack completes the client's handshake: sequence numbers from the cookie, stamps, callback -/
def Endpoint.onAck (e : Env) (ep : Endpoint) (ch : Challenge) (hs : HsData) : Endpoint :=
  let c := if !ch.restarted then
      { (ep.c.seqInit (seqFromCookie hs.cookie 0) (seqFromCookie hs.cookie 1)) with cookie := hs.cookie }
    else ep.c
  let c := { c with lastRecvMs := e.nowMs, lastSendMs := e.nowMs, connected := true }
  let c := c.emit (.connect ch.restarted)
  { ep with c := c, chal := some { ch with state := stInit, restarted := false } }

/-- `handshake_incoming` for a handshake packet that parsed; returns the C return code -/
def Endpoint.handshakeIncoming {T} (tm : TimeOps T) (e : Env) (rng : Rng) (ep : Endpoint) (hs : HsData) (clientId : Nat) :
    Endpoint × Rng × Int :=
  match ep.chal with
  | none => let (ep, rng) := ep.resendAck e rng hs clientId; (ep, rng, 0)
  | some ch =>
    let ts := tm.ofBits hs.ts
    let isChallenge := hs.ptype == ptChallenge && tm.gt0 ts
    if ch.state == stUnInit || ch.state == stLocal then
      if hs.restart then (ep, rng, 0)
      else if isChallenge then
        let ep := { ep with chal := some { ch with lastChallengeMs := e.nowMs } }
        let (ep, rng) := ep.sendResponse e rng hs.secretId hs.ts hs.cookie
        ({ ep with chal := ep.chal.map fun ch => { ch with state := stLocal } }, rng, 0)
      else if hs.ptype == ptAck && tm.lt0 ts then (ep.onAck e ch hs, rng, 0)
      else (ep, rng, 0)
    else if hs.restart then
      if ep.c.cookie.all (· == 0) then (ep, rng, -3) else
      let now := e.nowMs
      let passedDelay := !ch.restarted && decide (now - ch.lastClientSendMs > 10000)
      let passedDual := !ch.restarted && (ch.lastRestartMs == 0 || decide (now - ch.lastRestartMs > 1100) || decide (now - ep.c.lastRecvMs > 1000))
      let ch := { ch with lastRestartMs := now }
      if !ch.restarted && passedDelay && passedDual then
        let ep := { ep with chal := some { ch with restarted := true, state := stUnInit }, c := { ep.c with connected := false } }
        let (ep, rng) := ep.sendInitial e rng hsVersionLatest
        (ep, rng, 0)
      else ({ ep with chal := some ch }, rng, 0)
    else (ep, rng, 0)

/-- `utcp_incoming` -/
def Endpoint.incoming {T} (tm : TimeOps T) (e : Env) (rng : Rng) (ep : Endpoint) (bytes : List UInt8) : Endpoint × Rng × Bool :=
  match readInit bytes with
  | none => ({ ep with c := ep.c.markClose crZeroLastByte }, rng, false)
  | some bits =>
    match readOutgoingHeader e bits with
    | .fail _ => ({ ep with c := ep.c.markClose crPacketHandlerIncomingError }, rng, false)
    | .ok (session, client, isHs) rest =>
      if isHs then
        match parseHandshake rest with
        | none => ({ ep with c := ep.c.markClose crPacketHandlerIncomingError }, rng, false)
        | some hs =>
          let (ep, rng, ret) := ep.handshakeIncoming tm e rng hs client
          if ret != 0 then ({ ep with c := ep.c.markClose crPacketHandlerIncomingError }, rng, false)
          else (ep, rng, true)
      else
        let c := { ep.c with lastSessionId := session, lastClientId := client }
        if rest.isEmpty then ({ ep with c := c }, rng, true) else
        let c := { c with lastRecvMs := e.nowMs }
        let (c, r) := c.receivedPacket e rest.dropLast
        ({ ep with c := c }, rng, r)

/-- `handshake_update` -/
def Endpoint.handshakeUpdate {T} (tm : TimeOps T) (e : Env) (rng : Rng) (ep : Endpoint) : Endpoint × Rng :=
  match ep.chal with
  | none => (ep, rng)
  | some ch =>
    if ch.lastClientSendMs == 0 then (ep, rng) else
    let now := e.nowMs
    if now - ch.lastClientSendMs < 1000 then (ep, rng) else
    let ch := if decide (now - ch.lastChallengeMs > Gen.MIN_COOKIE_LIFETIME_S * 1000) then { ch with state := stUnInit } else ch
    let ep := { ep with chal := some ch }
    if ch.state == stUnInit then ep.sendInitial e rng hsVersionLatest
    else if ch.state == stLocal && !tm.isZero (tm.ofBits ch.lastTs) then ep.sendResponse e rng ch.lastSecretId ch.lastTs ch.lastCookie
    else (ep, rng)

/-- `utcp_update` -/
def Endpoint.update {T} (tm : TimeOps T) (e : Env) (rng : Rng) (ep : Endpoint) : Endpoint × Rng × Int :=
  let (ep, rng) :=
    if ep.c.connected then ({ ep with c := ep.c.checkTimeout e }, rng)
    else ep.handshakeUpdate tm e rng
  let (c, r) := ep.c.updateTail
  ({ ep with c := c }, rng, r)

/-- `utcp_uninit` followed by `utcp_connection_destroy` -/
def Endpoint.destroy (ep : Endpoint) : Endpoint :=
  let c := ep.c.markClose crCleanup
  let c := c.uninitChans
  let c := if ep.chal.isSome then c.emit (.free .chal) else c
  { ep with c := c.emit (.free .conn), chal := none }

/-- `utcp_peep_packet_id` -/
def Endpoint.peek (e : Env) (ep : Endpoint) (bytes : List UInt8) : Int :=
  match readInit bytes with
  | none => -1
  | some bits =>
    match readOutgoingHeader e bits with
    | .fail _ => -2
    | .ok (_, _, isHs) rest =>
      if isHs then 0 else
      match readU32 rest with
      | .fail _ => -1
      | .ok packed r =>
        let seq : Int := ((packed / 2^18 % 16384 : Nat) : Int)
        let acked : Int := ((packed / 16 % 16384 : Nat) : Int)
        let w := min histWordsMax ((packed % 16) + 1)
        match readBits (32 * w) r with
        | .fail _ => -2
        | .ok hist _ =>
          let d := ep.c.notify.deltaSeq { seq := seq, ackedSeq := acked, words := w, hist := hist }
          if d ≤ 0 then -8 else ep.c.inPacketId + d

/-! ## listener -/

/-- the listener's persistent state (`struct utcp_listener` minus the scratch fields that every call resets) -/
structure LState (T : Type) where
  secret0 : List UInt8 := List.replicate 64 0
  secret1 : List UInt8 := List.replicate 64 0
  active : Nat := 255
  lastSecretUpdate : T
  /-- bytes 1… of `LastChallengeSuccessAddress` left over from the last completed handshake (never read) -/
  addrScratch : List UInt8 := []

/-- a listener: persistent state plus the monotone log of what it emitted -/
structure Listener (T : Type) where
  st : LState T
  log : List Event := []

def Listener.emit {T} (l : Listener T) (ev : Event) : Listener T := { l with log := ev :: l.log }

abbrev Mac := List UInt8 → List UInt8 → List UInt8

def le64 (n : Nat) : List UInt8 := (List.range 8).map fun i => UInt8.ofNat ((n >>> (8*i)) % 256)

/-- `GenerateCookie` -/
def LState.cookie {T} (mac : Mac) (l : LState T) (addr : String) (sid : Bool) (ts : UInt64) : List UInt8 :=
  let a := addr.toUTF8.toList
  mac (if sid then l.secret1 else l.secret0) (le64 ts.toNat ++ le64 a.length ++ a)

/-- `utcp_listener_update_secret` -/
def LState.updateSecret {T} (tm : TimeOps T) (e : Env) (rng : Rng) (l : LState T) (special : Option (List UInt8)) : LState T × Rng :=
  let l := { l with lastSecretUpdate := tm.now e.elapsedUs }
  let (l, rng) :=
    if l.active == 255 then
      let (rng, s1) := rng.bytes 64
      ({ l with secret1 := s1, active := 0 }, rng)
    else ({ l with active := if l.active == 0 then 1 else 0 }, rng)
  let (rng, s) := match special with
    | some s => (rng, s)
    | none => let (rng, s) := rng.bytes 64; (rng, s)
  (if l.active == 0 then { l with secret0 := s } else { l with secret1 := s }, rng)

def Listener.updateSecret {T} (tm : TimeOps T) (e : Env) (rng : Rng) (l : Listener T) (special : Option (List UInt8)) : Listener T × Rng :=
  let (st, rng) := l.st.updateSecret tm e rng special
  ({ l with st := st }, rng)

/-- `utcp_listener_create` + `utcp_listener_init` -/
def Listener.create {T} (tm : TimeOps T) (e : Env) (rng : Rng) : Listener T × Rng :=
  let l : Listener T := { st := { lastSecretUpdate := tm.now e.elapsedUs } }
  let l := l.emit (.alloc .lsn)
  l.updateSecret tm e rng none

/-- `bValidCookieLifetime`: not from the future, and younger than `MAX_COOKIE_LIFETIME` -/
def LState.validLife {T} (tm : TimeOps T) (e : Env) (hs : HsData) : Bool :=
  tm.ge0 (tm.sub (tm.now e.elapsedUs) (tm.ofBits hs.ts)) && tm.gt0 (tm.lifeLeft (tm.sub (tm.now e.elapsedUs) (tm.ofBits hs.ts)))

/-- `bValidSecretIdTimestamp`: issued under the active secret after the last rotation, or under the other one before it -/
def LState.validSecret {T} (tm : TimeOps T) (l : LState T) (hs : HsData) : Bool :=
  if (if hs.secretId then 1 else 0) == l.active then tm.ge0 (tm.sub (tm.ofBits hs.ts) l.lastSecretUpdate)
  else tm.le0 (tm.sub (tm.ofBits hs.ts) l.lastSecretUpdate)

/-- the regenerated cookie equals the presented one -/
def LState.cookieOk {T} (mac : Mac) (l : LState T) (addr : String) (hs : HsData) : Bool :=
  l.cookie mac addr hs.secretId hs.ts == hs.cookie

/-- the cookie check of `IncomingConnectionless` for a non-initial handshake packet: `0` (challenge passed),
`-6` (lifetime / secret-id-vs-rotation-time test failed) or `-7` (cookie does not match) -/
def LState.decision {T} (tm : TimeOps T) (mac : Mac) (e : Env) (l : LState T) (addr : String) (hs : HsData) : Int :=
  if !(LState.validLife tm e hs && l.validSecret tm hs) then -6
  else if !l.cookieOk mac addr hs then -7 else 0

/-- exact time algebra (integer microseconds): the instance the C07 theorems are proved for.  The wire
pattern of a timestamp is its value; `utcp_gettime` is the µs clock plus one second. -/
def intOps : TimeOps Int where
  now := fun us => us + 1000000
  ofBits := fun b => (b.toNat : Int)
  toBits := fun t => UInt64.ofNat t.toNat
  sub := fun a b => a - b
  lifeLeft := fun x => Gen.MAX_COOKIE_LIFETIME_S * 1000000 - x
  ge0 := fun x => decide (x ≥ 0)
  gt0 := fun x => decide (x > 0)
  le0 := fun x => decide (x ≤ 0)
  lt0 := fun x => decide (x < 0)
  isZero := fun x => x == 0

/-- what a successful challenge response hands to the application (`utcp_listener_accept` consumes it) -/
structure Accepted where
  addr : String
  restarted : Bool
  cookie : List UInt8
  serverSeq : Int
  clientSeq : Int
  deriving DecidableEq, Repr

/-- the listener's reaction to one datagram -/
structure Reaction (T : Type) where
  st : LState T                 -- the persistent state afterwards
  rng : Rng
  code : Int                    -- return value of `utcp_listener_incoming`
  acc : Option Accepted         -- the acceptance reported through `on_accept`, if any
  evs : List Event              -- events, newest first

/-- `IncomingConnectionless` for a handshake packet that parsed, followed by the accept logic of
`process_connectionless_packet` -/
def LState.onHandshake {T} (tm : TimeOps T) (mac : Mac) (e : Env) (rng : Rng) (l : LState T) (addr : String) (client : Nat) (hs : HsData) : Reaction T :=
  if hs.ptype == ptInitial && tm.isZero (tm.ofBits hs.ts) then
    -- `SendConnectChallenge`
    let now := tm.now e.elapsedUs
    let sid := l.active != 0
    let ck := l.cookie mac addr sid (tm.toBits now)
    let body := hsPacket e hs.curVer (e.travel % 4) client false ptChallenge hs.sentCount hs.netVer sid (tm.toBits now) ck []
    let r := capHandshake e rng hs.curVer body
    -- an empty address string "passes" `HasPassedChallenge` vacuously (the property excludes it)
    if addr.isEmpty then
      { st := l, rng := r.1, code := 0, evs := [.accept false "-", .out (bitsBytes r.2)],
        acc := some { addr := addr, restarted := false, cookie := List.replicate 20 0, serverSeq := 0, clientSeq := 0 } }
    else { st := l, rng := r.1, code := 0, acc := none, evs := [.out (bitsBytes r.2)] }
  else if l.decision tm mac e addr hs != 0 then { st := l, rng := rng, code := l.decision tm mac e addr hs, acc := none, evs := [] }
  else
    let auth := if hs.restart then hs.origCookie else hs.cookie
    let body := hsPacket e hs.curVer (e.travel % 4) client false ptAck hs.sentCount hs.netVer true 0xBFF0000000000000 auth []
    let r := capHandshake e rng hs.curVer body
    { st := { l with addrScratch := (addr.toUTF8.toList).drop 1 }, rng := r.1, code := 0,
      evs := [.accept hs.restart (if addr.isEmpty then "-" else addr), .out (bitsBytes r.2)],
      acc := some { addr := addr, restarted := hs.restart, cookie := auth,
                    serverSeq := if hs.restart then 0 else seqFromCookie hs.cookie 0,
                    clientSeq := if hs.restart then 0 else seqFromCookie hs.cookie 1 } }

/-- `utcp_listener_incoming` as a function of the persistent state -/
def LState.react {T} (tm : TimeOps T) (mac : Mac) (e : Env) (rng : Rng) (l : LState T) (addr : String) (bytes : List UInt8) : Reaction T :=
  match readInit bytes with
  | none => { st := l, rng := rng, code := -1, acc := none, evs := [] }
  | some bits =>
    match readOutgoingHeader e bits with
    | .fail _ => { st := l, rng := rng, code := -2, acc := none, evs := [] }
    | .ok (_, client, isHs) rest =>
      if !isHs then
        -- `SendRestartHandshakeRequest(fd, EHandshakeVersion_Original, 0, 0, 0)`
        let r := capHandshake e rng 0 (hsOutgoingHeader e 0 0 0 true ++ [true])
        { st := l, rng := r.1, code := -3, acc := none, evs := [.out (bitsBytes r.2)] }
      else
      match parseHandshake rest with
      | none => { st := l, rng := rng, code := -4, acc := none, evs := [] }
      | some hs => l.onHandshake tm mac e rng addr client hs

/-- `utcp_listener_incoming`: new listener (state + log), rng, return code, and the acceptance (if any). -/
def Listener.incoming {T} (tm : TimeOps T) (mac : Mac) (e : Env) (rng : Rng) (l : Listener T) (addr : String) (bytes : List UInt8) :
    Listener T × Rng × Int × Option Accepted :=
  let r := l.st.react tm mac e rng addr bytes
  ({ st := r.st, log := r.evs ++ l.log }, r.rng, r.code, r.acc)

/-- `utcp_listener_accept(listener, conn, false)` on a fresh connection (called from inside the callback) -/
def Endpoint.accepted (e : Env) (acc : Accepted) : Endpoint :=
  let c : Conn := {}
  let c := c.emit (.alloc .conn)
  let c := { c with lastRecvMs := e.nowMs, lastSendMs := e.nowMs, cookie := acc.cookie }
  { c := c.seqInit acc.clientSeq acc.serverSeq, chal := none }

end Utcp
