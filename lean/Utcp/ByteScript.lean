import Utcp.ByteBuf
/-!
# The `bbs` unit operation: a script of byte-level bit-buffer calls

`bbs <cap> <tok> …` runs the tokens on one buffer of `cap` bytes: first the writers, then (after `end` = `bitbuf_write_end`,
`bitbuf_read_init` over the exact bytes written) the readers; `cp:<d>:<s>:<n>:<seed>` is a bare `appBitsCpy`
between two arrays of exactly the bytes the two bit ranges occupy.  The compiled C code runs the same script
(`harness/drv.cpp`, exact-size heap arrays under AddressSanitizer); a memory fault in the model prints `memfault`.
-/
namespace Utcp.BB

def pbytes (pseed n : Nat) : Mem :=
  (List.range n).map fun i => ((pseed * 1103515245 + 12345 + i * 2654435761) % 4294967296 / 65536) % 256

def fnv (m : Mem) : String := hex64 (fnv64 (m.map UInt8.ofNat))
def hexMem (m : Mem) : String := hexBytes (m.map UInt8.ofNat)
def b01 (b : Bool) : Nat := if b then 1 else 0

structure SState where
  buf : Buf
  reading : Bool := false
  dead : Bool := false
  out : List String := []

def SState.emit (s : SState) (x : String) : SState := { s with out := x :: s.out }
def SState.fault (s : SState) : SState := { s with dead := true, out := "memfault" :: s.out }

def sWrite (s : SState) (r : Option (Bool × Buf)) : SState :=
  match r with
  | none => s.fault
  | some (ok, b) => { s with buf := b }.emit s!"{b01 ok}:{b.num}"

def sReadV (s : SState) (r : Option (Bool × Nat × Buf)) : SState :=
  match r with
  | none => s.fault
  | some (ok, v, b) => { s with buf := b }.emit s!"{b01 ok}:{if ok then v else 0}:{b.num}"

def sReadM (s : SState) (r : Option (Bool × Mem × Buf)) : SState :=
  match r with
  | none => s.fault
  | some (ok, o, b) => { s with buf := b }.emit s!"{b01 ok}:{fnv o}:{b.num}"

def sStep (s : SState) (tok : String) : SState :=
  if s.dead then s else
  let parts := tok.splitOn ":"
  let k := parts.headD ""
  let n (i : Nat) : Nat := ((parts.drop (i + 1)).headD "0").toNat!
  if k == "cp" then
    let d := n 0; let sb := n 1; let cnt := n 2; let seed := n 3
    let dest := pbytes (seed + 1) ((d + cnt + 7) / 8)
    let src := pbytes seed ((sb + cnt + 7) / 8)
    match appBitsCpy dest d src sb cnt with
    | none => s.fault
    | some m => s.emit s!"cp:{fnv m}"
  else if !s.reading then
    match k with
    | "wb" => sWrite s (writeBit s.buf (n 0))
    | "ws" => sWrite s (writeBits s.buf (pbytes (n 1) ((n 0 + 7) / 8)) (n 0))
    | "wy" => sWrite s (writeBytes s.buf (pbytes (n 1) (n 0)) (n 0))
    | "wi" => sWrite s (writeInt s.buf (n 0) (n 1))
    | "ww" => sWrite s (writeIntWrapped s.buf (n 0) (n 1))
    | "wp" => sWrite s (writeIntPacked s.buf (n 0))
    | "wu" => sWrite s (writeU32 s.buf (n 0))
    | "end" =>
      match writeEnd s.buf with
      | none => s.fault
      | some (false, _) => { s with dead := true }.emit "endfail"
      | some (true, b) =>
        let data := b.mem.take ((b.num + 7) / 8)
        match readInit data with
        | none => s.fault
        | some (ok, rb) => { s with buf := rb, reading := true, dead := !ok }.emit s!"end:{b01 ok}:{rb.size}:{hexMem data}"
    | _ => s.emit "badtok"
  else
    match k with
    | "rb" => sReadV s (readBit s.buf)
    | "rs" => sReadM s (readBits s.buf (List.replicate ((n 0 + 7) / 8) 170) (n 0))
    | "ry" => sReadM s (readBytes s.buf (List.replicate (n 0) 170) (n 0))
    | "ri" => sReadV s (readInt s.buf (n 0))
    | "rp" => sReadV s (readIntPacked s.buf)
    | "ru" => sReadV s (readU32 s.buf)
    | _ => s.emit "badtok"

/-- `bbs <cap> <tok> …` -/
def bbScript (args : List String) : String :=
  let cap := (args.headD "0").toNat! % 4096
  let s0 : SState := { buf := ⟨List.replicate cap 0, cap * 8, 0⟩ }
  let s := (args.drop 1).foldl sStep s0
  "bbs " ++ String.intercalate " " s.out.reverse

end Utcp.BB
