import Utcp.Gen.PureFns
import Utcp.Gen.Consts
/-!
# C13 — wrap-around sequence arithmetic is a consistent circular order

All statements are about the definitions that `tools/ctrans.py` regenerates from
`utcp_sequence_number.h` / `utcp_packet.c` on every run (`Utcp.Gen.*`), for *all* integers in the stated
ranges: no enumeration, no bound on the channel reference.
-/
namespace Utcp.Props.C13
open Utcp.Gen

/-- a 14-bit sequence number, as every caller passes it (see `masked_*` below) -/
def Seq14 (a : Int) : Prop := 0 ≤ a ∧ a < 16384
/-- an arbitrary `uint16_t` operand -/
def U16 (a : Int) : Prop := 0 ≤ a ∧ a < 65536

/-- the constants the generated code was specialised with are the ones extracted from the headers -/
theorem consts_ok : SeqNumberCount = 16384 ∧ SeqNumberHalf = 8192 ∧ SeqNumberMask = 16383 ∧ UTCP_MAX_CHSEQUENCE = 1024 := by decide

theorem gt_irrefl (a : Int) : seq_num_greater_than a a = false := by
  simp [seq_num_greater_than]

theorem gt_antisymm (a b : Int) (ha : Seq14 a) (hb : Seq14 b) :
    seq_num_greater_than a b = true → seq_num_greater_than b a = false := by
  unfold Seq14 at *; simp only [seq_num_greater_than, Bool.and_eq_true, bne_iff_ne, decide_eq_true_eq, Bool.and_eq_false_iff,
    bne_eq_false_iff_eq, decide_eq_false_iff_not]
  omega

theorem gt_iff_diff_pos (a b : Int) (ha : Seq14 a) (hb : Seq14 b) :
    seq_num_greater_than a b = true ↔ seq_num_diff a b > 0 := by
  unfold Seq14 at *; simp only [seq_num_greater_than, seq_num_diff, Bool.and_eq_true, bne_iff_ne, decide_eq_true_eq]
  omega

theorem ge_iff_diff_nonneg (a b : Int) (ha : Seq14 a) (hb : Seq14 b) :
    seq_num_greater_equal a b = true ↔ seq_num_diff a b ≥ 0 := by
  unfold Seq14 at *; simp only [seq_num_greater_equal, seq_num_diff, decide_eq_true_eq]
  omega

/-- the signed difference is the representative of `a - b` in `[-8192, 8191]` -/
theorem diff_spec (a b : Int) (ha : U16 a) (hb : U16 b) :
    -8192 ≤ seq_num_diff a b ∧ seq_num_diff a b < 8192 ∧ (seq_num_diff a b - (a - b)) % 16384 = 0 := by
  unfold U16 at *; simp only [seq_num_diff]
  omega

theorem diff_antisymm (a b : Int) (ha : U16 a) (hb : U16 b) (h : seq_num_diff a b ≠ -8192) :
    seq_num_diff a b = - seq_num_diff b a := by
  unfold U16 at *; simp only [seq_num_diff] at *
  omega

/-- at the half-way point both differences are `-8192` -/
theorem diff_half (a b : Int) (ha : U16 a) (hb : U16 b) (h : seq_num_diff a b = -8192) : seq_num_diff b a = -8192 := by
  unfold U16 at *; simp only [seq_num_diff] at *
  omega

theorem inc_masked (a k : Int) (ha : U16 a) (hk : U16 k) : Seq14 (seq_num_inc a k) := by
  unfold U16 Seq14 at *; simp only [seq_num_inc, seq_num_init]
  omega

/-- adding `k` then differencing returns `k`, for every `|k|` below half the space (negative `k` is passed
as the 16-bit two's complement value, as C does) -/
theorem diff_inc (a k : Int) (ha : Seq14 a) (hk : -8192 ≤ k ∧ k < 8192) :
    seq_num_diff (seq_num_inc a (k % 65536)) a = k := by
  unfold Seq14 at *; simp only [seq_num_inc, seq_num_init, seq_num_diff]
  omega

/-- `diff`, `≥` and `>`-via-diff only depend on the operands modulo 2^14 -/
theorem diff_congr (a b : Int) (ha : U16 a) (hb : U16 b) :
    seq_num_diff a b = seq_num_diff (a % 16384) (b % 16384) := by
  unfold U16 at *; simp only [seq_num_diff]
  omega

theorem ge_congr (a b : Int) (ha : U16 a) (hb : U16 b) :
    seq_num_greater_equal a b = seq_num_greater_equal (a % 16384) (b % 16384) := by
  unfold U16 at *; simp only [seq_num_greater_equal]
  congr 1
  apply propext; constructor <;> intro h <;> omega

/-- exact behaviour of `>` on unmasked operands: it differs from the masked comparison precisely when
the operands are unequal but congruent modulo 2^14 -/
theorem gt_unmasked (a b : Int) (ha : U16 a) (hb : U16 b) :
    seq_num_greater_than a b = (seq_num_greater_than (a % 16384) (b % 16384) || (a != b && a % 16384 == b % 16384)) := by
  unfold U16 at *
  simp only [seq_num_greater_than]
  rw [Bool.eq_iff_iff]
  simp only [Bool.and_eq_true, Bool.or_eq_true, bne_iff_ne, beq_iff_eq, decide_eq_true_eq, ne_eq]
  omega

/-- total order on any window narrower than half the space: exactly one of `a > b`, `b > a`, `a = b` -/
theorem gt_total (a b : Int) (ha : Seq14 a) (hb : Seq14 b) (hne : a ≠ b) (hhalf : (a - b) % 16384 ≠ 8192) :
    seq_num_greater_than a b = true ∨ seq_num_greater_than b a = true := by
  unfold Seq14 at *; simp only [seq_num_greater_than, Bool.and_eq_true, bne_iff_ne, decide_eq_true_eq]
  omega

/-- agreement with unbounded ids: if two absolute packet ids are less than half the space apart, the
circular comparison of their 14-bit residues is the comparison of the ids -/
theorem gt_abs (x y : Int) (h : -8192 < x - y ∧ x - y < 8192) :
    seq_num_greater_than (x % 16384) (y % 16384) = decide (x > y) := by
  simp only [seq_num_greater_than]
  rw [Bool.eq_iff_iff]
  simp only [Bool.and_eq_true, bne_iff_ne, decide_eq_true_eq, ne_eq]
  omega

theorem diff_abs (x y : Int) (h : -8192 ≤ x - y ∧ x - y < 8192) :
    seq_num_diff (x % 16384) (y % 16384) = x - y := by
  simp only [seq_num_diff]
  omega

/-! ## 10-bit channel sequences -/

/-- `MakeRelative(v, r, 1024)` is congruent to the wire value and lies in `[r-512, r+511]` … -/
theorem makeRelative_spec (v r : Int) :
    (MakeRelative_chseq v r - v) % 1024 = 0 ∧ r - 512 ≤ MakeRelative_chseq v r ∧ MakeRelative_chseq v r ≤ r + 511 := by
  simp only [MakeRelative_chseq, BestSignedDifference_chseq]
  omega

/-- … and it is the *only* such value (for every reference, without any bound) -/
theorem makeRelative_unique (v r x : Int) (hc : (x - v) % 1024 = 0) (hlo : r - 512 ≤ x) (hhi : x ≤ r + 511) :
    MakeRelative_chseq v r = x := by
  simp only [MakeRelative_chseq, BestSignedDifference_chseq]
  omega

/-- recovering an absolute channel sequence from its wire residue -/
theorem makeRelative_recovers (abs r : Int) (h : r - 512 ≤ abs ∧ abs ≤ r + 511) :
    MakeRelative_chseq (abs % 1024) r = abs := by
  simp only [MakeRelative_chseq, BestSignedDifference_chseq]
  omega

/-! ## non-vacuity: concrete instances next to and across the wraps -/
example : seq_num_greater_than 3 16380 = true ∧ seq_num_diff 3 16380 = 7 ∧ seq_num_diff 16380 3 = -7 := by decide
example : seq_num_greater_than 65535 32767 = true ∧ seq_num_greater_than 32767 65535 = true := by decide  -- the unmasked oddity
example : seq_num_diff 8192 0 = -8192 ∧ seq_num_diff 0 8192 = -8192 := by decide
example : MakeRelative_chseq 2 1022 = 1026 ∧ MakeRelative_chseq 1020 2050 = 2044 ∧ MakeRelative_chseq 0 (2^30) = 2^30 := by decide
example : Seq14 16383 ∧ U16 65535 := by unfold Seq14 U16; omega

end Utcp.Props.C13
