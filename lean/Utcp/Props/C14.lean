import Utcp.Lemmas.Conn
import Utcp.Lemmas.Bunch
/-!
# C14 — a rejected send has no effect on the connection

`Conn.sendBunch` is the model of `utcp_send_bunch` → `SendRawBunch` (after the repair of defect D9: every
check precedes every effect).  The theorems hold for *every* request: any channel index, any payload
length, unknown channels, reliable or not.
-/
namespace Utcp.Props.C14
open Utcp Utcp.Gen

theorem limits : maxChannels = 32767 ∧ maxSingleBunchBits = 7844 ∧ closeReasonMax = 15 ∧
    Gen.PKT_MAX_SINGLE_BUNCH_SIZE_BITS = Gen.UTCP_MAX_PACKET * 8 - Gen.MAX_PACKET_TRAILER_BITS - Gen.MAX_PACKET_HEADER_BITS - Gen.MAX_PACKET_HANDLER_BITS := by decide

/-- an accepted request is committed under a packet id that is not negative -/
theorem commit_ret_nonneg (e : Env) (c : Conn) (b : Bunch) (h0 : Bits) (hid : 0 ≤ c.outPacketId)
    (hch : (c.getChan b.chIndex).isSome ∨ b.bOpen = true) : 0 ≤ (c.sendCommit e b h0).2 := by
  unfold Conn.sendCommit
  have hsome : (c.getChan b.chIndex).isSome ∨ b.bOpen = true ∨ (false = true ∧ b.bReliable = true) := by
    rcases hch with h | h
    · exact Or.inl h
    · exact Or.inr (Or.inl h)
  obtain ⟨x, _, hx1⟩ := getOrCreateChan_some c b false hsome
  have hx3 := noteClose_getChan_isSome (c.getOrCreateChan b false).1 b b.chIndex (by rw [hx1]; rfl)
  obtain ⟨y, hy⟩ := Option.isSome_iff_exists.mp hx3
  have hp0 : 0 ≤ ((c.getOrCreateChan b false).1.noteClose b).outPacketId := by
    rw [noteClose_outPacketId, getOrCreateChan_outPacketId]; exact hid
  simp only [hy]
  by_cases hrel : b.bReliable = true
  · simp only [hrel, if_true]
    refine Int.le_trans ?_ (prepareWrite_outPacketId_ge _ _ _)
    simpa using hp0
  · simp only [hrel, if_false]
    exact Int.le_trans hp0 (prepareWrite_outPacketId_ge _ _ _)

theorem check_inr_channel (c : Conn) (b : Bunch) (h0 : Bits) (h : c.sendCheck b = .inr h0) :
    (c.getChan b.chIndex).isSome ∨ b.bOpen = true := by
  unfold Conn.sendCheck at h
  split at h
  · simp at h
  · split at h
    · simp at h
    · rename_i h2
      cases hg : c.getChan b.chIndex
      · right; simp [hg] at h2; exact h2
      · left; rfl

/-- **frame**: a send that reports failure returns the connection it was given — no state change, no event
(so no datagram, no allocation, no sequence number consumed, no channel created or marked closed).
`0 ≤ outPacketId` is an invariant of every connection (ids start at a 14-bit value and only grow). -/
theorem reject_frame (e : Env) (c : Conn) (b : Bunch) (hid : 0 ≤ c.outPacketId) (h : (c.sendBunch e b).2 < 0) :
    (c.sendBunch e b).1 = c := by
  unfold Conn.sendBunch at *
  unfold Conn.sendRaw at *
  cases hc : c.sendCheck b with
  | inl err => simp only [hc] at h ⊢; split <;> rfl
  | inr h0 =>
    simp only [hc] at h ⊢
    have := commit_ret_nonneg e c b h0 hid (check_inr_channel c b h0 hc)
    simp [this] at h
    omega

/-- the public return value is the packet id or exactly `-1` (`PACKET_ID_INDEX_NONE`) -/
theorem ret_range (e : Env) (c : Conn) (b : Bunch) : 0 ≤ (c.sendBunch e b).2 ∨ (c.sendBunch e b).2 = -1 := by
  unfold Conn.sendBunch
  by_cases h : (c.sendRaw e b).2 ≥ 0
  · left; simp [h]
  · right; simp [h]

/-- **when** a send is refused: channel index outside the table, a non-opening bunch for a channel that does not
exist, a close reason the header cannot carry, or header + payload beyond what an empty packet can hold -/
theorem reject_iff (e : Env) (c : Conn) (b : Bunch) (hid : 0 ≤ c.outPacketId) :
    (c.sendBunch e b).2 < 0 ↔
      (b.chIndex ≥ 32767 ∨ ((c.getChan b.chIndex).isNone ∧ b.bOpen = false) ∨ encodeBunchHeader { b with chSeq := 0 } = none
        ∨ ∃ h0, encodeBunchHeader { b with chSeq := 0 } = some h0 ∧ h0.length + b.data.length > 7844) := by
  have hlim := limits
  unfold Conn.sendBunch Conn.sendRaw
  cases hc : c.sendCheck b with
  | inl err =>
    have herr : err < 0 := by
      unfold Conn.sendCheck at hc
      split at hc
      · simp at hc; omega
      · split at hc
        · simp at hc; omega
        · split at hc
          · simp at hc; omega
          · split at hc <;> simp at hc; omega
    have : ¬ (err ≥ 0) := by omega
    simp only [this, if_false]
    constructor
    · intro _
      unfold Conn.sendCheck at hc
      rw [hlim.1, hlim.2.1] at hc
      split at hc
      · left; assumption
      · split at hc
        · rename_i h2; right; left; simpa using h2
        · split at hc
          · rename_i h3; right; right; left; exact h3
          · rename_i h0 h3
            split at hc
            · rename_i h4; right; right; right; exact ⟨h0, h3, h4⟩
            · simp at hc
    · intro _; omega
  | inr h0 =>
    have hnn := commit_ret_nonneg e c b h0 hid (check_inr_channel c b h0 hc)
    simp only [hnn, ge_iff_le, if_true]
    constructor
    · intro h; omega
    · intro h
      exfalso
      unfold Conn.sendCheck at hc
      rw [hlim.1, hlim.2.1] at hc
      rcases h with h | h | h | ⟨h1, h2, h3⟩
      · simp [h] at hc
      · split at hc
        · simp at hc
        · simp [h.1, h.2] at hc
      · split at hc
        · simp at hc
        · split at hc
          · simp at hc
          · simp [h] at hc
      · split at hc
        · simp at hc
        · split at hc
          · simp at hc
          · rw [h2] at hc; simp [h3] at hc

/-- an accepted bunch (header + payload) fits into an empty packet whatever the ack-history length is -/
theorem accepted_fits (c : Conn) (b : Bunch) (h0 : Bits) (h : c.sendCheck b = .inr h0) :
    h0.length + b.data.length ≤ 7844 ∧ b.chIndex < 32767 ∧ encodeBunchHeader { b with chSeq := 0 } = some h0 := by
  have hlim := limits
  unfold Conn.sendCheck at h
  rw [hlim.1, hlim.2.1] at h
  split at h
  · simp at h
  · split at h
    · simp at h
    · split at h
      · simp at h
      · rename_i hx _ hh0 hhdr
        split at h
        · simp at h
        · simp at h; subst h; exact ⟨by omega, by omega, hhdr⟩

/-- every payload within the documented single-bunch limit (7265 bits) is accepted on an open channel:
the header never needs more than 118 bits, and 7265 + 118 ≤ 7844 -/
theorem header_bound (b : Bunch) (h : Bits) (hh : encodeBunchHeader b = some h) : h.length ≤ 118 := by
  unfold encodeBunchHeader at hh
  split at hh
  · simp at hh
  · simp at hh; subst hh
    have hp1 := (wPacked_length 5 (b.chIndex % 2 ^ 32)).1
    have hp2 := (wPacked_length 5 (b.nameIndex % 2 ^ 32)).1
    have hr : (writeInt b.closeReason closeReasonMax).length ≤ 4 := writeInt_length_le _ _ 4 (by decide)
    have hs : (writeIntWrapped (b.chSeq % 4294967296).toNat maxChSequence).length ≤ 10 := by
      unfold writeIntWrapped; exact wInt_length_le 33 _ _ 1 0 10 (by decide) (by decide)
    have hl : (writeIntWrapped b.data.length maxPacketBits).length ≤ 13 := by
      unfold writeIntWrapped; exact wInt_length_le 33 _ _ 1 0 13 (by decide) (by decide)
    simp only [List.length_append, writeCtl, writeSeq, writePartialFlags, writeName, writeIntPacked, List.length_cons, List.length_nil]
    split <;> split <;> split <;> split <;> (try split) <;> simp only [List.length_append, List.length_cons, List.length_nil] <;> omega

/-! non-vacuity: a fresh connection refuses an unknown channel and an over-size payload, accepts an opening bunch -/
example : (({} : Conn).sendBunch {} { chIndex := 3, bReliable := true }).2 = -1 := by decide
example : (({} : Conn).sendBunch {} { chIndex := 40000, bOpen := true }).2 = -1 := by decide

end Utcp.Props.C14
