import Utcp.Props.C11_Bytes
/-!
# C11 at the level of the byte array: a whole bunch, written and read back

`SendRawBunch` serialises a bunch as `utcp_bunch_write_header` followed by one `bitbuf_write_bits(Data, DataBitsLen)`.  On the byte array that is the header's
call list followed by one run; it appends exactly the bits of the bit-level `encodeBunch` — for which `Props/C11.lean` proves that `decodeBunch` (which
`Props/C09_Bytes.lean` shows the byte-level parser to compute) recovers the bunch and stops exactly behind it.
-/
namespace Utcp.BB
open Utcp

/-- header, then the payload as one run of `data.length` bits taken from the array `src` (the bunch's `Data` field) -/
def bunchOps (b : Bunch) (src : Mem) : List LOp := headerOps b ++ [LOp.run src b.data.length]

/-- **a whole bunch on the byte array**: into a zeroed buffer with room, header and payload are written without touching a byte outside the buffer, and the
buffer then holds, behind what it held, exactly `encodeBunch`'s bits; `src` is any array whose first `data.length` bits are the payload -/
theorem write_bunch_bytes (bunch : Bunch) (bits : Bits) (henc : encodeBunch bunch = some bits) (hch : bunch.chIndex < 2 ^ 32) (hname : bunch.nameIndex < 2 ^ 32)
    (src : Mem) (hsrc : BytesOK src) (hfit : bunch.data.length ≤ 8 * src.length) (hdata : bitsFrom src 0 bunch.data.length = bunch.data)
    (b : Buf) (hb : WB b) (hroom : b.num + needAll (bunchOps bunch src) ≤ b.size) :
    ∃ b', writeAll (bunchOps bunch src) b = some (true, b') ∧ WB b' ∧ b'.size = b.size ∧ content b' = content b ++ bits := by
  unfold encodeBunch at henc
  cases hh : encodeBunchHeader bunch with
  | none => simp [hh] at henc
  | some hdr =>
    simp only [hh, Option.some.injEq] at henc
    have hr : bunch.bClose = true → bunch.closeReason < closeReasonMax := by
      intro hc
      unfold encodeBunchHeader at hh
      split at hh
      · simp at hh
      · rename_i hn
        simp [hc] at hn; exact hn
    have hok : ∀ o ∈ bunchOps bunch src, o.ok := by
      intro o ho
      unfold bunchOps at ho
      rcases List.mem_append.mp ho with ho | ho
      · exact headerOps_ok bunch hr hch hname o ho
      · simp only [List.mem_singleton] at ho
        subst ho
        exact ⟨hsrc, hfit⟩
    obtain ⟨b', h1, h2, h3, h4, _⟩ := writeAll_spec (bunchOps bunch src) b hok hb hroom
    refine ⟨b', h1, h2, h3, ?_⟩
    rw [h4, ← henc]
    unfold bunchOps
    rw [List.flatMap_append, headerOps_bits bunch hdr hh]
    simp [LOp.bits, hdata]

/-! non-vacuity: a reliable bunch with a 3-bit payload taken from the array `[5]` -/
example : bitsFrom [5] 0 3 = [true, false, true] := by decide

end Utcp.BB
