import Utcp.Props.C11_Bytes
import Utcp.Props.C11
/-!
# C11 at the level of the byte array: a whole bunch, written and read back

`SendRawBunch` serialises a bunch as `utcp_bunch_write_header` followed by one `bitbuf_write_bits(Data, DataBitsLen)`.  On the byte array that is the header's
call list followed by one run; it appends exactly the bits of the bit-level `encodeBunch` — for which `Props/C11.lean` proves that `decodeBunch` (which
`Props/C09_Bytes.lean` shows the byte-level parser to compute) recovers the bunch and stops exactly behind it.
-/
namespace Utcp.BB
open Utcp

/-- header, then the payload as one run of `data.length` bits taken from the array `src` (the bunch's `Data` field) -/
def bunchOps (b : Bunch) (src : Mem) : List LOp := headerOps b ++ [LOp.run src b.data.length]

/-- **a whole bunch on the byte array**: into a zeroed buffer with room, header and payload are written without touching a byte outside the buffer, and the
buffer then holds, behind what it held, exactly `encodeBunch`'s bits; `src` is any array whose first `data.length` bits are the payload -/
theorem write_bunch_bytes (bunch : Bunch) (bits : Bits) (henc : encodeBunch bunch = some bits) (hch : bunch.chIndex < 2 ^ 32) (hname : bunch.nameIndex < 2 ^ 32)
    (src : Mem) (hsrc : BytesOK src) (hfit : bunch.data.length ≤ 8 * src.length) (hdata : bitsFrom src 0 bunch.data.length = bunch.data)
    (b : Buf) (hb : WB b) (hroom : b.num + needAll (bunchOps bunch src) ≤ b.size) :
    ∃ b', writeAll (bunchOps bunch src) b = some (true, b') ∧ WB b' ∧ b'.size = b.size ∧ content b' = content b ++ bits := by
  unfold encodeBunch at henc
  cases hh : encodeBunchHeader bunch with
  | none => simp [hh] at henc
  | some hdr =>
    simp only [hh, Option.some.injEq] at henc
    have hr : bunch.bClose = true → bunch.closeReason < closeReasonMax := by
      intro hc
      unfold encodeBunchHeader at hh
      split at hh
      · simp at hh
      · rename_i hn
        simp [hc] at hn; exact hn
    have hok : ∀ o ∈ bunchOps bunch src, o.ok := by
      intro o ho
      unfold bunchOps at ho
      rcases List.mem_append.mp ho with ho | ho
      · exact headerOps_ok bunch hr hch hname o ho
      · simp only [List.mem_singleton] at ho
        subst ho
        exact ⟨hsrc, hfit⟩
    obtain ⟨b', h1, h2, h3, h4, _⟩ := writeAll_spec (bunchOps bunch src) b hok hb hroom
    refine ⟨b', h1, h2, h3, ?_⟩
    rw [h4, ← henc]
    unfold bunchOps
    rw [List.flatMap_append, headerOps_bits bunch hdr hh]
    simp [LOp.bits, hdata]

/-! non-vacuity: a reliable bunch with a 3-bit payload taken from the array `[5]` -/
example : bitsFrom [5] 0 3 = [true, false, true] := by decide

end Utcp.BB

namespace Utcp.BB
open Utcp

theorem readInit_num (d : Mem) (ok : Bool) (rb : Buf) (h : readInit d = some (ok, rb)) : rb.num = 0 := by
  unfold readInit at h
  split at h
  · simp at h; rw [← h.2]
  · cases hr : rd d (d.length - 1) with
    | none => simp [hr] at h
    | some last =>
      simp only [hr, Option.bind_some] at h
      split at h <;> (simp at h; rw [← h.2])

/-- moving the read cursor forward by `k` bits drops `k` of the remaining bits -/
theorem rest_skip (b : Buf) (hb : RB b) (h0 : b.num = 0) (k : Nat) (hk : k ≤ b.size) :
    RB { b with num := k } ∧ rest { b with num := k } = (rest b).drop k := by
  refine ⟨⟨hb.bytes, hb.size, hk⟩, ?_⟩
  unfold rest
  show bitsFrom b.mem k (b.size - k) = (bitsFrom b.mem b.num (b.size - b.num)).drop k
  rw [h0, Nat.sub_zero]
  have : b.size = k + (b.size - k) := by omega
  conv => rhs; rw [this, bitsFrom_append]
  rw [List.drop_left' (by simp), Nat.zero_add]

/-- **a bunch written on the byte array and read back from the datagram, at any bit offset**: a well-formed bunch is written (header calls, payload run) into a
zeroed buffer behind `pre.length` bits already there; the buffer is closed (`bitbuf_write_end`) and the datagram — exactly the bytes holding valid bits — is
opened with `bitbuf_read_init`; the parser, started at bit `pre.length`, touches nothing outside the datagram and its node, returns the bunch as the wire
carries it (sequence modulo 1024) and stops exactly at the end -/
theorem bunch_bytes_round_trip (bunch : Bunch) (hwf : WFBunch bunch) (hch : bunch.chIndex < 2 ^ 32) (hname : bunch.nameIndex < 2 ^ 32)
    (src : Mem) (hsrc : BytesOK src) (hfit : bunch.data.length ≤ 8 * src.length) (hdata : bitsFrom src 0 bunch.data.length = bunch.data)
    (b : Buf) (hb : WB b) (hroom : b.num + needAll (bunchOps bunch src) + 1 ≤ b.size)
    (node : Mem) (hnode : BytesOK node) (hlen : 1024 ≤ node.length) :
    ∃ b1 b2 rb, writeAll (bunchOps bunch src) b = some (true, b1) ∧ writeEnd b1 = some (true, b2) ∧
      readInit (b2.mem.take ((b2.num + 7) / 8)) = some (true, rb) ∧
      ∃ rb', lDecodeBunch node { rb with num := b.num } = some (some (wireView bunch), rb') ∧ rb'.num = rb'.size := by
  obtain ⟨bits, henc, hdec⟩ := Props.C11.decode_encode bunch hwf []
  obtain ⟨b1, h1, hwb1, hs1, hc1⟩ := write_bunch_bytes bunch bits henc hch hname src hsrc hfit hdata b hb (by omega)
  have hn1 : b1.num = b.num + bits.length := by
    have := congrArg List.length hc1
    unfold content at this
    simpa using this
  have hbl : bits.length ≤ needAll (bunchOps bunch src) := by
    obtain ⟨b1', h1', _, _, _, hle⟩ := writeAll_spec (bunchOps bunch src) b (by
      intro o ho
      have hr : bunch.bClose = true → bunch.closeReason < closeReasonMax := fun hc => by
        have h15 : closeReasonMax = 15 := by decide
        have := hwf.1
        rw [hc, if_pos rfl] at this
        rw [h15]; exact this
      unfold bunchOps at ho
      rcases List.mem_append.mp ho with ho | ho
      · exact headerOps_ok bunch hr hch hname o ho
      · simp only [List.mem_singleton] at ho; subst ho; exact ⟨hsrc, hfit⟩) hb (by omega)
    rw [h1] at h1'
    simp only [Option.some.injEq, Prod.mk.injEq, true_and] at h1'
    subst h1'
    omega
  obtain ⟨b2, h2, hn2, rb, h3, hrb, _, hrest⟩ := finish_then_init b1 hwb1 (by rw [hs1, hn1]; omega)
  have hnum0 := readInit_num _ _ _ h3
  have hsize : rb.size = b1.num := by
    have := congrArg List.length hrest
    unfold rest content at this
    simp only [bitsFrom_length] at this
    omega
  obtain ⟨hrbk, hrestk⟩ := rest_skip rb hrb hnum0 b.num (by rw [hsize, hn1]; omega)
  obtain ⟨r, rb', h4, hrb', _, hs', hS⟩ := lDecodeBunch_refines node hnode hlen { rb with num := b.num } hrbk
  have hbits : rest { rb with num := b.num } = bits ++ [] := by
    rw [hrestk, hrest, hc1, List.append_nil]
    have : (content b).length = b.num := by unfold content; simp
    rw [List.drop_left' this]
  rw [hbits, hdec] at hS
  cases r with
  | none => simp at hS
  | some v =>
    simp only [RR.ok.injEq] at hS
    obtain ⟨hv, hr⟩ := hS
    refine ⟨b1, b2, rb, h1, h2, h3, rb', by rw [h4, hv], ?_⟩
    have := congrArg List.length hr
    unfold rest at this
    simp only [bitsFrom_length, List.length_nil] at this
    have := hrb'.num
    omega

end Utcp.BB
