import Utcp.Lemmas.SendInv
/-!
# C18 — every emitted datagram is bounded, framed and accepted by a peer in sync

* **one call, any state** (`Lemmas/Size.lean`, restated here): what `utcp_send_flush` and the handshake senders hand to
  the outgoing callback is non-empty, ends in a non-zero byte, and `bitbuf_read_init` recovers exactly the bits written;
* **any history** (`Lemmas/SendInv.lean`): the send-buffer invariant `SInv` — at most 8191 bits buffered, header
  placeholder as large as the history words reserved for it, every retransmission record small enough for an empty
  packet — is established by `utcp_sequence_init` and preserved by *every* operation of the data path of a connected
  endpoint (send of any bunch, valid or not; flush; `ReceivedPacket` on any bit string, with the retransmissions and
  flushes the NAKs in it trigger; update), for every clock schedule; and every datagram emitted along any such history
  has at most `UTCP_MAX_PACKET + 1 = 1025` bytes (`size_invariant`, `no_oversize_datagram`).
Not proved here: that a peer whose sequence state is in sync accepts and fully parses every such datagram (the two ends
are tied by the codec round trips of C11 and by the C18 parse monitor on the real code); sends by an endpoint that is
not connected are outside the invariant (the library has no guard against them, see DESIGN.md §14).
-/
namespace Utcp.Props.C18
open Utcp Utcp.Gen

theorem limits : Gen.UTCP_MAX_PACKET = 1024 ∧ Gen.SIZEOF_SEND_BUFFER = 1024 + 32 + 1 ∧ Gen.UDP_MTU_SIZE = 1452
    ∧ Gen.MAX_PACKET_HEADER_BITS = 308 ∧ Gen.MAX_PACKET_TRAILER_BITS = 1 := Size.limits

/-! ## one call, any state -/

/-- **every datagram a flush emits is framed**: non-empty, ends in a non-zero byte, and the receiver's
`bitbuf_read_init` recovers header ++ body ++ connection-level terminator -/
theorem flush_framed (e : Env) (c : Conn) (h : c.flushDue e = true) :
    ∃ bytes payload, (c.flush e).log = .out bytes :: c.log ∧ Size.Framed bytes payload ∧ payload.getLast? = some true :=
  Size.flush_framed e c h

/-- a refreshed header occupies exactly the space of the placeholder written when the packet was started -/
theorem finalHeader_same_length (c : Conn) (hh : c.notify.hist.length = 256) (hw : c.notify.writtenWords ≤ 8)
    (hn : c.sendNotif.length = 33 + 32 * c.notify.writtenWords) : c.finalHeader.2.length = c.sendNotif.length :=
  Size.finalHeader_same_length c hh hw hn

/-- **size, one call**: a send buffer of at most 8191 bits goes out as at most 1025 bytes -/
theorem flush_size (e : Env) (c : Conn) (ha : c.sendActive = true) (hh : c.notify.hist.length = 256) (hw : c.notify.writtenWords ≤ 8)
    (hn : c.sendNotif.length = 33 + 32 * c.notify.writtenWords) (hsz : c.sendBitsNum e ≤ 8191) :
    (bitsToBytes (c.packetBits e)).length ≤ 1025 := Size.flush_size e c ha hh hw hn hsz

/-- a keep-alive (empty) packet is at most 42 bytes -/
theorem keepalive_size (e : Env) (c : Conn) (hm : e.magicBits ≤ 32) (hh : c.notify.hist.length = 256) :
    (bitsToBytes (c.startPacket.packetBits e)).length ≤ 42 := Size.keepalive_size e c hm hh

/-- handshake padding: 9 … 16 whole zero bytes and the terminator bit -/
theorem padding_range (e : Env) (rng : Rng) (bits : Bits) :
    ∃ k, 9 ≤ k ∧ k ≤ 16 ∧ (capHandshake e rng 3 bits).2 = bits ++ List.replicate (8 * k) false ++ [true] := Size.padding_range e rng bits

/-- every handshake datagram is framed -/
theorem handshake_framed (e : Env) (rng : Rng) (ver : Nat) (bits : Bits) :
    ∃ payload, Size.Framed (bitsBytes (capHandshake e rng ver bits).2) payload := Size.handshake_framed e rng ver bits

/-! ## any history of the data path -/

/-- what the application and the network can do to a connected endpoint -/
inductive Op where
  /-- `utcp_send_bunch` with any bunch (valid or not) -/
  | send (b : Bunch)
  /-- `utcp_send_flush` -/
  | flush
  /-- the body of any datagram (the bits after the outgoing header) handed to `ReceivedPacket` -/
  | recv (bits : Bits)
  /-- `utcp_update` (timeout test and deferred channel teardown) -/
  | update

def apply (e : Env) (c : Conn) : Op → Conn
  | .send b => (c.sendBunch e b).1
  | .flush => c.flush e
  | .recv bits => (c.receivedPacket e bits).1
  | .update => (c.checkTimeout e).updateTail.1

/-- a history: each step comes with the process-global configuration and clock of that moment -/
def run (c : Conn) : List (Env × Op) → Conn
  | [] => c
  | (e, op) :: rest => run (apply e c op) rest

/-- **one step**: the invariant is kept and every event added to the log is within the size bound -/
theorem step_invariant (e : Env) (c : Conn) (op : Op) (h : SInv e c) : SInv e (apply e c op) ∧ Adds SizeOK c (apply e c op) := by
  cases op with
  | send b => exact sendBunch_sinv e c b h
  | flush => exact flush_sinv e c h
  | recv bits => exact receivedPacket_sinv e c bits h
  | update => exact update_sinv e c h

/-- **every history**: as long as the magic-header width stays what it was (it is process-global configuration), after any
sequence of sends, flushes, incoming datagram bodies and updates, at any clock values, the invariant holds and
everything logged since the start is within the size bound -/
theorem size_invariant (m : Nat) (ops : List (Env × Op)) : ∀ (c : Conn) (e0 : Env), e0.magicBits = m → SInv e0 c → (∀ p ∈ ops, p.1.magicBits = m) →
    (∀ e, e.magicBits = m → SInv e (run c ops)) ∧ Adds SizeOK c (run c ops) := by
  induction ops with
  | nil =>
    intro c e0 h0 h _
    exact ⟨fun e he => h.env (by rw [he, h0]), Adds.refl _ _⟩
  | cons p rest ih =>
    intro c e0 h0 h hall
    obtain ⟨e, op⟩ := p
    have he : e.magicBits = m := hall (e, op) List.mem_cons_self
    obtain ⟨s1, s2⟩ := step_invariant e c op (h.env (by rw [he, h0]))
    obtain ⟨r1, r2⟩ := ih (apply e c op) e he s1 (fun q hq => hall q (List.mem_cons_of_mem _ hq))
    exact ⟨r1, s2.trans r2⟩

/-- **no over-size datagram, ever**: a datagram in the log after the history was either there before, or has at most 1025 bytes -/
theorem no_oversize_datagram (m : Nat) (ops : List (Env × Op)) (c : Conn) (e0 : Env) (h0 : e0.magicBits = m) (h : SInv e0 c)
    (hall : ∀ p ∈ ops, p.1.magicBits = m) (bytes : List UInt8) (hb : Event.out bytes ∈ (run c ops).log) :
    Event.out bytes ∈ c.log ∨ bytes.length ≤ 1025 := by
  obtain ⟨_, new, hlog, hnew⟩ := size_invariant m ops c e0 h0 h hall
  rw [hlog] at hb
  rcases List.mem_append.mp hb with hb | hb
  · right; exact hnew _ hb bytes rfl
  · left; exact hb

/-- the invariant holds right after `utcp_sequence_init` on a fresh connected endpoint (server side: at accept; client side: when the
handshake completes) -/
theorem fresh_invariant (e : Env) (i o : Int) (hm : e.magicBits ≤ 32) : SInv e (({} : Conn).seqInit i o) :=
  seqInit_sinv e {} i o hm rfl (by decide) rfl (by intro p hp; simp at hp)

/-! non-vacuity: an idle connected endpoint past its keep-alive interval satisfies the premises; a concrete history -/
example : ({ connected := true } : Conn).flushDue { elapsedUs := 0 } = true := by decide
example : SInv {} (run (({} : Conn).seqInit 7 16383) [({}, .send { chIndex := 1, bOpen := true, bReliable := true, data := [true, false] }), ({}, .flush), ({}, .update)]) :=
  (size_invariant 0 _ _ {} rfl (fresh_invariant {} 7 16383 (by decide)) (by intro p hp; simp at hp; rcases hp with rfl | rfl | rfl <;> rfl)).1 {} rfl

end Utcp.Props.C18
