import Utcp.Props.C09_Bytes
/-!
# C11 at the level of the byte array: the bunch header writer

`utcp_bunch_write_header` as the sequence of bit-buffer calls it makes, over the byte-array model: it appends exactly the bits of `encodeBunchHeader`.
With `Props/C09_Bytes.lean` (the reader refines `decodeBunch`) and the bit-level round trip of `Props/C11.lean` the codec round trip holds at byte level.
-/
namespace Utcp.BB
open Utcp

def b2n (x : Bool) : Nat := if x then 1 else 0

/-- `utcp_bunch_write_header(bunch, bitbuf)`: the calls of the C function in their order -/
def headerOps (b : Bunch) : List LOp :=
  [LOp.bit (b2n (b.bOpen || b.bClose))] ++
  (if b.bOpen || b.bClose then [LOp.bit (b2n b.bOpen), LOp.bit (b2n b.bClose)] ++ (if b.bClose then [LOp.int b.closeReason closeReasonMax] else []) else []) ++
  [LOp.bit (b2n b.bPaused), LOp.bit (b2n b.bReliable), LOp.packed b.chIndex, LOp.bit (b2n b.bExports), LOp.bit (b2n b.bGuids), LOp.bit (b2n b.bPartial)] ++
  (if b.bReliable then [LOp.wrapped (b.chSeq % 4294967296).toNat 10] else []) ++
  (if b.bPartial then [LOp.bit (b2n b.bPartialInitial), LOp.bit (b2n b.bPartialFinal)] else []) ++
  (if b.bReliable || b.bOpen then [LOp.bit 1, LOp.packed b.nameIndex] else []) ++
  [LOp.wrapped b.data.length 13]

theorem bit_b2n (x : Bool) : (LOp.bit (b2n x)).bits = [x] := by cases x <;> rfl

theorem headerOps_bits (b : Bunch) (bits : Bits) (h : encodeBunchHeader b = some bits) : (headerOps b).flatMap LOp.bits = bits := by
  unfold encodeBunchHeader at h
  split at h
  · simp at h
  · simp only [Option.some.injEq] at h
    rw [← h]
    have e10 : maxChSequence = 2 ^ 10 := by decide
    have e13 : maxPacketBits = 2 ^ 13 := by decide
    unfold headerOps writeCtl writeSeq writePartialFlags writeName
    simp only [List.flatMap_append, List.flatMap_cons, List.flatMap_nil, bit_b2n, List.append_nil, e10, e13]
    cases b.bOpen <;> cases b.bClose <;> cases b.bReliable <;> cases b.bPartial <;>
      simp [LOp.bits, bit_b2n, b2n] <;> (cases b.bPartialInitial <;> cases b.bPartialFinal <;> simp)

theorem headerOps_ok (b : Bunch) (hr : b.bClose = true → b.closeReason < closeReasonMax) (hch : b.chIndex < 2 ^ 32) (hname : b.nameIndex < 2 ^ 32) :
    ∀ o ∈ headerOps b, o.ok := by
  intro o ho
  have hcm : closeReasonMax ≤ 2 ^ 32 := by decide
  unfold headerOps at ho
  simp only [List.mem_append, List.mem_cons, List.mem_singleton, List.not_mem_nil, or_false] at ho
  rcases ho with ((((((h | h) | h) | h) | h) | h) | h)
  · subst h; trivial
  · split at h
    · simp only [List.mem_append, List.mem_cons, List.not_mem_nil, or_false] at h
      rcases h with (h | h) | h
      · subst h; trivial
      · subst h; trivial
      · split at h
        · rename_i hc
          simp only [List.mem_singleton] at h; subst h; exact ⟨hr hc, hcm⟩
        · simp at h
    · simp at h
  · rcases h with h | h | h | h | h | h <;> subst h <;> first | trivial | exact hch
  · split at h
    · simp only [List.mem_singleton] at h; subst h; show (10 : Nat) ≤ 32; decide
    · simp at h
  · split at h
    · simp only [List.mem_cons, List.not_mem_nil, or_false] at h; rcases h with h | h <;> subst h <;> trivial
    · simp at h
  · split at h
    · simp only [List.mem_cons, List.not_mem_nil, or_false] at h
      rcases h with h | h
      · subst h; trivial
      · subst h; exact hname
    · simp at h
  · subst h; show (13 : Nat) ≤ 32; decide

/-- **`utcp_bunch_write_header` on the byte array**: into a zeroed buffer with room, the header writer's calls all succeed, touch no byte outside the buffer and
append exactly the bits of the bit-level `encodeBunchHeader` (for which C11 proves that the reader recovers the bunch) -/
theorem write_header_bytes (bunch : Bunch) (bits : Bits) (henc : encodeBunchHeader bunch = some bits) (hch : bunch.chIndex < 2 ^ 32) (hname : bunch.nameIndex < 2 ^ 32)
    (b : Buf) (hb : WB b) (hroom : b.num + needAll (headerOps bunch) ≤ b.size) :
    ∃ b', writeAll (headerOps bunch) b = some (true, b') ∧ WB b' ∧ b'.size = b.size ∧ content b' = content b ++ bits := by
  have hr : bunch.bClose = true → bunch.closeReason < closeReasonMax := by
    intro hc
    unfold encodeBunchHeader at henc
    split at henc
    · simp at henc
    · rename_i hn
      simp [hc] at hn; exact hn
  obtain ⟨b', h1, h2, h3, h4, _⟩ := writeAll_spec (headerOps bunch) b (headerOps_ok bunch hr hch hname) hb hroom
  exact ⟨b', h1, h2, h3, by rw [h4, headerOps_bits bunch bits henc]⟩

end Utcp.BB
