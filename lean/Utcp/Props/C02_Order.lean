import Utcp.Lemmas.StatRun
/-!
# C02, first clause, over every history — one verdict per packet, in increasing order, without gaps

`Props/C02.lean` shows that *one* accepted header is reported as consecutive packet ids.  Here the same is shown for everything a connection ever reports: after
any history of sends (valid or not), flushes, incoming packet bodies of any bits and updates, at any clock values, the delivery statuses handed to the
application, oldest first, carry the ids `first, first + 1, first + 2, …` — every id at most once, strictly increasing, no gap — where `first` is the initial
outgoing packet id; and the counter of reported packets (`LastNotifiedPacketId`) says how many there were.
-/
namespace Utcp.Props.C02Hist
open Utcp Utcp.Gen Utcp.Props Utcp.Props.C02

/-- verdict lists reported one after the other read as one list -/
theorem expected_append (vs ws : List (Int × Bool)) : ∀ ln : Int, expected ln (vs ++ ws) = expected (ln + vs.length) ws ++ expected ln vs := by
  induction vs with
  | nil => intro ln; simp [expected]
  | cons v rest ih =>
    intro ln
    simp only [List.cons_append, expected, ih (ln + 1), List.length_cons, List.append_assoc]
    congr 2
    push_cast
    omega

theorem decode_acked_range (bits : Bits) (hd : NotifHeader) (rest : Bits) (h : decodePacketHeader bits = .ok (hd, rest)) :
    0 ≤ hd.ackedSeq ∧ hd.ackedSeq < 16384 := by
  unfold decodePacketHeader at h
  have key : ∀ packed : Nat, (0 : Int) ≤ ((packed / 16 % 16384 : Nat) : Int) ∧ ((packed / 16 % 16384 : Nat) : Int) < 16384 := by
    intro packed; omega
  cases h1 : readU32 bits with
  | fail r1 => simp [h1] at h
  | ok packed r1 =>
    simp only [h1] at h
    cases h2 : readBits (32 * min histWordsMax (packed % 16 + 1)) r1 with
    | fail r2 => simp [h2] at h
    | ok hist r2 =>
      simp only [h2] at h
      cases h3 : readBit r2 with
      | fail r3 => simp [h3] at h
      | ok info r3 =>
        simp only [h3] at h
        cases info with
        | false => simp only [Bool.not_false, if_true, Except.ok.injEq, Prod.mk.injEq] at h; obtain ⟨rfl, _⟩ := h; exact key _
        | true =>
          simp only [Bool.not_true, Bool.false_eq_true, if_false] at h
          cases h4 : readInt 1024 r3 with
          | fail r4 => simp [h4] at h
          | ok v4 r4 =>
            simp only [h4] at h
            cases h5 : readBit r4 with
            | fail r5 => simp [h5] at h
            | ok ft r5 =>
              simp only [h5] at h
              cases ft with
              | false => simp only [Bool.not_false, if_true, Except.ok.injEq, Prod.mk.injEq] at h; obtain ⟨rfl, _⟩ := h; exact key _
              | true =>
                simp only [Bool.not_true, Bool.false_eq_true, if_false] at h
                cases h6 : readBits 8 r5 with
                | fail r6 => simp [h6] at h
                | ok v6 r6 => simp only [h6, Except.ok.injEq, Prod.mk.injEq] at h; obtain ⟨rfl, _⟩ := h; exact key _

theorem ackSeqLoop_outAckSeq (fuel : Nat) : ∀ (n : Notify) (acked : Int) (isAck : Bool), (ackSeqLoop fuel n acked isAck).outAckSeq = n.outAckSeq := by
  induction fuel with
  | zero => intro n _ _; rfl
  | succ f ih =>
    intro n acked isAck
    unfold ackSeqLoop
    split
    · exact ih _ _ _
    · rfl

/-- events that are not delivery statuses -/
def NoStat (ev : Event) : Prop := isStatus ev = false

theorem noStat_recvPred : RecvPred NoStat := ⟨fun _ => rfl, fun _ => rfl, fun _ => rfl, fun _ _ _ => rfl⟩

/-- what one operation contributes: a (possibly empty) run of verdicts that continues the counter -/
def Reports (c c' : Conn) : Prop :=
  ∃ vs : List (Int × Bool), statuses c'.log = expected c.lastNotified vs ++ statuses c.log ∧ c'.lastNotified = c.lastNotified + vs.length ∧ C02.Inv c'

theorem Reports.silent {c c' : Conn} (hinv : C02.Inv c) (ha : Adds NoStat c c') (hs : CntSame c c') : Reports c c' := by
  refine ⟨[], ?_, by simp [hs.lastNotified], ?_⟩
  · rw [statuses_of_adds ha (fun _ h => h)]; simp [expected]
  · unfold C02.Inv at hinv ⊢; rw [hs.outAckSeq, hs.lastNotified]; exact hinv

/-- **`ReceivedPacket` on any bits**: it reports a run of verdicts that continues the counter, or nothing -/
theorem receivedPacket_reports (e : Env) (c : Conn) (bits : Bits) (hinv : C02.Inv c) : Reports c (c.receivedPacket e bits).1 := by
  unfold Conn.receivedPacket
  split
  · exact Reports.silent hinv (markClose_adds _ _ _) (CntSame.of_sameN (markClose_sameN _ _))
  · rename_i h rest hd
    dsimp only
    split
    · exact Reports.silent hinv (Adds.refl _ _) (CntSame.refl _)
    · have hinv1 : C02.Inv { c with inPacketId := c.inPacketId + c.notify.deltaSeq h } := hinv
      obtain ⟨vs, s1, s2, s3⟩ := notifyUpdate_statuses e { c with inPacketId := c.inPacketId + c.notify.deltaSeq h } h hinv1 (decode_acked_range bits h rest hd)
      generalize Conn.notifyUpdate e { c with inPacketId := c.inPacketId + c.notify.deltaSeq h } h = c2 at s1 s2 s3 ⊢
      have a3 := (bunchLoop_adds noStat_recvPred (rest.length + 1) c2 rest false)
      have k3 := bunchLoop_sameN (rest.length + 1) c2 rest false
      generalize Conn.bunchLoop (rest.length + 1) c2 rest false = r at a3 k3 ⊢
      obtain ⟨c3, rest3, skip3⟩ := r
      simp only at a3 k3 ⊢
      refine ⟨vs, ?_, ?_, ?_⟩
      · show statuses c3.log = _
        rw [statuses_of_adds a3 (fun _ h => h), s1]
      · show c3.lastNotified = _
        rw [k3.lastNotified, s2]
      · unfold C02.Inv at s3 ⊢
        show (c3.notify.ackSeq c3.inPacketId (!skip3)).outAckSeq = c3.lastNotified % 16384
        unfold Notify.ackSeq
        rw [ackSeqLoop_outAckSeq, k3.notify, k3.lastNotified]
        exact s3

/-- **one step** of any kind -/
theorem apply_reports (e : Env) (c : Conn) (op : C18.Op) (hinv : C02.Inv c) : Reports c (C18.apply e c op) := by
  cases op with
  | send b =>
    exact Reports.silent hinv (sendBunch_adds_gen (fun ev hev => by cases ev <;> simp_all [isOut, NoStat, isStatus]) (fun _ => rfl) (fun _ => rfl) e c b)
      (sendBunch_cntsame e c b)
  | flush =>
    exact Reports.silent hinv ((flush_adds e c).mono (fun ev hev => by cases ev <;> simp_all [isOut, NoStat, isStatus])) (CntSame.of_keeps (flush_keeps e c))
  | recv bits => exact receivedPacket_reports e c bits hinv
  | update => exact Reports.silent hinv (update_adds_gen (fun _ => rfl) (fun _ => rfl) e c) (update_cntsame e c)

/-- **every history**: everything reported since the start is one run of verdicts that continues the counter the history started from -/
theorem run_reports (ops : List (Env × C18.Op)) : ∀ c : Conn, C02.Inv c → Reports c (C18.run c ops) := by
  induction ops with
  | nil => intro c hinv; exact Reports.silent hinv (Adds.refl _ _) (CntSame.refl _)
  | cons p rest ih =>
    intro c hinv
    obtain ⟨e, op⟩ := p
    obtain ⟨vs, s1, s2, s3⟩ := apply_reports e c op hinv
    obtain ⟨ws, t1, t2, t3⟩ := ih (C18.apply e c op) s3
    refine ⟨vs ++ ws, ?_, ?_, t3⟩
    · show statuses (C18.run (C18.apply e c op) rest).log = _
      rw [t1, s1, s2, expected_append, List.append_assoc]
    · show (C18.run (C18.apply e c op) rest).lastNotified = _
      rw [t2, s2, List.length_append]; push_cast; omega

/-- **one verdict per packet, in increasing order, without gaps** — for a connection started by `utcp_sequence_init i o` (what the handshake does) and any
history whatsoever: the `k`-th delivery status the application ever received (oldest first) is for packet `o + k`; so no packet gets two verdicts, none is
skipped, and the order is the order of the packet ids -/
theorem statuses_consecutive (ops : List (Env × C18.Op)) (i o : Int) (k : Nat)
    (hk : k < (statuses (C18.run (({} : Conn).seqInit i o) ops).log).reverse.length) :
    ((statuses (C18.run (({} : Conn).seqInit i o) ops).log).reverse)[k].1 = o + (k : Int) := by
  obtain ⟨vs, s1, _, _⟩ := run_reports ops (({} : Conn).seqInit i o) (seqInit_inv _ i o)
  have h0 : statuses (({} : Conn).seqInit i o).log = [] := rfl
  rw [h0, List.append_nil] at s1
  have hl : (({} : Conn).seqInit i o).lastNotified = o - 1 := rfl
  rw [hl] at s1
  have := expected_ids vs (o - 1) k (by rw [← s1]; exact hk)
  simp only [s1] at hk ⊢
  rw [this]; omega

/-- … and the number of verdicts so far is what the counter says -/
theorem statuses_count (ops : List (Env × C18.Op)) (i o : Int) :
    ((statuses (C18.run (({} : Conn).seqInit i o) ops).log).length : Int) = (C18.run (({} : Conn).seqInit i o) ops).lastNotified - (o - 1) := by
  obtain ⟨vs, s1, s2, _⟩ := run_reports ops (({} : Conn).seqInit i o) (seqInit_inv _ i o)
  have h0 : statuses (({} : Conn).seqInit i o).log = [] := rfl
  have hl : (({} : Conn).seqInit i o).lastNotified = o - 1 := rfl
  rw [s1, h0, List.append_nil, expected_length, s2, hl]
  omega

/-! non-vacuity: a fresh connection satisfies the invariant the histories start from -/
example : C02.Inv (({} : Conn).seqInit 100 200) := seqInit_inv _ _ _

end Utcp.Props.C02Hist
