import Utcp.Lemmas.BitIO
import Utcp.Lemmas.Frame
/-!
# C12 — bit-buffer primitives are exact inverses and stay inside the buffer

S-level: the primitives as functions on bit lists (`Utcp/BitIO.lean`).  A failed read is modelled with the
cursor position it leaves behind, so "leaves the cursor inside the valid range" is a statement about the
remainder returned.  The byte-array level of `bit_buffer.c` (`|=`/`+=` on a zeroed buffer, the three phases
of `appBitsCpy`, the straddling packed store, partial memory) is the subject of the continuation file
`Props/C12_Bytes.lean`, which proves that it refines the functions used here.
-/
namespace Utcp.Props.C12
open Utcp

/-- one write operation of the property's vocabulary -/
inductive Op where
  | bit (b : Bool)
  | run (bs : Bits)
  | bytes (vs : List Nat)
  | int (v mx : Nat)
  | packed (v : Nat)
  | wrapped (v k : Nat)       -- `bitbuf_write_int_wrapped` with max = 2^k
  | word (v : Nat)

/-- in-range arguments (what the C functions accept) -/
def Op.ok : Op → Prop
  | .bit _ => True
  | .run _ => True
  | .bytes vs => ∀ v ∈ vs, v < 256
  | .int v mx => v < mx ∧ mx ≤ 2 ^ 32
  | .packed v => v < 2 ^ 32
  | .wrapped _ k => k ≤ 32
  | .word v => v < 2 ^ 32

def Op.write : Op → Bits
  | .bit b => [b]
  | .run bs => bs
  | .bytes vs => vs.flatMap writeByte
  | .int v mx => writeInt v mx
  | .packed v => writeIntPacked v
  | .wrapped v k => writeIntWrapped v (2 ^ k)
  | .word v => writeU32 v

def readBytes : Nat → Rd (List Nat)
  | 0 => fun bs => .ok [] bs
  | n+1 => fun bs => match readByte bs with
    | .fail r => .fail r
    | .ok v rest => match readBytes n rest with
      | .fail r => .fail r
      | .ok vs rest => .ok (v :: vs) rest

/-- the matching read; succeeds iff it returns the written value, and yields the remainder -/
def Op.readBack (o : Op) (bs : Bits) : Option Bits :=
  match o with
  | .bit b => match readBit bs with | .ok v r => if v == b then some r else none | .fail _ => none
  | .run x => match readBits x.length bs with | .ok v r => if v == x then some r else none | .fail _ => none
  | .bytes vs => match readBytes vs.length bs with | .ok v r => if v == vs then some r else none | .fail _ => none
  | .int v mx => match readInt mx bs with | .ok x r => if x == v then some r else none | .fail _ => none
  | .packed v => match readIntPacked bs with | .ok x r => if x == v then some r else none | .fail _ => none
  | .wrapped v k => match readInt (2 ^ k) bs with | .ok x r => if x == v % 2 ^ k then some r else none | .fail _ => none
  | .word v => match readU32 bs with | .ok x r => if x == v then some r else none | .fail _ => none

def readAll : List Op → Bits → Option Bits
  | [], bs => some bs
  | o :: os, bs => match o.readBack bs with | some r => readAll os r | none => none

theorem readBytes_write (vs : List Nat) (h : ∀ v ∈ vs, v < 256) (rest : Bits) :
    readBytes vs.length (vs.flatMap writeByte ++ rest) = .ok vs rest := by
  induction vs with
  | nil => rfl
  | cons v vs ih =>
    simp only [List.flatMap_cons, List.length_cons, readBytes, List.append_assoc]
    rw [readByte_write]
    have : v % 256 = v := Nat.mod_eq_of_lt (h v List.mem_cons_self)
    simp only [this, ih (fun x hx => h x (List.mem_cons_of_mem _ hx))]

theorem op_round_trip (o : Op) (h : o.ok) (rest : Bits) : o.readBack (o.write ++ rest) = some rest := by
  cases o with
  | bit b => simp [Op.readBack, Op.write]
  | run bs => simp [Op.readBack, Op.write, readBits_append]
  | bytes vs => simp [Op.readBack, Op.write, readBytes_write vs h]
  | int v mx => simp [Op.readBack, Op.write, readInt_writeInt v mx rest h.1 h.2]
  | packed v => simp [Op.readBack, Op.write, readIntPacked_write, Nat.mod_eq_of_lt h]
  | wrapped v k => simp [Op.readBack, Op.write, readInt_wrapped_pow2 k v rest h]
  | word v => simp [Op.readBack, Op.write, readU32_write, Nat.mod_eq_of_lt h]

/-- **every sequence of writes, read back with the matching sequence of reads, returns the written values
and ends at the same bit position** (the remainder is exactly what followed the writes) -/
theorem ops_round_trip (ops : List Op) (h : ∀ o ∈ ops, o.ok) (rest : Bits) :
    readAll ops (ops.flatMap Op.write ++ rest) = some rest := by
  induction ops with
  | nil => rfl
  | cons o os ih =>
    simp only [List.flatMap_cons, List.append_assoc, readAll]
    rw [op_round_trip o (h o List.mem_cons_self)]
    exact ih (fun x hx => h x (List.mem_cons_of_mem _ hx))

/-- bounded integers: the round trip, for every `v < max ≤ 2^32` including non-powers of two -/
theorem int_round_trip (v mx : Nat) (rest : Bits) (hv : v < mx) (hmx : mx ≤ 2 ^ 32) :
    readInt mx (writeInt v mx ++ rest) = .ok v rest := readInt_writeInt v mx rest hv hmx

/-- a bounded-integer write uses `⌈log2 max⌉` bits or fewer (UE early stop), and the reader consumes the same number -/
theorem int_width (v mx k : Nat) (hk : mx ≤ 2 ^ k) : (writeInt v mx).length ≤ k := writeInt_length_le v mx k hk

theorem int_reader_consumes_same (v mx : Nat) (rest : Bits) (hv : v < mx) (hmx : mx ≤ 2 ^ 32) :
    readInt mx (writeInt v mx ++ rest) = .ok v ((writeInt v mx ++ rest).drop (writeInt v mx).length) := by
  obtain ⟨n, hn, h⟩ := readInt_consumes v mx rest hv hmx
  rw [h, hn]

/-- all 2^32 packed-integer values -/
theorem packed_round_trip (v : Nat) (hv : v < 2 ^ 32) (rest : Bits) : readIntPacked (writeIntPacked v ++ rest) = .ok v rest := by
  rw [readIntPacked_write, Nat.mod_eq_of_lt hv]

theorem packed_width (v : Nat) : (writeIntPacked v).length ≤ 40 ∧ (writeIntPacked v).length % 8 = 0 := by
  unfold writeIntPacked; exact wPacked_length 5 _

/-! ## operations that do not fit -/

theorem readBit_empty : readBit [] = .fail [] := rfl

/-- a failed run read leaves the cursor where it was -/
theorem readBits_fail (n : Nat) (bs : Bits) (h : bs.length < n) : readBits n bs = .fail bs := by
  simp [readBits]; omega

/-- a failed bounded-integer read leaves the cursor where it was (`buff->num` is only written on success) -/
theorem rIntLoop_fail_start (fuel mx : Nat) (start : Bits) : ∀ mask nv bs r, rIntLoop fuel mx mask nv start bs = .fail r → r = start := by
  induction fuel with
  | zero => intro mask nv bs r h; simp [rIntLoop] at h
  | succ f ih =>
    intro mask nv bs r h
    unfold rIntLoop at h
    split at h
    · cases bs with
      | nil => simp at h; exact h.symm
      | cons b t => exact ih _ _ _ _ h
    · simp at h

theorem readInt_fail (mx : Nat) (bs r : Bits) (h : readInt mx bs = .fail r) : r = bs :=
  rIntLoop_fail_start 33 mx bs 1 0 bs r h

/-- whatever a reader returns (success or failure), the remaining bits are a suffix of the input: the cursor
never leaves the valid range -/
theorem readBits_suffix (n : Nat) (bs : Bits) : (∃ v r, readBits n bs = .ok v r ∧ v ++ r = bs) ∨ readBits n bs = .fail bs := by
  by_cases h : n ≤ bs.length
  · left; exact ⟨bs.take n, bs.drop n, by simp [readBits, h], List.take_append_drop n bs⟩
  · right; simp [readBits, h]

/-- framing: bytes ↔ bits is lossless, the byte count is the rounded-up bit count, the final byte of a terminated
stream is non-zero, and `bitbuf_read_init` recovers exactly the written bits -/
theorem bytes_round_trip (bits : Bits) : bytesToBits (bitsToBytes bits) = bits ++ List.replicate (padLen bits.length) false :=
  bytesToBits_bitsToBytes bits
theorem byte_count (bits : Bits) : (bitsToBytes bits).length = (bits.length + 7) / 8 := bitsToBytes_length bits
theorem read_init_round_trip (bits : Bits) : readInit (bitsToBytes (bits ++ [true])) = some bits := readInit_bitsToBytes bits

/-! non-vacuity and the UE early-stop examples -/
example : writeInt 9 15 = [true, false, false, true] := by decide
example : (writeInt 7 15).length = 3 := by decide          -- 7 under max 15 needs only 3 bits
example : (Op.int 7 15).ok ∧ (Op.wrapped 1025 10).ok ∧ (Op.packed 4294967295).ok := by
  simp [Op.ok]
example : writeIntPacked 300 = natToBits 89 8 ++ natToBits 4 8 := by decide

end Utcp.Props.C12
