import Utcp.Props.C09_Bytes
import Utcp.Conn
/-!
# C09 / C11 at the level of the byte array: the packet header parser

`packet_header_read` (`utcp_packet_notify.c`) as the sequence of bit-buffer calls it makes — the packed word, the loop over the history words (one
`bitbuf_read_int_byte_order` per word, *not* one run of `32·w` bits), the packet-info bit and the optional jitter / frame-time fields — over the byte-array model
of `Utcp/ByteBuf.lean`, in which touching a byte outside an array is a fault.  It is shown to compute what the bit-level `decodePacketHeader` of `Utcp/Conn.lean`
computes (the function every C02 / C04 / C18 theorem reasons about): same header, same remaining bits, same close reason on failure.  Hence, for every datagram
image, cursor and logical end, the header parser reads only bytes that hold valid bits.
-/
namespace Utcp.BB
open Utcp

/-! ## the word reader and the history loop -/

/-- `bitbuf_read_int_byte_order` -/
def lReadU32 : LRd Nat := fun b => (readU32 b).map fun (ok, v, b') => (if ok then some v else none, b')

theorem lReadU32_refines : Refines lReadU32 Utcp.readU32 := by
  intro b hb
  obtain ⟨ok, v, b', h, hrb, hm, hs, hS⟩ := readU32_refines b hb
  refine ⟨if ok then some v else none, b', by simp [lReadU32, h], hrb, hm, hs, ?_⟩
  rw [hS]; cases ok <;> rfl

/-- `for (i = 0; i < n; ++i) if (!bitbuf_read_int_byte_order(bitbuf, &History[i])) return -2;` -/
def lReadWords : Nat → LRd (List Nat)
  | 0 => LRd.pure []
  | n + 1 => lReadU32.bind fun w => (lReadWords n).bind fun ws => LRd.pure (w :: ws)

/-- the same loop on bits -/
def readWords : Nat → Rd (List Nat)
  | 0 => pure []
  | n + 1 => Utcp.readU32 >>= fun w => readWords n >>= fun ws => pure (w :: ws)

theorem lReadWords_refines (n : Nat) : Refines (lReadWords n) (readWords n) := by
  induction n with
  | zero => exact Refines.pure _
  | succ n ih =>
    unfold lReadWords readWords
    exact Refines.bind lReadU32_refines fun w => Refines.bind ih fun ws => Refines.pure _

/-- the bits of a list of 32-bit words, first word first, least significant bit first -/
def words32Bits (ws : List Nat) : Bits := ws.flatMap fun w => natToBits w 32

theorem readU32_ok (bs : Bits) (h : 32 ≤ bs.length) : Utcp.readU32 bs = .ok (bitsToNat (bs.take 32)) (bs.drop 32) := by
  unfold Utcp.readU32 Utcp.readBits
  rw [if_pos h]

theorem readU32_fail (bs : Bits) (h : ¬ 32 ≤ bs.length) : Utcp.readU32 bs = .fail bs := by
  unfold Utcp.readU32 Utcp.readBits
  rw [if_neg h]

/-- word by word or in one run: the loop succeeds exactly when `32·n` bits are left, and then has consumed exactly those -/
theorem readWords_ok (n : Nat) (bs : Bits) (h : 32 * n ≤ bs.length) :
    ∃ ws, readWords n bs = .ok ws (bs.drop (32 * n)) ∧ words32Bits ws = bs.take (32 * n) ∧ ws.length = n := by
  induction n generalizing bs with
  | zero => exact ⟨[], by simp [readWords], by simp [words32Bits], rfl⟩
  | succ n ih =>
    have h32 : 32 ≤ bs.length := by omega
    obtain ⟨ws, hws, hbits, hlen⟩ := ih (bs.drop 32) (by simp only [List.length_drop]; omega)
    refine ⟨bitsToNat (bs.take 32) :: ws, ?_, ?_, by simp [hlen]⟩
    · unfold readWords
      rw [Rd.bind_apply, readU32_ok bs h32]
      simp only [Rd.bind_apply, hws, Rd.pure_apply, List.drop_drop]
      congr 1
      rw [show 32 * (n + 1) = 32 + 32 * n by omega]
    · unfold words32Bits at hbits ⊢
      rw [List.flatMap_cons, hbits]
      have h1 : natToBits (bitsToNat (bs.take 32)) 32 = bs.take 32 := by
        have := natToBits_bitsToNat (bs.take 32)
        rwa [List.length_take, Nat.min_eq_left h32] at this
      rw [h1, show 32 * (n + 1) = 32 + 32 * n by omega, List.take_add]

theorem readWords_fail (n : Nat) (bs : Bits) (h : ¬ 32 * n ≤ bs.length) : ∃ r, readWords n bs = .fail r := by
  induction n generalizing bs with
  | zero => omega
  | succ n ih =>
    unfold readWords
    rw [Rd.bind_apply]
    by_cases h32 : 32 ≤ bs.length
    · rw [readU32_ok bs h32]
      obtain ⟨r, hr⟩ := ih (bs.drop 32) (by simp only [List.length_drop]; omega)
      exact ⟨r, by simp only [Rd.bind_apply, hr]⟩
    · rw [readU32_fail bs h32]
      exact ⟨bs, rfl⟩

/-! ## `packet_notify_read_header`, then the rest of `packet_header_read` -/

/-- what `packet_notify_read_header` leaves in the `notification_header`: the unpacked word (`PackedHeader_UnPack`), `MIN(_countof(History), count + 1)`
words of history -/
def notifOf (packed : Nat) (ws : List Nat) : NotifHeader :=
  { seq := ((packed / 2^18 % 16384 : Nat) : Int), ackedSeq := ((packed / 16 % 16384 : Nat) : Int),
    words := min histWordsMax ((packed % 16) + 1), hist := words32Bits ws }

/-- `packet_notify_read_header` on the byte array -/
def lReadNotif : LRd NotifHeader :=
  lReadU32.bind fun packed => (lReadWords (min histWordsMax ((packed % 16) + 1))).bind fun ws => LRd.pure (notifOf packed ws)

def readNotif : Rd NotifHeader :=
  Utcp.readU32 >>= fun packed => readWords (min histWordsMax ((packed % 16) + 1)) >>= fun ws => pure (notifOf packed ws)

theorem lReadNotif_refines : Refines lReadNotif readNotif :=
  Refines.bind lReadU32_refines fun _ => Refines.bind (lReadWords_refines _) fun _ => Refines.pure _

/-- the part of `packet_header_read` behind the notification header: `bHasPacketInfoPayload`, and if set the 10-bit jitter clock, `bHasServerFrameTime` and, if
that is set, one byte read into `FrameTimeByte` (a one-byte field of the `packet_header`) -/
def lReadExtra (frameTimeByte : Mem) : LRd Unit :=
  lReadBit.bind fun info =>
  if !info then LRd.pure () else
  (lReadInt 1024).bind fun _ =>
  lReadBit.bind fun ft =>
  if !ft then LRd.pure () else
  (lReadBitsInto frameTimeByte 8).bind fun _ => LRd.pure ()

def readExtra : Rd Unit :=
  Utcp.readBit >>= fun info =>
  if !info then pure () else
  Utcp.readInt 1024 >>= fun _ =>
  Utcp.readBit >>= fun ft =>
  if !ft then pure () else
  Utcp.readBits 8 >>= fun _ => pure ()

theorem lReadExtra_refines (fb : Mem) (hfb : BytesOK fb) (hl : 1 ≤ fb.length) : Refines (lReadExtra fb) readExtra := by
  unfold lReadExtra readExtra
  refine Refines.bind lReadBit_refines fun info => ?_
  refine Refines.ite (!info) (Refines.pure ()) ?_
  refine Refines.bind (lReadInt_refines _) fun _ => ?_
  refine Refines.bind lReadBit_refines fun ft => ?_
  refine Refines.ite (!ft) (Refines.pure ()) ?_
  exact Refines.bind (lReadBitsInto_refines fb hfb 8 (by omega)) fun _ => Refines.pure ()

/-- `packet_header_read` on the byte array: the header, or the close reason the caller reports -/
def lDecodePacketHeader (frameTimeByte : Mem) (b : Buf) : Option (Except Nat NotifHeader × Buf) :=
  match lReadNotif b with
  | none => none
  | some (none, b1) => some (.error crReadHeaderFail, b1)
  | some (some h, b1) =>
    match lReadExtra frameTimeByte b1 with
    | none => none
    | some (none, b2) => some (.error crReadHeaderExtraFail, b2)
    | some (some _, b2) => some (.ok h, b2)

/-- the bit-level `decodePacketHeader` is the two readers one after the other -/
theorem decodePacketHeader_eq (bs : Bits) :
    decodePacketHeader bs =
      match readNotif bs with
      | .fail _ => .error crReadHeaderFail
      | .ok h r => match readExtra r with
        | .fail _ => .error crReadHeaderExtraFail
        | .ok _ r' => .ok (h, r') := by
  unfold decodePacketHeader readNotif
  rw [Rd.bind_apply]
  by_cases h32 : 32 ≤ bs.length
  · rw [readU32_ok bs h32]
    simp only [Rd.bind_apply]
    generalize hp : bitsToNat (bs.take 32) = packed
    generalize hw : min histWordsMax (packed % 16 + 1) = w
    by_cases hfit : 32 * w ≤ (bs.drop 32).length
    · obtain ⟨ws, hws, hbits, _⟩ := readWords_ok w (bs.drop 32) hfit
      rw [hws]
      simp only [Rd.pure_apply]
      have hrb : Utcp.readBits (32 * w) (bs.drop 32) = .ok ((bs.drop 32).take (32 * w)) ((bs.drop 32).drop (32 * w)) := by
        unfold Utcp.readBits; rw [if_pos hfit]
      rw [hrb]
      simp only
      have hn : notifOf packed ws = { seq := ((packed / 2^18 % 16384 : Nat) : Int), ackedSeq := ((packed / 16 % 16384 : Nat) : Int), words := w,
                                      hist := (bs.drop 32).take (32 * w) } := by
        unfold notifOf; rw [hw, hbits]
      rw [hn]
      generalize (bs.drop 32).drop (32 * w) = r
      unfold readExtra
      rw [Rd.bind_apply]
      cases hb1 : Utcp.readBit r with
      | fail r1 => rfl
      | ok info r1 =>
        simp only
        cases info with
        | false => simp
        | true =>
          simp only [Bool.not_true, Bool.false_eq_true, if_false, Rd.bind_apply]
          cases hi : Utcp.readInt 1024 r1 with
          | fail r2 => rfl
          | ok v r2 =>
            simp only
            cases hb2 : Utcp.readBit r2 with
            | fail r3 => rfl
            | ok ft r3 =>
              simp only
              cases ft with
              | false => simp
              | true =>
                simp only [Bool.not_true, Bool.false_eq_true, if_false, Rd.bind_apply]
                cases hb3 : Utcp.readBits 8 r3 with
                | fail r4 => rfl
                | ok v4 r4 => simp
    · obtain ⟨r, hr⟩ := readWords_fail w (bs.drop 32) hfit
      rw [hr]
      have hrb : Utcp.readBits (32 * w) (bs.drop 32) = .fail (bs.drop 32) := by
        unfold Utcp.readBits; rw [if_neg hfit]
      rw [hrb]
  · rw [readU32_fail bs h32]

/-- **the header parser on the byte array**: for every datagram image, cursor and logical end, `packet_header_read` touches no byte outside the datagram's valid
bytes and the one-byte `FrameTimeByte` field, and returns what the bit-level `decodePacketHeader` returns on the remaining bits — the same header with the same
bits left over for the bunches, or the same close reason -/
theorem lDecodePacketHeader_refines (fb : Mem) (hfb : BytesOK fb) (hl : 1 ≤ fb.length) (b : Buf) (hb : RB b) :
    ∃ r b', lDecodePacketHeader fb b = some (r, b') ∧ RB b' ∧ b'.mem = b.mem ∧ b'.size = b.size ∧
      decodePacketHeader (rest b) = (match r with | .ok h => .ok (h, rest b') | .error e => .error e) := by
  rw [decodePacketHeader_eq]
  unfold lDecodePacketHeader
  obtain ⟨r1, b1, h1, hrb1, hm1, hs1, hS1⟩ := lReadNotif_refines b hb
  rw [h1, hS1]
  cases r1 with
  | none => exact ⟨.error crReadHeaderFail, b1, rfl, hrb1, hm1, hs1, rfl⟩
  | some h =>
    obtain ⟨r2, b2, h2, hrb2, hm2, hs2, hS2⟩ := lReadExtra_refines fb hfb hl b1 hrb1
    simp only
    rw [h2, hS2]
    cases r2 with
    | none => exact ⟨.error crReadHeaderExtraFail, b2, rfl, hrb2, hm2.trans hm1, hs2.trans hs1, rfl⟩
    | some u => exact ⟨.ok h, b2, rfl, hrb2, hm2.trans hm1, hs2.trans hs1, rfl⟩

/-- **no input makes the header parser touch memory it does not own** -/
theorem header_parse_never_faults (fb : Mem) (hfb : BytesOK fb) (hl : 1 ≤ fb.length) (b : Buf) (hb : RB b) :
    ∃ r b', lDecodePacketHeader fb b = some (r, b') ∧ b'.num ≤ b'.size ∧ b'.size = b.size := by
  obtain ⟨r, b', h, hrb, _, hs, _⟩ := lDecodePacketHeader_refines fb hfb hl b hb
  exact ⟨r, b', h, hrb.num, hs⟩

/-- the history array of the `notification_header` holds as many words as the loop can ask for (`MIN(_countof(History), …)`; extent extracted from the source) -/
theorem history_array_suffices (packed : Nat) : min histWordsMax ((packed % 16) + 1) ≤ Gen.SequenceHistoryWordCount.toNat :=
  Nat.min_le_left _ _

/-! ## header, then one bunch: the two parsers in sequence -/

/-- **header and first bunch**: on any datagram image the header parser followed by the bunch parser stays inside the arrays (datagram, `FrameTimeByte`, the
bunch node's data array) whatever the bytes are -/
theorem header_then_bunch_never_faults (fb data : Mem) (hfb : BytesOK fb) (hl : 1 ≤ fb.length) (hdata : BytesOK data) (hlen : 1024 ≤ data.length)
    (b : Buf) (hb : RB b) :
    ∃ r b1, lDecodePacketHeader fb b = some (r, b1) ∧ ∃ r2 b2, lDecodeBunch data b1 = some (r2, b2) ∧ b2.num ≤ b2.size ∧ b2.size = b.size := by
  obtain ⟨r, b1, h, hrb, _, hs, _⟩ := lDecodePacketHeader_refines fb hfb hl b hb
  obtain ⟨r2, b2, h2, hle, hs2⟩ := bunch_parse_never_faults b1 hrb data hdata hlen
  exact ⟨r, b1, h, r2, b2, h2, hle, hs2.trans hs⟩

/-! non-vacuity: a one-word header in a six-byte image (41 valid bits), frame-time byte array of one byte -/
example : RB ⟨[0x10, 0x00, 0x04, 0x00, 0xFF, 0x01], 41, 0⟩ ∧ BytesOK [0] ∧ 1 ≤ [0].length :=
  ⟨⟨by intro x hx; simp at hx; omega, by decide, by decide⟩, by intro x hx; simp at hx; omega, by decide⟩

end Utcp.BB
