import Utcp.Props.C20
import Utcp.Props.C13
import Utcp.Lemmas.RecvKeeps
/-!
# C20, continued: reordering alone is invisible

For a batch of datagrams with distinct packet ids ahead of the counter, every arrival order makes the wrapper hand the batch to the core in
ascending id order (`batch_fed_ascending`), hence leaves exactly the same state behind (`reordering_invisible`).  What the wrapper relies on is
collected in `Batch`; `burst_is_batch` shows that genuine data datagrams of one burst meet it.
-/
namespace Utcp.Props.C20
open Utcp Utcp.Gen

/-- feed a list of datagrams to the core, in order -/
def feedD {T} (tm : TimeOps T) (e : Env) : Endpoint → Rng → List (List UInt8) → Endpoint × Rng
  | ep, rng, [] => (ep, rng)
  | ep, rng, d :: ds => let r := ep.incoming tm e rng d; feedD tm e r.1 r.2.1 ds

theorem feedD_append {T} (tm : TimeOps T) (e : Env) (a b : List (List UInt8)) : ∀ (ep : Endpoint) (rng : Rng),
    feedD tm e ep rng (a ++ b) = feedD tm e (feedD tm e ep rng a).1 (feedD tm e ep rng a).2 b := by
  induction a with
  | nil => intro ep rng; rfl
  | cons d a ih => intro ep rng; simp only [List.cons_append, feedD]; exact ih _ _

theorem feed_eq_feedD {T} (tm : TimeOps T) (e : Env) (l : List Entry) : ∀ (ep : Endpoint) (rng : Rng),
    feed tm e ep rng l = feedD tm e ep rng (l.map (·.2)) := by
  induction l with
  | nil => intro ep rng; rfl
  | cons p l ih => intro ep rng; simp only [feed, List.map_cons, feedD]; exact ih _ _

theorem mem_cacheInsert (k : Int) (d : List UInt8) (l : List Entry) (p : Entry) : p ∈ cacheInsert k d l ↔ p = (k, d) ∨ p ∈ l := by
  rw [(cacheInsert_perm k d l).mem_iff]; simp

theorem cacheInsert_strict (k : Int) (d : List UInt8) (l : List Entry) (h : l.Pairwise (fun a b => a.1 < b.1)) (hne : ∀ p ∈ l, p.1 ≠ k) :
    (cacheInsert k d l).Pairwise (fun a b => a.1 < b.1) := by
  induction l with
  | nil => simp [cacheInsert]
  | cons p rest ih =>
    obtain ⟨q, v⟩ := p
    simp only [cacheInsert]
    rw [List.pairwise_cons] at h
    split
    · rename_i hlt
      rw [List.pairwise_cons]
      refine ⟨?_, List.pairwise_cons.mpr h⟩
      intro b hb
      rcases List.mem_cons.mp hb with rfl | hb
      · exact hlt
      · exact Int.lt_trans hlt (h.1 b hb)
    · rename_i hge
      rw [List.pairwise_cons]
      refine ⟨?_, ih h.2 (fun p hp => hne p (List.mem_cons_of_mem _ hp))⟩
      intro b hb
      rcases (mem_cacheInsert k d rest b).mp hb with rfl | hb'
      · have := hne (q, v) (by simp)
        simp only at this ⊢
        omega
      · exact h.1 b hb'

end Utcp.Props.C20

namespace Utcp.Props.C20
open Utcp Utcp.Gen

/-- what the wrapper relies on, for a batch `ds` of datagrams with (full) packet ids `key`, while the core's packet-id counter stays in `[I0, Imax]`:
the ids are distinct, newer than `I0` and at most `Imax`; in every state the run can reach (`R`, an invariant of handing batch datagrams to the core)
the peek of a batch datagram is its id as long as that is ahead of the counter and non-positive afterwards, and handing a batch datagram to the core
leaves the counter alone or advances it to that datagram's id.  (`burst_is_batch` below shows that data datagrams carrying these ids in their headers
meet this within the sequence window.) -/
structure Batch {T} (tm : TimeOps T) (e : Env) (R : Endpoint → Prop) (key : List UInt8 → Int) (ds : List (List UInt8)) (I0 Imax : Int) : Prop where
  inj : ∀ a ∈ ds, ∀ b ∈ ds, key a = key b → a = b
  newer : ∀ d ∈ ds, I0 < key d
  upper : ∀ d ∈ ds, key d ≤ Imax
  peek : ∀ d ∈ ds, ∀ ep : Endpoint, R ep → I0 ≤ ep.c.inPacketId → ep.c.inPacketId ≤ Imax →
    (ep.c.inPacketId < key d → ep.peek e d = key d) ∧ (key d ≤ ep.c.inPacketId → ep.peek e d ≤ 0)
  step : ∀ d ∈ ds, ∀ (ep : Endpoint) (rng : Rng), R ep → I0 ≤ ep.c.inPacketId → ep.c.inPacketId ≤ Imax →
    R (ep.incoming tm e rng d).1 ∧
    ((ep.incoming tm e rng d).1.c.inPacketId = ep.c.inPacketId ∨
      (ep.c.inPacketId < key d ∧ (ep.incoming tm e rng d).1.c.inPacketId = key d))

/-- the state of the wrapper while a batch arrives in some order: `fed` = the datagrams handed to the core so far, in that order -/
structure CacheInv {T} (tm : TimeOps T) (e : Env) (R : Endpoint → Prop) (key : List UInt8 → Int) (ds : List (List UInt8)) (I0 Imax : Int)
    (ep0 : Endpoint) (rng0 : Rng) (w : Wrapped) (rng : Rng) (fed : List (List UInt8)) : Prop where
  run : feedD tm e ep0 rng0 fed = (w.ep, rng)
  reach : R w.ep
  lo : I0 ≤ w.ep.c.inPacketId
  hi : w.ep.c.inPacketId ≤ Imax
  cacheKey : ∀ p ∈ w.cache, p.2 ∈ ds ∧ p.1 = key p.2 ∧ w.ep.c.inPacketId < p.1
  cacheSorted : w.cache.Pairwise (fun a b => a.1 < b.1)
  fedIn : ∀ f ∈ fed, f ∈ ds ∧ key f ≤ w.ep.c.inPacketId + 1
  fedSorted : fed.Pairwise (fun a b => key a < key b)
  fedLtCache : ∀ f ∈ fed, ∀ p ∈ w.cache, key f < p.1
  dense : ∀ j, I0 < j → j ≤ w.ep.c.inPacketId → ∃ f ∈ fed, key f = j

/-- a (non-forced) flush keeps the invariant: it hands over the lowest cached id only when that is the expected one -/
theorem flush_inv {T} (tm : TimeOps T) (e : Env) (R : Endpoint → Prop) (key : List UInt8 → Int) (ds : List (List UInt8)) (I0 Imax : Int) (hI0 : 0 ≤ I0)
    (hb : Batch tm e R key ds I0 Imax) (ep0 : Endpoint) (rng0 : Rng) (fuel : Nat) :
    ∀ (w : Wrapped) (rng : Rng) (fed : List (List UInt8)), CacheInv tm e R key ds I0 Imax ep0 rng0 w rng fed →
      CacheInv tm e R key ds I0 Imax ep0 rng0 (flushCacheG tm e fuel w rng false fed).1 (flushCacheG tm e fuel w rng false fed).2.1
        (flushCacheG tm e fuel w rng false fed).2.2 := by
  induction fuel with
  | zero => intro w rng fed h; exact h
  | succ f ih =>
    intro w rng fed h
    unfold flushCacheG
    cases hc : w.cache with
    | nil => simpa [hc] using h
    | cons p rest =>
      obtain ⟨k, d⟩ := p
      dsimp only
      by_cases hcond : (!false && w.ep.c.inPacketId + 1 != -1 && decide (k > w.ep.c.inPacketId + 1)) = true
      · simp only [hcond, if_true]; exact h
      · simp only [hcond, Bool.false_eq_true, if_false]
        apply ih
        have hmem : (k, d) ∈ w.cache := by rw [hc]; simp
        obtain ⟨hdin, hk, hgt⟩ := h.cacheKey (k, d) hmem
        simp only at hdin hk hgt
        have hlo := h.lo
        have hkle : k ≤ w.ep.c.inPacketId + 1 := by
          have hne : (w.ep.c.inPacketId + 1 != -1) = true := by simp; omega
          simp only [Bool.not_false, Bool.true_and, hne, decide_eq_true_eq] at hcond
          omega
        have hkeq : k = w.ep.c.inPacketId + 1 := by omega
        obtain ⟨hR', hstep⟩ := hb.step d hdin w.ep rng h.reach h.lo h.hi
        have hup := hb.upper d hdin
        have hsorted := h.cacheSorted
        rw [hc, List.pairwise_cons] at hsorted
        -- the new counter
        generalize hI' : (w.ep.incoming tm e rng d).1.c.inPacketId = I' at hstep
        have hI'ge : w.ep.c.inPacketId ≤ I' := by rcases hstep with h1 | ⟨_, h1⟩ <;> omega
        have hI'le : I' ≤ k := by rcases hstep with h1 | ⟨_, h1⟩ <;> omega
        refine ⟨?_, hR', by simp only; rw [hI']; omega, by simp only; rw [hI']; omega, ?_, hsorted.2, ?_, ?_, ?_, ?_⟩
        · rw [feedD_append, h.run]; rfl
        · intro p hp
          have hp' : p ∈ w.cache := by rw [hc]; exact List.mem_cons_of_mem _ hp
          obtain ⟨a, b, c⟩ := h.cacheKey p hp'
          have := hsorted.1 p hp
          simp only at this ⊢
          rw [hI']
          exact ⟨a, b, by omega⟩
        · intro x hx
          simp only
          rw [hI']
          rcases List.mem_append.mp hx with hx | hx
          · obtain ⟨a, b⟩ := h.fedIn x hx; exact ⟨a, by omega⟩
          · simp only [List.mem_singleton] at hx; subst hx; exact ⟨hdin, by omega⟩
        · rw [List.pairwise_append]
          refine ⟨h.fedSorted, by simp, ?_⟩
          intro a ha b hb'
          simp only [List.mem_singleton] at hb'; subst hb'
          have := h.fedLtCache a ha (k, b) hmem
          simp only at this; omega
        · intro x hx p hp
          have hp' : p ∈ w.cache := by rw [hc]; exact List.mem_cons_of_mem _ hp
          rcases List.mem_append.mp hx with hx | hx
          · exact h.fedLtCache x hx p hp'
          · simp only [List.mem_singleton] at hx; subst hx
            have := hsorted.1 p hp
            simp only at this; omega
        · intro j hj1 hj2
          simp only at hj2
          rw [hI'] at hj2
          by_cases hjo : j ≤ w.ep.c.inPacketId
          · obtain ⟨x, hx, hxk⟩ := h.dense j hj1 hjo
            exact ⟨x, List.mem_append_left _ hx, hxk⟩
          · exact ⟨d, by simp, by omega⟩

end Utcp.Props.C20

namespace Utcp.Props.C20
open Utcp Utcp.Gen

/-- one arrival of a batch datagram that has not arrived before -/
theorem arrival_inv {T} (tm : TimeOps T) (e : Env) (R : Endpoint → Prop) (key : List UInt8 → Int) (ds : List (List UInt8)) (I0 Imax : Int) (hI0 : 0 ≤ I0)
    (hb : Batch tm e R key ds I0 Imax) (ep0 : Endpoint) (rng0 : Rng) (w : Wrapped) (rng : Rng) (fed : List (List UInt8))
    (h : CacheInv tm e R key ds I0 Imax ep0 rng0 w rng fed) (d : List UInt8) (hd : d ∈ ds) (hnf : d ∉ fed) (hnc : d ∉ w.cache.map (·.2)) :
    CacheInv tm e R key ds I0 Imax ep0 rng0 (incomingG tm e w rng d fed).1 (incomingG tm e w rng d fed).2.1 (incomingG tm e w rng d fed).2.2 := by
  -- the id is ahead of the counter: every id up to the counter belongs to a datagram already handed over
  have hgt : w.ep.c.inPacketId < key d := by
    by_cases hle : key d ≤ w.ep.c.inPacketId
    · obtain ⟨f, hf, hfk⟩ := h.dense (key d) (hb.newer d hd) hle
      have := hb.inj f (h.fedIn f hf).1 d hd hfk
      subst this; exact absurd hf hnf
    · omega
  have hpk := ((hb.peek d hd w.ep h.reach h.lo h.hi).1 hgt)
  unfold incomingG
  dsimp only
  have hpos : ¬ (w.ep.peek e d ≤ 0) := by rw [hpk]; have := h.lo; omega
  rw [if_neg hpos, hpk]
  apply flush_inv tm e R key ds I0 Imax hI0 hb ep0 rng0
  refine ⟨h.run, h.reach, h.lo, h.hi, ?_, ?_, h.fedIn, h.fedSorted, ?_, h.dense⟩
  · intro p hp
    rcases (mem_cacheInsert (key d) d w.cache p).mp hp with rfl | hp
    · exact ⟨hd, rfl, hgt⟩
    · exact h.cacheKey p hp
  · apply cacheInsert_strict _ _ _ h.cacheSorted
    intro p hp hpe
    obtain ⟨a, b, _⟩ := h.cacheKey p hp
    have := hb.inj p.2 a d hd (by rw [← b]; exact hpe)
    exact hnc (List.mem_map.mpr ⟨p, hp, this⟩)
  · intro f hf p hp
    rcases (mem_cacheInsert (key d) d w.cache p).mp hp with rfl | hp
    · simp only
      obtain ⟨a, b⟩ := h.fedIn f hf
      have hne : key f ≠ key d := fun hq => by
        have := hb.inj f a d hd hq
        subst this; exact hnf hf
      omega
    · exact h.fedLtCache f hf p hp

/-- the whole batch, arriving in the order `arr` -/
theorem arrivals_inv {T} (tm : TimeOps T) (e : Env) (R : Endpoint → Prop) (key : List UInt8 → Int) (ds : List (List UInt8)) (I0 Imax : Int) (hI0 : 0 ≤ I0)
    (hb : Batch tm e R key ds I0 Imax) (ep0 : Endpoint) (rng0 : Rng) (arr : List (List UInt8)) :
    ∀ (w : Wrapped) (rng : Rng) (fed : List (List UInt8)), CacheInv tm e R key ds I0 Imax ep0 rng0 w rng fed →
      arr.Nodup → (∀ d ∈ arr, d ∈ ds ∧ d ∉ fed ∧ d ∉ w.cache.map (·.2)) →
      CacheInv tm e R key ds I0 Imax ep0 rng0 (arrivals tm e w rng fed arr).1 (arrivals tm e w rng fed arr).2.1 (arrivals tm e w rng fed arr).2.2 := by
  induction arr with
  | nil => intro w rng fed h _ _; exact h
  | cons d rest ih =>
    intro w rng fed h hnd hall
    simp only [arrivals]
    obtain ⟨hd, hnf, hnc⟩ := hall d (by simp)
    have h1 := arrival_inv tm e R key ds I0 Imax hI0 hb ep0 rng0 w rng fed h d hd hnf hnc
    rw [List.nodup_cons] at hnd
    apply ih _ _ _ h1 hnd.2
    intro x hx
    obtain ⟨hxd, hxf, hxc⟩ := hall x (List.mem_cons_of_mem _ hx)
    have hperm := incomingG_conserves tm e w rng d fed
    have hxne : x ≠ d := fun hq => hnd.1 (hq ▸ hx)
    have hnot : x ∉ (incomingG tm e w rng d fed).2.2 ++ (incomingG tm e w rng d fed).1.cache.map (·.2) := by
      intro hmem
      have := hperm.subset hmem
      rcases List.mem_cons.mp this with h2 | h2
      · exact hxne h2
      · rcases List.mem_append.mp h2 with h3 | h3
        · exact hxf h3
        · exact hxc h3
    exact ⟨hxd, fun hq => hnot (List.mem_append_left _ hq), fun hq => hnot (List.mem_append_right _ hq)⟩

/-- the complete run of the wrapper on one arrival order: all arrivals, then `flush_incoming_cache` -/
def runBatch {T} (tm : TimeOps T) (e : Env) (w0 : Wrapped) (rng : Rng) (arr : List (List UInt8)) : Wrapped × Rng :=
  let a := arr.foldl (fun (s : Wrapped × Rng) d => s.1.incoming tm e s.2 d) (w0, rng)
  a.1.flushCache tm e a.1.cache.length a.2 true

theorem arrivals_eq_foldl {T} (tm : TimeOps T) (e : Env) (arr : List (List UInt8)) : ∀ (w : Wrapped) (rng : Rng) (fed : List (List UInt8)),
    ((arrivals tm e w rng fed arr).1, (arrivals tm e w rng fed arr).2.1) = arr.foldl (fun (s : Wrapped × Rng) d => s.1.incoming tm e s.2 d) (w, rng) := by
  induction arr with
  | nil => intro w rng fed; rfl
  | cons d rest ih =>
    intro w rng fed
    simp only [arrivals, List.foldl_cons]
    rw [ih, ← incomingG_eq tm e w rng d fed]

end Utcp.Props.C20

namespace Utcp.Props.C20
open Utcp Utcp.Gen

/-- **what the core is fed is the batch in ascending id order**, whatever the arrival order: the run of the wrapper (arrivals through
`conn::incoming`, with the releases they trigger, then `flush_incoming_cache`) ends with an empty cache and in the state the core reaches
when it is handed a list `F` that is a permutation of the batch and strictly ascending in the packet ids -/
theorem batch_fed_ascending {T} (tm : TimeOps T) (e : Env) (R : Endpoint → Prop) (key : List UInt8 → Int) (ds : List (List UInt8)) (Imax : Int)
    (w0 : Wrapped) (rng : Rng) (h0 : w0.cache = []) (hR0 : R w0.ep) (hI0 : 0 ≤ w0.ep.c.inPacketId) (hImax : w0.ep.c.inPacketId ≤ Imax)
    (hb : Batch tm e R key ds w0.ep.c.inPacketId Imax) (hnd : ds.Nodup) (arr : List (List UInt8)) (hp : arr.Perm ds) :
    ∃ F : List (List UInt8), F.Perm ds ∧ F.Pairwise (fun a b => key a < key b) ∧
      (runBatch tm e w0 rng arr).1.cache = [] ∧ ((runBatch tm e w0 rng arr).1.ep, (runBatch tm e w0 rng arr).2) = feedD tm e w0.ep rng F := by
  have hinit : CacheInv tm e R key ds w0.ep.c.inPacketId Imax w0.ep rng w0 rng [] := by
    refine ⟨rfl, hR0, Int.le_refl _, hImax, by simp [h0], by simp [h0], by simp, by simp, by simp, ?_⟩
    intro j h1 h2; omega
  have hinv := arrivals_inv tm e R key ds w0.ep.c.inPacketId Imax hI0 hb w0.ep rng arr w0 rng [] hinit (hp.nodup_iff.mpr hnd)
    (fun d hd => ⟨hp.subset hd, by simp, by simp [h0]⟩)
  have hfold := arrivals_eq_foldl tm e arr w0 rng []
  generalize ha : arrivals tm e w0 rng [] arr = a at hinv hfold
  obtain ⟨wa, rnga, feda⟩ := a
  simp only at hinv hfold
  have hcons := arrivals_conserve tm e arr w0 rng []
  rw [ha] at hcons
  simp only [h0, List.map_nil, List.append_nil] at hcons
  refine ⟨feda ++ wa.cache.map (·.2), hcons.trans hp, ?_, ?_, ?_⟩
  · rw [List.pairwise_append]
    refine ⟨hinv.fedSorted, ?_, ?_⟩
    · rw [List.pairwise_map]
      refine hinv.cacheSorted.imp_of_mem ?_
      intro a b ha' hb' hlt
      rw [← (hinv.cacheKey a ha').2.1, ← (hinv.cacheKey b hb').2.1]; exact hlt
    · intro a ha' b hb'
      obtain ⟨p, hp', rfl⟩ := List.mem_map.mp hb'
      rw [← (hinv.cacheKey p hp').2.1]
      exact hinv.fedLtCache a ha' p hp'
  · unfold runBatch
    simp only
    rw [← hfold]
    exact (flush_forced tm e wa rnga wa.cache.length (Nat.le_refl _)).1
  · unfold runBatch
    simp only
    rw [← hfold]
    simp only
    rw [(flush_forced tm e wa rnga wa.cache.length (Nat.le_refl _)).2, feed_eq_feedD, feedD_append, hinv.run]

/-- **reordering alone is invisible**: two arrival orders of the same batch leave the wrapper - the core's whole state (so: every bunch delivered and its
order, every acknowledgement recorded, everything queued for sending) and the random stream - exactly the same.  In particular any arrival order is
the same as arrival in sending order. -/
theorem reordering_invisible {T} (tm : TimeOps T) (e : Env) (R : Endpoint → Prop) (key : List UInt8 → Int) (ds : List (List UInt8)) (Imax : Int)
    (w0 : Wrapped) (rng : Rng) (h0 : w0.cache = []) (hR0 : R w0.ep) (hI0 : 0 ≤ w0.ep.c.inPacketId) (hImax : w0.ep.c.inPacketId ≤ Imax)
    (hb : Batch tm e R key ds w0.ep.c.inPacketId Imax) (hnd : ds.Nodup) (arr1 arr2 : List (List UInt8)) (h1 : arr1.Perm ds) (h2 : arr2.Perm ds) :
    runBatch tm e w0 rng arr1 = runBatch tm e w0 rng arr2 := by
  obtain ⟨F1, p1, s1, c1, r1⟩ := batch_fed_ascending tm e R key ds Imax w0 rng h0 hR0 hI0 hImax hb hnd arr1 h1
  obtain ⟨F2, p2, s2, c2, r2⟩ := batch_fed_ascending tm e R key ds Imax w0 rng h0 hR0 hI0 hImax hb hnd arr2 h2
  have hF : F1 = F2 := List.Perm.eq_of_pairwise (le := fun a b => key a < key b) (fun a b _ _ hab hba => by omega) s1 s2 (p1.trans p2.symm)
  rw [hF] at r1
  have hr := r1.trans r2.symm
  have e1 : (runBatch tm e w0 rng arr1).1 = (runBatch tm e w0 rng arr2).1 := by
    have hep : (runBatch tm e w0 rng arr1).1.ep = (runBatch tm e w0 rng arr2).1.ep := congrArg (fun x : Endpoint × Rng => x.1) hr
    cases hw1 : (runBatch tm e w0 rng arr1).1 with
    | mk ep1 ca1 =>
      cases hw2 : (runBatch tm e w0 rng arr2).1 with
      | mk ep2 ca2 =>
        rw [hw1] at c1 hep; rw [hw2] at c2 hep
        simp only at c1 c2 hep
        rw [c1, c2, hep]
  exact Prod.ext e1 (congrArg (fun x : Endpoint × Rng => x.2) hr)

end Utcp.Props.C20

namespace Utcp.Props.C20
open Utcp Utcp.Gen

/-- a data datagram (not a handshake datagram, not empty) whose notification header carries the 14-bit sequence `seq` and acknowledges `acked`:
facts about the bytes alone -/
def DataDg (e : Env) (d : List UInt8) (seq acked : Int) : Prop :=
  ∃ bits s c rest packed r1 hist r2,
    readInit d = some bits ∧ readOutgoingHeader e bits = .ok (s, c, false) rest ∧ rest.isEmpty = false ∧
    readU32 rest = .ok packed r1 ∧ readBits (32 * min histWordsMax (packed % 16 + 1)) r1 = .ok hist r2 ∧
    seq = ((packed / 2^18 % 16384 : Nat) : Int) ∧ acked = ((packed / 16 % 16384 : Nat) : Int) ∧
    (∀ h body, decodePacketHeader rest.dropLast = .ok (h, body) → h.seq = seq ∧ h.ackedSeq = acked)

/-- the states a burst can lead to: nothing newly acknowledged (`OutAckSeq`, `OutSeq` as at the start), and the 14-bit receive sequence is the
packet-id counter modulo 2^14 -/
def RBurst (A O : Int) (ep : Endpoint) : Prop :=
  ep.c.notify.outAckSeq = A ∧ ep.c.notify.outSeq = O ∧ ep.c.notify.inSeq = ep.c.inPacketId % 16384

theorem ackSeqLoop_keeps (fuel : Nat) : ∀ (n : Notify) (acked : Int) (isAck : Bool),
    (ackSeqLoop fuel n acked isAck).inSeq = n.inSeq ∧ (ackSeqLoop fuel n acked isAck).outSeq = n.outSeq ∧
    (ackSeqLoop fuel n acked isAck).outAckSeq = n.outAckSeq := by
  induction fuel with
  | zero => intro n _ _; exact ⟨rfl, rfl, rfl⟩
  | succ f ih =>
    intro n acked isAck
    unfold ackSeqLoop
    split
    · exact ih _ _ _
    · exact ⟨rfl, rfl, rfl⟩

theorem delta_burst (n : Notify) (h : NotifHeader) (I key A O : Int) (h1 : n.inSeq = I % 16384) (h2 : n.outAckSeq = A) (h3 : n.outSeq = O)
    (h4 : h.seq = key % 16384) (h5 : h.ackedSeq = A) (hAA : seq_num_greater_equal A A = true) (hOA : seq_num_greater_than O A = true)
    (hw : -8192 < key - I ∧ key - I < 8192) : n.deltaSeq h = if key > I then key - I else 0 := by
  rw [Notify.deltaSeq_eq]
  unfold Notify.deltaSeqSpec
  rw [h1, h2, h3, h4, h5, hAA, hOA, Utcp.Props.C13.gt_abs key I hw, Utcp.Props.C13.diff_abs key I ⟨by omega, hw.2⟩]
  by_cases hk : key > I <;> simp [hk]

end Utcp.Props.C20

namespace Utcp.Props.C20
open Utcp Utcp.Gen

theorem peek_burst (e : Env) (ep : Endpoint) (d : List UInt8) (key A O : Int) (hd : DataDg e d (key % 16384) A) (hR : RBurst A O ep)
    (hAA : seq_num_greater_equal A A = true) (hOA : seq_num_greater_than O A = true)
    (hw : -8192 < key - ep.c.inPacketId ∧ key - ep.c.inPacketId < 8192) :
    (ep.c.inPacketId < key → ep.peek e d = key) ∧ (key ≤ ep.c.inPacketId → ep.peek e d ≤ 0) := by
  obtain ⟨bits, s, c, rest, packed, r1, hist, r2, hri, hro, hne, hru, hrb, hseq, hack, _⟩ := hd
  have hp := peek_data e ep d bits rest r1 r2 s c packed hist hri hro hru hrb
  simp only at hp
  have hdelta := delta_burst ep.c.notify
    { seq := ((packed / 2^18 % 16384 : Nat) : Int), ackedSeq := ((packed / 16 % 16384 : Nat) : Int), words := min histWordsMax (packed % 16 + 1), hist := hist }
    ep.c.inPacketId key A O hR.2.2 hR.1 hR.2.1 hseq.symm hack.symm hAA hOA hw
  rw [hp, hdelta]
  constructor
  · intro hlt
    have : key > ep.c.inPacketId := hlt
    simp only [this, if_true]
    have : ¬ (key - ep.c.inPacketId ≤ 0) := by omega
    rw [if_neg this]; omega
  · intro hle
    have : ¬ (key > ep.c.inPacketId) := by omega
    simp only [this, if_false]
    simp

theorem step_burst {T} (tm : TimeOps T) (e : Env) (ep : Endpoint) (rng : Rng) (d : List UInt8) (key A O : Int)
    (hd : DataDg e d (key % 16384) A) (hR : RBurst A O ep)
    (hAA : seq_num_greater_equal A A = true) (hOA : seq_num_greater_than O A = true) (hAAn : seq_num_greater_than A A = false)
    (hw : -8192 < key - ep.c.inPacketId ∧ key - ep.c.inPacketId < 8192) :
    RBurst A O (ep.incoming tm e rng d).1 ∧
    ((ep.incoming tm e rng d).1.c.inPacketId = ep.c.inPacketId ∨
      (ep.c.inPacketId < key ∧ (ep.incoming tm e rng d).1.c.inPacketId = key)) := by
  obtain ⟨bits, s, c, rest, packed, r1, hist, r2, hri, hro, hne, hru, hrb, hseq, hack, hdec⟩ := hd
  unfold Endpoint.incoming
  simp only [hri, hro, Bool.false_eq_true, if_false, hne]
  generalize hc0 : ({ ep.c with lastSessionId := s, lastClientId := c, lastRecvMs := e.nowMs } : Conn) = c0
  have hn0 : c0.notify = ep.c.notify := by rw [← hc0]
  have hi0 : c0.inPacketId = ep.c.inPacketId := by rw [← hc0]
  unfold Conn.receivedPacket
  cases hdp : decodePacketHeader rest.dropLast with
  | error reason =>
    simp only
    refine ⟨?_, Or.inl ?_⟩
    · unfold RBurst
      simp only [markClose_notify, markClose_inPacketId, hn0, hi0]
      exact hR
    · simp only [markClose_inPacketId, hi0]
  | ok hb =>
    obtain ⟨h, body⟩ := hb
    obtain ⟨hs1, hs2⟩ := hdec h body hdp
    have hdelta := delta_burst c0.notify h ep.c.inPacketId key A O (by rw [hn0]; exact hR.2.2) (by rw [hn0]; exact hR.1) (by rw [hn0]; exact hR.2.1)
      hs1 hs2 hAA hOA hw
    simp only
    by_cases hk : key > ep.c.inPacketId
    · have hd' : c0.notify.deltaSeq h = key - ep.c.inPacketId := by rw [hdelta, if_pos hk]
      have hpos : ¬ (c0.notify.deltaSeq h ≤ 0) := by rw [hd']; omega
      rw [if_neg hpos]
      simp only
      -- the update of the notification state: nothing newly acknowledged, only InSeq moves
      have hupd : ∀ c1 : Conn, c1.notify = ep.c.notify → (c1.notifyUpdate e h).notify = { c1.notify with inSeq := h.seq } ∧
          (c1.notifyUpdate e h).inPacketId = c1.inPacketId := by
        intro c1 h1
        unfold Conn.notifyUpdate
        have : seq_num_greater_than h.ackedSeq c1.notify.outAckSeq = false := by rw [hs2, h1, hR.1]; exact hAAn
        simp only [this, Bool.false_eq_true, if_false]
        exact ⟨trivial, trivial⟩
      obtain ⟨hu1, hu2⟩ := hupd { c0 with inPacketId := c0.inPacketId + c0.notify.deltaSeq h } hn0
      generalize hc2 : ({ c0 with inPacketId := c0.inPacketId + c0.notify.deltaSeq h } : Conn).notifyUpdate e h = c2 at hu1 hu2
      have hsame := bunchLoop_sameN (body.length + 1) c2 body false
      generalize hr : Conn.bunchLoop (body.length + 1) c2 body false = r at hsame
      obtain ⟨c3, rest3, skip⟩ := r
      simp only at hsame ⊢
      have hk3 := ackSeqLoop_keeps 16384 c3.notify (seq_num_init (c3.inPacketId % 65536)) (!skip)
      have hI3 : c3.inPacketId = key := by
        rw [hsame.inPacketId, hu2]; simp only; rw [hi0, hd']; omega
      refine ⟨?_, Or.inr ⟨hk, hI3⟩⟩
      unfold RBurst Notify.ackSeq
      simp only
      rw [hk3.1, hk3.2.1, hk3.2.2, hsame.notify, hu1]
      simp only [hn0]
      exact ⟨hR.1, hR.2.1, by rw [hI3, hs1]⟩
    · have hd' : c0.notify.deltaSeq h = 0 := by rw [hdelta, if_neg hk]
      have hnp : c0.notify.deltaSeq h ≤ 0 := by rw [hd']; exact Int.le_refl _
      rw [if_pos hnp]
      simp only
      refine ⟨?_, Or.inl hi0⟩
      unfold RBurst
      rw [hn0, hi0]; exact hR

end Utcp.Props.C20

namespace Utcp.Props.C20
open Utcp Utcp.Gen

/-- **a burst of genuine data datagrams is a batch**: distinct full packet ids `key d` in `(I0, I0 + 8191]`, each datagram a data datagram whose header
carries `key d mod 2^14` and acknowledges nothing new (`A` = the receiver's `OutAckSeq`; the peer sent the burst without hearing from us in between).
Partial: a batch whose acknowledgement field advances runs the ACK/NAK handlers between the datagrams and is not covered by this instance. -/
theorem burst_is_batch {T} (tm : TimeOps T) (e : Env) (key : List UInt8 → Int) (ds : List (List UInt8)) (I0 Imax A O : Int)
    (hinj : ∀ a ∈ ds, ∀ b ∈ ds, key a = key b → a = b) (hnew : ∀ d ∈ ds, I0 < key d) (hup : ∀ d ∈ ds, key d ≤ Imax) (hwin : Imax ≤ I0 + 8191)
    (hdg : ∀ d ∈ ds, DataDg e d (key d % 16384) A)
    (hAA : seq_num_greater_equal A A = true) (hOA : seq_num_greater_than O A = true) (hAAn : seq_num_greater_than A A = false) :
    Batch tm e (RBurst A O) key ds I0 Imax := by
  refine ⟨hinj, hnew, hup, ?_, ?_⟩
  · intro d hd ep hR hlo hhi
    have := hnew d hd; have := hup d hd
    exact peek_burst e ep d (key d) A O (hdg d hd) hR hAA hOA ⟨by omega, by omega⟩
  · intro d hd ep rng hR hlo hhi
    have := hnew d hd; have := hup d hd
    exact step_burst tm e ep rng d (key d) A O (hdg d hd) hR hAA hOA hAAn ⟨by omega, by omega⟩

/-- **C20 for a burst**: genuine data datagrams with distinct packet ids within the sequence window, arriving in ANY order through the wrapper and then
flushed, leave exactly the state that arrival in sending order leaves: same bunches delivered in the same order, same acknowledgements recorded. -/
theorem burst_reordering_invisible {T} (tm : TimeOps T) (e : Env) (key : List UInt8 → Int) (ds : List (List UInt8)) (A O : Int)
    (w0 : Wrapped) (rng : Rng) (h0 : w0.cache = []) (hI0 : 0 ≤ w0.ep.c.inPacketId)
    (hA : w0.ep.c.notify.outAckSeq = A) (hO : w0.ep.c.notify.outSeq = O) (hin : w0.ep.c.notify.inSeq = w0.ep.c.inPacketId % 16384)
    (hinj : ∀ a ∈ ds, ∀ b ∈ ds, key a = key b → a = b) (hnd : ds.Nodup)
    (hrange : ∀ d ∈ ds, w0.ep.c.inPacketId < key d ∧ key d ≤ w0.ep.c.inPacketId + 8191)
    (hdg : ∀ d ∈ ds, DataDg e d (key d % 16384) A)
    (hAA : seq_num_greater_equal A A = true) (hOA : seq_num_greater_than O A = true) (hAAn : seq_num_greater_than A A = false)
    (arr1 arr2 : List (List UInt8)) (h1 : arr1.Perm ds) (h2 : arr2.Perm ds) :
    runBatch tm e w0 rng arr1 = runBatch tm e w0 rng arr2 :=
  reordering_invisible tm e (RBurst A O) key ds (w0.ep.c.inPacketId + 8191) w0 rng h0 ⟨hA, hO, hin⟩ hI0 (by omega)
    (burst_is_batch tm e key ds _ _ A O hinj (fun d hd => (hrange d hd).1) (fun d hd => (hrange d hd).2) (Int.le_refl _) hdg hAA hOA hAAn)
    hnd arr1 arr2 h1 h2

end Utcp.Props.C20

namespace Utcp.Props.C20
open Utcp Utcp.Gen

/-! non-vacuity: concrete data datagrams (packet ids 101 and 102, both acknowledging 7) meet `DataDg`, and a receiver state is `RBurst` for them -/
def exRest (seq : Nat) : Bits := natToBits (seq * 2 ^ 18 + 7 * 16) 32 ++ List.replicate 32 false ++ [false, true]

theorem exDg (seq : Nat) (d : List UInt8) (hs : seq = 101 ∨ seq = 102)
    (hd : readInit d = some ([false, false, false, false, false, false] ++ exRest seq)) : DataDg {} d (seq % 16384) 7 := by
  refine ⟨_, 0, 0, exRest seq, seq * 2 ^ 18 + 7 * 16, List.replicate 32 false ++ [false, true], List.replicate 32 false, [false, true], hd, ?_, ?_, ?_, ?_, ?_, ?_, ?_⟩
  · rcases hs with rfl | rfl <;> rfl
  · rcases hs with rfl | rfl <;> rfl
  · rcases hs with rfl | rfl <;> rfl
  · rcases hs with rfl | rfl <;> rfl
  · rcases hs with rfl | rfl <;> decide
  · rcases hs with rfl | rfl <;> decide
  · intro h body hdec
    rcases hs with rfl | rfl
    · have hv : decodePacketHeader (exRest 101).dropLast = .ok (⟨101, 7, 1, List.replicate 32 false⟩, []) := by rfl
      rw [hv] at hdec
      injection hdec with hdec
      injection hdec with h1 h2
      subst h1; decide
    · have hv : decodePacketHeader (exRest 102).dropLast = .ok (⟨102, 7, 1, List.replicate 32 false⟩, []) := by rfl
      rw [hv] at hdec
      injection hdec with hdec
      injection hdec with h1 h2
      subst h1; decide

example : DataDg {} [0, 28, 0, 101, 0, 0, 0, 0, 128, 1] (101 % 16384) 7 := exDg 101 _ (Or.inl rfl) (by decide)
example : DataDg {} [0, 28, 0, 102, 0, 0, 0, 0, 128, 1] (102 % 16384) 7 := exDg 102 _ (Or.inr rfl) (by decide)
example : RBurst 7 9 { c := { inPacketId := 100, notify := { inSeq := 100, outAckSeq := 7, outSeq := 9 } } } ∧
    seq_num_greater_equal 7 7 = true ∧ seq_num_greater_than 9 7 = true ∧ seq_num_greater_than 7 7 = false :=
  ⟨⟨rfl, rfl, by decide⟩, by decide, by decide, by decide⟩

end Utcp.Props.C20
