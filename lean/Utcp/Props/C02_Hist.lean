import Utcp.Lemmas.RegRun
/-!
# C02, over every history — the receiver's register always means what the sender takes it to mean
-/
namespace Utcp.Props.C02Hist
open Utcp Utcp.Gen Utcp.Props

/-- the acknowledgement requests recorded so far: strictly increasing packet ids (newest first), none beyond the counter -/
def Requests (calls : List (Int × Bool)) (pid : Int) : Prop := (calls.map (·.1)).Pairwise (· > ·) ∧ ∀ q ∈ calls, q.1 ≤ pid

/-- **over every history** (sends valid or not, flushes, incoming packets of any bits, updates): the receiver's 256-bit register is
described by the ghost lists — which packets it was asked to acknowledge, with which verdict — requests were made for strictly
increasing packet ids, one per accepted packet, and nothing else ever touches the register -/
theorem run_rconn (ops : List (Env × C18.Op)) : ∀ (c : Conn) (tg calls : List (Int × Bool)), C02.RConn c tg calls → Requests calls c.inPacketId →
    ∃ tg' calls', C02.RConn (C18.run c ops) tg' calls' ∧ Requests calls' (C18.run c ops).inPacketId ∧ ∃ more, calls' = more ++ calls := by
  induction ops with
  | nil => intro c tg calls h hr; exact ⟨tg, calls, h, hr, [], rfl⟩
  | cons p rest ih =>
    intro c tg calls h hr
    obtain ⟨e, op⟩ := p
    have hsame : ∀ c', RegSame c c' → ∃ tg' calls', C02.RConn (C18.run c' rest) tg' calls' ∧ Requests calls' (C18.run c' rest).inPacketId ∧ ∃ more, calls' = more ++ calls := by
      intro c' hs
      exact ih c' tg calls (hs.rconn h) (by rw [hs.inPacketId]; exact hr)
    cases op with
    | send b => exact hsame _ (sendBunch_regsame e c b)
    | flush => exact hsame _ (RegSame.of_keeps (flush_keeps e c))
    | update => exact hsame _ (update_regsame e c)
    | recv bits =>
      rcases C02.receivedPacket_rconn e c bits tg calls h with ⟨h1, h2⟩ | ⟨h1, tg', refused, h2⟩
      · exact ih _ tg calls h1 (by show Requests calls (c.receivedPacket e bits).1.inPacketId; rw [h2]; exact hr)
      · have hr' : Requests (((c.receivedPacket e bits).1.inPacketId, !refused) :: calls) (c.receivedPacket e bits).1.inPacketId := by
          refine ⟨?_, ?_⟩
          · simp only [List.map_cons, List.pairwise_cons]
            refine ⟨?_, hr.1⟩
            intro a ha
            obtain ⟨q, hq, rfl⟩ := List.mem_map.mp ha
            have := hr.2 q hq
            omega
          · intro q hq
            rcases List.mem_cons.mp hq with rfl | hq
            · exact Int.le_refl _
            · have := hr.2 q hq; omega
        obtain ⟨tg2, calls2, r1, r2, more, r3⟩ := ih _ tg' _ h2 hr'
        exact ⟨tg2, calls2, r1, r2, more ++ [((c.receivedPacket e bits).1.inPacketId, !refused)], by rw [r3]; simp⟩

/-- … in particular from `utcp_sequence_init` -/
theorem fresh_run_rconn (ops : List (Env × C18.Op)) (i o : Int) :
    ∃ tg calls, C02.RConn (C18.run (({} : Conn).seqInit i o) ops) tg calls ∧ Requests calls (C18.run (({} : Conn).seqInit i o) ops).inPacketId :=
  let ⟨tg, calls, h1, h2, _⟩ := run_rconn ops _ [] [] (C02.seqInit_rconn _ i o) ⟨by simp, by intro q hq; cases hq⟩
  ⟨tg, calls, h1, h2⟩

/-- **ACK only if accepted, at any point of any history**: whatever the receiver `R` has been through, for every delivery status
`(p, true)` a sender `c` (whose bookkeeping invariant holds) derives from a header `R` writes now — with any number of history words —
the receiver accepted a packet `q ≡ p (mod 2^14)` within its 256-packet register and refused none of its bunches -/
theorem ack_only_if_accepted (ops : List (Env × C18.Op)) (i o : Int) (c : Conn) (hinv : C02.Inv c) (w : Nat) :
    ∃ calls : List (Int × Bool), Requests calls (C18.run (({} : Conn).seqInit i o) ops).inPacketId ∧
      ∀ p, p ∈ C02.expected c.lastNotified (C02.ackVerdicts c ((C18.run (({} : Conn).seqInit i o) ops).notify.headerWith w)) → p.2 = true →
        ∃ idx : Nat, p.1 % 16384 = ((C18.run (({} : Conn).seqInit i o) ops).inPacketId - (idx : Int)) % 16384 ∧
          ((C18.run (({} : Conn).seqInit i o) ops).inPacketId - (idx : Int), true) ∈ calls := by
  obtain ⟨tg, calls, h1, h2⟩ := fresh_run_rconn ops i o
  refine ⟨calls, h2, ?_⟩
  intro p hp ht
  obtain ⟨idx, e1, e2, _⟩ := C02.status_exact c _ tg calls w h1 hinv p hp
  exact ⟨idx, e1, e2 ht⟩

end Utcp.Props.C02Hist
