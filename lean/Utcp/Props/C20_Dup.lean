import Utcp.Props.C20_Reorder
/-! # C20, continued: a duplicate of a datagram that was already accepted is invisible -/
namespace Utcp.Props.C20
open Utcp Utcp.Gen

/-- **a duplicate is invisible**: a genuine data datagram whose id is not ahead of the counter any more (it, or a later one, was accepted before), handed
to the core of a receiver that has already heard a datagram with the same session / client id at this clock reading, leaves the endpoint exactly as it
was - nothing delivered, nothing acknowledged, no field changed.  Through the wrapper the same: its peek is non-positive, so it bypasses the cache. -/
theorem duplicate_is_invisible {T} (tm : TimeOps T) (e : Env) (w : Wrapped) (rng : Rng) (d : List UInt8) (key A O : Int)
    (bits : Bits) (s c : Nat) (rest : Bits) (hri : readInit d = some bits) (hro : readOutgoingHeader e bits = .ok (s, c, false) rest)
    (hd : DataDg e d (key % 16384) A) (hparse : ∃ h body, decodePacketHeader rest.dropLast = .ok (h, body)) (hR : RBurst A O w.ep)
    (hheard : w.ep.c.lastSessionId = s ∧ w.ep.c.lastClientId = c ∧ w.ep.c.lastRecvMs = e.nowMs)
    (hAA : seq_num_greater_equal A A = true) (hOA : seq_num_greater_than O A = true)
    (hw : key ≤ w.ep.c.inPacketId ∧ w.ep.c.inPacketId - key < 8192) :
    w.incoming tm e rng d = (w, rng) := by
  have hpk := (peek_burst e w.ep d key A O hd hR hAA hOA ⟨by omega, by omega⟩).2 hw.1
  obtain ⟨bits', s', c', rest', packed, r1, hist, r2, hri', hro', hne, hru, hrb, hseq, hack, hdec⟩ := hd
  rw [hri] at hri'; cases hri'
  rw [hro] at hro'; cases hro'
  unfold Wrapped.incoming
  simp only [hpk, if_true]
  have hep : (w.ep.incoming tm e rng d).1 = w.ep ∧ (w.ep.incoming tm e rng d).2.1 = rng := by
    unfold Endpoint.incoming
    simp only [hri, hro, Bool.false_eq_true, if_false, hne]
    have hc0 : ({ w.ep.c with lastSessionId := s, lastClientId := c, lastRecvMs := e.nowMs } : Conn) = w.ep.c := by
      obtain ⟨h1, h2, h3⟩ := hheard
      cases hc : w.ep.c
      rw [hc] at h1 h2 h3
      simp only at h1 h2 h3
      subst h1; subst h2; subst h3; rfl
    rw [hc0]
    unfold Conn.receivedPacket
    cases hdp : decodePacketHeader rest.dropLast with
    | error reason =>
      obtain ⟨h, body, hp⟩ := hparse
      rw [hp] at hdp; cases hdp
    | ok hb =>
      obtain ⟨h, body⟩ := hb
      obtain ⟨hs1, hs2⟩ := hdec h body hdp
      have hdelta := delta_burst w.ep.c.notify h w.ep.c.inPacketId key A O hR.2.2 hR.1 hR.2.1 hs1 hs2 hAA hOA ⟨by omega, by omega⟩
      have hk : ¬ (key > w.ep.c.inPacketId) := by omega
      rw [if_neg hk] at hdelta
      simp only
      have hnp : w.ep.c.notify.deltaSeq h ≤ 0 := by rw [hdelta]; exact Int.le_refl _
      rw [if_pos hnp]
      refine ⟨?_, trivial⟩
      cases hw' : w.ep
      rfl
  generalize hr : w.ep.incoming tm e rng d = r at hep
  obtain ⟨ep', rng', ok⟩ := r
  simp only at hep ⊢
  obtain ⟨h1, h2⟩ := hep
  subst h1; subst h2
  rfl

end Utcp.Props.C20
