import Utcp.Props.C09_Bytes
/-!
# C17 at the level of the byte array: what fresh memory held does not reach a parsed bunch

`utcp_bunch_read` receives a bunch node that comes from the allocator.  In the byte-array model of `Utcp/ByteBuf.lean` the node's data array is an explicit
argument of the parser (`lDecodeBunch data`), so "regardless of what the memory returned by the allocator happened to contain" can be *stated*: the array may
hold any bytes.  The theorems below say that nothing of it survives into what the parser returns — fields, payload bits, cursor, success or failure.
(The C function additionally `memset`s the node; the theorem shows that the *result* does not depend on it.  What depends on it are the node's other fields
and the bytes of the data array above the payload, which the model does not return; `C12_Bytes.readBits_refines` shows that inside the last payload byte the bits
above the run are cleared.  The seeded change C17-c — the `memset` removed — is caught by the fill-twin runs on the real code, not by this theorem.)
-/
namespace Utcp.BB
open Utcp

/-- **the parsed bunch does not depend on the previous contents of its node**: two data arrays of the library's size holding *any* bytes, the same datagram
image, cursor and logical end ⇒ the same bunch (or the same failure) and the same cursor -/
theorem parse_independent_of_node_contents (b : Buf) (hb : RB b) (d d' : Mem) (hd : BytesOK d) (hd' : BytesOK d')
    (hl : 1024 ≤ d.length) (hl' : 1024 ≤ d'.length) :
    ∃ r b1 b2, lDecodeBunch d b = some (r, b1) ∧ lDecodeBunch d' b = some (r, b2) ∧ b1.num = b2.num ∧ b1.mem = b2.mem ∧ b1.size = b2.size := by
  obtain ⟨r, b1, h1, hrb1, hm1, hs1, hS1⟩ := lDecodeBunch_refines d hd hl b hb
  obtain ⟨r', b2, h2, hrb2, hm2, hs2, hS2⟩ := lDecodeBunch_refines d' hd' hl' b hb
  have hrest : ∀ (x y : Buf), x.mem = y.mem → x.size = y.size → RB x → RB y → (rest x).length = (rest y).length → x.num = y.num := by
    intro x y _ hsz hx hy hlen
    have := hx.num; have := hy.num
    unfold rest at hlen
    simp only [bitsFrom_length] at hlen
    omega
  rw [hS1] at hS2
  have hmem : b1.mem = b2.mem := by rw [hm1, hm2]
  have hsize : b1.size = b2.size := by rw [hs1, hs2]
  cases r with
  | none =>
    cases r' with
    | none =>
      simp only [RR.fail.injEq] at hS2
      exact ⟨none, b1, b2, h1, h2, hrest _ _ hmem hsize hrb1 hrb2 (by rw [hS2]), hmem, hsize⟩
    | some v' => simp at hS2
  | some v =>
    cases r' with
    | none => simp at hS2
    | some v' =>
      simp only [RR.ok.injEq] at hS2
      obtain ⟨hv, hr⟩ := hS2
      subst hv
      exact ⟨some v, b1, b2, h1, h2, hrest _ _ hmem hsize hrb1 hrb2 (by rw [hr]), hmem, hsize⟩

/-! non-vacuity: a three-byte image parsed into a zeroed node and into a node full of `0xA5` -/
example : BytesOK (List.replicate 1024 0xA5) ∧ BytesOK (List.replicate 1024 0) ∧ 1024 ≤ (List.replicate 1024 0xA5).length := by
  refine ⟨?_, ?_, by rw [List.length_replicate]; exact Nat.le_refl _⟩ <;> intro x hx <;> rw [List.mem_replicate] at hx <;> omega

end Utcp.BB
