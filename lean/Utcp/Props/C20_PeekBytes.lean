import Utcp.Props.C09_Init
/-!
# C20 / C09 at the level of the byte array: the packet-id peek

`utcp_peep_packet_id` — `bitbuf_read_init`, `read_packet_header`, then `PeekPacketId`: `packet_notify_read_header` (packed word, history words one by one) and
the acceptance test — on the byte array.  For every byte string it touches nothing outside the datagram and its small locals, changes no state (it has none to
change: the function below takes the connection only to read two counters) and returns exactly what the bit-level `Endpoint.peek` returns, the function the
C20 theorems are about.
-/
namespace Utcp.BB
open Utcp

/-- `utcp_peep_packet_id` from the read buffer on -/
def lPeek (e : Env) (c : Conn) (m4 s1 c1 : Mem) (b : Buf) : Option Int :=
  match lReadOutgoingHeader e m4 s1 c1 b with
  | none => none
  | some (none, _) => some (-2)
  | some (some (_, _, true), _) => some 0
  | some (some (_, _, false), b1) =>
    match lReadU32 b1 with
    | none => none
    | some (none, _) => some (-1)
    | some (some packed, b2) =>
      match lReadWords (min histWordsMax ((packed % 16) + 1)) b2 with
      | none => none
      | some (none, _) => some (-2)
      | some (some ws, _) =>
        let d := c.notify.deltaSeq (notifOf packed ws)
        some (if d ≤ 0 then -8 else c.inPacketId + d)

/-- **the peek on the byte array is the bit-level peek, and never leaves the datagram**: for every byte string that `bitbuf_read_init` accepts -/
theorem lPeek_refines (e : Env) (he : e.magicBits ≤ 32) (ep : Endpoint) (bytes : List UInt8) (bits : Bits) (hinit : Utcp.readInit bytes = some bits)
    (m4 s1 c1 : Mem) (hm : BytesOK m4) (hs : BytesOK s1) (hc : BytesOK c1) (lm : 4 ≤ m4.length) (ls : 1 ≤ s1.length) (lc : 1 ≤ c1.length) :
    ∃ rb, readInit (memOf bytes) = some (true, rb) ∧ lPeek e ep.c m4 s1 c1 rb = some (ep.peek e bytes) := by
  obtain ⟨n, h1, hrest, hrb⟩ := readInit_accepts bytes bits hinit
  refine ⟨_, h1, ?_⟩
  unfold Endpoint.peek lPeek
  rw [hinit]
  simp only
  obtain ⟨r1, b1, g1, hrb1, _, _, hS1⟩ := lReadOutgoingHeader_refines e he m4 s1 c1 hm hs hc lm ls lc _ hrb
  rw [hrest] at hS1
  rw [g1, hS1]
  cases r1 with
  | none => rfl
  | some v =>
    obtain ⟨s, cl, isHs⟩ := v
    cases isHs with
    | true => rfl
    | false =>
      simp only [Bool.false_eq_true, if_false]
      obtain ⟨r2, b2, g2, hrb2, _, _, hS2⟩ := lReadU32_refines b1 hrb1
      rw [g2, hS2]
      cases r2 with
      | none => rfl
      | some packed =>
        simp only
        obtain ⟨r3, b3, g3, hrb3, _, _, hS3⟩ := lReadWords_refines (min histWordsMax ((packed % 16) + 1)) b2 hrb2
        rw [g3]
        by_cases hfit : 32 * (min histWordsMax ((packed % 16) + 1)) ≤ (rest b2).length
        · obtain ⟨ws, hws, _, _⟩ := readWords_ok _ (rest b2) hfit
          rw [hws] at hS3
          have hrb : Utcp.readBits (32 * (min histWordsMax ((packed % 16) + 1))) (rest b2) =
              .ok ((rest b2).take (32 * (min histWordsMax ((packed % 16) + 1)))) ((rest b2).drop (32 * (min histWordsMax ((packed % 16) + 1)))) := by
            unfold Utcp.readBits; rw [if_pos hfit]
          rw [hrb]
          cases r3 with
          | none => simp at hS3
          | some ws' =>
            simp only [RR.ok.injEq] at hS3
            obtain ⟨hw, _⟩ := hS3
            subst hw
            rfl
        · obtain ⟨r, hr⟩ := readWords_fail _ (rest b2) hfit
          rw [hr] at hS3
          have hrb : Utcp.readBits (32 * (min histWordsMax ((packed % 16) + 1))) (rest b2) = .fail (rest b2) := by
            unfold Utcp.readBits; rw [if_neg hfit]
          rw [hrb]
          cases r3 with
          | none => rfl
          | some ws' => simp at hS3

/-- … and what `bitbuf_read_init` refuses is answered `-1` by both -/
theorem lPeek_refused (e : Env) (ep : Endpoint) (bytes : List UInt8) (h : Utcp.readInit bytes = none) :
    ep.peek e bytes = -1 ∧ ∃ rb, readInit (memOf bytes) = some (false, rb) :=
  ⟨by unfold Endpoint.peek; rw [h], readInit_refuses_link bytes h⟩

/-! non-vacuity: locals of the sizes the C declares -/
example : BytesOK [0, 0, 0, 0] ∧ 4 ≤ [0, 0, 0, 0].length := ⟨by intro x hx; simp at hx; omega, by decide⟩

end Utcp.BB
