import Utcp.Props.C09_Header
/-!
# C09 at the level of the byte array: `ReceivedPacket` as a whole

`ReceivedPacket` (`utcp_packet.c`) reads the datagram through the bit buffer in three places only: `packet_header_read`, the loop condition
`bitbuf->num < bitbuf->size`, and one `utcp_bunch_read` per iteration into a node that comes fresh from the allocator.  Everything else it does is state handling
that never looks at the buffer.  This file writes that structure down over the byte-array model (`lReceivedPacket`), with the state handling *shared* with the
bit-level model (`handleDecoded` is `Conn.receivedRawBunch` minus the decoding, `receivedRawBunch_eq`), and proves:

* `lReceivedPacket_refines` — for every datagram image, cursor and logical end, every connection state, and whatever the allocator's nodes contain, the byte-level
  `ReceivedPacket` touches no byte outside the datagram's valid bytes, the header's `FrameTimeByte` and the data arrays of its nodes, and ends in exactly the
  state and return value of the bit-level `Conn.receivedPacket` — the function all the history theorems (C01–C04, C10, C16, C18) are about;
* `received_packet_independent_of_node_contents` (C17) — so two runs whose nodes held different garbage end in the same state.
-/
namespace Utcp.BB
open Utcp

/-- `ReceivedRawBunch` after `utcp_bunch_read` has returned: the state handling (`none` = the read failed) -/
def handleDecoded (c : Conn) : Option Bunch → Conn × Bool
  | none => (((c.emit (.alloc .node)).markClose crBunchOverflow).emit (.free .node), false)
  | some b =>
    let c := c.emit (.alloc .node)
    let b := { b with packetId := c.inPacketId }
    if b.chIndex ≥ maxChannels then ((c.markClose crBunchBadChannelIndex).emit (.free .node), false) else
    match (c.getOrCreateChan b true).2 with
    | none => ((c.getOrCreateChan b true).1.emit (.free .node), false)
    | some x =>
      let r := (c.getOrCreateChan b true).1.processBunch x (absSeq (c.getOrCreateChan b true).1 x b)
      (r.1.dispatchAll b.chIndex, r.2)

/-- the bit-level `ReceivedRawBunch` is: decode, then `handleDecoded` -/
theorem receivedRawBunch_eq (c : Conn) (bits : Bits) :
    c.receivedRawBunch bits = (match decodeBunch bits with
      | .fail rest => ((handleDecoded c none).1, rest, (handleDecoded c none).2)
      | .ok b rest => ((handleDecoded c (some b)).1, rest, (handleDecoded c (some b)).2)) := by
  unfold Conn.receivedRawBunch handleDecoded
  cases decodeBunch bits with
  | fail rest => rfl
  | ok b rest =>
    simp only
    by_cases hch : b.chIndex ≥ maxChannels
    · simp only [hch, if_true]
    · simp only [hch, if_false]
      generalize (c.emit (.alloc .node)).getOrCreateChan _ true = g
      rcases g with ⟨g1, g2⟩
      cases g2 <;> rfl

/-- the bunch loop of `ReceivedPacket` on the byte array; `nodes k` is the data array of the node the allocator hands out for the iteration with `k` iterations
still allowed — any contents -/
def lBunchLoop (nodes : Nat → Mem) : Nat → Conn → Buf → Bool → Option (Conn × Buf × Bool)
  | 0, c, b, skip => some (c, b, skip)
  | fuel + 1, c, b, skip =>
    if b.num < b.size then
      match lDecodeBunch (nodes fuel) b with
      | none => none
      | some (r, b') => lBunchLoop nodes fuel (handleDecoded c r).1 b' (skip || (handleDecoded c r).2)
    else some (c, b, skip)

theorem rest_isEmpty (b : Buf) (hb : RB b) : (rest b).isEmpty = !decide (b.num < b.size) := by
  have hl : (rest b).length = b.size - b.num := by unfold rest; simp
  have := hb.num
  by_cases h : b.num < b.size
  · have : (rest b) ≠ [] := by intro h0; rw [h0] at hl; simp at hl; omega
    simp [h, this]
  · have : rest b = [] := List.eq_nil_of_length_eq_zero (by omega)
    simp [h, this]

/-- what the allocator may hand out: arrays of bytes of the library's node size -/
def NodesOK (nodes : Nat → Mem) : Prop := ∀ k, BytesOK (nodes k) ∧ 1024 ≤ (nodes k).length

theorem lBunchLoop_refines (nodes : Nat → Mem) (hn : NodesOK nodes) : ∀ (fuel : Nat) (c : Conn) (b : Buf) (skip : Bool), RB b →
    ∃ c' b' s, lBunchLoop nodes fuel c b skip = some (c', b', s) ∧ RB b' ∧ b'.mem = b.mem ∧ b'.size = b.size ∧
      Conn.bunchLoop fuel c (rest b) skip = (c', rest b', s) := by
  intro fuel
  induction fuel with
  | zero => intro c b skip hb; exact ⟨c, b, skip, rfl, hb, rfl, rfl, rfl⟩
  | succ fuel ih =>
    intro c b skip hb
    unfold lBunchLoop Conn.bunchLoop
    rw [rest_isEmpty b hb]
    by_cases hlt : b.num < b.size
    · simp only [hlt, decide_true, Bool.not_true, Bool.false_eq_true, if_false, if_true]
      obtain ⟨r, b1, h1, hrb1, hm1, hs1, hS1⟩ := lDecodeBunch_refines (nodes fuel) (hn fuel).1 (hn fuel).2 b hb
      rw [h1, receivedRawBunch_eq, hS1]
      obtain ⟨c', b', s, h2, hrb2, hm2, hs2, hS2⟩ := ih (handleDecoded c r).1 b1 (skip || (handleDecoded c r).2) hrb1
      refine ⟨c', b', s, h2, hrb2, hm2.trans hm1, hs2.trans hs1, ?_⟩
      cases r with
      | none => exact hS2
      | some v => exact hS2
    · simp only [hlt, decide_false, Bool.not_false, if_true, if_false]
      exact ⟨c, b, skip, rfl, hb, rfl, rfl, rfl⟩

/-- `ReceivedPacket` on the byte array -/
def lReceivedPacket (e : Env) (c : Conn) (frameTimeByte : Mem) (nodes : Nat → Mem) (b : Buf) : Option (Conn × Bool) :=
  match lDecodePacketHeader frameTimeByte b with
  | none => none
  | some (.error reason, _) => some (c.markClose reason, false)
  | some (.ok h, b1) =>
    let delta := c.notify.deltaSeq h
    if delta ≤ 0 then some (c, !decide (b1.num < b1.size)) else
    let c := { c with inPacketId := c.inPacketId + delta }
    let c := c.notifyUpdate e h
    match lBunchLoop nodes (b1.size - b1.num + 1) c b1 false with
    | none => none
    | some (c, b2, skip) =>
      let c := { c with notify := c.notify.ackSeq c.inPacketId (!skip) }
      some (c, !decide (b2.num < b2.size))

/-- **`ReceivedPacket` on the byte array is the bit-level `Conn.receivedPacket`, and never leaves its arrays**: any datagram image, cursor and logical end,
any connection state, any contents of the nodes the allocator hands out -/
theorem lReceivedPacket_refines (e : Env) (c : Conn) (fb : Mem) (hfb : BytesOK fb) (hl : 1 ≤ fb.length) (nodes : Nat → Mem) (hn : NodesOK nodes)
    (b : Buf) (hb : RB b) : lReceivedPacket e c fb nodes b = some (c.receivedPacket e (rest b)) := by
  unfold lReceivedPacket Conn.receivedPacket
  obtain ⟨r, b1, h1, hrb1, hm1, hs1, hS1⟩ := lDecodePacketHeader_refines fb hfb hl b hb
  rw [h1, hS1]
  cases r with
  | error reason => rfl
  | ok h =>
    simp only
    split
    · rw [rest_isEmpty b1 hrb1]
    · have hlen : (rest b1).length = b1.size - b1.num := by unfold rest; simp
      rw [hlen]
      obtain ⟨c', b2, s, h2, hrb2, _, _, hS2⟩ := lBunchLoop_refines nodes hn (b1.size - b1.num + 1)
        ({ c with inPacketId := c.inPacketId + c.notify.deltaSeq h }.notifyUpdate e h) b1 false hrb1
      rw [h2, hS2]
      simp only
      rw [rest_isEmpty b2 hrb2]

/-- **no datagram makes `ReceivedPacket` touch memory it does not own**, in any state -/
theorem received_packet_never_faults (e : Env) (c : Conn) (fb : Mem) (hfb : BytesOK fb) (hl : 1 ≤ fb.length) (nodes : Nat → Mem) (hn : NodesOK nodes)
    (b : Buf) (hb : RB b) : ∃ r, lReceivedPacket e c fb nodes b = some r :=
  ⟨_, lReceivedPacket_refines e c fb hfb hl nodes hn b hb⟩

/-- **C17 for the receive path**: what the allocator's nodes (and the uninitialised `FrameTimeByte`) contained does not influence the state `ReceivedPacket`
leaves, the callbacks it makes (they are part of the state's event log) or its return value -/
theorem received_packet_independent_of_node_contents (e : Env) (c : Conn) (fb fb' : Mem) (hfb : BytesOK fb) (hfb' : BytesOK fb') (hl : 1 ≤ fb.length)
    (hl' : 1 ≤ fb'.length) (nodes nodes' : Nat → Mem) (hn : NodesOK nodes) (hn' : NodesOK nodes') (b : Buf) (hb : RB b) :
    lReceivedPacket e c fb nodes b = lReceivedPacket e c fb' nodes' b := by
  rw [lReceivedPacket_refines e c fb hfb hl nodes hn b hb, lReceivedPacket_refines e c fb' hfb' hl' nodes' hn' b hb]

/-! non-vacuity: nodes full of `0xA5` are admissible -/
example : NodesOK (fun _ => List.replicate 1452 0xA5) := by
  intro k
  refine ⟨?_, by rw [List.length_replicate]; decide⟩
  intro x hx
  rw [List.mem_replicate] at hx
  omega

end Utcp.BB
