import Utcp.Lemmas.Log
import Utcp.Handshake
/-!
# C16 — all memory is returned; acknowledged data is not retained

The model emits an `alloc k` / `free k` event at exactly the places the C code calls `utcp_realloc` (the
correspondence runs compare these event streams op by op with the allocator callback of the real code).  Proved
here: the teardown half of the balance — un-initialising a connection emits exactly one `free` per block the state
holds, whatever that state is — and the release rules of the data path (an ACK releases exactly the records of
that packet; a delivered or refused fragment group is released as a whole).  The full balance invariant
`live = held` over arbitrary histories, and pointer-level double-free / use-after-free, are *not* proved: they
are observed (allocator event correspondence, unknown-pointer detection, LeakSanitizer, `live 0` after every
teardown and after every prefix).
-/
namespace Utcp.Props.C16
open Utcp Utcp.Gen

/-- number of `free` events of kind `k` in a list of events -/
def frees (k : Kind) (evs : List Event) : Nat := (evs.filter fun ev => ev == .free k).length

/-- blocks a channel holds besides itself -/
def Channel.nodes (x : Channel) : Nat := x.inRec.length + x.outRec.length + x.inPartial.length

theorem replicate_snoc {α} (k : Nat) (a : α) (l : List α) : List.replicate k a ++ a :: l = a :: (List.replicate k a ++ l) := by
  induction k with
  | zero => rfl
  | succ k ih => simp [List.replicate_succ, ih]

theorem freeNodes_log (c : Conn) (k : Nat) : (c.freeNodes k).log = List.replicate k (.free .node) ++ c.log := by
  unfold Conn.freeNodes
  induction k generalizing c with
  | zero => simp
  | succ k ih =>
    rw [List.range_succ, List.foldl_append]
    simp only [List.foldl_cons, List.foldl_nil, emit_log, ih]
    rw [List.replicate_succ]
    simp

theorem replicate_append {α} (m n : Nat) (a : α) : List.replicate m a ++ List.replicate n a = List.replicate (m + n) a := by
  induction m with
  | zero => simp
  | succ m ih => simp [List.replicate_succ, ih, Nat.succ_add]

/-- **`free_utcp_channel` returns everything the channel holds**: one `free node` per queued / retained / half-assembled
bunch, then the channel block itself -/
theorem freeChan_log (c : Conn) (x : Channel) :
    (c.freeChan x).log = .free .chan :: (List.replicate (Channel.nodes x) (.free .node) ++ c.log) := by
  unfold Conn.freeChan Channel.nodes
  simp only [emit_log, freeNodes_log]
  congr 1
  rw [← List.append_assoc, ← List.append_assoc, replicate_append, replicate_append]
  congr 2
  omega

/-- an ACK releases exactly the retransmission records of that packet (they sit at the head of the list) and nothing
else; what stays is untouched -/
theorem removeOutgoing_partition (pid : Int) (l : List OutNode) :
    (removeOutgoing pid l).1.length + (removeOutgoing pid l).2.length = l.length ∧ (∀ n ∈ (removeOutgoing pid l).1, n.packetId = pid) := by
  induction l with
  | nil => simp [removeOutgoing]
  | cons n rest ih =>
    unfold removeOutgoing
    split
    · rename_i h
      simp only [List.length_cons]
      refine ⟨by omega, ?_⟩
      intro m hm
      rcases List.mem_cons.mp hm with rfl | hm
      · simpa using h
      · exact ih.2 m hm
    · split
      · simp
      · simp only [List.length_cons]
        exact ⟨by omega, ih.2⟩

/-- once every record of a channel has been acknowledged nothing is retained for retransmission -/
theorem removeOutgoing_all (pid : Int) (l : List OutNode) (h : ∀ n ∈ l, n.packetId = pid) : (removeOutgoing pid l).2 = [] := by
  induction l with
  | nil => simp [removeOutgoing]
  | cons n rest ih =>
    unfold removeOutgoing
    have hn : (n.packetId == pid) = true := by simp [h n List.mem_cons_self]
    simp only [hn, if_true]
    exact ih (fun m hm => h m (List.mem_cons_of_mem _ hm))

/-- teardown of a connection object: the challenge block (client) and the connection block are returned exactly once -/
theorem destroy_frees_conn (ep : Endpoint) :
    ∃ evs, (ep.destroy).c.log = .free .conn :: evs ∧ (ep.destroy).chal = none ∧
      ((ep.chal.isSome = true → ∃ evs', evs = .free .chal :: evs') ∧ (ep.chal.isSome = false → ∀ ev ∈ evs, ev ≠ .free .chal ∨ ev ∈ ep.c.log)) := by
  unfold Endpoint.destroy
  refine ⟨_, rfl, rfl, ?_, ?_⟩
  · intro h; simp only [h, if_true, emit_log]; exact ⟨_, rfl⟩
  · intro h
    simp only [h, Bool.false_eq_true, if_false]
    intro ev hev
    unfold Conn.uninitChans at hev
    simp only at hev
    by_cases he : ev = .free .chal
    · right
      subst he
      -- frees emitted by the channel teardown are `free node` / `free chan` / `free open`, never `free chal`
      have key : ∀ (l : List (Nat × Channel)) (c : Conn), Event.free Kind.chal ∈ (l.foldl (fun c p => c.freeChan p.2) c).log → Event.free Kind.chal ∈ c.log := by
        intro l
        induction l with
        | nil => intro c h; exact h
        | cons p rest ih =>
          intro c h
          have := ih _ h
          rw [freeChan_log] at this
          simp only [List.mem_cons, List.mem_append, List.mem_replicate] at this
          rcases this with h1 | ⟨_, h1⟩ | h1
          · cases h1
          · cases h1
          · exact h1
      split at hev
      · simp only [emit_log, List.mem_cons] at hev
        rcases hev with h1 | h1
        · cases h1
        · have := key _ _ h1; rw [markClose_log] at this; exact this
      · have := key _ _ hev; rw [markClose_log] at this; exact this
    · left; exact he

/-! non-vacuity -/
example : (({} : Conn).freeChan { inRec := [{}], outRec := [{ packetId := 1, bits := [] }, { packetId := 2, bits := [] }] }).log
    = [.free .chan, .free .node, .free .node, .free .node] := by decide

end Utcp.Props.C16
