import Utcp.Lemmas.Log
import Utcp.Handshake
import Utcp.Lemmas.Balance
import Utcp.Props.C18
/-!
# C16 — all memory is returned; acknowledged data is not retained

The model emits an `alloc k` / `free k` event at exactly the places the C code calls `utcp_realloc` (the
correspondence runs compare these event streams op by op with the allocator callback of the real code).

* **one call, any state** (first half): un-initialising a connection emits exactly one `free` per block the state holds,
  whatever that state is; an ACK releases exactly the records of that packet; a delivered or refused fragment group is released
  as a whole.
* **every history** (`Lemmas/Balance.lean`, second half): the balance invariant `BInvK` — bunch nodes obtained minus released =
  nodes held in the three lists of the open channels; channel blocks obtained minus released = open channels; the open-channel
  array is allocated iff its capacity is non-zero; the channel table is sorted without duplicates — holds after
  `utcp_sequence_init` and is preserved by every operation of a connected endpoint (`C18.Op`: send of any bunch, flush,
  `ReceivedPacket` on any bit string with everything the ACKs and NAKs in it trigger, update with its deferred channel teardown).
  Hence, **after any history, teardown leaves every balance at zero** (`teardown_returns_everything`: the *prefix* quantifier of the
  property is the universally quantified history) and **a quiescent connection holds no bunch buffer** (`quiescent_holds_nothing`).
Not expressible in the model: block *identities* (the events are anonymous, so "exactly once" is a balance, not a per-pointer
statement), use-after-free; these are observed (unknown-pointer / double-free detection in the harness allocator, ASan, `live 0`
after every teardown and after every prefix).
-/
namespace Utcp.Props.C16
open Utcp Utcp.Gen

/-- number of `free` events of kind `k` in a list of events -/
def frees (k : Kind) (evs : List Event) : Nat := (evs.filter fun ev => ev == .free k).length

/-- blocks a channel holds besides itself -/
def Channel.nodes (x : Channel) : Nat := x.inRec.length + x.outRec.length + x.inPartial.length

theorem replicate_snoc {α} (k : Nat) (a : α) (l : List α) : List.replicate k a ++ a :: l = a :: (List.replicate k a ++ l) := by
  induction k with
  | zero => rfl
  | succ k ih => simp [List.replicate_succ, ih]

theorem freeNodes_log (c : Conn) (k : Nat) : (c.freeNodes k).log = List.replicate k (.free .node) ++ c.log := by
  unfold Conn.freeNodes
  induction k generalizing c with
  | zero => simp
  | succ k ih =>
    rw [List.range_succ, List.foldl_append]
    simp only [List.foldl_cons, List.foldl_nil, emit_log, ih]
    rw [List.replicate_succ]
    simp

theorem replicate_append {α} (m n : Nat) (a : α) : List.replicate m a ++ List.replicate n a = List.replicate (m + n) a := by
  induction m with
  | zero => simp
  | succ m ih => simp [List.replicate_succ, ih, Nat.succ_add]

/-- **`free_utcp_channel` returns everything the channel holds**: one `free node` per queued / retained / half-assembled
bunch, then the channel block itself -/
theorem freeChan_log (c : Conn) (x : Channel) :
    (c.freeChan x).log = .free .chan :: (List.replicate (Channel.nodes x) (.free .node) ++ c.log) := by
  unfold Conn.freeChan Channel.nodes
  simp only [emit_log, freeNodes_log]
  congr 1
  rw [← List.append_assoc, ← List.append_assoc, replicate_append, replicate_append]
  congr 2
  omega

/-- an ACK releases exactly the retransmission records of that packet (they sit at the head of the list) and nothing
else; what stays is untouched -/
theorem removeOutgoing_partition (pid : Int) (l : List OutNode) :
    (removeOutgoing pid l).1.length + (removeOutgoing pid l).2.length = l.length ∧ (∀ n ∈ (removeOutgoing pid l).1, n.packetId = pid) := by
  induction l with
  | nil => simp [removeOutgoing]
  | cons n rest ih =>
    unfold removeOutgoing
    split
    · rename_i h
      simp only [List.length_cons]
      refine ⟨by omega, ?_⟩
      intro m hm
      rcases List.mem_cons.mp hm with rfl | hm
      · simpa using h
      · exact ih.2 m hm
    · split
      · simp
      · simp only [List.length_cons]
        exact ⟨by omega, ih.2⟩

/-- once every record of a channel has been acknowledged nothing is retained for retransmission -/
theorem removeOutgoing_all (pid : Int) (l : List OutNode) (h : ∀ n ∈ l, n.packetId = pid) : (removeOutgoing pid l).2 = [] := by
  induction l with
  | nil => simp [removeOutgoing]
  | cons n rest ih =>
    unfold removeOutgoing
    have hn : (n.packetId == pid) = true := by simp [h n List.mem_cons_self]
    simp only [hn, if_true]
    exact ih (fun m hm => h m (List.mem_cons_of_mem _ hm))

/-- teardown of a connection object: the challenge block (client) and the connection block are returned exactly once -/
theorem destroy_frees_conn (ep : Endpoint) :
    ∃ evs, (ep.destroy).c.log = .free .conn :: evs ∧ (ep.destroy).chal = none ∧
      ((ep.chal.isSome = true → ∃ evs', evs = .free .chal :: evs') ∧ (ep.chal.isSome = false → ∀ ev ∈ evs, ev ≠ .free .chal ∨ ev ∈ ep.c.log)) := by
  unfold Endpoint.destroy
  refine ⟨_, rfl, rfl, ?_, ?_⟩
  · intro h; simp only [h, if_true, emit_log]; exact ⟨_, rfl⟩
  · intro h
    simp only [h, Bool.false_eq_true, if_false]
    intro ev hev
    unfold Conn.uninitChans at hev
    simp only at hev
    by_cases he : ev = .free .chal
    · right
      subst he
      -- frees emitted by the channel teardown are `free node` / `free chan` / `free open`, never `free chal`
      have key : ∀ (l : List (Nat × Channel)) (c : Conn), Event.free Kind.chal ∈ (l.foldl (fun c p => c.freeChan p.2) c).log → Event.free Kind.chal ∈ c.log := by
        intro l
        induction l with
        | nil => intro c h; exact h
        | cons p rest ih =>
          intro c h
          have := ih _ h
          rw [freeChan_log] at this
          simp only [List.mem_cons, List.mem_append, List.mem_replicate] at this
          rcases this with h1 | ⟨_, h1⟩ | h1
          · cases h1
          · cases h1
          · exact h1
      split at hev
      · simp only [emit_log, List.mem_cons] at hev
        rcases hev with h1 | h1
        · cases h1
        · have := key _ _ h1; rw [markClose_log] at this; exact this
      · have := key _ _ hev; rw [markClose_log] at this; exact this
    · left; exact he

/-! non-vacuity -/
example : (({} : Conn).freeChan { inRec := [{}], outRec := [{ packetId := 1, bits := [] }, { packetId := 2, bits := [] }] }).log
    = [.free .chan, .free .node, .free .node, .free .node] := by decide

/-! ## every history -/

theorem step_balance (e : Env) (c : Conn) (op : C18.Op) (h : BInvK c 0) : BInvK (C18.apply e c op) 0 := by
  cases op with
  | send b => exact sendBunch_bal e c b h
  | flush => exact flush_bal e c 0 h
  | recv bits => exact receivedPacket_bal e c bits h
  | update => exact update_bal e c h

theorem run_balance (ops : List (Env × C18.Op)) : ∀ c : Conn, BInvK c 0 → BInvK (C18.run c ops) 0 := by
  induction ops with
  | nil => intro c h; exact h
  | cons p rest ih =>
    intro c h
    obtain ⟨e, op⟩ := p
    exact ih _ (step_balance e c op h)

/-- the invariant holds on a freshly initialised connection -/
theorem fresh_balance (i o : Int) : BInvK (({} : Conn).seqInit i o) 0 := fresh_bal _ rfl rfl rfl

/-- **teardown after every prefix of every history**: whatever the connection has been through — bunches awaiting ack,
out-of-order bunches queued, a group half assembled, open or closed channels — `utcp_channels_uninit` leaves the balance of bunch
nodes, of channel blocks and of the open-channel array at zero -/
theorem teardown_returns_everything (ops : List (Env × C18.Op)) (c : Conn) (h : BInvK c 0) :
    balK .node (C18.run c ops).uninitChans.log = 0 ∧ balK .chan (C18.run c ops).uninitChans.log = 0 ∧
    balK .open_ (C18.run c ops).uninitChans.log = 0 :=
  uninitChans_balanced _ (run_balance ops c h)

/-- **no retention**: while the connection lives, once nothing awaits acknowledgement, nothing is queued out of order and no
group is half assembled, every bunch node ever obtained has been released -/
theorem quiescent_holds_nothing (c : Conn) (h : BInvK c 0)
    (hq : ∀ p ∈ c.chans, p.2.inRec = [] ∧ p.2.outRec = [] ∧ p.2.inPartial = []) : balK .node c.log = 0 := by
  rw [h.node]
  have : held c.chans = 0 := by
    unfold held
    have hz : ∀ l : List (Nat × Channel), (∀ p ∈ l, p.2.inRec = [] ∧ p.2.outRec = [] ∧ p.2.inPartial = []) → (l.map (fun p => nodesOf p.2)).sum = 0 := by
      intro l
      induction l with
      | nil => intro _; rfl
      | cons p rest ih =>
        intro hl
        obtain ⟨h1, h2, h3⟩ := hl p List.mem_cons_self
        simp only [List.map_cons, List.sum_cons, ih (fun q hq => hl q (List.mem_cons_of_mem _ hq))]
        simp [nodesOf, h1, h2, h3]
    exact hz _ hq
  rw [this]; rfl

/-- memory does not grow with traffic: at every point of every history the number of live bunch nodes is exactly the number of
bunches in the channels' lists -/
theorem live_nodes_are_held (ops : List (Env × C18.Op)) (c : Conn) (h : BInvK c 0) :
    balK .node (C18.run c ops).log = held (C18.run c ops).chans := by
  have := (run_balance ops c h).node; omega

/-! non-vacuity -/
example : BInvK (C18.run (({} : Conn).seqInit 7 16383) [({}, .send { chIndex := 1, bOpen := true, bReliable := true, data := [true] }), ({}, .flush), ({}, .update)]) 0 :=
  run_balance _ _ (fresh_balance 7 16383)

end Utcp.Props.C16
