import Utcp.Lemmas.Retain
import Utcp.Lemmas.CloseMark
import Utcp.Props.C16
import Utcp.Props.C10
import Utcp.Lemmas.Link
/-!
# C10, over every history — the sender keeps what it may still have to retransmit

`recBits c ch` is what channel `ch` holds for retransmission: the serialized reliable bunches (a close bunch among them is just one more)
that have not been acknowledged.  Over every history of sends (valid or not), flushes, incoming packets (any bits: ACKs, NAKs, garbage)
and periodic updates — in any interleaving:

* an accepted reliable bunch is recorded (`accepted_reliable_is_recorded`);
* a record held at any moment is still held at any later moment — possibly re-tagged with the id of the packet that carried its
  retransmission — unless a *positive* delivery status was reported to the application in between (`retained_until_acked`);
* the only step that removes records is the release on ACK, and it removes exactly those tagged with the acknowledged packet id
  (`ack_releases_exactly`); a NAK re-sends and re-queues (`nak_requeues`); the deferred teardown that `update` performs frees a channel —
  closed or not — only when it holds none (`teardown_waits_for_acks`).

Together with C02 (`ack_sound`: a positive status is reported only for a packet the peer accepted) and C01/C04 across the link this is
the sender's half of "closing a channel never discards reliable data still in flight".

The receiver's half (second part of the file, `Lemmas/CloseMark.lean`): over the same histories a channel is *marked* closed only by a
callback that delivered a close bunch on it — i.e. in sequence, after all its predecessors — or by the local application's own close
(`marked_only_by_close`); and `utcp_update` removes a channel only if it is so marked and holds nothing awaiting acknowledgement
(`teardown_only_after_close`).

Not proved here: that the retransmissions eventually get through (liveness).
-/
namespace Utcp.Props.C10Hist
open Utcp Utcp.Gen Utcp.Props

/-- **one step** of a history keeps every record unless it reports a positive acknowledgement -/
theorem step_fate (e : Env) (c : Conn) (op : C18.Op) (h : BInvK c 0) : Fate c (C18.apply e c op) := by
  cases op with
  | send b => exact Fate.of_keep (sendBunch_rkeep e c b) (sendBunch_any e c b)
  | flush => exact Fate.of_keep (flush_rkeep e c) (flush_any e c)
  | recv bits => exact receivedPacket_fate e c bits
  | update => exact Fate.of_keep (update_rkeep e c h.sorted) (update_any e c)

theorem run_fate (ops : List (Env × C18.Op)) : ∀ c : Conn, BInvK c 0 → Fate c (C18.run c ops) := by
  induction ops with
  | nil => intro c _; exact Fate.refl _
  | cons p rest ih =>
    intro c h
    obtain ⟨e, op⟩ := p
    exact (step_fate e c op h).trans (ih _ (C16.step_balance e c op h))

theorem run_append (ops1 ops2 : List (Env × C18.Op)) : ∀ c : Conn, C18.run c (ops1 ++ ops2) = C18.run (C18.run c ops1) ops2 := by
  induction ops1 with
  | nil => intro c; rfl
  | cons p rest ih => intro c; obtain ⟨e, op⟩ := p; exact ih _

/-- **retained until acknowledged**: take any history from `utcp_sequence_init`, cut it anywhere.  Every serialized reliable bunch that
channel `ch` holds for retransmission at the cut is still held at the end — unless, after the cut, a positive delivery status was
reported to the application -/
theorem retained_until_acked (ops1 ops2 : List (Env × C18.Op)) (i o : Int) (ch : Nat) (b : Bits)
    (hb : b ∈ recBits (C18.run (({} : Conn).seqInit i o) ops1) ch) :
    b ∈ recBits (C18.run (({} : Conn).seqInit i o) (ops1 ++ ops2)) ch ∨
    ∃ new pid, (C18.run (({} : Conn).seqInit i o) (ops1 ++ ops2)).log = new ++ (C18.run (({} : Conn).seqInit i o) ops1).log ∧ Event.status pid true ∈ new := by
  rw [run_append]
  obtain ⟨new, hl, hk⟩ := run_fate ops2 _ (C16.run_balance ops1 _ (C16.fresh_balance i o))
  rcases hk ch b hb with h | ⟨pid, hp⟩
  · exact Or.inl h
  · exact Or.inr ⟨new, pid, hl, hp⟩

/-- **an accepted reliable bunch is recorded**: after `utcp_send_bunch` accepted a reliable bunch, its channel holds the bunch's
encoding — header with the sequence number the sender gave it, then the payload -/
theorem accepted_reliable_is_recorded (e : Env) (c : Conn) (b : Bunch) (h0 : Bits) (hchk : c.sendCheck b = .inr h0) (hr : b.bReliable = true) :
    ((encodeBunchHeader (c.tagged b)).getD h0 ++ b.data) ∈ recBits (c.sendBunch e b).1 b.chIndex := by
  obtain ⟨_, x, hx, hxo⟩ := sendCommit_chan c b h0 hchk
  have hseq : c.tagged b = { b with chSeq := x.outReliable + 1 } := by
    unfold Conn.tagged Conn.nextSeq; rw [hxo]; simp only [hr, if_true]
  rw [C01Link.sendBunch_accepted e c b h0 hchk, hseq]
  unfold Conn.sendCommit
  simp only [hx, if_pos hr]
  generalize (c.getOrCreateChan b false).1.noteClose b = c1 at hx ⊢
  generalize (encodeBunchHeader { b with chSeq := x.outReliable + 1 }).getD h0 = hdr
  -- the channel still exists when the record is appended
  have hex : ∀ c2 : Conn, (c2.getChan b.chIndex).isSome → ∀ pid, (hdr ++ b.data) ∈ recBits (c2.addOutRec b.chIndex pid (hdr ++ b.data)) b.chIndex := by
    intro c2 hs pid
    unfold Conn.addOutRec
    cases hg : c2.getChan b.chIndex with
    | none => rw [hg] at hs; simp at hs
    | some y =>
      simp only
      rw [recBits_of_get (getChan_setChan_self _ _ _)]
      exact List.mem_map.mpr ⟨{ packetId := pid, bits := hdr ++ b.data }, by simp, rfl⟩
  apply hex
  have hch : ((((c1.setChan b.chIndex { x with outReliable := x.outReliable + 1 }).prepareWrite e (hdr.length + b.data.length)).writeInternal e (hdr ++ b.data)).1.emit (.alloc .node)).chans
      = (c1.setChan b.chIndex { x with outReliable := x.outReliable + 1 }).chans := by
    show ((((c1.setChan b.chIndex { x with outReliable := x.outReliable + 1 }).prepareWrite e (hdr.length + b.data.length)).writeInternal e (hdr ++ b.data)).1).chans = _
    rw [writeInternal_chans, prepareWrite_chans]
  unfold Conn.getChan
  rw [hch]
  have := getChan_setChan_self c1 b.chIndex { x with outReliable := x.outReliable + 1 }
  unfold Conn.getChan at this
  rw [this]; rfl

/-- **release on ACK removes exactly the records tagged with the acknowledged packet id** -/
theorem ack_releases_exactly (pid : Int) (chs : List Nat) (c : Conn) (ch : Nat) (b : Bits) (hb : b ∈ recBits c ch) :
    b ∈ recBits (c.onAckChans pid chs) ch ∨ ∃ x n, c.getChan ch = some x ∧ n ∈ x.outRec ∧ n.bits = b ∧ n.packetId = pid :=
  onAckChans_split pid chs c ch b hb

/-- **a NAK loses nothing**: the records of the lost packet are re-sent and re-queued -/
theorem nak_requeues (e : Env) (pid : Int) (chs : List Nat) (c : Conn) (ch : Nat) (b : Bits) (hb : b ∈ recBits c ch) :
    b ∈ recBits (c.onNakChans e pid chs) ch := onNakChans_rkeep e pid chs c ch b hb

/-- **the deferred teardown waits for the acknowledgements**: `utcp_update` — timeout test and teardown of closed channels — drops no
record; a channel that still holds one (the close bunch itself, or anything sent before it) survives -/
theorem teardown_waits_for_acks (e : Env) (c : Conn) (h : BInvK c 0) (ch : Nat) (b : Bits) (hb : b ∈ recBits c ch) :
    b ∈ recBits (c.checkTimeout e).updateTail.1 ch := update_rkeep e c h.sorted ch b hb

/-! ## the receiver's half: a channel is marked closed — and torn down — only after its close bunch was delivered -/

/-- the channels on which the local application's close bunch was accepted in a history -/
def localCloses : Conn → List (Env × C18.Op) → List Nat → List Nat
  | _, [], L => L
  | c, (e, .send b) :: rest, L => localCloses (C18.apply e c (.send b)) rest (c.closedAfter b L)
  | c, (e, op) :: rest, L => localCloses (C18.apply e c op) rest L

theorem closedAfter_mono (c : Conn) (b : Bunch) (L : List Nat) : ∀ x ∈ L, x ∈ c.closedAfter b L := by
  intro x hx
  unfold Conn.closedAfter
  split
  · exact hx
  · split
    · exact List.mem_cons_of_mem _ hx
    · exact hx

theorem run_closeinv (ops : List (Env × C18.Op)) : ∀ (c : Conn) (L : List Nat), CloseInv L c → BInvK c 0 →
    CloseInv (localCloses c ops L) (C18.run c ops) := by
  induction ops with
  | nil => intro c L h _; exact h
  | cons p rest ih =>
    intro c L h hb
    obtain ⟨e, op⟩ := p
    have hb' := C16.step_balance e c op hb
    cases op with
    | send b => exact ih _ _ (sendBunch_closeinv L e c b h) hb'
    | flush => exact ih _ _ (h.step (flush_cstep e c)) hb'
    | recv bits => exact ih _ _ (h.step (receivedPacket_cstep e c bits)) hb'
    | update => exact ih _ _ (h.step (update_cstep e c hb.sorted)) hb'

/-- **every close mark has a reason**: after any history (sends, flushes, incoming packets of any bits, updates), a channel that is
marked closed had a close bunch handed to the application on it — by a callback in the log, i.e. delivered in sequence — or the local
application itself sent a close bunch on it -/
theorem marked_only_by_close (ops : List (Env × C18.Op)) (i o : Int) (ch : Nat) (x : Channel)
    (hx : (C18.run (({} : Conn).seqInit i o) ops).getChan ch = some x) (hb : x.bClose = true) :
    ClosedBy (C18.run (({} : Conn).seqInit i o) ops).log ch ∨ ch ∈ localCloses (({} : Conn).seqInit i o) ops [] := by
  have h0 : CloseInv [] (({} : Conn).seqInit i o) := by
    intro ch x hx; have : (({} : Conn).seqInit i o).getChan ch = none := rfl; rw [this] at hx; cases hx
  exact run_closeinv ops _ [] h0 (C16.fresh_balance i o) ch x hx hb

/-- **the receiver does not tear a channel down before its close bunch has been delivered in sequence**: if `utcp_update`, after any
history, removes (or alters) a channel, then that channel held nothing awaiting acknowledgement, and a close bunch had been handed to
the application on it — or the local application had closed it -/
theorem teardown_only_after_close (ops : List (Env × C18.Op)) (e : Env) (i o : Int) (ch : Nat) (x : Channel)
    (hx : (C18.run (({} : Conn).seqInit i o) ops).getChan ch = some x)
    (hgone : ((C18.run (({} : Conn).seqInit i o) ops).checkTimeout e).updateTail.1.getChan ch ≠ some x) :
    x.outRec = [] ∧ (ClosedBy (C18.run (({} : Conn).seqInit i o) ops).log ch ∨ ch ∈ localCloses (({} : Conn).seqInit i o) ops []) := by
  have hbal := C16.run_balance ops _ (C16.fresh_balance i o)
  have hmark := marked_only_by_close ops i o ch x hx
  generalize C18.run (({} : Conn).seqInit i o) ops = c at hx hgone hbal hmark ⊢
  -- the update's view of the channel table is the teardown's
  have hview : (c.checkTimeout e).updateTail.1.getChan ch = (c.checkTimeout e).delayClose.getChan ch := by
    unfold Conn.updateTail; dsimp only; split <;> rfl
  have hct : (c.checkTimeout e).getChan ch = some x := by
    unfold Conn.checkTimeout; split
    · rw [markClose_getChan]; exact hx
    · exact hx
  have hsorted : KeysSorted (c.checkTimeout e).chans := by
    unfold Conn.checkTimeout; split
    · rw [markClose_chans]; exact hbal.sorted
    · exact hbal.sorted
  have huniq : ∀ p ∈ (c.checkTimeout e).chans, p.1 = ch → p.2 = x := by
    intro p hp he
    have := find_of_mem_sorted _ p hsorted hp
    unfold Conn.getChan at hct
    rw [he] at this
    rw [this] at hct
    exact Option.some.inj hct
  by_cases hk : x.bClose = false ∨ x.outRec ≠ []
  · exact absurd (by rw [hview]; exact C10.teardown_keeps _ ch x hct hk huniq) hgone
  · have hb : x.bClose = true := by
      cases h : x.bClose with
      | true => rfl
      | false => exact absurd (Or.inl h) hk
    have ho : x.outRec = [] := by
      cases h : x.outRec with
      | nil => rfl
      | cons a t => exact absurd (Or.inr (by rw [h]; simp)) hk
    exact ⟨ho, hmark hb⟩

/-! non-vacuity: a closing reliable bunch is recorded and survives an update -/
example : recBits ((((({} : Conn).seqInit 3 7).sendBunch {} { chIndex := 1, bOpen := true, bClose := true, bReliable := true }).1.checkTimeout {}).updateTail.1) 1 ≠ [] := by
  decide

end Utcp.Props.C10Hist
