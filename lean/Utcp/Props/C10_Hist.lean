import Utcp.Lemmas.Retain
import Utcp.Props.C16
import Utcp.Props.C10
import Utcp.Lemmas.Link
/-!
# C10, over every history — the sender keeps what it may still have to retransmit

`recBits c ch` is what channel `ch` holds for retransmission: the serialized reliable bunches (a close bunch among them is just one more)
that have not been acknowledged.  Over every history of sends (valid or not), flushes, incoming packets (any bits: ACKs, NAKs, garbage)
and periodic updates — in any interleaving:

* an accepted reliable bunch is recorded (`accepted_reliable_is_recorded`);
* a record held at any moment is still held at any later moment — possibly re-tagged with the id of the packet that carried its
  retransmission — unless a *positive* delivery status was reported to the application in between (`retained_until_acked`);
* the only step that removes records is the release on ACK, and it removes exactly those tagged with the acknowledged packet id
  (`ack_releases_exactly`); a NAK re-sends and re-queues (`nak_requeues`); the deferred teardown that `update` performs frees a channel —
  closed or not — only when it holds none (`teardown_waits_for_acks`).

Together with C02 (`ack_sound`: a positive status is reported only for a packet the peer accepted) and C01/C04 across the link this is
the sender's half of "closing a channel never discards reliable data still in flight".  Not proved here: that the retransmissions
eventually get through (liveness), and the receiver's half beyond the local theorems of `Props/C10.lean`.
-/
namespace Utcp.Props.C10Hist
open Utcp Utcp.Gen Utcp.Props

/-- **one step** of a history keeps every record unless it reports a positive acknowledgement -/
theorem step_fate (e : Env) (c : Conn) (op : C18.Op) (h : BInvK c 0) : Fate c (C18.apply e c op) := by
  cases op with
  | send b => exact Fate.of_keep (sendBunch_rkeep e c b) (sendBunch_any e c b)
  | flush => exact Fate.of_keep (flush_rkeep e c) (flush_any e c)
  | recv bits => exact receivedPacket_fate e c bits
  | update => exact Fate.of_keep (update_rkeep e c h.sorted) (update_any e c)

theorem run_fate (ops : List (Env × C18.Op)) : ∀ c : Conn, BInvK c 0 → Fate c (C18.run c ops) := by
  induction ops with
  | nil => intro c _; exact Fate.refl _
  | cons p rest ih =>
    intro c h
    obtain ⟨e, op⟩ := p
    exact (step_fate e c op h).trans (ih _ (C16.step_balance e c op h))

theorem run_append (ops1 ops2 : List (Env × C18.Op)) : ∀ c : Conn, C18.run c (ops1 ++ ops2) = C18.run (C18.run c ops1) ops2 := by
  induction ops1 with
  | nil => intro c; rfl
  | cons p rest ih => intro c; obtain ⟨e, op⟩ := p; exact ih _

/-- **retained until acknowledged**: take any history from `utcp_sequence_init`, cut it anywhere.  Every serialized reliable bunch that
channel `ch` holds for retransmission at the cut is still held at the end — unless, after the cut, a positive delivery status was
reported to the application -/
theorem retained_until_acked (ops1 ops2 : List (Env × C18.Op)) (i o : Int) (ch : Nat) (b : Bits)
    (hb : b ∈ recBits (C18.run (({} : Conn).seqInit i o) ops1) ch) :
    b ∈ recBits (C18.run (({} : Conn).seqInit i o) (ops1 ++ ops2)) ch ∨
    ∃ new pid, (C18.run (({} : Conn).seqInit i o) (ops1 ++ ops2)).log = new ++ (C18.run (({} : Conn).seqInit i o) ops1).log ∧ Event.status pid true ∈ new := by
  rw [run_append]
  obtain ⟨new, hl, hk⟩ := run_fate ops2 _ (C16.run_balance ops1 _ (C16.fresh_balance i o))
  rcases hk ch b hb with h | ⟨pid, hp⟩
  · exact Or.inl h
  · exact Or.inr ⟨new, pid, hl, hp⟩

/-- **an accepted reliable bunch is recorded**: after `utcp_send_bunch` accepted a reliable bunch, its channel holds the bunch's
encoding — header with the sequence number the sender gave it, then the payload -/
theorem accepted_reliable_is_recorded (e : Env) (c : Conn) (b : Bunch) (h0 : Bits) (hchk : c.sendCheck b = .inr h0) (hr : b.bReliable = true) :
    ((encodeBunchHeader (c.tagged b)).getD h0 ++ b.data) ∈ recBits (c.sendBunch e b).1 b.chIndex := by
  obtain ⟨_, x, hx, hxo⟩ := sendCommit_chan c b h0 hchk
  have hseq : c.tagged b = { b with chSeq := x.outReliable + 1 } := by
    unfold Conn.tagged Conn.nextSeq; rw [hxo]; simp only [hr, if_true]
  rw [C01Link.sendBunch_accepted e c b h0 hchk, hseq]
  unfold Conn.sendCommit
  simp only [hx, if_pos hr]
  generalize (c.getOrCreateChan b false).1.noteClose b = c1 at hx ⊢
  generalize (encodeBunchHeader { b with chSeq := x.outReliable + 1 }).getD h0 = hdr
  -- the channel still exists when the record is appended
  have hex : ∀ c2 : Conn, (c2.getChan b.chIndex).isSome → ∀ pid, (hdr ++ b.data) ∈ recBits (c2.addOutRec b.chIndex pid (hdr ++ b.data)) b.chIndex := by
    intro c2 hs pid
    unfold Conn.addOutRec
    cases hg : c2.getChan b.chIndex with
    | none => rw [hg] at hs; simp at hs
    | some y =>
      simp only
      rw [recBits_of_get (getChan_setChan_self _ _ _)]
      exact List.mem_map.mpr ⟨{ packetId := pid, bits := hdr ++ b.data }, by simp, rfl⟩
  apply hex
  have hch : ((((c1.setChan b.chIndex { x with outReliable := x.outReliable + 1 }).prepareWrite e (hdr.length + b.data.length)).writeInternal e (hdr ++ b.data)).1.emit (.alloc .node)).chans
      = (c1.setChan b.chIndex { x with outReliable := x.outReliable + 1 }).chans := by
    show ((((c1.setChan b.chIndex { x with outReliable := x.outReliable + 1 }).prepareWrite e (hdr.length + b.data.length)).writeInternal e (hdr ++ b.data)).1).chans = _
    rw [writeInternal_chans, prepareWrite_chans]
  unfold Conn.getChan
  rw [hch]
  have := getChan_setChan_self c1 b.chIndex { x with outReliable := x.outReliable + 1 }
  unfold Conn.getChan at this
  rw [this]; rfl

/-- **release on ACK removes exactly the records tagged with the acknowledged packet id** -/
theorem ack_releases_exactly (pid : Int) (chs : List Nat) (c : Conn) (ch : Nat) (b : Bits) (hb : b ∈ recBits c ch) :
    b ∈ recBits (c.onAckChans pid chs) ch ∨ ∃ x n, c.getChan ch = some x ∧ n ∈ x.outRec ∧ n.bits = b ∧ n.packetId = pid :=
  onAckChans_split pid chs c ch b hb

/-- **a NAK loses nothing**: the records of the lost packet are re-sent and re-queued -/
theorem nak_requeues (e : Env) (pid : Int) (chs : List Nat) (c : Conn) (ch : Nat) (b : Bits) (hb : b ∈ recBits c ch) :
    b ∈ recBits (c.onNakChans e pid chs) ch := onNakChans_rkeep e pid chs c ch b hb

/-- **the deferred teardown waits for the acknowledgements**: `utcp_update` — timeout test and teardown of closed channels — drops no
record; a channel that still holds one (the close bunch itself, or anything sent before it) survives -/
theorem teardown_waits_for_acks (e : Env) (c : Conn) (h : BInvK c 0) (ch : Nat) (b : Bits) (hb : b ∈ recBits c ch) :
    b ∈ recBits (c.checkTimeout e).updateTail.1 ch := update_rkeep e c h.sorted ch b hb

/-! non-vacuity: a closing reliable bunch is recorded and survives an update -/
example : recBits ((((({} : Conn).seqInit 3 7).sendBunch {} { chIndex := 1, bOpen := true, bClose := true, bReliable := true }).1.checkTimeout {}).updateTail.1) 1 ≠ [] := by
  decide

end Utcp.Props.C10Hist
