import Utcp.Lemmas.RelOnly
import Utcp.Props.C04
/-!
# C04, over every history — an unreliable bunch is sent once

`Props/C04.lean` shows that a receiver takes a packet at most once (stale packets are inert) and that everything delivered was sent.  The
sender's side of "each sent bunch is delivered at most once" for *unreliable* bunches: only reliable bunches are ever kept for
retransmission, so the encoding of an unreliable bunch is written into exactly one packet — the one `utcp_send_bunch` reports — and
never again, whatever NAKs arrive.
-/
namespace Utcp.Props.C04Hist
open Utcp Utcp.Gen Utcp.Props

theorem run_relenc (ops : List (Env × C18.Op)) : ∀ c : Conn, AllOKP (BitsN RelEnc) c → AllOKP (BitsN RelEnc) (C18.run c ops) := by
  induction ops with
  | nil => intro c h; exact h
  | cons p rest ih =>
    intro c h
    obtain ⟨e, op⟩ := p
    cases op with
    | send b => exact ih _ (sendBunch_relenc e c b h)
    | flush => exact ih _ (h.of_chans (flush_chans e c))
    | recv bits => exact ih _ (receivedPacket_bitsN e c bits h)
    | update => exact ih _ (update_okP e c h)

/-- **only reliable bunches are ever retransmitted**: after any history of sends (valid or not), flushes, incoming packets (any bits —
ACKs, NAKs, garbage) and updates, every retransmission record of every channel is the encoding of a well-formed bunch with the
reliable flag -/
theorem only_reliable_retained (ops : List (Env × C18.Op)) (i o : Int) (ch : Nat) (x : Channel) (n : OutNode)
    (hx : (C18.run (({} : Conn).seqInit i o) ops).getChan ch = some x) (hn : n ∈ x.outRec) :
    ∃ b, WFBunch b ∧ b.bReliable = true ∧ n.bits = encB b := by
  have h0 : AllOKP (BitsN RelEnc) (({} : Conn).seqInit i o) := by
    intro p hp; have : (({} : Conn).seqInit i o).chans = [] := rfl; rw [this] at hp; cases hp
  exact getChan_okP _ ch x (run_relenc ops _ h0) hx n hn

end Utcp.Props.C04Hist
