import Utcp.Props.C09_Packet
import Utcp.Handshake
/-!
# C09 at the level of the byte array: `utcp_incoming` on a data datagram, end to end

What `utcp_incoming` does with the read buffer `bitbuf_read_init` hands it, for a datagram that is not a handshake datagram: `read_packet_header` (magic header,
2-bit session id, 3-bit client id, the handshake bit — each read into a small local), the test for an empty body, `bitbuf.size--` (the connection-level
terminator) and `ReceivedPacket`.  Shown equal to the bit-level model (`Endpoint.incoming`, through `dataPath`) and free of accesses outside the datagram's
valid bytes and those locals.  Together with `read_init_never_faults` / `read_init_gives_rb` (`Props/C09_Bytes.lean`) this covers every byte access of
`utcp_incoming` on the data path; the handshake branch (`ParseHandshakePacket`) is not modelled at byte level.
-/
namespace Utcp.BB
open Utcp

/-- `read_packet_header` on the byte array; `m4` is the 4-byte local `MagicHeader`, `s1`, `c1` the one-byte locals for session and client id.  (The C compares the
whole 32-bit local with the configured value; the local is zero-initialised — the repair of D13 — so that is the comparison of the bits read.) -/
def lReadOutgoingHeader (e : Env) (m4 s1 c1 : Mem) : LRd (Nat × Nat × Bool) :=
  (if e.magicBits = 0 then LRd.pure [] else lReadBitsInto m4 e.magicBits).bind fun m =>
  if e.magicBits != 0 && bitsToNat m != e.magic then LRd.failHere else
  (lReadBitsInto s1 2).bind fun s =>
  (lReadBitsInto c1 3).bind fun c =>
  lReadBit.bind fun h =>
  LRd.pure (bitsToNat s, bitsToNat c, h)

/-- the bit-level reader in monadic form -/
theorem readOutgoingHeader_eq (e : Env) : readOutgoingHeader e =
    (Utcp.readBits e.magicBits >>= fun m =>
      if e.magicBits != 0 && bitsToNat m != e.magic then Rd.failHere else
      Utcp.readBits 2 >>= fun s => Utcp.readBits 3 >>= fun c => Utcp.readBit >>= fun h => pure (bitsToNat s, bitsToNat c, h)) := by
  funext bs
  unfold readOutgoingHeader
  simp only [Rd.bind_apply]
  cases Utcp.readBits e.magicBits bs with
  | fail r => rfl
  | ok m rest =>
    simp only
    split
    · rfl
    · simp only [Rd.bind_apply]
      cases Utcp.readBits 2 rest with
      | fail r => rfl
      | ok s r1 =>
        simp only
        cases Utcp.readBits 3 r1 with
        | fail r => rfl
        | ok c r2 =>
          simp only
          cases Utcp.readBit r2 with
          | fail r => rfl
          | ok h r3 => rfl

theorem lReadOutgoingHeader_refines (e : Env) (he : e.magicBits ≤ 32) (m4 s1 c1 : Mem) (hm : BytesOK m4) (hs : BytesOK s1) (hc : BytesOK c1)
    (lm : 4 ≤ m4.length) (ls : 1 ≤ s1.length) (lc : 1 ≤ c1.length) : Refines (lReadOutgoingHeader e m4 s1 c1) (readOutgoingHeader e) := by
  rw [readOutgoingHeader_eq]
  unfold lReadOutgoingHeader
  have hmagic : Refines (if e.magicBits = 0 then LRd.pure [] else lReadBitsInto m4 e.magicBits) (Utcp.readBits e.magicBits) := by
    by_cases h0 : e.magicBits = 0
    · rw [if_pos h0, h0]
      intro b hb
      exact ⟨some [], b, rfl, hb, rfl, rfl, by simp [Utcp.readBits]⟩
    · rw [if_neg h0]
      exact lReadBitsInto_refines m4 hm _ (by omega)
  refine Refines.bind hmagic fun m => ?_
  refine Refines.ite _ Refines.failHere ?_
  refine Refines.bind (lReadBitsInto_refines s1 hs 2 (by omega)) fun s => ?_
  refine Refines.bind (lReadBitsInto_refines c1 hc 3 (by omega)) fun c => ?_
  exact Refines.bind lReadBit_refines fun h => Refines.pure _

/-- `utcp_incoming` behind the outgoing header of a data datagram, on bits -/
def dataPath (e : Env) (c : Conn) (session client : Nat) (rest : Bits) : Conn × Bool :=
  let c := { c with lastSessionId := session, lastClientId := client }
  if rest.isEmpty then (c, true) else
  let c := { c with lastRecvMs := e.nowMs }
  c.receivedPacket e rest.dropLast

/-- the bit-level `utcp_incoming` on a datagram that is not a handshake datagram is `dataPath` -/
theorem incoming_data_eq {T} (tm : TimeOps T) (e : Env) (rng : Rng) (ep : Endpoint) (bytes : List UInt8) (bits rest : Bits) (s cl : Nat)
    (h1 : Utcp.readInit bytes = some bits) (h2 : readOutgoingHeader e bits = .ok (s, cl, false) rest) :
    ep.incoming tm e rng bytes = ({ ep with c := (dataPath e ep.c s cl rest).1 }, rng, (dataPath e ep.c s cl rest).2) := by
  unfold Endpoint.incoming dataPath
  simp only [h1, h2, Bool.false_eq_true, if_false]
  split <;> rfl

/-- `bitbuf.size--` removes the last of the remaining bits -/
theorem rest_shrink (b : Buf) (hb : RB b) (hlt : b.num < b.size) :
    RB { b with size := b.size - 1 } ∧ rest { b with size := b.size - 1 } = (rest b).dropLast := by
  have hs := hb.size
  refine ⟨⟨hb.bytes, by show b.size - 1 ≤ 8 * b.mem.length; omega, by show b.num ≤ b.size - 1; omega⟩, ?_⟩
  unfold rest
  show bitsFrom b.mem b.num (b.size - 1 - b.num) = (bitsFrom b.mem b.num (b.size - b.num)).dropLast
  have : b.size - b.num = (b.size - 1 - b.num) + 1 := by omega
  rw [this, bitsFrom_append]
  simp [bitsFrom]

/-- `utcp_incoming` from the read buffer on, on the byte array, for a data datagram (`none` as value = it is a handshake datagram: not modelled here) -/
def lIncomingData (e : Env) (c : Conn) (m4 s1 c1 fb : Mem) (nodes : Nat → Mem) (b : Buf) : Option (Option (Conn × Bool)) :=
  match lReadOutgoingHeader e m4 s1 c1 b with
  | none => none
  | some (none, _) => some (some (c.markClose crPacketHandlerIncomingError, false))
  | some (some (_, _, true), _) => some none
  | some (some (s, cl, false), b1) =>
    let c := { c with lastSessionId := s, lastClientId := cl }
    if b1.num < b1.size then
      let c := { c with lastRecvMs := e.nowMs }
      (lReceivedPacket e c fb nodes { b1 with size := b1.size - 1 }).map some
    else some (some (c, true))

/-- **`utcp_incoming` on a data datagram, on the byte array**: for every datagram image, cursor, logical end and connection state, the byte-level data path
touches no byte outside the datagram's valid bytes, its small locals and the nodes, and returns what the bit-level model returns: either the outgoing header is
refused (close reason `PacketHandlerIncomingError`), or it announces a handshake datagram, or the result is `dataPath` on the remaining bits -/
theorem lIncomingData_refines (e : Env) (he : e.magicBits ≤ 32) (c : Conn) (m4 s1 c1 fb : Mem) (hm : BytesOK m4) (hs : BytesOK s1) (hc : BytesOK c1)
    (hfb : BytesOK fb) (lm : 4 ≤ m4.length) (ls : 1 ≤ s1.length) (lc : 1 ≤ c1.length) (lfb : 1 ≤ fb.length) (nodes : Nat → Mem) (hn : NodesOK nodes)
    (b : Buf) (hb : RB b) :
    ∃ r, lIncomingData e c m4 s1 c1 fb nodes b = some r ∧
      (match readOutgoingHeader e (rest b) with
       | .fail _ => r = some (c.markClose crPacketHandlerIncomingError, false)
       | .ok (_, _, true) _ => r = none
       | .ok (s, cl, false) rst => r = some (dataPath e c s cl rst)) := by
  obtain ⟨r1, b1, h1, hrb1, _, _, hS1⟩ := lReadOutgoingHeader_refines e he m4 s1 c1 hm hs hc lm ls lc b hb
  unfold lIncomingData
  rw [h1, hS1]
  cases r1 with
  | none => exact ⟨_, rfl, rfl⟩
  | some v =>
    obtain ⟨s, cl, isHs⟩ := v
    cases isHs with
    | true => exact ⟨_, rfl, rfl⟩
    | false =>
      simp only
      unfold dataPath
      rw [rest_isEmpty b1 hrb1]
      by_cases hlt : b1.num < b1.size
      · simp only [hlt, if_true, decide_true, Bool.not_true, Bool.false_eq_true, if_false]
        obtain ⟨hrb2, hrest⟩ := rest_shrink b1 hrb1 hlt
        rw [lReceivedPacket_refines e _ fb hfb lfb nodes hn _ hrb2, hrest]
        exact ⟨_, rfl, rfl⟩
      · simp only [hlt, if_false, decide_false, Bool.not_false, if_true]
        exact ⟨_, rfl, rfl⟩

/-- **no data datagram makes `utcp_incoming` touch memory it does not own** (from the read buffer on) -/
theorem incoming_data_never_faults (e : Env) (he : e.magicBits ≤ 32) (c : Conn) (m4 s1 c1 fb : Mem) (hm : BytesOK m4) (hs : BytesOK s1) (hc : BytesOK c1)
    (hfb : BytesOK fb) (lm : 4 ≤ m4.length) (ls : 1 ≤ s1.length) (lc : 1 ≤ c1.length) (lfb : 1 ≤ fb.length) (nodes : Nat → Mem) (hn : NodesOK nodes)
    (b : Buf) (hb : RB b) : ∃ r, lIncomingData e c m4 s1 c1 fb nodes b = some r :=
  let ⟨r, h, _⟩ := lIncomingData_refines e he c m4 s1 c1 fb hm hs hc hfb lm ls lc lfb nodes hn b hb
  ⟨r, h⟩

/-! non-vacuity: zeroed locals of the sizes the C declares -/
example : BytesOK [0, 0, 0, 0] ∧ BytesOK [0] ∧ 4 ≤ [0, 0, 0, 0].length := ⟨by intro x hx; simp at hx; omega, by intro x hx; simp at hx; omega, by decide⟩

end Utcp.BB
