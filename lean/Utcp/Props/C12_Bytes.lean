import Utcp.Lemmas.ByteOps
import Utcp.Lemmas.BitIO
/-!
# C12 at the level of the byte array (continuation of `Props/C12.lean`)

The byte-array functions of `Utcp/ByteBuf.lean` (the model of `bit_buffer.c` statement by statement, partial memory) refine the bit-level
primitives of `Utcp/BitIO.lean`, for which `Props/C12.lean` proves the round trips.  "Refines" includes: the result is `some _`, i.e. no
byte outside the arrays is read or written.
-/
namespace Utcp.BB

/-- **the bit-run copier `appBitsCpy`**, for every destination bit offset, source bit offset and count (no bound), on arrays that hold exactly the
bytes the two bit ranges occupy (or more): no access faults (so no byte outside either array is read or written, in particular none beyond the
byte of the last valid source bit), the destination keeps its length, and afterwards it is the old destination with bits `[db, db+n)`
replaced by source bits `[sb, sb+n)` - every other bit is as before.  Covers the `<= 8` path, the lead-in for both alignments, the byte loop and
the lead-out with and without its extra source read. -/
theorem bit_run_copier (dest src : Mem) (hdk : BytesOK dest) (hsk : BytesOK src) (db sb n : Nat)
    (hdl : db + n ≤ 8 * dest.length) (hsl : sb + n ≤ 8 * src.length) :
    ∃ dest', appBitsCpy dest db src sb n = some dest' ∧ dest'.length = dest.length ∧ BytesOK dest' ∧
      ∀ k, bit dest' k = if db ≤ k ∧ k < db + n then bit src (sb + (k - db)) else bit dest k :=
  appBitsCpy_spec dest src hdk hsk db sb n hdl hsl

/-- non-vacuity / sanity: an unaligned 13-bit copy between two 3-byte arrays, computed by the model -/
example : appBitsCpy [0xFF, 0x00, 0xFF] 5 [0xA5, 0x3C, 0x7E] 3 13 = some [0x9F, 0xF2, 0xFC] := by decide


/-- `bitbuf_write_bit`: one bit appended, or - buffer full - failure with everything untouched -/
theorem writeBit_refines (b : Buf) (hb : WB b) (v : Nat) :
    (b.num + 1 ≤ b.size → ∃ b', writeBit b v = some (true, b') ∧ WB b' ∧ b'.size = b.size ∧ content b' = content b ++ [decide (v % 256 ≠ 0)]) ∧
    (¬ b.num + 1 ≤ b.size → writeBit b v = some (false, b)) := by
  constructor
  · intro hfit
    unfold writeBit allowOpt
    simp only [hfit, decide_true, Bool.not_true, Bool.false_eq_true, if_false]
    by_cases hv : v % 256 ≠ 0
    · rw [if_pos hv]
      obtain ⟨m', hm, hlen, hok, hbits⟩ := orBit_spec b.mem hb.bytes b.num (by have := hb.size; omega)
      rw [hm]
      have := wb_extend b hb m' [true] (by simpa using hfit) hlen hok (by
        intro k
        rw [hbits k]
        by_cases hk : k = b.num
        · subst hk; simp
        · have : ¬ (b.num ≤ k ∧ k < b.num + [true].length) := by simp; omega
          rw [if_neg hk, if_neg this])
      simp only [List.length_singleton] at this
      exact ⟨_, rfl, this.1, rfl, by rw [this.2]; simp [hv]⟩
    · rw [if_neg hv]
      have := wb_extend b hb b.mem [false] (by simpa using hfit) rfl hb.bytes (by
        intro k
        by_cases hk : b.num ≤ k ∧ k < b.num + [false].length
        · rw [if_pos hk]
          have : k - b.num = 0 := by simp at hk; omega
          rw [this]; simp; exact hb.zero k hk.1
        · rw [if_neg hk])
      simp only [List.length_singleton] at this
      have e : ({ b with num := b.num + 1 } : Buf) = { b with mem := b.mem, num := b.num + 1 } := rfl
      rw [e]
      exact ⟨_, rfl, this.1, rfl, by rw [this.2]; simp [hv]⟩
  · intro hno
    unfold writeBit allowOpt
    simp [hno]

/-- `bitbuf_write_bits` / `bitbuf_write_bytes` core: a run of `n` bits taken from the start of `data`, any length, any cursor alignment -/
theorem writeBits_refines (b : Buf) (hb : WB b) (data : Mem) (hd : BytesOK data) (n : Nat) (hdata : n ≤ 8 * data.length) :
    (b.num + n ≤ b.size → ∃ b', writeBits b data n = some (true, b') ∧ WB b' ∧ b'.size = b.size ∧ content b' = content b ++ bitsFrom data 0 n) ∧
    (¬ b.num + n ≤ b.size → writeBits b data n = some (false, b)) := by
  constructor
  · intro hfit
    unfold writeBits allowOpt
    simp only [hfit, decide_true, Bool.not_true, Bool.false_eq_true, if_false]
    have hsz := hb.size
    by_cases h1 : n = 1
    · subst h1
      rw [if_pos rfl, rd_of_lt _ _ (by omega)]
      simp only [Option.bind_some]
      have hbit0 : (data.getD 0 0 &&& 1 ≠ 0) ↔ bit data 0 = true := by
        have := and_shl_one_ne (data.getD 0 0) 0
        simpa [bit] using this
      by_cases hv : data.getD 0 0 &&& 1 ≠ 0
      · rw [if_pos hv]
        obtain ⟨m', hm, hlen, hok, hbits⟩ := orBit_spec b.mem hb.bytes b.num (by omega)
        rw [hm]
        have := wb_extend b hb m' [true] (by simpa using hfit) hlen hok (by
          intro k
          rw [hbits k]
          by_cases hk : k = b.num
          · subst hk; simp
          · have : ¬ (b.num ≤ k ∧ k < b.num + [true].length) := by simp; omega
            rw [if_neg hk, if_neg this])
        simp only [List.length_singleton] at this
        exact ⟨_, rfl, this.1, rfl, by rw [this.2]; simp [bitsFrom, hbit0.mp hv]⟩
      · rw [if_neg hv]
        have hb0 : bit data 0 = false := by
          cases h : bit data 0
          · rfl
          · exact absurd (hbit0.mpr h) hv
        have := wb_extend b hb b.mem [false] (by simpa using hfit) rfl hb.bytes (by
          intro k
          by_cases hk : b.num ≤ k ∧ k < b.num + [false].length
          · rw [if_pos hk]
            have : k - b.num = 0 := by simp at hk; omega
            rw [this]; simp; exact hb.zero k hk.1
          · rw [if_neg hk])
        simp only [List.length_singleton] at this
        have e : ({ b with num := b.num + 1 } : Buf) = { b with mem := b.mem, num := b.num + 1 } := rfl
        rw [e]
        exact ⟨_, rfl, this.1, rfl, by rw [this.2]; simp [bitsFrom, hb0]⟩
    · rw [if_neg h1]
      obtain ⟨m', hm, hlen, hok, hbits⟩ := appBitsCpy_spec b.mem data hb.bytes hd b.num 0 n (by omega) (by omega)
      rw [hm]
      have := wb_extend b hb m' (bitsFrom data 0 n) (by simpa using hfit) hlen hok (by
        intro k
        rw [hbits k, bitsFrom_length]
        by_cases hk : b.num ≤ k ∧ k < b.num + n
        · rw [if_pos hk, if_pos hk, bitsFrom_getD _ _ _ _ (by omega)]
        · rw [if_neg hk, if_neg hk])
      simp only [bitsFrom_length] at this
      exact ⟨_, rfl, this.1, rfl, this.2⟩
  · intro hno
    unfold writeBits allowOpt
    simp [hno]

end Utcp.BB

namespace Utcp.BB

theorem writeBytes_refines (b : Buf) (hb : WB b) (data : Mem) (hd : BytesOK data) (size : Nat) (hdata : size ≤ data.length) :
    (b.num + size * 8 ≤ b.size → ∃ b', writeBytes b data size = some (true, b') ∧ WB b' ∧ b'.size = b.size ∧ content b' = content b ++ bitsFrom data 0 (size * 8)) ∧
    (¬ b.num + size * 8 ≤ b.size → writeBytes b data size = some (false, b)) := by
  constructor
  · intro hfit
    unfold writeBytes allowOpt
    simp only [hfit, decide_true, Bool.not_true, Bool.false_eq_true, if_false]
    have hsz := hb.size
    obtain ⟨m', hm, hlen, hok, hbits⟩ := appBitsCpy_spec b.mem data hb.bytes hd b.num 0 (size * 8) (by omega) (by omega)
    rw [hm]
    have := wb_extend b hb m' (bitsFrom data 0 (size * 8)) (by simpa using hfit) hlen hok (by
      intro k
      rw [hbits k, bitsFrom_length]
      by_cases hk : b.num ≤ k ∧ k < b.num + size * 8
      · rw [if_pos hk, if_pos hk, bitsFrom_getD _ _ _ _ (by omega)]
      · rw [if_neg hk, if_neg hk])
    simp only [bitsFrom_length] at this
    exact ⟨_, rfl, this.1, rfl, this.2⟩
  · intro hno
    unfold writeBytes allowOpt
    simp [hno]

/-- `bitbuf_read_bit` is the bit-level `readBit` on the bits that are left; the array is only touched below `size` -/
theorem readBit_refines (b : Buf) (hb : RB b) :
    ∃ ok v b', readBit b = some (ok, v, b') ∧ RB b' ∧ b'.mem = b.mem ∧ b'.size = b.size ∧
      Utcp.readBit (rest b) = (if ok then .ok (v = 1) (rest b') else .fail (rest b')) ∧ (ok = false → b' = b) := by
  unfold readBit allowOpt
  by_cases hfit : b.num + 1 ≤ b.size
  · simp only [hfit, decide_true, Bool.not_true, Bool.false_eq_true, if_false]
    have hs := hb.size
    rw [testAt_spec _ _ (by omega)]
    refine ⟨true, _, _, rfl, ⟨hb.bytes, hb.size, hfit⟩, rfl, rfl, ?_, by simp⟩
    unfold rest
    have : b.size - b.num = (b.size - (b.num + 1)) + 1 := by omega
    rw [this]
    simp only [bitsFrom, Utcp.readBit, if_true]
    cases bit b.mem b.num <;> simp
  · refine ⟨false, 0, b, by simp [hfit], hb, rfl, rfl, ?_, by simp⟩
    unfold rest
    have : b.size - b.num = 0 := by have := hb.num; omega
    rw [this]
    simp [bitsFrom, Utcp.readBit]

end Utcp.BB

namespace Utcp.BB

theorem rest_split (b : Buf) (n : Nat) (hfit : b.num + n ≤ b.size) :
    rest b = bitsFrom b.mem b.num n ++ rest { b with num := b.num + n } := by
  unfold rest
  have : b.size - b.num = n + (b.size - (b.num + n)) := by omega
  rw [this, bitsFrom_append]

theorem sReadBits_ok (n : Nat) (a r : Bits) (ha : a.length = n) : Utcp.readBits n (a ++ r) = .ok a r := by
  unfold Utcp.readBits
  have : n ≤ (a ++ r).length := by simp; omega
  rw [if_pos this]
  subst ha
  simp

/-- `bitbuf_read_bits`: the bit-level `readBits` on what is left; the caller's array of `(n+7)/8` bytes receives the bits, its unused top bits are zero;
nothing outside that array and nothing beyond the byte of the last valid bit of the buffer is touched -/
theorem readBits_refines (b : Buf) (hb : RB b) (out : Mem) (hout : BytesOK out) (n : Nat) (hlen : out.length = (n + 7) / 8) :
    ∃ ok out' b', readBits b out n = some (ok, out', b') ∧ RB b' ∧ b'.mem = b.mem ∧ b'.size = b.size ∧ out'.length = out.length ∧ BytesOK out' ∧
      Utcp.readBits n (rest b) = (if ok then .ok (bitsFrom out' 0 n) (rest b') else .fail (rest b')) ∧
      (ok = true → ∀ k, n ≤ k → bit out' k = false) ∧ (ok = false → b' = b ∧ out' = out) := by
  unfold readBits allowOpt
  have hs := hb.size
  by_cases hfit : b.num + n ≤ b.size
  · simp only [hfit, decide_true, Bool.not_true, Bool.false_eq_true, if_false]
    have hsplit := rest_split b n hfit
    have hrb : RB { b with num := b.num + n } := ⟨hb.bytes, hb.size, hfit⟩
    by_cases h1 : n = 1
    · subst h1
      rw [if_pos rfl, wr_of_lt _ _ _ (by omega)]
      simp only [Option.bind_some]
      rw [testAt_spec _ _ (by omega)]
      simp only [Option.bind_some]
      have hl0 : (out.set 0 (0 % 256)).length = 1 := by simp [hlen]
      have hz : ∀ k, bit (out.set 0 (0 % 256)) k = false := by
        intro k
        by_cases hk : k / 8 = 0
        · rw [bit_set _ _ _ _ (by omega), if_pos hk]; simp
        · exact bit_oob _ _ (by omega)
      cases hbit : bit b.mem b.num
      · simp only [Bool.false_eq_true, if_false]
        refine ⟨true, _, _, rfl, hrb, rfl, rfl, by simp, bytesOK_set out hout _ _, ?_, fun _ k _ => hz k, by simp⟩
        rw [hsplit, sReadBits_ok 1 _ _ (by simp)]
        simp [bitsFrom, hbit, hz]
      · simp only [if_true]
        rw [rd_of_lt _ _ (by omega)]
        simp only [Option.bind_some]
        rw [wr_of_lt _ _ _ (by omega)]
        have hb1 : ∀ k, bit ((out.set 0 (0 % 256)).set 0 (((out.set 0 (0 % 256)).getD 0 0 ||| 1) % 256)) k = decide (k = 0) := by
          intro k
          by_cases hk : k / 8 = 0
          · rw [bit_set _ _ _ _ (by omega), if_pos hk, testBit_mod256, Nat.testBit_or]
            have e0 : ((out.set 0 (0 % 256)).getD 0 0).testBit (k % 8) = bit (out.set 0 (0 % 256)) k := by unfold bit; rw [hk]
            rw [e0, hz k]
            have a3 : k % 8 < 8 := by omega
            by_cases hk0 : k = 0
            · subst hk0; simp
            · have : k % 8 ≠ 0 := by omega
              have e : (1 : Nat).testBit (k % 8) = false := by
                cases hb : (1 : Nat).testBit (k % 8) with
                | false => rfl
                | true => exact absurd (Nat.testBit_one_eq_true_iff_self_eq_zero.mp hb) this
              simp [e, hk0]
          · rw [bit_oob _ _ (by simp [hlen]; omega)]
            have : k ≠ 0 := by omega
            simp [this]
        refine ⟨true, _, _, rfl, hrb, rfl, rfl, by simp, bytesOK_set _ (bytesOK_set out hout _ _) _ _, ?_, fun _ k hk => by rw [hb1 k]; simp; omega, by simp⟩
        rw [hsplit, sReadBits_ok 1 _ _ (by simp)]
        simp only [if_true, bitsFrom]
        rw [hb1 0, hbit]
        simp
    · rw [if_neg h1]
      by_cases h0 : n = 0
      · subst h0
        simp only [ne_eq, not_true_eq_false, if_false]
        refine ⟨true, out, b, rfl, hb, rfl, rfl, rfl, hout, ?_, fun _ k _ => bit_oob _ _ (by omega), by simp⟩
        simp [Utcp.readBits, bitsFrom]
      · rw [if_pos h0, wr_of_lt _ _ _ (by omega)]
        simp only [Option.bind_some]
        have ok0 : BytesOK (out.set ((n + 7) / 8 - 1) (0 % 256)) := bytesOK_set out hout _ _
        obtain ⟨o1, ho1, hl1, hk1, hbits1⟩ := appBitsCpy_spec (out.set ((n + 7) / 8 - 1) (0 % 256)) b.mem ok0 hb.bytes 0 b.num n (by simp; omega) (by omega)
        rw [ho1]
        simp only [Option.bind_some]
        refine ⟨true, o1, _, rfl, hrb, rfl, rfl, by rw [hl1]; simp, hk1, ?_, ?_, by simp⟩
        · rw [hsplit, sReadBits_ok n _ _ (by simp)]
          simp only [if_true]
          congr 1
          apply bitsFrom_shift
          intro i hi
          rw [hbits1 (0 + i)]
          have : 0 ≤ 0 + i ∧ 0 + i < 0 + n := by omega
          rw [if_pos this]
          congr 1; omega
        · intro _ k hk
          rw [hbits1 k]
          have : ¬ (0 ≤ k ∧ k < 0 + n) := by omega
          rw [if_neg this]
          by_cases hk8 : k / 8 = (n + 7) / 8 - 1
          · rw [bit_set _ _ _ _ (by omega), if_pos hk8]; simp
          · exact bit_oob _ _ (by simp; omega)
  · refine ⟨false, out, b, by simp [hfit], hb, rfl, rfl, rfl, hout, ?_, by simp, by simp⟩
    simp only [Bool.false_eq_true, if_false]
    unfold Utcp.readBits
    have hnum := hb.num
    have : ¬ (n ≤ (rest b).length) := by unfold rest; simp; omega
    rw [if_neg this]

end Utcp.BB

namespace Utcp.BB

theorem addBit_eq_orBit (m : Mem) (hm : BytesOK m) (pos : Nat) (hz : ∀ k, pos ≤ k → bit m k = false) : addBit m pos = orBit m pos := by
  unfold addBit orBit
  cases hr : rd m (pos / 8) with
  | none => rfl
  | some x =>
    simp only [Option.bind_some]
    have hx : x = m.getD (pos / 8) 0 := by
      unfold rd at hr; simp [List.getD, hr]
    have hlt : x < 2 ^ (pos % 8) := by
      apply Nat.lt_pow_two_of_testBit
      intro i hi
      by_cases h8 : i < 8
      · have := hz (8 * (pos / 8) + i) (by omega)
        rw [bit_at _ _ _ h8] at this
        rw [hx]; exact this
      · rw [hx]; exact testBit_byte_hi _ _ (getD_lt_256 m hm _) (by omega)
    have := Nat.two_pow_add_eq_or_of_lt hlt 1
    rw [Nat.one_shiftLeft]
    simp only [Nat.mul_one] at this
    rw [Nat.add_comm, this, Nat.or_comm]

end Utcp.BB

namespace Utcp.BB

theorem and_two_pow_ne (v i : Nat) : (v &&& 2 ^ i ≠ 0) ↔ v / 2 ^ i % 2 = 1 := by
  have h := and_shl_one_ne v i
  rw [Nat.one_shiftLeft] at h
  rw [h, Nat.testBit_eq_decide_div_mod_eq]
  simp

/-- the `+=` loop of `bitbuf_write_int` / `bitbuf_write_int_wrapped` on a zeroed buffer writes exactly the bits of the bit-level `wInt` -/
theorem wIntLoop_spec (v mx : Nat) : ∀ (fuel : Nat) (m : Mem) (i nv pos : Nat), BytesOK m → (∀ k, pos ≤ k → bit m k = false) →
    pos + (Utcp.wInt fuel v mx (2 ^ i) nv).length ≤ 8 * m.length →
    ∃ m', wIntLoop fuel m v mx (2 ^ i) nv pos = some (m', pos + (Utcp.wInt fuel v mx (2 ^ i) nv).length) ∧ m'.length = m.length ∧ BytesOK m' ∧
      ∀ k, bit m' k = if pos ≤ k ∧ k < pos + (Utcp.wInt fuel v mx (2 ^ i) nv).length then (Utcp.wInt fuel v mx (2 ^ i) nv).getD (k - pos) false else bit m k := by
  intro fuel
  induction fuel with
  | zero =>
    intro m i nv pos hm _ _
    refine ⟨m, by simp [wIntLoop, Utcp.wInt], rfl, hm, ?_⟩
    intro k
    have : ¬ (pos ≤ k ∧ k < pos + (Utcp.wInt 0 v mx (2 ^ i) nv).length) := by simp [Utcp.wInt]
    rw [if_neg this]
  | succ f ih =>
    intro m i nv pos hm hz hfit
    have e32 : (4294967296 : Nat) = 2 ^ 32 := rfl
    have epow : 2 ^ i * 2 = 2 ^ (i + 1) := by rw [Nat.pow_succ]
    unfold wIntLoop
    by_cases hc : nv + 2 ^ i < mx ∧ 2 ^ i < 2 ^ 32
    · have hc' : nv + 2 ^ i < mx ∧ 2 ^ i < 4294967296 := by rw [e32]; exact hc
      rw [if_pos hc']
      by_cases hb : v / 2 ^ i % 2 = 1
      · have hw : Utcp.wInt (f + 1) v mx (2 ^ i) nv = true :: Utcp.wInt f v mx (2 ^ (i + 1)) (nv + 2 ^ i) := by
          rw [Utcp.wInt, if_pos hc, if_pos hb, epow]
        rw [hw] at hfit ⊢
        simp only [List.length_cons] at hfit ⊢
        rw [if_pos ((and_two_pow_ne v i).mpr hb), addBit_eq_orBit m hm pos hz]
        obtain ⟨m1, hm1, hl1, hk1, hb1⟩ := orBit_spec m hm pos (by omega)
        rw [hm1]
        simp only [Option.bind_some, epow]
        obtain ⟨m2, hm2, hl2, hk2, hb2⟩ := ih m1 (i + 1) (nv + 2 ^ i) (pos + 1) hk1 (by
          intro k hk
          rw [hb1 k, if_neg (by omega)]
          exact hz k (by omega)) (by rw [hl1]; omega)
        refine ⟨m2, ?_, by rw [hl2, hl1], hk2, ?_⟩
        · rw [hm2]; congr 2; omega
        · intro k
          rw [hb2 k]
          by_cases h1 : pos + 1 ≤ k ∧ k < pos + 1 + (Utcp.wInt f v mx (2 ^ (i + 1)) (nv + 2 ^ i)).length
          · have a : pos ≤ k ∧ k < pos + ((Utcp.wInt f v mx (2 ^ (i + 1)) (nv + 2 ^ i)).length + 1) := by omega
            rw [if_pos h1, if_pos a]
            have : k - pos = (k - (pos + 1)) + 1 := by omega
            rw [this, List.getD_cons_succ]
          · rw [if_neg h1, hb1 k]
            by_cases h2 : k = pos
            · subst h2
              have a : k ≤ k ∧ k < k + ((Utcp.wInt f v mx (2 ^ (i + 1)) (nv + 2 ^ i)).length + 1) := by omega
              rw [if_pos rfl, if_pos a]; simp
            · have a : ¬ (pos ≤ k ∧ k < pos + ((Utcp.wInt f v mx (2 ^ (i + 1)) (nv + 2 ^ i)).length + 1)) := by omega
              rw [if_neg h2, if_neg a]
      · have hw : Utcp.wInt (f + 1) v mx (2 ^ i) nv = false :: Utcp.wInt f v mx (2 ^ (i + 1)) nv := by
          rw [Utcp.wInt, if_pos hc, if_neg hb, epow]
        rw [hw] at hfit ⊢
        simp only [List.length_cons] at hfit ⊢
        have hnb : ¬ (v &&& 2 ^ i ≠ 0) := fun h => hb ((and_two_pow_ne v i).mp h)
        rw [if_neg hnb]
        simp only [epow]
        obtain ⟨m2, hm2, hl2, hk2, hb2⟩ := ih m (i + 1) nv (pos + 1) hm (fun k hk => hz k (by omega)) (by omega)
        refine ⟨m2, ?_, hl2, hk2, ?_⟩
        · rw [hm2]; congr 2; omega
        · intro k
          rw [hb2 k]
          by_cases h1 : pos + 1 ≤ k ∧ k < pos + 1 + (Utcp.wInt f v mx (2 ^ (i + 1)) nv).length
          · have a : pos ≤ k ∧ k < pos + ((Utcp.wInt f v mx (2 ^ (i + 1)) nv).length + 1) := by omega
            rw [if_pos h1, if_pos a]
            have : k - pos = (k - (pos + 1)) + 1 := by omega
            rw [this, List.getD_cons_succ]
          · rw [if_neg h1]
            by_cases h2 : k = pos
            · subst h2
              have a : k ≤ k ∧ k < k + ((Utcp.wInt f v mx (2 ^ (i + 1)) nv).length + 1) := by omega
              rw [if_pos a]; simp; exact hz k (by omega)
            · have a : ¬ (pos ≤ k ∧ k < pos + ((Utcp.wInt f v mx (2 ^ (i + 1)) nv).length + 1)) := by omega
              rw [if_neg a]
    · have hc' : ¬ (nv + 2 ^ i < mx ∧ 2 ^ i < 4294967296) := by rw [e32]; exact hc
      have hw : Utcp.wInt (f + 1) v mx (2 ^ i) nv = [] := by rw [Utcp.wInt, if_neg hc]
      rw [if_neg hc', hw]
      refine ⟨m, by simp, rfl, hm, ?_⟩
      intro k
      have : ¬ (pos ≤ k ∧ k < pos + ([] : Bits).length) := by simp
      rw [if_neg this]

end Utcp.BB

namespace Utcp.BB

theorem le_two_pow_ceilLogTwo (mx : Nat) (h32 : mx ≤ 2 ^ 32) : mx ≤ 2 ^ ceilLogTwo mx := by
  unfold ceilLogTwo
  by_cases h0 : mx = 0
  · subst h0; simp
  · rw [if_neg h0]
    by_cases h1 : mx = 1
    · subst h1; simp
    · rw [if_neg h1]
      have := @Nat.lt_log2_self (mx - 1)
      omega

/-- `bitbuf_write_int` / `bitbuf_write_int_wrapped` after their checks: the UE early-stop encoding, written with `+=` into the zeroed part -/
theorem intCore_refines (b : Buf) (hb : WB b) (v mx : Nat) (h32 : mx ≤ 2 ^ 32) (hfit : b.num + ceilLogTwo mx ≤ b.size) :
    ∃ b', (wIntLoop 33 b.mem v mx 1 0 b.num).bind (fun (m, pos) => some (true, ({ b with mem := m, num := pos } : Buf))) = some (true, b') ∧
      WB b' ∧ b'.size = b.size ∧ content b' = content b ++ Utcp.writeInt v mx := by
  have hlen : (Utcp.writeInt v mx).length ≤ ceilLogTwo mx := Utcp.writeInt_length_le v mx _ (le_two_pow_ceilLogTwo mx h32)
  have hs := hb.size
  obtain ⟨m', hm, hl, hk, hbits⟩ := wIntLoop_spec v mx 33 b.mem 0 0 b.num hb.bytes hb.zero (by
    have : Utcp.wInt 33 v mx (2 ^ 0) 0 = Utcp.writeInt v mx := rfl
    rw [this]; omega)
  have e1 : (2 : Nat) ^ 0 = 1 := rfl
  rw [e1] at hm hbits
  have ew : Utcp.wInt 33 v mx 1 0 = Utcp.writeInt v mx := rfl
  rw [ew] at hm hbits
  rw [hm]
  have := wb_extend b hb m' (Utcp.writeInt v mx) (by omega) hl hk hbits
  exact ⟨_, rfl, this.1, rfl, this.2⟩

/-- `bitbuf_write_int`: refused when the value is out of range or `ceil(log2 max)` bits do not fit (everything untouched); otherwise the bit-level encoding is appended -/
theorem writeInt_refines (b : Buf) (hb : WB b) (v mx : Nat) (h32 : mx ≤ 2 ^ 32) :
    (v < mx → b.num + ceilLogTwo mx ≤ b.size → ∃ b', writeInt b v mx = some (true, b') ∧ WB b' ∧ b'.size = b.size ∧ content b' = content b ++ Utcp.writeInt v mx) ∧
    ((mx ≤ v ∨ ¬ b.num + ceilLogTwo mx ≤ b.size) → writeInt b v mx = some (false, b)) := by
  constructor
  · intro hv hfit
    unfold writeInt allowOpt
    have : ¬ (v ≥ mx) := by omega
    rw [if_neg this]
    simp only [hfit, decide_true, Bool.not_true, Bool.false_eq_true, if_false]
    exact intCore_refines b hb v mx h32 hfit
  · intro h
    unfold writeInt allowOpt
    by_cases hv : v ≥ mx
    · rw [if_pos hv]
    · rw [if_neg hv]
      have : ¬ b.num + ceilLogTwo mx ≤ b.size := by rcases h with h | h; omega; exact h
      simp [this]

/-- `bitbuf_write_int_wrapped`: no range check - the value is taken as the loop takes it -/
theorem writeIntWrapped_refines (b : Buf) (hb : WB b) (v mx : Nat) (h32 : mx ≤ 2 ^ 32) :
    (b.num + ceilLogTwo mx ≤ b.size → ∃ b', writeIntWrapped b v mx = some (true, b') ∧ WB b' ∧ b'.size = b.size ∧ content b' = content b ++ Utcp.writeIntWrapped v mx) ∧
    (¬ b.num + ceilLogTwo mx ≤ b.size → writeIntWrapped b v mx = some (false, b)) := by
  constructor
  · intro hfit
    unfold writeIntWrapped allowOpt
    simp only [hfit, decide_true, Bool.not_true, Bool.false_eq_true, if_false]
    exact intCore_refines b hb v mx h32 hfit
  · intro h
    unfold writeIntWrapped allowOpt
    simp [h]

end Utcp.BB

namespace Utcp.BB

theorem or_two_pow_of_lt (value i : Nat) (h : value < 2 ^ i) : value ||| 2 ^ i = value + 2 ^ i := by
  have := Nat.two_pow_add_eq_or_of_lt h 1
  simp only [Nat.mul_one] at this
  rw [Nat.or_comm, ← this, Nat.add_comm]

theorem rIntLoop_spec (m : Mem) (size mx : Nat) (start : Bits) (hs : size ≤ 8 * m.length) :
    ∀ (fuel i value pos : Nat), value < 2 ^ i → pos ≤ size →
      ∃ r, rIntLoop fuel m size mx (2 ^ i) value pos = some r ∧
        match r with
        | none => Utcp.rIntLoop fuel mx (2 ^ i) value start (bitsFrom m pos (size - pos)) = .fail start
        | some (v, pos') => pos ≤ pos' ∧ pos' ≤ size ∧
            Utcp.rIntLoop fuel mx (2 ^ i) value start (bitsFrom m pos (size - pos)) = .ok v (bitsFrom m pos' (size - pos')) := by
  intro fuel
  induction fuel with
  | zero =>
    intro i value pos _ hp
    exact ⟨some (value, pos), by simp [rIntLoop], by simp [Utcp.rIntLoop, hp]⟩
  | succ f ih =>
    intro i value pos hv hp
    have e32 : (4294967296 : Nat) = 2 ^ 32 := rfl
    have epow : 2 ^ i * 2 = 2 ^ (i + 1) := by rw [Nat.pow_succ]
    unfold rIntLoop Utcp.rIntLoop
    by_cases hc : value + 2 ^ i < mx ∧ 2 ^ i < 2 ^ 32
    · have hc' : value + 2 ^ i < mx ∧ 2 ^ i < 4294967296 := by rw [e32]; exact hc
      rw [if_pos hc']
      simp only [if_pos hc]
      by_cases hend : pos ≥ size
      · rw [if_pos hend]
        have : size - pos = 0 := by omega
        rw [this]
        exact ⟨none, rfl, by simp [bitsFrom]⟩
      · rw [if_neg hend, testAt_spec _ _ (by omega)]
        simp only [Option.bind_some, epow]
        have hsp : size - pos = (size - (pos + 1)) + 1 := by omega
        rw [hsp]
        simp only [bitsFrom]
        have hv' : (if bit m pos = true then value ||| 2 ^ i else value) < 2 ^ (i + 1) := by
          rw [Nat.pow_succ]
          split
          · rw [or_two_pow_of_lt _ _ hv]; omega
          · omega
        obtain ⟨r, hr, hmatch⟩ := ih (i + 1) (if bit m pos = true then value ||| 2 ^ i else value) (pos + 1) hv' (by omega)
        refine ⟨r, hr, ?_⟩
        have eqv : (if bit m pos = true then value + 2 ^ i else value) = (if bit m pos = true then value ||| 2 ^ i else value) := by
          split
          · rw [or_two_pow_of_lt _ _ hv]
          · rfl
        rw [eqv]
        cases r with
        | none => exact hmatch
        | some p =>
          obtain ⟨v, pos'⟩ := p
          simp only at hmatch ⊢
          exact ⟨by omega, hmatch.2.1, hmatch.2.2⟩
    · have hc' : ¬ (value + 2 ^ i < mx ∧ 2 ^ i < 4294967296) := by rw [e32]; exact hc
      rw [if_neg hc']
      simp only [if_neg hc]
      exact ⟨some (value, pos), rfl, by simp [hp]⟩

/-- `bitbuf_read_int` is the bit-level `readInt` on the bits that are left: same value, same number of bits consumed, and a failed read (it ran into
the end) leaves the cursor where it was; the array is only touched below `size` -/
theorem readInt_refines (b : Buf) (hb : RB b) (mx : Nat) :
    ∃ ok v b', readInt b mx = some (ok, v, b') ∧ RB b' ∧ b'.mem = b.mem ∧ b'.size = b.size ∧
      Utcp.readInt mx (rest b) = (if ok then .ok v (rest b') else .fail (rest b')) ∧ (ok = false → b' = b) := by
  obtain ⟨r, hr, hmatch⟩ := rIntLoop_spec b.mem b.size mx (rest b) hb.size 33 0 0 b.num (by simp) hb.num
  have e1 : (2 : Nat) ^ 0 = 1 := rfl
  rw [e1] at hr hmatch
  unfold readInt
  rw [hr]
  simp only [Option.bind_some]
  cases r with
  | none =>
    refine ⟨false, 0, b, rfl, hb, rfl, rfl, ?_, by simp⟩
    simp only at hmatch
    unfold Utcp.readInt
    simp only [Bool.false_eq_true, if_false]
    exact hmatch
  | some p =>
    obtain ⟨v, pos'⟩ := p
    simp only at hmatch
    refine ⟨true, v, { b with num := pos' }, rfl, ⟨hb.bytes, hb.size, hmatch.2.1⟩, rfl, rfl, ?_, by simp⟩
    unfold Utcp.readInt
    simp only [if_true]
    exact hmatch.2.2

end Utcp.BB

namespace Utcp.BB

theorem initLoop_spec : ∀ (g fuel last cnt j : Nat), last < 256 → j + g = 7 → g ≤ fuel → last.testBit j = true →
    (∀ i, j < i → last.testBit i = false) → initLoop fuel last cnt = cnt - g := by
  intro g
  induction g with
  | zero =>
    intro fuel last cnt j _ hj _ hb _
    have : j = 7 := by omega
    subst this
    have h128 : last &&& 128 ≠ 0 := by
      have := (and_shl_one_ne last 7).mpr hb
      simpa using this
    cases fuel with
    | zero => simp [initLoop]
    | succ f => simp [initLoop, h128]
  | succ g ih =>
    intro fuel last cnt j hl hj hf hb hz
    cases fuel with
    | zero => omega
    | succ f =>
      have h128 : last &&& 128 = 0 := by
        have h7 : last.testBit 7 = false := hz 7 (by omega)
        have : ¬ (last &&& (1 <<< 7) ≠ 0) := fun h => by
          have := (and_shl_one_ne last 7).mp h
          rw [h7] at this; exact Bool.noConfusion this
        simpa using this
      rw [initLoop, if_pos h128]
      have hlt : last * 2 < 256 := by
        have : last < 2 ^ 7 := Nat.lt_pow_two_of_testBit _ (fun i hi => by
          by_cases h : i = 7
          · subst h; exact hz 7 (by omega)
          · exact hz i (by omega))
        omega
      have hm : last * 2 % 256 = last * 2 := Nat.mod_eq_of_lt hlt
      rw [hm]
      have htb : ∀ i, (last * 2).testBit i = (decide (1 ≤ i) && last.testBit (i - 1)) := by
        intro i
        have : last * 2 = last <<< 1 := by rw [Nat.shiftLeft_eq]
        rw [this, Nat.testBit_shiftLeft]
      rw [ih f (last * 2) (cnt - 1) (j + 1) hlt (by omega) (by omega) (by rw [htb]; simp [hb])
        (fun i hi => by rw [htb]; simp; intro _; exact hz (i - 1) (by omega))]
      omega

/-- `bitbuf_read_init`: on a datagram whose last byte holds the terminator (the highest set bit of the array, at bit `n`) the read buffer covers exactly
the `n` bits below it -/
theorem readInit_spec (data : Mem) (hd : BytesOK data) (n : Nat) (hn : n / 8 + 1 = data.length) (hterm : bit data n = true)
    (hz : ∀ k, n < k → bit data k = false) : readInit data = some (true, ⟨data, n, 0⟩) := by
  unfold readInit
  have hl : data.length ≠ 0 := by omega
  rw [if_neg hl, rd_of_lt _ _ (by omega)]
  simp only [Option.bind_some]
  have hidx : data.length - 1 = n / 8 := by omega
  rw [hidx]
  have hb : (data.getD (n / 8) 0).testBit (n % 8) = true := hterm
  have hne : data.getD (n / 8) 0 ≠ 0 := by
    intro h; rw [h] at hb; simp at hb
  rw [if_neg hne]
  have := initLoop_spec (7 - n % 8) 8 (data.getD (n / 8) 0) (data.length * 8 - 1) (n % 8) (getD_lt_256 data hd _) (by omega) (by omega) hb
    (fun i hi => by
      by_cases h8 : i < 8
      · have := hz (8 * (n / 8) + i) (by omega)
        rwa [bit_at _ _ _ h8] at this
      · exact testBit_byte_hi _ _ (getD_lt_256 data hd _) (by omega))
  rw [this]
  congr 3
  omega

/-- `bitbuf_read_init` refuses an empty datagram and one whose last byte is zero -/
theorem readInit_refuses (data : Mem) (h : data.length = 0 ∨ data.getD (data.length - 1) 0 = 0) : ∃ b, readInit data = some (false, b) := by
  unfold readInit
  by_cases hl : data.length = 0
  · rw [if_pos hl]; exact ⟨_, rfl⟩
  · rw [if_neg hl, rd_of_lt _ _ (by omega)]
    rcases h with h | h
    · exact absurd h hl
    · simp only [Option.bind_some]; rw [if_pos h]; exact ⟨_, rfl⟩

end Utcp.BB

namespace Utcp.BB

theorem bit_take (m : Mem) (L k : Nat) : bit (m.take L) k = if k < 8 * L then bit m k else false := by
  unfold bit
  by_cases h : k < 8 * L
  · rw [if_pos h]
    have : (m.take L).getD (k / 8) 0 = m.getD (k / 8) 0 := by
      simp only [List.getD]
      rw [List.getElem?_take_of_lt (by omega)]
    rw [this]
  · rw [if_neg h]
    have : (m.take L).getD (k / 8) 0 = 0 := by
      have : (m.take L)[k / 8]? = none := List.getElem?_eq_none (by simp; omega)
      simp [List.getD, this]
    rw [this]; simp

theorem bytesOK_take (m : Mem) (h : BytesOK m) (L : Nat) : BytesOK (m.take L) :=
  fun x hx => h x (List.mem_of_mem_take hx)

/-- **closing a write buffer and opening it for reading**: after `bitbuf_write_end` the first `num/8 + 1` bytes are the datagram; `bitbuf_read_init`
over exactly those bytes yields a read buffer whose remaining bits are the bits that were written -/
theorem finish_then_init (b : Buf) (hb : WB b) (hfit : b.num + 1 ≤ b.size) :
    ∃ b1, writeEnd b = some (true, b1) ∧ b1.num = b.num + 1 ∧
      ∃ rb, readInit (b1.mem.take ((b1.num + 7) / 8)) = some (true, rb) ∧ RB rb ∧ rb.mem.length = (rb.size + 8) / 8 ∧ rest rb = content b := by
  obtain ⟨b1, h1, hwb1, hsz1, hc1⟩ := (writeBit_refines b hb 1).1 hfit
  have hnum1 : b1.num = b.num + 1 := by
    have := congrArg List.length hc1
    unfold content at this
    simpa using this
  refine ⟨b1, h1, hnum1, ?_⟩
  have hL : (b1.num + 7) / 8 = b.num / 8 + 1 := by omega
  have hlen1 : b.num / 8 + 1 ≤ b1.mem.length := by
    have := hwb1.size; have := hwb1.num; omega
  -- the bits of the closed buffer
  have hbits : ∀ k, bit b1.mem k = if k < b.num then bit b.mem k else decide (k = b.num) := by
    intro k
    by_cases hk : k < b.num
    · rw [if_pos hk]
      have e := congrArg (fun l => l.getD k false) hc1
      simp only [content] at e
      rw [bitsFrom_getD _ _ _ _ (by omega)] at e
      simp only [List.getD] at e
      rw [List.getElem?_append_left (by simp; omega)] at e
      have e2 := bitsFrom_getD b.mem 0 b.num k hk
      simp only [List.getD] at e2
      rw [e2] at e
      simpa using e
    · rw [if_neg hk]
      by_cases hk2 : k = b.num
      · have e := congrArg (fun l => l.getD k false) hc1
        simp only [content] at e
        rw [bitsFrom_getD _ _ _ _ (by omega)] at e
        simp only [List.getD] at e
        rw [List.getElem?_append_right (by simp; omega)] at e
        subst hk2
        simpa using e
      · rw [hwb1.zero k (by omega)]; simp [hk2]
  rw [hL]
  have hsp := readInit_spec (b1.mem.take (b.num / 8 + 1)) (bytesOK_take _ hwb1.bytes _) b.num (by simp; omega)
    (by rw [bit_take, if_pos (by omega), hbits]; simp)
    (fun k hk => by
      rw [bit_take]
      split
      · rw [hbits, if_neg (by omega)]; simp; omega
      · rfl)
  refine ⟨_, hsp, ⟨bytesOK_take _ hwb1.bytes _, by simp; omega, by simp⟩, by simp; omega, ?_⟩
  unfold rest content
  simp only [Nat.sub_zero]
  apply bitsFrom_congr
  intro k _ hk
  rw [bit_take, if_pos (by omega), hbits, if_pos (by omega)]

end Utcp.BB

namespace Utcp.BB

theorem natToBits_getD (n w i : Nat) : (natToBits n w).getD i false = (decide (i < w) && n.testBit i) := by
  induction w generalizing n i with
  | zero => simp [natToBits]
  | succ w ih =>
    cases i with
    | zero =>
      simp only [natToBits, List.getD_cons_zero, Nat.testBit_zero]
      by_cases h : n % 2 = 1 <;> simp [h]
    | succ i =>
      simp only [natToBits, List.getD_cons_succ]
      rw [ih (n / 2) i, Nat.testBit_add_one]
      by_cases h : i < w
      · have : i + 1 < w + 1 := by omega
        simp [h, this]
      · have : ¬ (i + 1 < w + 1) := by omega
        simp [h, this]

theorem testBit_mask0 (u j : Nat) : ((1 <<< u) - 1).testBit j = decide (j < u) := by
  rw [Nat.one_shiftLeft, Nat.testBit_two_pow_sub_one]

/-- one step of the second loop of `bitbuf_write_int_packed`: the byte `w` lands on bits `[8*di+u, 8*di+u+8)`, whatever was there; nothing else changes -/
theorem packedStep (m : Mem) (hm : BytesOK m) (w di u : Nat) (hw : w < 256) (hu : u < 8) (hfit : 8 * di + u + 8 ≤ 8 * m.length) :
    ∃ m', ((rd m di).bind fun x0 =>
            (wr m di ((x0 &&& ((1 <<< u) - 1)) ||| ((w <<< u) % 256))).bind fun m1 =>
            if u ≠ 0 then
              (rd m1 (di + 1)).bind fun x1 => wr m1 (di + 1) ((x1 &&& (255 ^^^ ((1 <<< u) - 1))) ||| ((w >>> (8 - u)) % 256))
            else some m1) = some m' ∧ m'.length = m.length ∧ BytesOK m' ∧
      ∀ k, bit m' k = if 8 * di + u ≤ k ∧ k < 8 * di + u + 8 then w.testBit (k - (8 * di + u)) else bit m k := by
  rw [rd_of_lt _ _ (by omega)]
  simp only [Option.bind_some]
  generalize hv0 : ((m.getD di 0 &&& ((1 <<< u) - 1)) ||| ((w <<< u) % 256)) = v0
  rw [wr_of_lt _ _ _ (by omega)]
  simp only [Option.bind_some]
  have hb0 : ∀ j, j < 8 → (v0 % 256).testBit j = if j < u then (m.getD di 0).testBit j else w.testBit (j - u) := by
    intro j hj
    rw [← hv0, testBit_mod256, Nat.testBit_or, Nat.testBit_and, testBit_mask0, testBit_mod256, Nat.testBit_shiftLeft]
    by_cases h : j < u
    · have : ¬ (j ≥ u) := by omega
      simp [hj, h, this]
    · have : j ≥ u := by omega
      simp [hj, h, this]
  by_cases hu0 : u = 0
  · subst hu0
    simp only [ne_eq, not_true_eq_false, if_false]
    refine ⟨_, rfl, by simp, bytesOK_set m hm _ _, ?_⟩
    intro k
    rw [bit_set _ _ _ _ (by omega)]
    by_cases h1 : k / 8 = di
    · have a : 8 * di + 0 ≤ k ∧ k < 8 * di + 0 + 8 := by omega
      rw [if_pos h1, if_pos a, hb0 _ (by omega), if_neg (by omega)]
      congr 1; omega
    · have a : ¬ (8 * di + 0 ≤ k ∧ k < 8 * di + 0 + 8) := by omega
      rw [if_neg h1, if_neg a]
  · rw [if_pos hu0, rd_of_lt _ _ (by simp; omega)]
    simp only [Option.bind_some]
    generalize hv1 : (((m.set di (v0 % 256)).getD (di + 1) 0 &&& (255 ^^^ ((1 <<< u) - 1))) ||| ((w >>> (8 - u)) % 256)) = v1
    rw [wr_of_lt _ _ _ (by simp; omega)]
    have hx1 : (m.set di (v0 % 256)).getD (di + 1) 0 = m.getD (di + 1) 0 := by simp
    have hb1 : ∀ j, j < 8 → (v1 % 256).testBit j = if j < u then w.testBit (8 - u + j) else (m.getD (di + 1) 0).testBit j := by
      intro j hj
      rw [← hv1, hx1, testBit_mod256, Nat.testBit_or, Nat.testBit_and, Nat.testBit_xor, testBit_mask0, testBit_mod256, Nat.testBit_shiftRight]
      have e255 : (255 : Nat).testBit j = true := by
        have : (255 : Nat) = 2 ^ 8 - 1 := rfl
        rw [this, Nat.testBit_two_pow_sub_one]; simp [hj]
      rw [e255]
      by_cases h : j < u
      · simp [hj, h]
      · have hh : w.testBit (8 - u + j) = false := testBit_byte_hi _ _ hw (by omega)
        simp [hj, h, hh]
    refine ⟨_, rfl, by simp, bytesOK_set _ (bytesOK_set m hm _ _) _ _, ?_⟩
    intro k
    rw [bit_set _ _ _ _ (by simp; omega)]
    by_cases h2 : k / 8 = di + 1
    · rw [if_pos h2, hb1 _ (by omega)]
      by_cases h3 : k % 8 < u
      · have a : 8 * di + u ≤ k ∧ k < 8 * di + u + 8 := by omega
        rw [if_pos h3, if_pos a]
        congr 1; omega
      · have a : ¬ (8 * di + u ≤ k ∧ k < 8 * di + u + 8) := by omega
        rw [if_neg h3, if_neg a]
        unfold bit; rw [h2]
    · rw [if_neg h2, bit_set _ _ _ _ (by omega)]
      by_cases h1 : k / 8 = di
      · rw [if_pos h1, hb0 _ (by omega)]
        by_cases h3 : k % 8 < u
        · have a : ¬ (8 * di + u ≤ k ∧ k < 8 * di + u + 8) := by omega
          rw [if_pos h3, if_neg a]
          unfold bit; rw [h1]
        · have a : 8 * di + u ≤ k ∧ k < 8 * di + u + 8 := by omega
          rw [if_neg h3, if_pos a]
          congr 1; omega
      · have a : ¬ (8 * di + u ≤ k ∧ k < 8 * di + u + 8) := by omega
        rw [if_neg h1, if_neg a]

end Utcp.BB

namespace Utcp.BB

def packedStepE (m : Mem) (w di u : Nat) : Option Mem :=
  (rd m di).bind fun x0 =>
    (wr m di ((x0 &&& ((1 <<< u) - 1)) ||| ((w <<< u) % 256))).bind fun m1 =>
    if u ≠ 0 then
      (rd m1 (di + 1)).bind fun x1 => wr m1 (di + 1) ((x1 &&& (255 ^^^ ((1 <<< u) - 1))) ||| ((w >>> (8 - u)) % 256))
    else some m1

theorem packedStore_cons (w : Nat) (ws : List Nat) (m : Mem) (di u : Nat) :
    packedStore (w :: ws) m di u = (packedStepE m w di u).bind fun m' => packedStore ws m' (di + 1) u := by
  rw [packedStore]
  unfold packedStepE
  cases rd m di with
  | none => rfl
  | some x0 =>
    simp only [Option.bind_some]
    cases wr m di ((x0 &&& ((1 <<< u) - 1)) ||| ((w <<< u) % 256)) with
    | none => rfl
    | some m1 =>
      simp only [Option.bind_some]
      by_cases hu : u ≠ 0
      · simp only [if_pos hu]
        cases rd m1 (di + 1) with
        | none => rfl
        | some x1 =>
          simp only [Option.bind_some]
      · simp only [if_neg hu, Option.bind_some]

/-- the bits of the byte groups, in order -/
def wordsBits (ws : List Nat) : Bits := ws.flatMap (natToBits · 8)

theorem wordsBits_length (ws : List Nat) : (wordsBits ws).length = 8 * ws.length := by
  induction ws with
  | nil => rfl
  | cons w ws ih => simp [wordsBits, List.flatMap_cons] at ih ⊢; omega

theorem packedStore_spec (u : Nat) (hu : u < 8) : ∀ (ws : List Nat) (m : Mem) (di : Nat), BytesOK m → (∀ w ∈ ws, w < 256) →
    8 * di + u + 8 * ws.length ≤ 8 * m.length →
    ∃ m', packedStore ws m di u = some m' ∧ m'.length = m.length ∧ BytesOK m' ∧
      ∀ k, bit m' k = if 8 * di + u ≤ k ∧ k < 8 * di + u + 8 * ws.length then (wordsBits ws).getD (k - (8 * di + u)) false else bit m k := by
  intro ws
  induction ws with
  | nil =>
    intro m di hm _ _
    refine ⟨m, by simp [packedStore], rfl, hm, ?_⟩
    intro k
    have : ¬ (8 * di + u ≤ k ∧ k < 8 * di + u + 8 * ([] : List Nat).length) := by simp
    rw [if_neg this]
  | cons w ws ih =>
    intro m di hm hws hfit
    simp only [List.length_cons] at hfit
    obtain ⟨m1, h1, hl1, hk1, hb1⟩ := packedStep m hm w di u (hws w (by simp)) hu (by omega)
    have h1' : packedStepE m w di u = some m1 := h1
    obtain ⟨m2, h2, hl2, hk2, hb2⟩ := ih m1 (di + 1) hk1 (fun x hx => hws x (by simp [hx])) (by rw [hl1]; omega)
    refine ⟨m2, by rw [packedStore_cons, h1']; exact h2, by rw [hl2, hl1], hk2, ?_⟩
    intro k
    rw [hb2 k]
    simp only [List.length_cons]
    have hwb : wordsBits (w :: ws) = natToBits w 8 ++ wordsBits ws := by simp [wordsBits, List.flatMap_cons]
    by_cases hA : 8 * (di + 1) + u ≤ k ∧ k < 8 * (di + 1) + u + 8 * ws.length
    · have a : 8 * di + u ≤ k ∧ k < 8 * di + u + 8 * (ws.length + 1) := by omega
      rw [if_pos hA, if_pos a, hwb]
      simp only [List.getD]
      rw [List.getElem?_append_right (by simp; omega)]
      simp only [natToBits_length]
      congr 2; omega
    · rw [if_neg hA, hb1 k]
      by_cases hB : 8 * di + u ≤ k ∧ k < 8 * di + u + 8
      · have a : 8 * di + u ≤ k ∧ k < 8 * di + u + 8 * (ws.length + 1) := by omega
        rw [if_pos hB, if_pos a, hwb]
        have hg := natToBits_getD w 8 (k - (8 * di + u))
        simp only [List.getD] at hg ⊢
        rw [List.getElem?_append_left (by simp; omega), hg]
        have : k - (8 * di + u) < 8 := by omega
        simp [this]
      · have a : ¬ (8 * di + u ≤ k ∧ k < 8 * di + u + 8 * (ws.length + 1)) := by omega
        rw [if_neg hB, if_neg a]

theorem packedWords_lt (fuel v : Nat) : ∀ w ∈ packedWords fuel v, w < 256 := by
  induction fuel generalizing v with
  | zero => intro w hw; simp [packedWords] at hw
  | succ f ih =>
    intro w hw
    simp only [packedWords, List.mem_cons] at hw
    rcases hw with h | h
    · subst h; split <;> omega
    · split at h
      · exact ih _ w h
      · simp at h

theorem wPacked_eq (fuel v : Nat) : Utcp.wPacked fuel v = wordsBits (packedWords fuel v) := by
  induction fuel generalizing v with
  | zero => rfl
  | succ f ih =>
    simp only [Utcp.wPacked, packedWords, wordsBits, List.flatMap_cons]
    by_cases h : v / 128 = 0
    · simp [h]
    · have h' : (v / 128 != 0) = true := by simp [h]
      simp only [h', if_true, ne_eq, h, not_false_eq_true]
      rw [ih (v / 128)]; rfl

/-- `bitbuf_write_int_packed`: the 1-5 byte groups land on the next `8 * groups` bits at any cursor alignment (each group straddling two bytes unless
the cursor is byte aligned), or - not enough room - failure with everything untouched -/
theorem writeIntPacked_refines (b : Buf) (hb : WB b) (v : Nat) :
    (b.num + (Utcp.writeIntPacked v).length ≤ b.size → ∃ b', writeIntPacked b v = some (true, b') ∧ WB b' ∧ b'.size = b.size ∧
        content b' = content b ++ Utcp.writeIntPacked v) ∧
    (¬ b.num + (Utcp.writeIntPacked v).length ≤ b.size → writeIntPacked b v = some (false, b)) := by
  have e32 : (4294967296 : Nat) = 2 ^ 32 := rfl
  have hw : Utcp.writeIntPacked v = wordsBits (packedWords 5 (v % 4294967296)) := by
    unfold Utcp.writeIntPacked; rw [wPacked_eq, e32]
  have hlen : (Utcp.writeIntPacked v).length = (packedWords 5 (v % 4294967296)).length * 8 := by
    rw [hw, wordsBits_length]; omega
  have hs := hb.size
  constructor
  · intro hfit
    unfold writeIntPacked allowOpt
    rw [hlen] at hfit
    simp only [hfit, decide_true, Bool.not_true, Bool.false_eq_true, if_false]
    obtain ⟨m', hm, hl, hk, hbits⟩ := packedStore_spec (b.num % 8) (by omega) (packedWords 5 (v % 4294967296)) b.mem (b.num / 8) hb.bytes
      (packedWords_lt 5 _) (by omega)
    rw [hm]
    have hpos : 8 * (b.num / 8) + b.num % 8 = b.num := by omega
    rw [hpos] at hbits
    have := wb_extend b hb m' (Utcp.writeIntPacked v) (by rw [hlen]; exact hfit) hl hk (by
      intro k
      rw [hbits k, hlen, hw]
      have : 8 * (packedWords 5 (v % 4294967296)).length = (packedWords 5 (v % 4294967296)).length * 8 := by omega
      rw [this])
    rw [hlen] at this
    exact ⟨_, rfl, this.1, rfl, this.2⟩
  · intro hno
    unfold writeIntPacked allowOpt
    rw [hlen] at hno
    simp [hno]

end Utcp.BB

namespace Utcp.BB

theorem testBit_bitsToNat (bs : Bits) : ∀ i, (bitsToNat bs).testBit i = bs.getD i false := by
  induction bs with
  | nil => intro i; simp [bitsToNat]
  | cons b bs ih =>
    intro i
    cases i with
    | zero =>
      simp only [bitsToNat, Nat.testBit_zero, List.getD_cons_zero]
      cases b <;> simp <;> omega
    | succ i =>
      rw [Nat.testBit_add_one, List.getD_cons_succ, ← ih i]
      congr 1
      simp only [bitsToNat]
      cases b <;> simp <;> omega

theorem testBit_maskN (n j : Nat) : (((1 <<< n) - 1) % 256).testBit j = (decide (j < 8) && decide (j < n)) := by
  rw [testBit_mod256, testBit_mask0]

/-- the byte `bitbuf_read_int_packed` assembles from one or two array bytes is the next eight bits of the buffer -/
theorem packedByte (m : Mem) (_hm : BytesOK m) (num : Nat) (hfit : num + 8 ≤ 8 * m.length) :
    ∃ s0 s1, rd m (num / 8) = some s0 ∧ (if num % 8 ≠ 0 then rd m (num / 8 + 1) else rd m (num / 8)) = some s1 ∧
      (((s0 >>> (num % 8)) &&& (((1 <<< (8 - num % 8)) - 1) % 256)) ||| ((s1 &&& (((1 <<< (num % 8)) - 1) % 256)) <<< ((8 - num % 8) % 8))) % 256
        = bitsToNat (bitsFrom m num 8) := by
  have hu : num % 8 < 8 := by omega
  refine ⟨m.getD (num / 8) 0, if num % 8 ≠ 0 then m.getD (num / 8 + 1) 0 else m.getD (num / 8) 0, rd_of_lt _ _ (by omega), ?_, ?_⟩
  · by_cases h : num % 8 ≠ 0
    · rw [if_pos h, if_pos h, rd_of_lt _ _ (by omega)]
    · rw [if_neg h, if_neg h, rd_of_lt _ _ (by omega)]
  · apply Nat.eq_of_testBit_eq
    intro j
    rw [testBit_bitsToNat, testBit_mod256]
    by_cases hj : j < 8
    · rw [bitsFrom_getD _ _ _ _ hj, Nat.testBit_or, Nat.testBit_and, Nat.testBit_shiftRight, testBit_maskN, Nat.testBit_shiftLeft, Nat.testBit_and, testBit_maskN]
      by_cases h0 : num % 8 = 0
      · have hnum : num + j = 8 * (num / 8) + j := by omega
        rw [hnum, bit_at _ _ _ hj, h0]
        simp [hj]
      · have hl : (8 - num % 8) % 8 = 8 - num % 8 := by omega
        rw [hl, if_pos h0]
        by_cases hc : num % 8 + j < 8
        · have hnum : num + j = 8 * (num / 8) + (num % 8 + j) := by omega
          rw [hnum, bit_at _ _ _ hc]
          have a1 : j < 8 - num % 8 := by omega
          have a2 : ¬ (j ≥ 8 - num % 8) := by omega
          simp [hj, a1, a2]
        · have hnum : num + j = 8 * (num / 8 + 1) + (num % 8 + j - 8) := by omega
          rw [hnum, bit_at _ _ _ (by omega)]
          have a1 : ¬ (j < 8 - num % 8) := by omega
          have a2 : j ≥ 8 - num % 8 := by omega
          have a3 : j - (8 - num % 8) < 8 := by omega
          have a4 : j - (8 - num % 8) < num % 8 := by omega
          have a5 : j - (8 - num % 8) = num % 8 + j - 8 := by omega
          simp [hj, a1, a2, a5]
          intro _; omega
    · have : (bitsFrom m num 8).getD j false = false := by
        simp only [List.getD]
        rw [List.getElem?_eq_none (by simp; omega)]; rfl
      rw [this]; simp [hj]

end Utcp.BB

namespace Utcp.BB

theorem packedAcc (byte shift value : Nat) (hv : value < 2 ^ shift) :
    (((byte >>> 1) <<< shift) ||| value) % 4294967296 = (value + (byte / 2) * 2 ^ shift) % 2 ^ 32 := by
  have e32 : (4294967296 : Nat) = 2 ^ 32 := rfl
  rw [e32, Nat.shiftRight_eq_div_pow, Nat.shiftLeft_eq, Nat.pow_one]
  have := Nat.two_pow_add_eq_or_of_lt hv (byte / 2)
  rw [Nat.mul_comm (byte / 2) (2 ^ shift), ← this, Nat.add_comm]

theorem rPackedLoop_spec (m : Mem) (hm : BytesOK m) (size : Nat) (hs : size ≤ 8 * m.length) :
    ∀ (fuel num shift value : Nat), value < 2 ^ shift → num ≤ size →
      ∃ ok v num', rPackedLoop fuel m size num (num / 8) (num % 8) shift value = some (ok, v, num') ∧ num ≤ num' ∧ num' ≤ size ∧
        Utcp.rPackedLoop fuel shift value (bitsFrom m num (size - num)) =
          (if ok then .ok v (bitsFrom m num' (size - num')) else .fail (bitsFrom m num' (size - num'))) := by
  intro fuel
  induction fuel with
  | zero =>
    intro num shift value _ hn
    exact ⟨true, value, num, by simp [rPackedLoop], Nat.le_refl _, hn, by simp [Utcp.rPackedLoop]⟩
  | succ f ih =>
    intro num shift value hv hn
    unfold rPackedLoop Utcp.rPackedLoop
    by_cases hend : num + 8 > size
    · rw [if_pos hend]
      refine ⟨false, value, num, rfl, Nat.le_refl _, hn, ?_⟩
      have : Utcp.readBits 8 (bitsFrom m num (size - num)) = .fail (bitsFrom m num (size - num)) := by
        unfold Utcp.readBits
        rw [if_neg (by simp; omega)]
      simp only [this, Bool.false_eq_true, if_false]
    · rw [if_neg hend]
      obtain ⟨s0, s1, h0, h1, hbyte⟩ := packedByte m hm num (by omega)
      simp only [h1]
      simp only [h0, Option.bind_some, hbyte]
      have hb256 : bitsToNat (bitsFrom m num 8) < 256 := by
        have := bitsToNat_lt (bitsFrom m num 8)
        simpa using this
      have hsp : size - num = 8 + (size - (num + 8)) := by omega
      rw [hsp, bitsFrom_append, sReadBits_ok 8 _ _ (by simp)]
      simp only
      generalize bitsToNat (bitsFrom m num 8) = byte at hb256 ⊢
      rw [packedAcc byte shift value hv]
      have hcond : (byte &&& 1 = 0) ↔ ¬ (byte % 2 = 1) := by rw [Nat.and_one_is_mod]; omega
      by_cases hb : byte % 2 = 1
      · have hc : ¬ (byte &&& 1 = 0) := fun h => (hcond.mp h) hb
        rw [if_neg hc, if_pos hb]
        have e1 : num / 8 + 1 = (num + 8) / 8 := by omega
        have e2 : num % 8 = (num + 8) % 8 := by omega
        have hv' : (value + byte / 2 * 2 ^ shift) % 2 ^ 32 < 2 ^ (shift + 7) := by
          apply Nat.lt_of_le_of_lt (Nat.mod_le _ _)
          rw [Nat.pow_add]
          have h127 : byte / 2 * 2 ^ shift ≤ 127 * 2 ^ shift := Nat.mul_le_mul_right _ (by omega)
          have : (2 : Nat) ^ 7 = 128 := rfl
          rw [this]
          omega
        rw [e1, e2]
        obtain ⟨ok, v, num', hr, hle, hle2, hS⟩ := ih (num + 8) (shift + 7) ((value + byte / 2 * 2 ^ shift) % 2 ^ 32) hv' (by omega)
        exact ⟨ok, v, num', hr, by omega, hle2, hS⟩
      · have hc : byte &&& 1 = 0 := hcond.mpr hb
        rw [if_pos hc, if_neg hb]
        exact ⟨true, _, num + 8, rfl, by omega, by omega, by simp⟩

end Utcp.BB

namespace Utcp.BB

/-- `bitbuf_read_int_packed` is the bit-level `readIntPacked` on the bits that are left: same value, same bits consumed; when it runs into the end the
groups already consumed stay consumed, and the cursor is still inside the buffer; the array is only touched below `size` -/
theorem readIntPacked_refines (b : Buf) (hb : RB b) :
    ∃ ok v b', readIntPacked b = some (ok, v, b') ∧ RB b' ∧ b'.mem = b.mem ∧ b'.size = b.size ∧
      Utcp.readIntPacked (rest b) = (if ok then .ok v (rest b') else .fail (rest b')) := by
  obtain ⟨ok, v, num', hr, hle, hle2, hS⟩ := rPackedLoop_spec b.mem hb.bytes b.size hb.size 5 b.num 0 0 (by simp) hb.num
  unfold readIntPacked
  rw [hr]
  simp only [Option.bind_some]
  refine ⟨ok, _, _, rfl, ⟨hb.bytes, hb.size, hle2⟩, rfl, rfl, ?_⟩
  unfold Utcp.readIntPacked rest
  rw [hS]
  cases ok <;> simp

/-! ### what was written is read back, at the level of the bytes

The bit-level round trips of `Props/C12.lean`, transported: a read buffer whose remaining bits start with what a writer produced. -/

theorem read_back_int (rb : Buf) (hrb : RB rb) (v mx : Nat) (r : Bits) (hv : v < mx) (hmx : mx ≤ 2 ^ 32)
    (hrest : rest rb = Utcp.writeInt v mx ++ r) :
    ∃ rb', readInt rb mx = some (true, v, rb') ∧ RB rb' ∧ rest rb' = r := by
  obtain ⟨ok, v', b', h, hrb', _, _, hS, _⟩ := readInt_refines rb hrb mx
  rw [hrest, Utcp.readInt_writeInt v mx r hv hmx] at hS
  cases ok with
  | false => simp at hS
  | true =>
    simp only [if_true, RR.ok.injEq] at hS
    obtain ⟨h1, h2⟩ := hS
    subst h1
    exact ⟨b', h, hrb', h2.symm⟩

theorem read_back_packed (rb : Buf) (hrb : RB rb) (v : Nat) (r : Bits) (hv : v < 2 ^ 32)
    (hrest : rest rb = Utcp.writeIntPacked v ++ r) :
    ∃ rb', readIntPacked rb = some (true, v, rb') ∧ RB rb' ∧ rest rb' = r := by
  obtain ⟨ok, v', b', h, hrb', _, _, hS⟩ := readIntPacked_refines rb hrb
  rw [hrest, Utcp.readIntPacked_write v r, Nat.mod_eq_of_lt hv] at hS
  cases ok with
  | false => simp at hS
  | true =>
    simp only [if_true, RR.ok.injEq] at hS
    obtain ⟨h1, h2⟩ := hS
    subst h1
    exact ⟨b', h, hrb', h2.symm⟩

theorem read_back_bits (rb : Buf) (hrb : RB rb) (w r : Bits) (out : Mem) (hout : BytesOK out) (hlen : out.length = (w.length + 7) / 8)
    (hrest : rest rb = w ++ r) :
    ∃ out' rb', readBits rb out w.length = some (true, out', rb') ∧ RB rb' ∧ rest rb' = r ∧ bitsFrom out' 0 w.length = w ∧
      out'.length = out.length ∧ ∀ k, w.length ≤ k → bit out' k = false := by
  obtain ⟨ok, out', b', h, hrb', _, _, hl, _, hS, hz, _⟩ := readBits_refines rb hrb out hout w.length hlen
  rw [hrest, sReadBits_ok w.length w r rfl] at hS
  cases ok with
  | false => simp at hS
  | true =>
    simp only [if_true, RR.ok.injEq] at hS
    exact ⟨out', b', h, hrb', hS.2.symm, hS.1.symm, hl, hz rfl⟩

end Utcp.BB

namespace Utcp.BB

theorem bit_u32Bytes (v k : Nat) : bit (u32Bytes v) k = (decide (k < 32) && v.testBit k) := by
  have h256 : (256 : Nat) = 2 ^ 8 := rfl
  have h65536 : (65536 : Nat) = 2 ^ 16 := rfl
  have h16777216 : (16777216 : Nat) = 2 ^ 24 := rfl
  by_cases hk : k < 32
  · have hj : k % 8 < 8 := by omega
    unfold bit u32Bytes
    have hcases : k / 8 = 0 ∨ k / 8 = 1 ∨ k / 8 = 2 ∨ k / 8 = 3 := by omega
    rcases hcases with h | h | h | h
    · rw [h]; simp only [List.getD_cons_zero]
      rw [testBit_mod256]
      have : k % 8 = k := by omega
      rw [this]
      have : k < 8 := by omega
      simp [hk, this]
    · rw [h]; simp only [List.getD_cons_succ, List.getD_cons_zero]
      rw [testBit_mod256, h256, Nat.testBit_div_two_pow]
      have : k % 8 + 8 = k := by omega
      rw [this]
      simp [hk, hj]
    · rw [h]; simp only [List.getD_cons_succ, List.getD_cons_zero]
      rw [testBit_mod256, h65536, Nat.testBit_div_two_pow]
      have : k % 8 + 16 = k := by omega
      rw [this]
      simp [hk, hj]
    · rw [h]; simp only [List.getD_cons_succ, List.getD_cons_zero]
      rw [testBit_mod256, h16777216, Nat.testBit_div_two_pow]
      have : k % 8 + 24 = k := by omega
      rw [this]
      simp [hk, hj]
  · rw [bit_oob _ _ (by simp [u32Bytes]; omega)]
    simp [hk]

theorem bitsFrom_u32Bytes (v : Nat) : bitsFrom (u32Bytes v) 0 32 = natToBits v 32 := by
  have := bitsFrom_eq (u32Bytes v) (natToBits v 32) 0 (by
    intro i hi
    simp only [natToBits_length] at hi
    rw [natToBits_getD, bit_u32Bytes]
    simp)
  simpa using this

theorem bytesOK_u32Bytes (v : Nat) : BytesOK (u32Bytes v) := by
  intro x hx
  simp only [u32Bytes, List.mem_cons, List.not_mem_nil, or_false] at hx
  rcases hx with h | h | h | h <;> (subst h; omega)

/-- `bitbuf_write_int_byte_order` on a little-endian host: the 32 bits of the value, least significant first -/
theorem writeU32_refines (b : Buf) (hb : WB b) (v : Nat) :
    (b.num + 32 ≤ b.size → ∃ b', writeU32 b v = some (true, b') ∧ WB b' ∧ b'.size = b.size ∧ content b' = content b ++ Utcp.writeU32 v) ∧
    (¬ b.num + 32 ≤ b.size → writeU32 b v = some (false, b)) := by
  have h := writeBytes_refines b hb (u32Bytes v) (bytesOK_u32Bytes v) 4 (by simp [u32Bytes])
  have e : (4 : Nat) * 8 = 32 := rfl
  rw [e] at h
  unfold writeU32 Utcp.writeU32
  rw [← bitsFrom_u32Bytes]
  exact h

end Utcp.BB

namespace Utcp.BB

/-- the value of four bytes in memory order is the number whose bits they are -/
theorem le32_eq (o : Mem) (ho : BytesOK o) (hl : o.length = 4) :
    o.getD 0 0 + 256 * o.getD 1 0 + 65536 * o.getD 2 0 + 16777216 * o.getD 3 0 = bitsToNat (bitsFrom o 0 32) := by
  have h0 := getD_lt_256 o ho 0
  have h1 := getD_lt_256 o ho 1
  have h2 := getD_lt_256 o ho 2
  have h3 := getD_lt_256 o ho 3
  have hv : u32Bytes (o.getD 0 0 + 256 * o.getD 1 0 + 65536 * o.getD 2 0 + 16777216 * o.getD 3 0) = o := by
    match o, hl with
    | [a, b, c, d], _ =>
      simp only [List.getD_cons_zero, List.getD_cons_succ] at h0 h1 h2 h3 ⊢
      unfold u32Bytes
      congr 1
      · omega
      · congr 1
        · omega
        · congr 1
          · omega
          · congr 1; omega
  have hlt : o.getD 0 0 + 256 * o.getD 1 0 + 65536 * o.getD 2 0 + 16777216 * o.getD 3 0 < 2 ^ 32 := by omega
  generalize o.getD 0 0 + 256 * o.getD 1 0 + 65536 * o.getD 2 0 + 16777216 * o.getD 3 0 = v at hv hlt
  rw [← hv, bitsFrom_u32Bytes, bitsToNat_natToBits, Nat.mod_eq_of_lt hlt]

/-- `bitbuf_read_int_byte_order` (little-endian host) is the bit-level `readU32` on the bits that are left -/
theorem readU32_refines (b : Buf) (hb : RB b) :
    ∃ ok v b', readU32 b = some (ok, v, b') ∧ RB b' ∧ b'.mem = b.mem ∧ b'.size = b.size ∧
      Utcp.readU32 (rest b) = (if ok then .ok v (rest b') else .fail (rest b')) := by
  obtain ⟨ok, out', b', h, hrb', hm, hsz, hl, hok, hS, _, _⟩ := readBits_refines b hb [0, 0, 0, 0] (by intro x hx; simp at hx; omega) 32 (by simp)
  unfold readU32
  rw [h]
  simp only [Option.bind_some]
  refine ⟨ok, _, b', rfl, hrb', hm, hsz, ?_⟩
  unfold Utcp.readU32
  rw [hS]
  cases ok with
  | false => simp
  | true =>
    simp only [if_true]
    rw [le32_eq out' hok (by simpa using hl)]

end Utcp.BB

namespace Utcp.BB

/-- one call of the property's vocabulary, with the arguments the C function gets (`data` = the caller's array) -/
inductive LOp where
  | bit (v : Nat)
  | run (data : Mem) (n : Nat)
  | bytes (data : Mem) (size : Nat)
  | int (v mx : Nat)
  | packed (v : Nat)
  | wrapped (v k : Nat)
  | word (v : Nat)

/-- in-range arguments: arrays of bytes that hold the bits passed, `value < max ≤ 2^32`, 32-bit values -/
def LOp.ok : LOp → Prop
  | .bit _ => True
  | .run data n => BytesOK data ∧ n ≤ 8 * data.length
  | .bytes data size => BytesOK data ∧ size ≤ data.length
  | .int v mx => v < mx ∧ mx ≤ 2 ^ 32
  | .packed v => v < 2 ^ 32
  | .wrapped _ k => k ≤ 32
  | .word v => v < 2 ^ 32

/-- the bits the call appends (bit-level model) -/
def LOp.bits : LOp → Bits
  | .bit v => [decide (v % 256 ≠ 0)]
  | .run data n => bitsFrom data 0 n
  | .bytes data size => bitsFrom data 0 (size * 8)
  | .int v mx => Utcp.writeInt v mx
  | .packed v => Utcp.writeIntPacked v
  | .wrapped v k => Utcp.writeIntWrapped v (2 ^ k)
  | .word v => Utcp.writeU32 v

/-- the room the C function insists on before it writes (`ceil(log2 max)` for the bounded integers, even when the encoding is shorter) -/
def LOp.need : LOp → Nat
  | .int _ mx => ceilLogTwo mx
  | .wrapped _ k => ceilLogTwo (2 ^ k)
  | o => o.bits.length

def LOp.write : LOp → Buf → Option (Bool × Buf)
  | .bit v, b => writeBit b v
  | .run data n, b => writeBits b data n
  | .bytes data size, b => writeBytes b data size
  | .int v mx, b => writeInt b v mx
  | .packed v, b => writeIntPacked b v
  | .wrapped v k, b => writeIntWrapped b v (2 ^ k)
  | .word v, b => writeU32 b v

/-- the calls one after the other; stops at the first refusal -/
def writeAll : List LOp → Buf → Option (Bool × Buf)
  | [], b => some (true, b)
  | o :: os, b => (o.write b).bind fun (ok, b') => if ok then writeAll os b' else some (false, b')

def needAll (ops : List LOp) : Nat := (ops.map LOp.need).sum

theorem LOp.write_spec (o : LOp) (ho : o.ok) (b : Buf) (hb : WB b) (hfit : b.num + o.need ≤ b.size) :
    ∃ b', o.write b = some (true, b') ∧ WB b' ∧ b'.size = b.size ∧ content b' = content b ++ o.bits ∧ b'.num ≤ b.num + o.need := by
  have hnum : ∀ b' : Buf, content b' = content b ++ o.bits → b'.num = b.num + o.bits.length := by
    intro b' h
    have := congrArg List.length h
    simpa [content] using this
  cases o with
  | bit v =>
    obtain ⟨b', h1, h2, h3, h4⟩ := (writeBit_refines b hb v).1 (by simpa [LOp.need, LOp.bits] using hfit)
    exact ⟨b', h1, h2, h3, h4, by rw [hnum b' h4]; simp [LOp.need]⟩
  | run data n =>
    obtain ⟨b', h1, h2, h3, h4⟩ := (writeBits_refines b hb data ho.1 n ho.2).1 (by simpa [LOp.need, LOp.bits] using hfit)
    exact ⟨b', h1, h2, h3, h4, by rw [hnum b' h4]; simp [LOp.need]⟩
  | bytes data size =>
    obtain ⟨b', h1, h2, h3, h4⟩ := (writeBytes_refines b hb data ho.1 size ho.2).1 (by simpa [LOp.need, LOp.bits] using hfit)
    exact ⟨b', h1, h2, h3, h4, by rw [hnum b' h4]; simp [LOp.need]⟩
  | int v mx =>
    obtain ⟨b', h1, h2, h3, h4⟩ := (writeInt_refines b hb v mx ho.2).1 ho.1 (by simpa [LOp.need] using hfit)
    refine ⟨b', h1, h2, h3, h4, ?_⟩
    rw [hnum b' h4]
    have := Utcp.writeInt_length_le v mx _ (le_two_pow_ceilLogTwo mx ho.2)
    simp only [LOp.need, LOp.bits]; omega
  | packed v =>
    obtain ⟨b', h1, h2, h3, h4⟩ := (writeIntPacked_refines b hb v).1 (by simpa [LOp.need, LOp.bits] using hfit)
    exact ⟨b', h1, h2, h3, h4, by rw [hnum b' h4]; simp [LOp.need]⟩
  | wrapped v k =>
    have h32 : 2 ^ k ≤ 2 ^ 32 := Nat.pow_le_pow_right (by omega) ho
    obtain ⟨b', h1, h2, h3, h4⟩ := (writeIntWrapped_refines b hb v (2 ^ k) h32).1 (by simpa [LOp.need] using hfit)
    refine ⟨b', h1, h2, h3, h4, ?_⟩
    rw [hnum b' h4]
    have := Utcp.writeInt_length_le v (2 ^ k) _ (le_two_pow_ceilLogTwo (2 ^ k) h32)
    simp only [LOp.need, LOp.bits, Utcp.writeIntWrapped]
    unfold Utcp.writeInt at this
    omega
  | word v =>
    obtain ⟨b', h1, h2, h3, h4⟩ := (writeU32_refines b hb v).1 (by simpa [LOp.need, LOp.bits, Utcp.writeU32] using hfit)
    exact ⟨b', h1, h2, h3, h4, by rw [hnum b' h4]; simp [LOp.need]⟩

/-- **any sequence of writes that fits**: every call succeeds and the buffer holds, in order, exactly the bits of the bit-level model -/
theorem writeAll_spec : ∀ (ops : List LOp) (b : Buf), (∀ o ∈ ops, o.ok) → WB b → b.num + needAll ops ≤ b.size →
    ∃ b', writeAll ops b = some (true, b') ∧ WB b' ∧ b'.size = b.size ∧ content b' = content b ++ ops.flatMap LOp.bits ∧ b'.num ≤ b.num + needAll ops := by
  intro ops
  induction ops with
  | nil => intro b _ hb _; exact ⟨b, rfl, hb, rfl, by simp, by simp [needAll]⟩
  | cons o os ih =>
    intro b hok hb hfit
    have hn : needAll (o :: os) = o.need + needAll os := by simp [needAll]
    rw [hn] at hfit
    obtain ⟨b1, h1, hwb1, hs1, hc1, hn1⟩ := o.write_spec (hok o (by simp)) b hb (by omega)
    obtain ⟨b2, h2, hwb2, hs2, hc2, hn2⟩ := ih b1 (fun x hx => hok x (by simp [hx])) hwb1 (by rw [hs1]; omega)
    refine ⟨b2, ?_, hwb2, by rw [hs2, hs1], ?_, by rw [hn]; omega⟩
    · simp only [writeAll, h1, Option.bind_some, if_true]; exact h2
    · rw [hc2, hc1]; simp [List.flatMap_cons]

end Utcp.BB

namespace Utcp.BB

/-- the matching read, compared with what was written -/
def LOp.readBack : LOp → Buf → Option (Bool × Buf)
  | .bit v, b => (readBit b).bind fun (ok, x, b') => some (ok && (decide (x = 1) == decide (v % 256 ≠ 0)), b')
  | .run data n, b => (readBits b (List.replicate ((n + 7) / 8) 0) n).bind fun (ok, out, b') => some (ok && (bitsFrom out 0 n == bitsFrom data 0 n), b')
  | .bytes data size, b => (readBytes b (List.replicate size 0) size).bind fun (ok, out, b') =>
      some (ok && (bitsFrom out 0 (size * 8) == bitsFrom data 0 (size * 8)), b')
  | .int v mx, b => (readInt b mx).bind fun (ok, x, b') => some (ok && x == v, b')
  | .packed v, b => (readIntPacked b).bind fun (ok, x, b') => some (ok && x == v, b')
  | .wrapped v k, b => (readInt b (2 ^ k)).bind fun (ok, x, b') => some (ok && x == v % 2 ^ k, b')
  | .word v, b => (readU32 b).bind fun (ok, x, b') => some (ok && x == v, b')

def readAllL : List LOp → Buf → Option (Bool × Buf)
  | [], b => some (true, b)
  | o :: os, b => (o.readBack b).bind fun (ok, b') => if ok then readAllL os b' else some (false, b')

theorem bytesOK_replicate (n : Nat) : BytesOK (List.replicate n 0) := by
  intro x hx
  have := List.eq_of_mem_replicate hx
  omega

theorem LOp.readBack_spec (o : LOp) (ho : o.ok) (rb : Buf) (hrb : RB rb) (r : Bits) (hrest : rest rb = o.bits ++ r) :
    ∃ rb', o.readBack rb = some (true, rb') ∧ RB rb' ∧ rest rb' = r := by
  cases o with
  | bit v =>
    obtain ⟨ok, x, b', h, hrb', _, _, hS, _⟩ := readBit_refines rb hrb
    rw [hrest] at hS
    simp only [LOp.bits, List.cons_append, List.nil_append, Utcp.readBit] at hS
    cases ok with
    | false => simp at hS
    | true =>
      simp only [if_true, RR.ok.injEq] at hS
      refine ⟨b', ?_, hrb', hS.2.symm⟩
      simp only [LOp.readBack, h, Option.bind_some, Bool.true_and]
      rw [← hS.1]; simp
  | run data n =>
    obtain ⟨out', rb', h, hrb', hr, hb, _, _⟩ := read_back_bits rb hrb (bitsFrom data 0 n) r (List.replicate ((n + 7) / 8) 0)
      (bytesOK_replicate _) (by simp) hrest
    simp only [bitsFrom_length] at h hb
    exact ⟨rb', by simp [LOp.readBack, h, hb], hrb', hr⟩
  | bytes data size =>
    obtain ⟨out', rb', h, hrb', hr, hb, _, _⟩ := read_back_bits rb hrb (bitsFrom data 0 (size * 8)) r (List.replicate size 0)
      (bytesOK_replicate _) (by simp; omega) hrest
    simp only [bitsFrom_length] at h hb
    exact ⟨rb', by simp [LOp.readBack, readBytes, h, hb], hrb', hr⟩
  | int v mx =>
    obtain ⟨rb', h, hrb', hr⟩ := read_back_int rb hrb v mx r ho.1 ho.2 hrest
    exact ⟨rb', by simp [LOp.readBack, h], hrb', hr⟩
  | packed v =>
    obtain ⟨rb', h, hrb', hr⟩ := read_back_packed rb hrb v r ho hrest
    exact ⟨rb', by simp [LOp.readBack, h], hrb', hr⟩
  | wrapped v k =>
    obtain ⟨ok, x, b', h, hrb', _, _, hS, _⟩ := readInt_refines rb hrb (2 ^ k)
    rw [hrest] at hS
    simp only [LOp.bits] at hS
    rw [Utcp.readInt_wrapped_pow2 k v r ho] at hS
    cases ok with
    | false => simp at hS
    | true =>
      simp only [if_true, RR.ok.injEq] at hS
      exact ⟨b', by simp [LOp.readBack, h, hS.1], hrb', hS.2.symm⟩
  | word v =>
    obtain ⟨ok, x, b', h, hrb', _, _, hS⟩ := readU32_refines rb hrb
    rw [hrest] at hS
    simp only [LOp.bits] at hS
    rw [Utcp.readU32_write, Nat.mod_eq_of_lt ho] at hS
    cases ok with
    | false => simp at hS
    | true =>
      simp only [if_true, RR.ok.injEq] at hS
      exact ⟨b', by simp [LOp.readBack, h, hS.1], hrb', hS.2.symm⟩

theorem readAllL_spec : ∀ (ops : List LOp) (rb : Buf) (r : Bits), (∀ o ∈ ops, o.ok) → RB rb → rest rb = ops.flatMap LOp.bits ++ r →
    ∃ rb', readAllL ops rb = some (true, rb') ∧ RB rb' ∧ rest rb' = r := by
  intro ops
  induction ops with
  | nil => intro rb r _ hrb h; exact ⟨rb, rfl, hrb, by simpa using h⟩
  | cons o os ih =>
    intro rb r hok hrb h
    simp only [List.flatMap_cons, List.append_assoc] at h
    obtain ⟨rb1, h1, hrb1, hr1⟩ := o.readBack_spec (hok o (by simp)) rb hrb _ h
    obtain ⟨rb2, h2, hrb2, hr2⟩ := ih rb1 r (fun x hx => hok x (by simp [hx])) hrb1 hr1
    exact ⟨rb2, by simp only [readAllL, h1, Option.bind_some, if_true]; exact h2, hrb2, hr2⟩

/-- **C12 at the level of the byte array**: into a zeroed buffer of `cap` bytes, every sequence of in-range writes for which there is room (plus one bit
for the terminator) succeeds call by call; closing it, taking exactly the bytes that hold valid bits as the datagram, and opening that for reading,
the matching sequence of reads succeeds call by call, returns what was written, and ends with nothing left - and on the way no byte outside any of the
arrays involved was read or written (every step is `some _` in a model where such an access is `none`). -/
theorem byte_level_round_trip (cap : Nat) (ops : List LOp) (hok : ∀ o ∈ ops, o.ok) (hfit : needAll ops + 1 ≤ 8 * cap) :
    ∃ b1 b2 rb rb', writeAll ops ⟨List.replicate cap 0, 8 * cap, 0⟩ = some (true, b1) ∧ writeEnd b1 = some (true, b2) ∧
      readInit (b2.mem.take ((b2.num + 7) / 8)) = some (true, rb) ∧ readAllL ops rb = some (true, rb') ∧ rest rb' = [] ∧
      content b1 = ops.flatMap LOp.bits := by
  have hwb0 : WB ⟨List.replicate cap 0, 8 * cap, 0⟩ := by
    refine ⟨bytesOK_replicate cap, by simp, by simp, ?_⟩
    intro k _
    unfold bit
    have : (List.replicate cap 0).getD (k / 8) 0 = 0 := by
      simp only [List.getD]
      by_cases h : k / 8 < cap
      · simp [List.getElem?_replicate, h]
      · simp [List.getElem?_replicate, h]
    simp only at this ⊢
    rw [this]; simp
  obtain ⟨b1, h1, hwb1, hs1, hc1, hn1⟩ := writeAll_spec ops _ hok hwb0 (by simp; omega)
  simp only [content, bitsFrom, List.nil_append] at hc1
  obtain ⟨b2, h2, _, rb, h3, hrb, _, hr⟩ := finish_then_init b1 hwb1 (by rw [hs1]; simp at hn1 ⊢; omega)
  obtain ⟨rb', h4, _, hr4⟩ := readAllL_spec ops rb [] hok hrb (by rw [hr]; simpa [content] using hc1)
  exact ⟨b1, b2, rb, rb', h1, h2, h3, h4, hr4, by simpa [content] using hc1⟩

end Utcp.BB

namespace Utcp.BB
/-- non-vacuity: a mixed script at an unaligned cursor (88 bits + terminator) in a 12-byte buffer meets the hypotheses -/
example : (∀ o ∈ [LOp.bit 1, .int 5 10, .packed 300, .run [0xA5, 0x3C] 13, .wrapped 77 6, .word 305419896, .bytes [1, 2] 2], o.ok) ∧
    needAll [LOp.bit 1, .int 5 10, .packed 300, .run [0xA5, 0x3C] 13, .wrapped 77 6, .word 305419896, .bytes [1, 2] 2] + 1 ≤ 8 * 12 := by
  refine ⟨?_, by decide⟩
  intro o ho
  simp only [List.mem_cons, List.not_mem_nil, or_false] at ho
  rcases ho with h | h | h | h | h | h | h <;> subst h <;> simp [LOp.ok, BytesOK]
end Utcp.BB
