import Utcp.Lemmas.HappyPath
/-!
# C01 — the liveness half, in its simplest instance: one reliable bunch, one clean exchange, every parameter

The safety theorems (`Props/C01.lean`, `Props/C01_Link.lean`) say what can *not* happen.  This file proves that the right thing *does*
happen when nothing goes wrong, for every value of every parameter: a reliable bunch accepted by a connected sender whose send buffer is
empty is, after one flush and one delivery to an in-sync receiver, in the hands of the receiving application — bit for bit, with the
sender's sequence number — and the receiver's channel counter has advanced.  (Eventual delivery under faults followed by a fault-free
drain is not proved; it is what the C01 monitor checks on the real code.)
-/
namespace Utcp.Props.C01Happy
open Utcp Utcp.Gen Utcp.Props Utcp.Props.C18Parse

/-- **one reliable bunch, one clean exchange, for every parameter.**  The sender `S` (connected, send buffer empty) accepts a reliable,
non-partial, non-closing bunch `b` on an existing channel and flushes; the datagram reaches a receiver `R` that is in sync: same
magic-header configuration, the channel exists with nothing queued and its counter mirrors the sender's, and `R` accepts the packet
header `S` wrote.  Then `R` hands exactly that bunch to its application — same flags, channel, name, payload, numbered with the
sender's number — in this very call, and its channel counter advances to that number. -/
theorem one_bunch_round_trip (eS eF eR : Env) (S R : Conn) (b : Bunch) (h0 : Bits) (x xr : Channel)
    (hmagic : eF.magic < 2 ^ eF.magicBits) (hcfg : eR.magicBits = eF.magicBits ∧ eR.magic = eF.magic) (hm : eS.magicBits ≤ 32)
    (hchk : S.sendCheck b = .inr h0) (hx : S.getChan b.chIndex = some x) (hrel : b.bReliable = true) (hnp : b.bPartial = false) (hcl : b.bClose = false)
    (hidle : S.sendActive = false) (hconn : S.connected = true) (hh : S.notify.hist.length = 256)
    (hseqs : (0 ≤ S.notify.outSeq ∧ S.notify.outSeq < 16384) ∧ (0 ≤ S.notify.inAckSeq ∧ S.notify.inAckSeq < 16384))
    (hxr : R.getChan b.chIndex = some xr) (hq : xr.inRec = []) (hmirror : xr.inReliable = x.outReliable)
    (hacc : R.notify.deltaSeq (S.notify.headerWith S.notify.curWords) > 0) :
    ∃ d bits b', ((S.sendBunch eS b).1.flush eF).log = .out d :: .alloc .node :: S.log ∧
      C04.wireBits eR d = some bits ∧
      Event.recv [b'] ∈ (R.receivedPacket eR bits).1.log ∧ (R.receivedPacket eR bits).2 = true ∧
      seen b' = seen b ∧ b'.chSeq = x.outReliable + 1 ∧
      ∃ xr', (R.receivedPacket eR bits).1.getChan b.chIndex = some xr' ∧ xr'.inReliable = x.outReliable + 1 := by
  obtain ⟨hdr, hhe, hlog⟩ := send_then_flush eS eF S b h0 x hchk hx hrel hcl hidle hconn hm hh
  obtain ⟨hfit, hchi, henc⟩ := C14.accepted_fits S b h0 hchk
  obtain ⟨_, hcr⟩ := header_some_of_zero b (x.outReliable + 1) h0 henc
  have hr := Size.curWords_range S.notify
  have wf : C11.WFHeader (S.notify.headerWith S.notify.curWords) :=
    ⟨hseqs.1, hseqs.2, hr, Size.headerWith_hist_length _ _ hh hr.2⟩
  -- what travels is the encoding of the numbered bunch
  have htb : hdr ++ b.data = bodyOf [nrm { b with chSeq := x.outReliable + 1 }] := by
    simp only [bodyOf, List.flatMap_cons, List.flatMap_nil, List.append_nil]
    rw [encB_nrm]; unfold encB encodeBunch; rw [hhe]; rfl
  have hwfb : WFBunch (nrm { b with chSeq := x.outReliable + 1 }) := wf_nrm _ hcr (by show b.chIndex < 65536; omega) (by show b.data.length < 8192; omega)
  -- the receiving endpoint takes the datagram apart
  have henv : outgoingHeader eF S.lastSessionId S.lastClientId false = outgoingHeader eR S.lastSessionId S.lastClientId false := by
    unfold outgoingHeader; rw [hcfg.1, hcfg.2]
  obtain ⟨w1, w2, w3⟩ := C04.wire_to_body eR S.lastSessionId S.lastClientId (S.notify.headerWith S.notify.curWords) wf (hdr ++ b.data)
    (by rw [hcfg.1, hcfg.2]; exact hmagic)
  have hwb : C04.wireBits eR (bitsToBytes (outgoingHeader eF S.lastSessionId S.lastClientId false ++ encodeNotifHeader (S.notify.headerWith S.notify.curWords) ++ (hdr ++ b.data) ++ [true, true]))
      = some (encodeNotifHeader (S.notify.headerWith S.notify.curWords) ++ (hdr ++ b.data) ++ [true]).dropLast := by
    unfold C04.wireBits
    rw [henv, w1]
    simp only [w2]
  -- the receiver's processing, bunch by bunch
  have hall : ∀ q ∈ [nrm { b with chSeq := x.outReliable + 1 }], WFBunch q ∧ q.chIndex < maxChannels := by
    intro q hq'
    simp only [List.mem_singleton] at hq'
    subst hq'
    refine ⟨hwfb, ?_⟩
    show b.chIndex < maxChannels
    have : maxChannels = 32767 := by decide
    omega
  have hgen := C18Parse.receivedPacket_genuine eR R _ (S.notify.headerWith S.notify.curWords) [nrm { b with chSeq := x.outReliable + 1 }]
    (by rw [w3, htb]) hacc hall
  -- the decoded bunch
  simp only [List.map_cons, List.map_nil] at hgen
  generalize hwdef : wireView (nrm { b with chSeq := x.outReliable + 1 }) = w at hgen
  have hw1 : w.chIndex = b.chIndex := by rw [← hwdef]; rfl
  have hw2 : w.bReliable = true := by rw [← hwdef]; exact hrel
  have hw3 : w.bPartial = false := by rw [← hwdef]; exact hnp
  have hw4 : w.bClose = false := by rw [← hwdef]; exact hcl
  have hw5 : w.chSeq = (x.outReliable + 1) % 1024 := by
    rw [← hwdef]
    show (if b.bReliable = true then x.outReliable + 1 else 0) % 1024 = (x.outReliable + 1) % 1024
    simp only [hrel, if_true]
  have hw6 : seen w = seen b := by rw [← hwdef]; exact seen_wireView_nrm { b with chSeq := x.outReliable + 1 }
  -- the channel after the acknowledgement processing: same receive side
  have hrs := notifyUpdate_rsame eR ({ R with inPacketId := R.inPacketId + R.notify.deltaSeq (S.notify.headerWith S.notify.curWords) } : Conn) (S.notify.headerWith S.notify.curWords)
  generalize hc2 : ({ R with inPacketId := R.inPacketId + R.notify.deltaSeq (S.notify.headerWith S.notify.curWords) } : Conn).notifyUpdate eR (S.notify.headerWith S.notify.curWords) = c2 at hgen hrs
  have hch := hrs.chan w.chIndex
  have hR' : ({ R with inPacketId := R.inPacketId + R.notify.deltaSeq (S.notify.headerWith S.notify.curWords) } : Conn).getChan w.chIndex = some xr := by rw [hw1]; exact hxr
  rw [hR'] at hch
  cases hg2 : c2.getChan w.chIndex with
  | none => rw [hg2] at hch; simp at hch
  | some x2 =>
    rw [hg2] at hch
    simp only [Option.map_some, Option.some.injEq] at hch
    have hq2 : x2.inRec = [] := by have := congrArg (·.2.1) hch; simp only [recvPart] at this; rw [this]; exact hq
    have hi2 : x2.inReliable = x.outReliable := by have := congrArg (·.2.2) hch; simp only [recvPart] at this; rw [this]; exact hmirror
    have hnb := next_bunch_delivered c2 w x2 hg2 hw2 hw3 hw4 hq2 (by rw [hi2]; exact hw5)
    have hH : handleAll c2 false [w] = ((handleBunch c2 w).1, false || (handleBunch c2 w).2) := rfl
    have hfin : R.receivedPacket eR (encodeNotifHeader (S.notify.headerWith S.notify.curWords) ++ (hdr ++ b.data) ++ [true]).dropLast
        = ({ ((((c2.emit (.alloc .node)).setChan w.chIndex { x2 with inReliable := x2.inReliable + 1 }).emit
              (.recv [{ w with packetId := c2.inPacketId, chSeq := x2.inReliable + 1 }])).emit (.free .node)) with
              notify := ((((c2.emit (.alloc .node)).setChan w.chIndex { x2 with inReliable := x2.inReliable + 1 }).emit
              (.recv [{ w with packetId := c2.inPacketId, chSeq := x2.inReliable + 1 }])).emit (.free .node)).notify.ackSeq
                ((((c2.emit (.alloc .node)).setChan w.chIndex { x2 with inReliable := x2.inReliable + 1 }).emit
              (.recv [{ w with packetId := c2.inPacketId, chSeq := x2.inReliable + 1 }])).emit (.free .node)).inPacketId (!false) }, true) := by
      rw [hgen]
      simp only [List.map_cons, List.map_nil, hH, hnb, Bool.false_or]
    refine ⟨_, _, { w with packetId := c2.inPacketId, chSeq := x2.inReliable + 1 }, hlog, hwb, ?_, ?_, ?_, ?_, ⟨{ x2 with inReliable := x2.inReliable + 1 }, ?_, ?_⟩⟩
    · rw [hfin]
      exact List.mem_cons_of_mem _ List.mem_cons_self
    · rw [hfin]
    · rw [← hw6]; rfl
    · show x2.inReliable + 1 = x.outReliable + 1; rw [hi2]
    · rw [hfin, ← hw1]
      exact getChan_setChan_self _ _ _
    · show x2.inReliable + 1 = x.outReliable + 1; rw [hi2]

/-! non-vacuity: the hypotheses are met by two mirrored connections with channel 3 open -/
def exS : Conn := { (({} : Conn).seqInit 100 200).setChan 3 { inReliable := 100, outReliable := 200 } with connected := true }
def exR : Conn := { (({} : Conn).seqInit 200 100).setChan 3 { inReliable := 200, outReliable := 100 } with connected := true }
def exB : Bunch := { chIndex := 3, bReliable := true, nameIndex := 5, data := [true, false, true] }

example : ∃ h0, exS.sendCheck exB = .inr h0 := ⟨_, rfl⟩
example : exS.getChan 3 = some { inReliable := 100, outReliable := 200 } ∧ exR.getChan 3 = some { inReliable := 200, outReliable := 100 } := by decide
example : exR.notify.deltaSeq (exS.notify.headerWith exS.notify.curWords) > 0 := by decide
example : exS.notify.hist.length = 256 ∧ exS.sendActive = false := ⟨by show (List.replicate histLen false).length = 256; rw [List.length_replicate]; decide, rfl⟩

end Utcp.Props.C01Happy
