import Utcp.Props.C09_Incoming
import Utcp.Lemmas.Frame
/-!
# C09 at the level of the byte array: `bitbuf_read_init` is the bit-level `readInit`

`bitbuf_read_init` on the datagram's byte array (look at the last byte, shift it until the terminator is found) computes the read buffer whose remaining bits
are exactly what the bit-level `Utcp.readInit` returns (strip the trailing zeros and the terminating 1 of the bit string), and refuses exactly when that does.
With `Props/C09_Incoming.lean` this closes the path from the raw bytes handed to `utcp_incoming` to `Endpoint.incoming` for data datagrams.
-/
namespace Utcp.BB
open Utcp

/-- the datagram as the byte array of the byte-level model -/
def memOf (bytes : List UInt8) : Mem := bytes.map (·.toNat)

theorem memOf_ok (bytes : List UInt8) : BytesOK (memOf bytes) := by
  intro x hx
  obtain ⟨b, _, rfl⟩ := List.mem_map.mp hx
  exact b.toNat_lt

theorem bit_cons_lt (x : Nat) (m : Mem) (k : Nat) (h : k < 8) : bit (x :: m) k = x.testBit k := by
  unfold bit
  have h0 : k / 8 = 0 := by omega
  have h1 : k % 8 = k := by omega
  rw [h0, h1]; rfl

theorem bit_cons_ge (x : Nat) (m : Mem) (k : Nat) (h : 8 ≤ k) : bit (x :: m) k = bit m (k - 8) := by
  unfold bit
  have h0 : k / 8 = (k - 8) / 8 + 1 := by omega
  have h1 : k % 8 = (k - 8) % 8 := by omega
  rw [h0, h1]; rfl

/-- the bit string of the datagram is the bits of the byte array -/
theorem bit_memOf (bytes : List UInt8) : ∀ i, i < 8 * bytes.length → bit (memOf bytes) i = (bytesToBits bytes).getD i false := by
  induction bytes with
  | nil => intro i hi; simp at hi
  | cons b bs ih =>
    intro i hi
    show bit (b.toNat :: memOf bs) i = (natToBits b.toNat 8 ++ bytesToBits bs).getD i false
    by_cases h8 : i < 8
    · rw [bit_cons_lt _ _ _ h8, List.getD_eq_getElem?_getD, List.getElem?_append_left (by simpa using h8), ← List.getD_eq_getElem?_getD, natToBits_getD]
      simp [h8]
    · rw [bit_cons_ge _ _ _ (by omega), List.getD_eq_getElem?_getD, List.getElem?_append_right (by simp; omega), ← List.getD_eq_getElem?_getD]
      simp only [natToBits_length]
      exact ih (i - 8) (by simp only [List.length_cons] at hi; omega)

theorem bytesToBits_eq (bytes : List UInt8) : bitsFrom (memOf bytes) 0 (8 * bytes.length) = bytesToBits bytes := by
  have := bitsFrom_eq (memOf bytes) (bytesToBits bytes) 0 (by
    intro i hi
    rw [Nat.zero_add]
    exact bit_memOf bytes i (by simpa using hi))
  simpa using this

/-- **`bitbuf_read_init` accepts**: if the bit-level `readInit` yields the bits `l`, the byte-level one yields the read buffer over the same array whose
remaining bits are `l` -/
theorem readInit_accepts (bytes : List UInt8) (l : Bits) (h : Utcp.readInit bytes = some l) :
    ∃ n, readInit (memOf bytes) = some (true, ⟨memOf bytes, n, 0⟩) ∧ rest ⟨memOf bytes, n, 0⟩ = l ∧ RB ⟨memOf bytes, n, 0⟩ := by
  unfold Utcp.readInit at h
  cases hl : bytes.getLast? with
  | none => simp [hl] at h
  | some last =>
    simp only [hl] at h
    split at h
    · simp at h
    · rename_i hne
      simp only [Option.some.injEq] at h
      have hne0 : last.toNat ≠ 0 := by
        intro h0
        apply hne
        have : last = 0 := UInt8.toNat_inj.mp (by simpa using h0)
        simp [this]
      have hlen : bytes.length ≠ 0 := by
        intro h0
        have : bytes = [] := List.eq_nil_of_length_eq_zero h0
        simp [this] at hl
      -- the highest set bit of the last byte
      let j := last.toNat.log2
      have hj : last.toNat.testBit j = true := Nat.testBit_log2 hne0
      have hj7 : j ≤ 7 := by
        have : j < 8 := (Nat.log2_lt hne0).mpr last.toNat_lt
        omega
      have habove : ∀ i, j < i → last.toNat.testBit i = false := by
        intro i hi
        apply Nat.testBit_lt_two_pow
        exact Nat.lt_of_lt_of_le Nat.lt_log2_self (Nat.pow_le_pow_right (by decide) hi)
      let n := 8 * (bytes.length - 1) + j
      have hlastmem : (memOf bytes).getD (bytes.length - 1) 0 = last.toNat := by
        have : bytes.getLast? = bytes[bytes.length - 1]? := by
          rw [List.getLast?_eq_getElem?]
        rw [this] at hl
        unfold memOf
        rw [List.getD_eq_getElem?_getD, List.getElem?_map, hl]; rfl
      have hmlen : (memOf bytes).length = bytes.length := by simp [memOf]
      have hbitn : ∀ i, i ≤ 7 → bit (memOf bytes) (8 * (bytes.length - 1) + i) = last.toNat.testBit i := by
        intro i hi
        unfold bit
        have e1 : (8 * (bytes.length - 1) + i) / 8 = bytes.length - 1 := by omega
        have e2 : (8 * (bytes.length - 1) + i) % 8 = i := by omega
        rw [e1, e2, hlastmem]
      have hterm : bit (memOf bytes) n = true := by rw [hbitn j hj7]; exact hj
      have hz : ∀ k, n < k → bit (memOf bytes) k = false := by
        intro k hk
        by_cases hin : k < 8 * bytes.length
        · have : k = 8 * (bytes.length - 1) + (k - 8 * (bytes.length - 1)) := by omega
          rw [this, hbitn _ (by omega)]
          exact habove _ (by omega)
        · exact bit_oob _ _ (by rw [hmlen]; omega)
      have hspec := readInit_spec (memOf bytes) (memOf_ok bytes) n (by rw [hmlen]; omega) hterm hz
      refine ⟨n, hspec, ?_, ⟨memOf_ok bytes, by show n ≤ 8 * (memOf bytes).length; rw [hmlen]; omega, Nat.zero_le _⟩⟩
      -- the bit string = the n bits below the terminator, the terminator, zeros
      have hsplit : bytesToBits bytes = bitsFrom (memOf bytes) 0 n ++ [true] ++ List.replicate (7 - j) false := by
        rw [← bytesToBits_eq]
        have e : 8 * bytes.length = n + (1 + (7 - j)) := by omega
        have hone : bitsFrom (memOf bytes) (0 + n) 1 = [true] := by
          show [bit (memOf bytes) (0 + n)] = [true]
          rw [Nat.zero_add, hterm]
        have hzeros : bitsFrom (memOf bytes) (0 + n + 1) (7 - j) = List.replicate (7 - j) false := by
          have := bitsFrom_eq (memOf bytes) (List.replicate (7 - j) false) (0 + n + 1) (by
            intro i hi
            rw [hz _ (by omega)]
            simp only [List.length_replicate] at hi
            rw [List.getD_eq_getElem?_getD, List.getElem?_replicate, if_pos hi]; rfl)
          simpa using this
        rw [e, bitsFrom_append (memOf bytes) 0 n (1 + (7 - j)), bitsFrom_append (memOf bytes) (0 + n) 1 (7 - j), hone, hzeros, List.append_assoc]
      rw [← h, hsplit, stripTrailing_terminated]
      unfold rest
      simp

/-- **`bitbuf_read_init` refuses** exactly the datagrams the bit-level `readInit` refuses: the empty one and those whose last byte is zero -/
theorem readInit_refuses_link (bytes : List UInt8) (h : Utcp.readInit bytes = none) : ∃ rb, readInit (memOf bytes) = some (false, rb) := by
  apply readInit_refuses
  unfold Utcp.readInit at h
  cases hl : bytes.getLast? with
  | none =>
    left
    cases bytes with
    | nil => rfl
    | cons b bs => simp [List.getLast?_cons] at hl
  | some last =>
    right
    simp only [hl] at h
    split at h
    · rename_i h0
      have hlast : last = 0 := by simpa using h0
      have : bytes.getLast? = bytes[bytes.length - 1]? := by rw [List.getLast?_eq_getElem?]
      rw [this] at hl
      unfold memOf
      rw [List.length_map, List.getD_eq_getElem?_getD, List.getElem?_map, hl, hlast]; rfl
    · simp at h

/-- **`utcp_incoming` on the bytes of a data datagram, end to end**: for every byte string handed to `utcp_incoming` that `bitbuf_read_init` accepts, the byte-level
path — `bitbuf_read_init` on the array, then the data path of `Props/C09_Incoming.lean` — touches nothing outside the datagram, the small locals and the nodes,
and for a datagram that is not a handshake datagram ends in exactly the connection state and return value of the bit-level `Endpoint.incoming` (whatever the
nodes and locals contained) -/
theorem incoming_bytes_refines {T} (tm : TimeOps T) (e : Env) (he : e.magicBits ≤ 32) (rng : Rng) (ep : Endpoint) (bytes : List UInt8) (bits : Bits)
    (hinit : Utcp.readInit bytes = some bits) (m4 s1 c1 fb : Mem) (hm : BytesOK m4) (hs : BytesOK s1) (hc : BytesOK c1) (hfb : BytesOK fb)
    (lm : 4 ≤ m4.length) (ls : 1 ≤ s1.length) (lc : 1 ≤ c1.length) (lfb : 1 ≤ fb.length) (nodes : Nat → Mem) (hn : NodesOK nodes) :
    ∃ rb r, readInit (memOf bytes) = some (true, rb) ∧ lIncomingData e ep.c m4 s1 c1 fb nodes rb = some r ∧
      ∀ s cl rst, readOutgoingHeader e bits = .ok (s, cl, false) rst →
        r = some ((ep.incoming tm e rng bytes).1.c, (ep.incoming tm e rng bytes).2.2) := by
  obtain ⟨n, h1, hrest, hrb⟩ := readInit_accepts bytes bits hinit
  obtain ⟨r, h2, h3⟩ := lIncomingData_refines e he ep.c m4 s1 c1 fb hm hs hc hfb lm ls lc lfb nodes hn _ hrb
  refine ⟨_, r, h1, h2, ?_⟩
  intro s cl rst hh
  rw [hrest, hh] at h3
  rw [incoming_data_eq tm e rng ep bytes bits rst s cl hinit hh]
  exact h3

/-! non-vacuity: the datagram `[0x05]` (two bits `1 0`, terminator at bit 2) -/
example : Utcp.readInit [5] = some [true, false] := by decide

end Utcp.BB
