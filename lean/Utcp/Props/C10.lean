import Utcp.Lemmas.Log
/-!
# C10 — closing a channel never discards reliable data still in flight

The deferred teardown (`utcp_delay_close_channel`, run from `utcp_update`) after the repair of defect D8.  Local
theorems, for an arbitrary connection state and therefore for every interleaving of `update` with sends, receives
and acknowledgements:
* sender: a channel that still holds unacknowledged reliable bunches (the close bunch itself included) survives the
  teardown untouched, so they keep being retransmitted;
* receiver: a close bunch that arrives ahead of a missing predecessor is only *queued*; the channel is marked closed
  when the close bunch is handed to the application in sequence, not before;
* once a closed channel has nothing left awaiting acknowledgement, the teardown releases it with everything it holds.
-/
namespace Utcp.Props.C10
open Utcp Utcp.Gen

/-- the per-channel step of the teardown loop -/
def step (c : Conn) (p : Nat × Channel) : Conn :=
  if !p.2.bClose then c
  else if !p.2.outRec.isEmpty then { c with hasChannelClose := true }
  else { c.freeChan p.2 with chans := c.chans.filter (·.1 != p.1) }

theorem delayClose_eq (c : Conn) (h : c.hasChannelClose = true) :
    c.delayClose = c.chans.reverse.foldl step { c with hasChannelClose := false } := by
  unfold Conn.delayClose
  simp only [h, Bool.not_true, Bool.false_eq_true, if_false]
  rfl

theorem freeChan_chans (c : Conn) (x : Channel) : (c.freeChan x).chans = c.chans := by
  unfold Conn.freeChan Conn.freeNodes
  have : ∀ (l : List Nat) (c : Conn), (l.foldl (fun c _ => c.emit (.free .node)) c).chans = c.chans := by
    intro l; induction l with
    | nil => intro c; rfl
    | cons _ r ih => intro c; simp only [List.foldl_cons]; rw [ih]; rfl
  simp only [emit_chans, this]

theorem find_filter_ne (l : List (Nat × Channel)) (k ch : Nat) (hne : k ≠ ch) :
    ((l.filter (·.1 != k)).find? (·.1 == ch)) = l.find? (·.1 == ch) := by
  induction l with
  | nil => rfl
  | cons a rest ih =>
    by_cases hak : a.1 = k
    · have h1 : (a.1 != k) = false := by simp [hak]
      have h2 : (a.1 == ch) = false := by simp [hak, hne]
      simp [List.filter_cons, h1, List.find?_cons, h2, ih]
    · have h1 : (a.1 != k) = true := by simp [hak]
      simp only [List.filter_cons, h1, if_true, List.find?_cons, ih]

theorem find_filter_self (l : List (Nat × Channel)) (k : Nat) : ((l.filter (·.1 != k)).find? (·.1 == k)) = none := by
  induction l with
  | nil => rfl
  | cons a rest ih =>
    by_cases hak : a.1 = k
    · have h1 : (a.1 != k) = false := by simp [hak]
      simp [List.filter_cons, h1, ih]
    · have h1 : (a.1 != k) = true := by simp [hak]
      have h2 : (a.1 == k) = false := by simp [hak]
      simp [List.filter_cons, h1, List.find?_cons, h2, ih]

/-- a step for another channel, or for a channel that must be kept, does not disturb `ch` -/
theorem step_getChan (c : Conn) (p : Nat × Channel) (ch : Nat) (x : Channel) (h : c.getChan ch = some x)
    (hk : p.1 = ch → (p.2.bClose = false ∨ p.2.outRec ≠ [])) : (step c p).getChan ch = some x := by
  unfold step
  by_cases hb : p.2.bClose = true
  · simp only [hb, Bool.not_true, Bool.false_eq_true, if_false]
    by_cases ho : p.2.outRec.isEmpty = true
    · simp only [ho, Bool.not_true, Bool.false_eq_true, if_false]
      have hne : p.1 ≠ ch := by
        intro he
        rcases hk he with h1 | h1
        · simp [hb] at h1
        · exact h1 (List.isEmpty_iff.mp ho)
      unfold Conn.getChan at h ⊢
      simp only [freeChan_chans]
      rw [find_filter_ne _ _ _ hne]; exact h
    · simp only [ho, Bool.not_false, if_true]; exact h
  · simp only [hb, Bool.not_false, if_true]; exact h

/-- **sender side / both sides**: a channel that is not closed, or that still has reliable bunches awaiting
acknowledgement, survives `utcp_update`'s teardown exactly as it was (queues, counters and all) -/
theorem teardown_keeps (c : Conn) (ch : Nat) (x : Channel) (h : c.getChan ch = some x)
    (hk : x.bClose = false ∨ x.outRec ≠ []) (huniq : ∀ p ∈ c.chans, p.1 = ch → p.2 = x) :
    c.delayClose.getChan ch = some x := by
  by_cases hc : c.hasChannelClose = true
  · rw [delayClose_eq c hc]
    have key : ∀ (l : List (Nat × Channel)) (c' : Conn), (∀ p ∈ l, p.1 = ch → p.2 = x) → c'.getChan ch = some x →
        (l.foldl step c').getChan ch = some x := by
      intro l
      induction l with
      | nil => intro c' _ h'; exact h'
      | cons p rest ih =>
        intro c' hl h'
        simp only [List.foldl_cons]
        apply ih _ (fun q hq => hl q (List.mem_cons_of_mem _ hq))
        apply step_getChan c' p ch x h'
        intro he
        rw [hl p List.mem_cons_self he]; exact hk
    exact key _ _ (fun p hp => huniq p (List.mem_reverse.mp hp)) h
  · unfold Conn.delayClose
    simp only [hc, Bool.not_false, if_true]; exact h

/-- … and the connection remembers that a teardown is still owed, so a later `update` retries it -/
theorem teardown_retries (c : Conn) (p : Nat × Channel) (hb : p.2.bClose = true) (ho : p.2.outRec ≠ []) :
    (step c p).hasChannelClose = true := by
  unfold step
  have : p.2.outRec.isEmpty = false := by cases h : p.2.outRec <;> simp_all
  simp [hb, this]

/-- a closed channel with nothing left to acknowledge is released together with everything it holds -/
theorem teardown_releases (c : Conn) (p : Nat × Channel) (hb : p.2.bClose = true) (ho : p.2.outRec = []) :
    (step c p).getChan p.1 = none ∧ (step c p).log = (c.freeChan p.2).log := by
  unfold step
  simp only [hb, ho, Bool.not_true, Bool.false_eq_true, if_false, List.isEmpty_nil]
  refine ⟨?_, trivial⟩
  unfold Conn.getChan
  simp only [freeChan_chans]
  rw [find_filter_self]; rfl

/-- **receiver side**: a reliable bunch that is ahead of sequence — a close bunch included — is queued and nothing
else happens to the channel: it is *not* marked closed, so no teardown can discard it or its predecessors -/
theorem early_close_only_queued (c : Conn) (x : Channel) (b : Bunch) (hrel : b.bReliable = true) (hahead : b.chSeq > x.inReliable + 1)
    (hroom : x.inRec.length + 1 < reliableBuffer) (q : List Bunch) (hq : enqueueIncoming b x.inRec = some q) :
    (c.processBunch x b).1 = c.setChan b.chIndex { x with inRec := q } ∧ (c.processBunch x b).2 = false := by
  unfold Conn.processBunch
  have h1 : ¬ (b.chSeq ≤ x.inReliable) := by omega
  have h2 : b.chSeq ≠ x.inReliable + 1 := by omega
  have h3 : ¬ (x.inRec.length + 1 ≥ reliableBuffer) := by omega
  simp [hrel, h1, h2, h3, hq]

/-- the mark is set when the close bunch is handed to the application (here: a single, in-sequence bunch) -/
theorem close_marked_on_delivery (c : Conn) (b : Bunch) (x : Channel) (hx : c.getChan b.chIndex = some x)
    (hnp : b.bPartial = false) (hcl : b.bClose = true) :
    ∃ y, (c.receivedNextBunch b).1.getChan b.chIndex = some y ∧ y.bClose = true ∧ (c.receivedNextBunch b).1.hasChannelClose = true := by
  unfold Conn.receivedNextBunch
  simp only [hx, hnp, Bool.false_eq_true, if_false]
  unfold Conn.noteClose
  simp only [hcl, Bool.not_true, Bool.false_eq_true, if_false]
  generalize hc' : (if (b.chIndex == 0) = true then (c.setChan b.chIndex (if b.bReliable = true then { x with inReliable := b.chSeq } else x)).markClose crControlChannelClose
      else c.setChan b.chIndex (if b.bReliable = true then { x with inReliable := b.chSeq } else x)) = c'
  have hg : ∃ z, c'.getChan b.chIndex = some z := by
    rw [← hc']
    split
    · rw [markClose_getChan]; exact ⟨_, getChan_setChan_self _ _ _⟩
    · exact ⟨_, getChan_setChan_self _ _ _⟩
  obtain ⟨z, hz⟩ := hg
  simp only [hz]
  refine ⟨z.markClosed b.closeReason, ?_, markClosed_bClose _ _, ?_⟩
  · simp only [emit_getChan, oweTeardown_getChan]
    exact getChan_setChan_self _ _ _
  · rfl

/-- the sender marks its own channel when it sends the close bunch, and that alone never frees anything:
`teardown_keeps` applies as long as the bunch is unacknowledged -/
theorem sender_close_is_retained (c : Conn) (ch : Nat) (pid : Int) (bits : Bits) (x : Channel) (h : c.getChan ch = some x) :
    ∃ y, (c.addOutRec ch pid bits).getChan ch = some y ∧ y.outRec ≠ [] := by
  unfold Conn.addOutRec
  simp only [h]
  exact ⟨_, getChan_setChan_self _ _ _, by simp⟩

end Utcp.Props.C10
