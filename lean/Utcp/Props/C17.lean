import Utcp.Handshake
import Utcp.Lemmas.Conn
/-!
# C17 — behaviour depends only on inputs, clock and the random callback

In the model the contents of freshly allocated memory are simply *not an input*: every function is a function of
(state, API call, clock, random streams).  What can be stated are the facts that make this a faithful model of the
C code: every object the library allocates is completely defined by its constructor before it is read — whatever
was there before.  The *check* of this property is the tie: the real code is run under four fill patterns of fresh
memory (0x00, 0xFF, 0xA5, a seeded random byte) for every scenario and must reproduce the model's trace — and the
other runs' — byte for byte.  That tie is testing, not proof, and is labelled so in the evidence.
-/
namespace Utcp.Props.C17
open Utcp Utcp.Gen

/-- the challenge data after `utcp_connect` is fully determined by the inputs (the repaired `memset` zeroes all of
it): nothing of a previous challenge block survives -/
theorem connect_defines_challenge (e : Env) (rng : Rng) (counter : Nat) (ep ep' : Endpoint) (h : ep.c = ep'.c) :
    (ep.connect e rng counter).1.chal = (ep'.connect e rng counter).1.chal ∧
    (ep.connect e rng counter).1.chal = some { clientId := (counter + 1) % 8, sentCount := 1, lastClientSendMs := e.nowMs } := by
  unfold Endpoint.connect Endpoint.sendInitial
  simp [h, Endpoint.out]

/-- `utcp_sequence_init` (re)defines the whole ack-tracking state: history, ack records, all five sequence numbers -/
theorem seqInit_defines_notify (c c' : Conn) (i o : Int) (hw : c.notify.writtenWords = c'.notify.writtenWords)
    (hi : c.notify.writtenInAckSeq = c'.notify.writtenInAckSeq) : (c.seqInit i o).notify = (c'.seqInit i o).notify := by
  unfold Conn.seqInit Notify.init
  cases hn : c.notify; cases hn' : c'.notify
  simp_all

/-- a channel created on demand is fully defined: empty queues, counters from the connection's initial values -/
theorem created_channel_defined (c : Conn) (ch : Nat) :
    (c.createChan ch).getChan ch = some { inReliable := c.initInReliable, outReliable := c.initOutReliable } := by
  unfold Conn.createChan
  dsimp only
  rw [getChan_setChan_self]
  split
  · rfl
  · split <;> rfl

/-- a connection accepted by the listener is built from scratch -/
theorem accepted_defined (e : Env) (a : Accepted) :
    (Endpoint.accepted e a).chal = none ∧ (Endpoint.accepted e a).c.chans = [] ∧ (Endpoint.accepted e a).c.sendActive = false := by
  unfold Endpoint.accepted Conn.seqInit
  exact ⟨rfl, rfl, rfl⟩

end Utcp.Props.C17
