import Utcp.Lemmas.Cadence
/-! # C15, continued: keep-alives flow over every history (the sender's half of "an idle healthy link never times out") -/
namespace Utcp.Props.C15
open Utcp Utcp.Gen

theorem apply_ls (e : Env) (c : Conn) (op : Op) : LS e c (apply e c op) := by
  cases op with
  | send b => exact sendBunch_ls e c b
  | flush => exact flush_ls e c
  | data bits => exact (LS.of_eq rfl rfl : LS e c ({ c with lastRecvMs := e.nowMs } : Conn)).trans (receivedPacket_ls e _ bits)
  | update =>
    show LS e c (c.checkTimeout e).updateTail.1
    refine LS.trans ?_ (updateTail_ls e _)
    unfold Conn.checkTimeout Conn.markClose
    split
    · split <;> exact LS.of_eq rfl rfl
    · exact LS.refl e c

/-- a history whose clock never runs backwards (`t` = the clock before it) -/
def Mono (t : Int) : List (Env × Op) → Prop
  | [] => True
  | (e, _) :: rest => t ≤ e.nowMs ∧ Mono e.nowMs rest

/-- at every flush of the history, when it returns, the endpoint's last emission is less than one keep-alive interval old -/
def FlushFresh (c : Conn) : List (Env × Op) → Prop
  | [] => True
  | (e, .flush) :: rest => (0 ≤ e.nowMs - (apply e c .flush).lastSendMs ∧ e.nowMs - (apply e c .flush).lastSendMs < 200) ∧ FlushFresh (apply e c .flush) rest
  | (e, op) :: rest => FlushFresh (apply e c op) rest

/-- **keep-alives flow**: over every history of a connected endpoint with a clock that does not run backwards (sends, flushes, arrivals with whatever
they trigger, updates, in any interleaving) each flush returns with the last emission less than 200 ms old - it has either just emitted or had emitted
less than 200 ms before.  With flushes at most `G` apart the gaps between emissions are therefore below `200 ms + G`: the peer keeps hearing. -/
theorem keepalives_flow (ops : List (Env × Op)) : ∀ (c : Conn) (t : Int), c.connected = true → c.lastSendMs ≤ t → Mono t ops → FlushFresh c ops := by
  induction ops with
  | nil => intro c t _ _ _; trivial
  | cons p rest ih =>
    intro c t hc hl hm
    obtain ⟨e, op⟩ := p
    obtain ⟨hte, hmr⟩ := hm
    have hls := apply_ls e c op
    have hc' : (apply e c op).connected = true := by rw [hls.1]; exact hc
    have hl' : (apply e c op).lastSendMs ≤ e.nowMs := by rcases hls.2 with h | h <;> omega
    cases op with
    | flush =>
      simp only [FlushFresh]
      refine ⟨⟨by omega, ?_⟩, ih _ _ hc' hl' hmr⟩
      by_cases hdue : c.connected = true ∧ (c.sendActive = true ∨ e.nowMs - c.lastSendMs ≥ 200)
      · have := (flush_stamps e c hdue).1
        show e.nowMs - (c.flush e).lastSendMs < 200
        rw [this]; omega
      · have := flush_idle e c hdue
        show e.nowMs - (c.flush e).lastSendMs < 200
        rw [this]
        have : ¬ (e.nowMs - c.lastSendMs ≥ 200) := fun h => hdue ⟨hc, Or.inr h⟩
        omega
    | send b => simp only [FlushFresh]; exact ih _ _ hc' hl' hmr
    | data bits => simp only [FlushFresh]; exact ih _ _ hc' hl' hmr
    | update => simp only [FlushFresh]; exact ih _ _ hc' hl' hmr

/-! non-vacuity: a connected endpoint, a monotone clock -/
example : Mono 1000 [({ elapsedUs := 100000 }, .flush), ({ elapsedUs := 350000 }, .update), ({ elapsedUs := 350000 }, .flush)] := by
  simp [Mono, Env.nowMs, utcp_gettime_ms]

end Utcp.Props.C15
