import Utcp.Props.C11
import Utcp.Lemmas.Size
/-!
# C11 — the header arithmetic of the model *is* the C functions'

`PackedHeader_Pack`, `ClAMP` and `MIN` of `utcp_packet_notify.c` are translated from the source on every run (`Gen/PureFns.lean`) and the
translation is validated against the compiled C; the theorems below show that the arithmetic the hand-written header codec uses is what
these generated definitions compute.  A change to a shift, a mask or a bound in the C source changes the generated definition and
breaks the corresponding theorem.
-/
namespace Utcp.Props.C11Gen
open Utcp Utcp.Gen Utcp.Props

theorem lor3 (a b c : Nat) (hb : b < 16384) (hc : c < 16) : (0 ||| a * 262144) ||| (b * 16) ||| c = a * 262144 + b * 16 + c := by
  have h1 : b * 16 ||| c = b * 16 + c := by
    have := Nat.shiftLeft_add_eq_or_of_lt (i := 4) hc b
    rw [Nat.shiftLeft_eq] at this
    exact this.symm
  have h2 : a * 262144 ||| (b * 16 + c) = a * 262144 + (b * 16 + c) := by
    have hlt : b * 16 + c < 2 ^ 18 := by omega
    have := Nat.shiftLeft_add_eq_or_of_lt (i := 18) hlt a
    rw [Nat.shiftLeft_eq] at this
    exact this.symm
  rw [Nat.zero_or, Nat.or_assoc, h1, h2]; omega

/-- **the packed header word of the model is the C function's** (`PackedHeader_Pack`, translated from `/repo` on every run): for a
well-formed header the 32-bit word `encodeNotifHeader` writes is what the generated definition computes -/
theorem packed_is_generated (h : NotifHeader) (wf : C11.WFHeader h) :
    ((h.seq.toNat % 16384) * 2 ^ 18 + (h.ackedSeq.toNat % 16384) * 16 + (h.words - 1) % 16 : Nat)
      = (PackedHeader_Pack h.seq h.ackedSeq ((h.words : Int) - 1)).toNat := by
  obtain ⟨⟨hs0, hs1⟩, ⟨ha0, ha1⟩, ⟨hw0, hw1⟩, _⟩ := wf
  generalize hsq : h.seq = sq at hs0 hs1
  generalize haq : h.ackedSeq = aq at ha0 ha1
  obtain ⟨s, rfl⟩ := Int.eq_ofNat_of_zero_le hs0
  obtain ⟨a, rfl⟩ := Int.eq_ofNat_of_zero_le ha0
  have hs : s < 16384 := by omega
  have ha : a < 16384 := by omega
  unfold PackedHeader_Pack
  simp only
  have e1 : Int.toNat (((s : Nat) : Int) * 262144 % 4294967296) = s * 262144 := by omega
  have e2 : Int.toNat (((a : Nat) : Int) * 16 % 4294967296) = a * 16 := by omega
  have e3 : Int.toNat (((h.words : Int) - 1) % 16) = h.words - 1 := by omega
  rw [e1, e2, e3]
  simp only [Int.toNat_natCast, Int.toNat_zero]
  rw [lor3 s a (h.words - 1) ha (by omega)]
  have h1 : s % 16384 = s := Nat.mod_eq_of_lt hs
  have h2 : a % 16384 = a := Nat.mod_eq_of_lt ha
  have h3 : (h.words - 1) % 16 = h.words - 1 := Nat.mod_eq_of_lt (by omega)
  rw [h1, h2, h3]

/-- **the number of history words is the C clamp** (`ClAMP`, translated on every run) of the history length rounded up to words -/
theorem curWords_is_generated (n : Notify) :
    (n.curWords : Int) = ClAMP ((((if seq_num_greater_equal n.inAckSeq n.inAckSeqAck then (seq_num_diff n.inAckSeq n.inAckSeqAck).toNat else histLen) + 31) / 32 : Nat) : Int) 1 histWordsMax := by
  unfold Notify.curWords ClAMP
  simp only
  generalize ((if seq_num_greater_equal n.inAckSeq n.inAckSeqAck = true then (seq_num_diff n.inAckSeq n.inAckSeqAck).toNat else histLen) + 31) / 32 = w
  have h8 : histWordsMax = 8 := by decide
  rw [h8]
  by_cases h1 : w < 1
  · have : ((w : Int) < 1) := by omega
    simp [h1, this]
  · have h1' : ¬ ((w : Int) < 1) := by omega
    by_cases h2 : w < 8
    · have : ((w : Int) < 8) := by omega
      simp [h1, h1', h2, this]
    · have : ¬ ((w : Int) < 8) := by omega
      simp [h1, h1', h2, this]

/-- **the word count a reader uses is the C `MIN`** (translated on every run) of the array size and the transmitted count -/
theorem words_is_generated (k : Nat) : ((min histWordsMax (k + 1) : Nat) : Int) = MIN (histWordsMax : Int) ((k : Int) + 1) := by
  unfold MIN
  have h8 : histWordsMax = 8 := by decide
  rw [h8]
  split
  · rename_i h
    have h' : (8 : Int) < (k : Int) + 1 := by simpa using h
    have : min 8 (k + 1) = 8 := by omega
    rw [this]
  · rename_i h
    have h' : ¬ (8 : Int) < (k : Int) + 1 := by simpa using h
    have : min 8 (k + 1) = k + 1 := by omega
    rw [this]; push_cast; rfl

end Utcp.Props.C11Gen
