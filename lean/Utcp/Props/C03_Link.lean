import Utcp.Props.C01_Link
import Utcp.Props.C03
/-!
# C03, across the link — a delivered reliable group is a contiguous run of what the sender sent

`Props/C03.lean` proves that every callback carries one bunch or one complete, well-shaped group.  With the two ends put together
(`Props/C01_Link.lean`): the fragments of a reliable group handed to the receiving application are — in everything the application
sees and in their sequence numbers — a *contiguous run* of the reliable bunches the sender accepted on that channel, in sending order:
nothing missing in the middle, nothing foreign mixed in, nothing reordered.

*Partial* in the same way as `C01Link.numbers_agree_partial`: fewer than 1024 reliable bunches on the channel, one incarnation of the
channel; unreliable groups are not covered (their fragments carry packet ids, not channel sequence numbers).
-/
namespace Utcp.Props.C03Link
open Utcp Utcp.Gen Utcp.Props Utcp.Props.C01Link Utcp.Partial

theorem tail_asc : ∀ (l : List Bunch) (p : Bunch), Shape.Tail p l → (∀ q ∈ l, q.bReliable = true) → Asc (p.chSeq + 1) (l.map (·.chSeq)) := by
  intro l
  induction l with
  | nil => intro p _ _; simp [Asc]
  | cons b rest ih =>
    intro p h hr
    simp only [Shape.Tail] at h
    obtain ⟨_, _, _, hf, ht⟩ := h
    have hb := hr b List.mem_cons_self
    unfold Follows at hf
    simp only [hb, if_true] at hf
    simp only [List.map_cons, Asc]
    refine ⟨hf.2, ?_⟩
    have := ih b ht (fun q hq => hr q (List.mem_cons_of_mem _ hq))
    rw [hf.2] at this; exact this

/-- the channel sequence numbers of a delivered reliable group are consecutive -/
theorem group_asc (g : List Bunch) (h : GroupOK g) (hr : ∀ q ∈ g, q.bReliable = true) : ∃ s, Asc s (g.map (·.chSeq)) := by
  rcases h with ⟨b, rfl, _⟩ | ⟨hs, _, _, _⟩
  · exact ⟨b.chSeq, by simp [Asc]⟩
  · cases g with
    | nil => exact ⟨0, by simp [Asc]⟩
    | cons b rest =>
      simp only [Shape] at hs
      refine ⟨b.chSeq, ?_⟩
      simp only [List.map_cons, Asc, true_and]
      exact tail_asc rest b hs.2.2 (fun q hq => hr q (List.mem_cons_of_mem _ hq))

/-- **a delivered reliable group is a contiguous run of the sender's bunches** (hypotheses of `C01Link.numbers_agree_partial`): for every
callback of the receiver all of whose bunches are reliable bunches of channel `ch`, the bunches — compared on everything the
application sees and the channel sequence number — form a contiguous segment of the reliable bunches the sender accepted on `ch`, in
sending order -/
theorem delivered_group_is_a_run_partial (mb mg : Nat) (hfit : mg < 2 ^ mb) (ch : Nat)
    (opsS : List (Env × C01.Op)) (hS : ∀ p ∈ opsS, p.1.magicBits = mb ∧ p.1.magic = mg) (iS oS : Int)
    (opsR : List (Env × C01.Op)) (hR : ∀ p ∈ opsR, p.1.magicBits = mb ∧ p.1.magic = mg) (iR oR : Int)
    (hmirror : oS % 1024 = iR % 1024)
    (hlink : C04.FromLink (C01.run (({} : Conn).seqInit iS oS) opsS) opsR)
    (hsmall : (accepted ch (sentOf (({} : Conn).seqInit iS oS) opsS [])).length < 1024)
    (g : List Bunch) (hg : Event.recv g ∈ (C01.run (({} : Conn).seqInit iR oR) opsR).log)
    (hall : ∀ q ∈ g, q.bReliable = true ∧ q.chIndex = ch) :
    ∃ pre post, (accepted ch (sentOf (({} : Conn).seqInit iS oS) opsS [])).map view = pre ++ g.map view ++ post := by
  -- the callback is a group
  have hgrp : GroupOK g := by
    rcases C03.every_callback_is_a_group opsR _ (C03.fresh_groups iR oR) g hg with h | h
    · have hl : (({} : Conn).seqInit iR oR).log = [] := rfl
      rw [hl] at h; cases h
    · exact h
  obtain ⟨s, hs⟩ := group_asc g hgrp (fun q hq => (hall q hq).1)
  have hdesc := sender_numbers_consecutively ch opsS iS oS
  have hL : Asc (oS % 1024 + 1) (((accepted ch (sentOf (({} : Conn).seqInit iS oS) opsS [])).map view).map (·.chSeq)) := by
    have : ((accepted ch (sentOf (({} : Conn).seqInit iS oS) opsS [])).map view).map (·.chSeq) = (relTags ch (sentOf (({} : Conn).seqInit iS oS) opsS [])).reverse := by
      unfold accepted relTags
      rw [List.map_map, List.map_reverse]; rfl
    rw [this]
    exact asc_of_desc _ _ _ hdesc
  have hG : Asc s ((g.map view).map (·.chSeq)) := by
    have : (g.map view).map (·.chSeq) = g.map (·.chSeq) := by rw [List.map_map]; rfl
    rw [this]; exact hs
  refine infix_of_asc _ _ _ _ hL hG ?_
  intro x hx
  obtain ⟨q, hq, rfl⟩ := List.mem_map.mp hx
  obtain ⟨b, hb, hseen, heq⟩ := numbers_agree_partial mb mg hfit ch opsS hS iS oS opsR hR iR oR hmirror hlink hsmall g hg q hq (hall q hq).1 (hall q hq).2
  exact List.mem_map.mpr ⟨b, hb, (view_eq q b hseen heq).symm⟩

end Utcp.Props.C03Link
