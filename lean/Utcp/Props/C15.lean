import Utcp.Lemmas.Conn
import Utcp.Handshake
import Utcp.Lemmas.Keeps
import Utcp.Lemmas.RecvKeeps
import Utcp.Lemmas.RecvOrder
/-!
# C15 — keep-alives flow when idle; timeouts fire only after real silence

Local theorems about one endpoint under an *arbitrary* clock value: the clock enters only through
`Env.nowMs`, so every statement holds for every schedule of the virtual clock.  Over every history
(`healthy_never_times_out`): as long as some data datagram from the peer — any, even a stale one — reaches the endpoint at least
every 120 s, no `utcp_update` ever finds the timeout condition true, whatever else happens in between (sends, flushes, the bodies
of the datagrams, the absolute clock values).  With `keepalive_sent` (a connected peer that flushes emits a packet at least every
200 ms + its flush period) this is why an idle, healthy link does not time out; the delivery of the peer's packets by the network is
the assumption.
-/
namespace Utcp.Props.C15
open Utcp Utcp.Gen

theorem thresholds : keepAliveMs = 200 ∧ connectTimeoutMs = 120000 ∧ crConnectionTimeout = 6 := by decide

/-- the clock scale the model assumes is the one the code has: `utcp_gettime_ms` advances 1000 per second of
`utcp_add_elapsed_time`, `utcp_gettime` advances 1 (both extracted by running the code) -/
theorem clock_units : GETTIME_MS_AT_1S - GETTIME_MS_AT_0 = 1000 ∧ GETTIME_US_AT_1S - GETTIME_US_AT_0 = 1000000 ∧ ELAPSED_US_PER_MS_OF_NS = 1000 := by decide

/-- **flush rule**: a flush emits a datagram iff the endpoint is connected and (something is buffered, or at
least one keep-alive interval has passed since its previous emission) -/
theorem flush_emits_iff (e : Env) (c : Conn) :
    (∃ bytes, (c.flush e).log = .out bytes :: c.log) ↔ (c.connected = true ∧ (c.sendActive = true ∨ e.nowMs - c.lastSendMs ≥ 200)) := by
  have hk := thresholds.1
  unfold Conn.flush Conn.flushDue
  rw [hk]
  by_cases hc : c.connected = true <;> by_cases ha : c.sendActive = true <;> by_cases ht : e.nowMs - c.lastSendMs ≥ 200 <;>
    simp [hc, ha, ht, startPacket_log] <;> (try omega)
  all_goals (intro x hx; have := congrArg List.length hx; simp at this)

/-- when it does not emit, a flush changes nothing at all -/
theorem flush_idle (e : Env) (c : Conn) (h : ¬ (c.connected = true ∧ (c.sendActive = true ∨ e.nowMs - c.lastSendMs ≥ 200))) :
    c.flush e = c := by
  have hk := thresholds.1
  unfold Conn.flush Conn.flushDue
  rw [hk]
  by_cases hc : c.connected = true <;> by_cases ha : c.sendActive = true <;> by_cases ht : e.nowMs - c.lastSendMs ≥ 200 <;>
    simp_all

/-- **keep-alive**: an idle connected endpoint emits on every flush that comes ≥ 200 ms after its previous emission -/
theorem keepalive_sent (e : Env) (c : Conn) (hc : c.connected = true) (hidle : c.sendActive = false) (ht : e.nowMs - c.lastSendMs ≥ 200) :
    ∃ bytes, (c.flush e).log = .out bytes :: c.log :=
  (flush_emits_iff e c).mpr ⟨hc, Or.inr ht⟩

/-- **never early**: with nothing buffered, no datagram is emitted sooner than 200 ms after the previous emission -/
theorem no_early_keepalive (e : Env) (c : Conn) (hidle : c.sendActive = false) (ht : e.nowMs - c.lastSendMs < 200) : c.flush e = c :=
  flush_idle e c (by simp [hidle]; omega)

/-- every emission restarts the keep-alive interval and consumes exactly one packet id -/
theorem flush_stamps (e : Env) (c : Conn) (h : c.connected = true ∧ (c.sendActive = true ∨ e.nowMs - c.lastSendMs ≥ 200)) :
    (c.flush e).lastSendMs = e.nowMs ∧ (c.flush e).outPacketId = c.outPacketId + 1 ∧ (c.flush e).sendActive = false := by
  have hk := thresholds.1
  unfold Conn.flush Conn.flushDue
  rw [hk]
  obtain ⟨hc, h2⟩ := h
  have : (c.sendActive || decide (e.nowMs - c.lastSendMs ≥ 200)) = true := by
    rcases h2 with h2 | h2 <;> simp [h2]
  simp only [hc, this, Bool.and_self, Bool.not_true, Bool.false_eq_true, if_false]
  split <;> simp [startPacket_outPacketId]

/-- **timeout iff**: the timeout test of `utcp_update` closes a live connected endpoint with reason
ConnectionTimeout iff more than 120 s have passed since the last receive stamp — independent of the absolute
clock value -/
theorem timeout_iff (e : Env) (c : Conn) (hopen : c.bClose = false) :
    ((c.checkTimeout e).bClose = true ∧ (c.checkTimeout e).closeReason = 6) ↔ e.nowMs - c.lastRecvMs > 120000 := by
  have hk := thresholds
  unfold Conn.checkTimeout Conn.markClose
  rw [hk.2.1, hk.2.2]
  by_cases ht : e.nowMs - c.lastRecvMs > 120000 <;> simp [ht, hopen]

theorem no_timeout_frame (e : Env) (c : Conn) (h : e.nowMs - c.lastRecvMs ≤ 120000) : c.checkTimeout e = c := by
  have hk := thresholds
  unfold Conn.checkTimeout
  rw [hk.2.1]
  have : ¬ (e.nowMs - c.lastRecvMs > 120000) := by omega
  simp [this]

/-- the receive stamp of an accepted (server-side) connection is the time of the accept -/
theorem accept_stamps (e : Env) (a : Accepted) : (Endpoint.accepted e a).c.lastRecvMs = e.nowMs ∧ (Endpoint.accepted e a).c.lastSendMs = e.nowMs := by
  unfold Endpoint.accepted Conn.seqInit; simp

/-- the receive stamp of a client is the time its handshake completes (never the process start): a client
whose handshake completes at any clock value does not time out for the next 120 s -/
theorem connect_stamps (e : Env) (ep : Endpoint) (ch : Challenge) (hs : HsData) :
    (ep.onAck e ch hs).c.lastRecvMs = e.nowMs ∧ (ep.onAck e ch hs).c.lastSendMs = e.nowMs ∧ (ep.onAck e ch hs).c.connected = true := by
  unfold Endpoint.onAck; simp [Conn.emit]

/-- … and that is what a challenge ack does to a client that is waiting for it -/
theorem ack_completes {T} (tm : TimeOps T) (e : Env) (rng : Rng) (ep : Endpoint) (hs : HsData) (cid : Nat) (ch : Challenge)
    (hch : ep.chal = some ch) (hst : ch.state = stUnInit ∨ ch.state = stLocal) (hr : hs.restart = false)
    (hnc : (hs.ptype == ptChallenge && tm.gt0 (tm.ofBits hs.ts)) = false) (hack : (hs.ptype == ptAck && tm.lt0 (tm.ofBits hs.ts)) = true) :
    ep.handshakeIncoming tm e rng hs cid = (ep.onAck e ch hs, rng, 0) := by
  unfold Endpoint.handshakeIncoming
  have hst' : (ch.state == stUnInit || ch.state == stLocal) = true := by
    rcases hst with h | h <;> simp [h]
  simp only [hch, hst', if_true, hr, Bool.false_eq_true, if_false, hnc, hack]

/-- a data datagram refreshes the receive stamp -/
theorem data_stamps {T} (tm : TimeOps T) (e : Env) (rng : Rng) (ep : Endpoint) (bytes : List UInt8) (bits : Bits) (s cl : Nat) (rest : Bits)
    (h1 : readInit bytes = some bits) (h2 : readOutgoingHeader e bits = .ok (s, cl, false) rest) (h3 : rest ≠ []) :
    ∃ c0 : Conn, c0.lastRecvMs = e.nowMs ∧ (ep.incoming tm e rng bytes).1.c = (c0.receivedPacket e rest.dropLast).1 := by
  unfold Endpoint.incoming
  simp only [h1, h2]
  have : rest.isEmpty = false := by cases rest <;> simp_all
  simp only [this, Bool.false_eq_true, if_false]
  exact ⟨_, rfl, rfl⟩

/-! ## every history: arrivals at least every 120 s ⇒ never a timeout -/

/-- what happens to a connected endpoint -/
inductive Op where
  | send (b : Bunch)
  | flush
  /-- a data datagram with a non-empty body `bits` arrives (`utcp_incoming` stamps the receive time, then `ReceivedPacket`) -/
  | data (bits : Bits)
  | update

def apply (e : Env) (c : Conn) : Op → Conn
  | .send b => (c.sendBunch e b).1
  | .flush => c.flush e
  | .data bits => (({ c with lastRecvMs := e.nowMs } : Conn).receivedPacket e bits).1
  | .update => (c.checkTimeout e).updateTail.1

/-- the number of `update` calls in a history at which the timeout condition was true -/
def timeouts (c : Conn) : List (Env × Op) → Nat
  | [] => 0
  | (e, .update) :: rest => (if e.nowMs - c.lastRecvMs > 120000 then 1 else 0) + timeouts (apply e c .update) rest
  | (e, op) :: rest => timeouts (apply e c op) rest

/-- the schedule hypothesis: at every `update`, the most recent arrival (or the initial stamp `t`) is at most 120 s old -/
def Fresh (t : Int) : List (Env × Op) → Prop
  | [] => True
  | (e, .data _) :: rest => Fresh e.nowMs rest
  | (e, .update) :: rest => e.nowMs - t ≤ 120000 ∧ Fresh t rest
  | (_, _) :: rest => Fresh t rest

theorem notifyUpdate_lastRecv (e : Env) (c : Conn) (h : NotifHeader) : (c.notifyUpdate e h).lastRecvMs = c.lastRecvMs := by
  have hcore : (c.notifyUpdate e h).lastRecvMs = (notifyCore e c h).lastRecvMs := by
    unfold Conn.notifyUpdate notifyCore; dsimp only; split <;> rfl
  rw [hcore]
  unfold notifyCore
  have hh : ∀ (c : Conn) (v : Int × Bool), (c.handleNotification e v).lastRecvMs = c.lastRecvMs := by
    intro c v
    unfold Conn.handleNotification
    dsimp only
    split
    · rfl
    · split
      · exact (onAckChans_keeps _ _ _).lastRecvMs
      · exact (onNakChans_keeps e _ _ _).lastRecvMs
  have hfold : ∀ (vs : List (Int × Bool)) (c : Conn), (vs.foldl (Conn.handleNotification e) c).lastRecvMs = c.lastRecvMs := by
    intro vs
    induction vs with
    | nil => intro c; rfl
    | cons v rest ih => intro c; exact (ih _).trans (hh c v)
  split
  · exact hfold _ _
  · rfl

theorem receivedPacket_lastRecv (e : Env) (c : Conn) (bits : Bits) : (c.receivedPacket e bits).1.lastRecvMs = c.lastRecvMs := by
  unfold Conn.receivedPacket
  split
  · unfold Conn.markClose; split <;> rfl
  · rename_i hd rest hdec
    dsimp only
    split
    · rfl
    · have h2 := notifyUpdate_lastRecv e ({ c with inPacketId := c.inPacketId + c.notify.deltaSeq hd } : Conn) hd
      have h3 := (bunchLoop_sameN (rest.length + 1) (({ c with inPacketId := c.inPacketId + c.notify.deltaSeq hd } : Conn).notifyUpdate e hd) rest false).lastRecvMs
      generalize Conn.bunchLoop (rest.length + 1) (({ c with inPacketId := c.inPacketId + c.notify.deltaSeq hd } : Conn).notifyUpdate e hd) rest false = r at h3 ⊢
      obtain ⟨c3, rest', skip⟩ := r
      exact h3.trans h2

theorem sendBunch_lastRecv (e : Env) (c : Conn) (b : Bunch) : (c.sendBunch e b).1.lastRecvMs = c.lastRecvMs := by
  have hraw : (c.sendRaw e b).1.lastRecvMs = c.lastRecvMs := by
    unfold Conn.sendRaw
    split
    · rfl
    · unfold Conn.sendCommit
      dsimp only
      have h1 : ((c.getOrCreateChan b false).1.noteClose b).lastRecvMs = c.lastRecvMs :=
        (noteClose_sameN _ b).lastRecvMs.trans (getOrCreateChan_sameN c b false).lastRecvMs
      generalize (c.getOrCreateChan b false).1.noteClose b = c1 at h1 ⊢
      split
      · exact h1
      · rename_i x hx
        generalize (if b.bReliable = true then x.outReliable + 1 else 0 : Int) = seq
        generalize (if b.bReliable = true then (encodeBunchHeader { b with chSeq := seq }).getD _ else _) = hdr
        have h2 : (if b.bReliable = true then c1.setChan b.chIndex { x with outReliable := seq } else c1).lastRecvMs = c.lastRecvMs := by
          split
          · exact h1
          · exact h1
        generalize (if b.bReliable = true then c1.setChan b.chIndex { x with outReliable := seq } else c1) = c2 at h2 ⊢
        have h4 : ((c2.prepareWrite e (hdr.length + b.data.length)).writeInternal e (hdr ++ b.data)).1.lastRecvMs = c.lastRecvMs :=
          ((writeInternal_keeps e _ _).lastRecvMs.trans (prepareWrite_keeps e c2 _).lastRecvMs).trans h2
        split
        · unfold Conn.addOutRec
          split
          · exact h4
          · exact h4
        · exact h4
  unfold Conn.sendBunch
  generalize c.sendRaw e b = r at hraw ⊢
  obtain ⟨c', rr⟩ := r
  simp only at hraw ⊢
  split <;> exact hraw

theorem updateTail_lastRecv (c : Conn) : c.updateTail.1.lastRecvMs = c.lastRecvMs := by
  have hd : c.delayClose.lastRecvMs = c.lastRecvMs := by
    unfold Conn.delayClose
    split
    · rfl
    · dsimp only
      have hfree : ∀ (c : Conn) (x : Channel), (c.freeChan x).lastRecvMs = c.lastRecvMs := by
        intro c x
        unfold Conn.freeChan
        dsimp only
        show (((c.freeNodes _).freeNodes _).freeNodes _).lastRecvMs = _
        rw [(freeNodes_sameN _ _).lastRecvMs, (freeNodes_sameN _ _).lastRecvMs, (freeNodes_sameN _ _).lastRecvMs]
      have hfold : ∀ (l : List (Nat × Channel)) (c' : Conn),
          (l.foldl (fun c (p : Nat × Channel) =>
            if !p.2.bClose then c
            else if !p.2.outRec.isEmpty then { c with hasChannelClose := true }
            else { c.freeChan p.2 with chans := c.chans.filter (·.1 != p.1) }) c').lastRecvMs = c'.lastRecvMs := by
        intro l
        induction l with
        | nil => intro c'; rfl
        | cons p rest ih =>
          intro c'
          simp only [List.foldl_cons]
          split
          · exact ih _
          · split
            · exact ih _
            · rw [ih]; exact hfree c' p.2
      exact hfold _ _
  unfold Conn.updateTail
  dsimp only
  split
  · exact hd
  · exact hd

/-- the receive stamp after a step: the clock of the step for an arrival, unchanged otherwise -/
theorem apply_lastRecv (e : Env) (c : Conn) (op : Op) :
    (apply e c op).lastRecvMs = (match op with | .data _ => e.nowMs | _ => c.lastRecvMs) := by
  cases op with
  | send b => exact sendBunch_lastRecv e c b
  | flush => exact (flush_keeps e c).lastRecvMs
  | data bits => exact receivedPacket_lastRecv e _ bits
  | update =>
    show (c.checkTimeout e).updateTail.1.lastRecvMs = c.lastRecvMs
    rw [updateTail_lastRecv]
    unfold Conn.checkTimeout Conn.markClose
    split
    · split <;> rfl
    · rfl

/-- **an endpoint that keeps hearing from its peer never times out**: if at every `update` of a history the most recent data
datagram arrived at most 120 s earlier (any datagram with a non-empty body counts, also a stale or damaged one), the timeout
condition is false at every one of those updates — for every interleaving with sends, flushes and arrivals, and every clock -/
theorem healthy_never_times_out (ops : List (Env × Op)) : ∀ c : Conn, Fresh c.lastRecvMs ops → timeouts c ops = 0 := by
  induction ops with
  | nil => intro c _; rfl
  | cons p rest ih =>
    intro c h
    obtain ⟨e, op⟩ := p
    have hl := apply_lastRecv e c op
    cases op with
    | send b => simp only [timeouts]; exact ih _ (by simp only [Fresh] at h; rw [hl]; exact h)
    | flush => simp only [timeouts]; exact ih _ (by simp only [Fresh] at h; rw [hl]; exact h)
    | data bits => simp only [timeouts]; exact ih _ (by simp only [Fresh] at h; rw [hl]; exact h)
    | update =>
      simp only [Fresh] at h
      simp only [timeouts]
      have : ¬ (e.nowMs - c.lastRecvMs > 120000) := by omega
      simp only [this, if_false, Nat.zero_add]
      exact ih _ (by rw [hl]; exact h.2)

/-- … and at such an update the timeout test leaves the connection exactly as it was -/
theorem fresh_update_is_tail (e : Env) (c : Conn) (h : e.nowMs - c.lastRecvMs ≤ 120000) : apply e c .update = c.updateTail.1 := by
  show (c.checkTimeout e).updateTail.1 = _
  rw [no_timeout_frame e c h]

/-! non-vacuity -/
example : (({ connected := true, lastSendMs := 1000 } : Conn).flush { elapsedUs := 200000 }).outPacketId = 1 := by decide
example : (({ connected := true, lastSendMs := 1000 } : Conn).flush { elapsedUs := 199000 }).outPacketId = 0 := by decide
example : Fresh 1000 [({ elapsedUs := 100000000 }, .update), ({ elapsedUs := 110000000 }, .data [true]), ({ elapsedUs := 220000000 }, .update)] := by
  simp [Fresh, Env.nowMs, utcp_gettime_ms]

end Utcp.Props.C15
