import Utcp.Lemmas.Conn
import Utcp.Handshake
/-!
# C15 — keep-alives flow when idle; timeouts fire only after real silence

Local theorems about one endpoint under an *arbitrary* clock value: the clock enters only through
`Env.nowMs`, so every statement holds for every schedule of the virtual clock.
-/
namespace Utcp.Props.C15
open Utcp Utcp.Gen

theorem thresholds : keepAliveMs = 200 ∧ connectTimeoutMs = 120000 ∧ crConnectionTimeout = 6 := by decide

/-- the clock scale the model assumes is the one the code has: `utcp_gettime_ms` advances 1000 per second of
`utcp_add_elapsed_time`, `utcp_gettime` advances 1 (both extracted by running the code) -/
theorem clock_units : GETTIME_MS_AT_1S - GETTIME_MS_AT_0 = 1000 ∧ GETTIME_US_AT_1S - GETTIME_US_AT_0 = 1000000 ∧ ELAPSED_US_PER_MS_OF_NS = 1000 := by decide

/-- **flush rule**: a flush emits a datagram iff the endpoint is connected and (something is buffered, or at
least one keep-alive interval has passed since its previous emission) -/
theorem flush_emits_iff (e : Env) (c : Conn) :
    (∃ bytes, (c.flush e).log = .out bytes :: c.log) ↔ (c.connected = true ∧ (c.sendActive = true ∨ e.nowMs - c.lastSendMs ≥ 200)) := by
  have hk := thresholds.1
  unfold Conn.flush Conn.flushDue
  rw [hk]
  by_cases hc : c.connected = true <;> by_cases ha : c.sendActive = true <;> by_cases ht : e.nowMs - c.lastSendMs ≥ 200 <;>
    simp [hc, ha, ht, startPacket_log] <;> (try omega)
  all_goals (intro x hx; have := congrArg List.length hx; simp at this)

/-- when it does not emit, a flush changes nothing at all -/
theorem flush_idle (e : Env) (c : Conn) (h : ¬ (c.connected = true ∧ (c.sendActive = true ∨ e.nowMs - c.lastSendMs ≥ 200))) :
    c.flush e = c := by
  have hk := thresholds.1
  unfold Conn.flush Conn.flushDue
  rw [hk]
  by_cases hc : c.connected = true <;> by_cases ha : c.sendActive = true <;> by_cases ht : e.nowMs - c.lastSendMs ≥ 200 <;>
    simp_all

/-- **keep-alive**: an idle connected endpoint emits on every flush that comes ≥ 200 ms after its previous emission -/
theorem keepalive_sent (e : Env) (c : Conn) (hc : c.connected = true) (hidle : c.sendActive = false) (ht : e.nowMs - c.lastSendMs ≥ 200) :
    ∃ bytes, (c.flush e).log = .out bytes :: c.log :=
  (flush_emits_iff e c).mpr ⟨hc, Or.inr ht⟩

/-- **never early**: with nothing buffered, no datagram is emitted sooner than 200 ms after the previous emission -/
theorem no_early_keepalive (e : Env) (c : Conn) (hidle : c.sendActive = false) (ht : e.nowMs - c.lastSendMs < 200) : c.flush e = c :=
  flush_idle e c (by simp [hidle]; omega)

/-- every emission restarts the keep-alive interval and consumes exactly one packet id -/
theorem flush_stamps (e : Env) (c : Conn) (h : c.connected = true ∧ (c.sendActive = true ∨ e.nowMs - c.lastSendMs ≥ 200)) :
    (c.flush e).lastSendMs = e.nowMs ∧ (c.flush e).outPacketId = c.outPacketId + 1 ∧ (c.flush e).sendActive = false := by
  have hk := thresholds.1
  unfold Conn.flush Conn.flushDue
  rw [hk]
  obtain ⟨hc, h2⟩ := h
  have : (c.sendActive || decide (e.nowMs - c.lastSendMs ≥ 200)) = true := by
    rcases h2 with h2 | h2 <;> simp [h2]
  simp only [hc, this, Bool.and_self, Bool.not_true, Bool.false_eq_true, if_false]
  split <;> simp [startPacket_outPacketId]

/-- **timeout iff**: the timeout test of `utcp_update` closes a live connected endpoint with reason
ConnectionTimeout iff more than 120 s have passed since the last receive stamp — independent of the absolute
clock value -/
theorem timeout_iff (e : Env) (c : Conn) (hopen : c.bClose = false) :
    ((c.checkTimeout e).bClose = true ∧ (c.checkTimeout e).closeReason = 6) ↔ e.nowMs - c.lastRecvMs > 120000 := by
  have hk := thresholds
  unfold Conn.checkTimeout Conn.markClose
  rw [hk.2.1, hk.2.2]
  by_cases ht : e.nowMs - c.lastRecvMs > 120000 <;> simp [ht, hopen]

theorem no_timeout_frame (e : Env) (c : Conn) (h : e.nowMs - c.lastRecvMs ≤ 120000) : c.checkTimeout e = c := by
  have hk := thresholds
  unfold Conn.checkTimeout
  rw [hk.2.1]
  have : ¬ (e.nowMs - c.lastRecvMs > 120000) := by omega
  simp [this]

/-- the receive stamp of an accepted (server-side) connection is the time of the accept -/
theorem accept_stamps (e : Env) (a : Accepted) : (Endpoint.accepted e a).c.lastRecvMs = e.nowMs ∧ (Endpoint.accepted e a).c.lastSendMs = e.nowMs := by
  unfold Endpoint.accepted Conn.seqInit; simp

/-- the receive stamp of a client is the time its handshake completes (never the process start): a client
whose handshake completes at any clock value does not time out for the next 120 s -/
theorem connect_stamps (e : Env) (ep : Endpoint) (ch : Challenge) (hs : HsData) :
    (ep.onAck e ch hs).c.lastRecvMs = e.nowMs ∧ (ep.onAck e ch hs).c.lastSendMs = e.nowMs ∧ (ep.onAck e ch hs).c.connected = true := by
  unfold Endpoint.onAck; simp [Conn.emit]

/-- … and that is what a challenge ack does to a client that is waiting for it -/
theorem ack_completes {T} (tm : TimeOps T) (e : Env) (rng : Rng) (ep : Endpoint) (hs : HsData) (cid : Nat) (ch : Challenge)
    (hch : ep.chal = some ch) (hst : ch.state = stUnInit ∨ ch.state = stLocal) (hr : hs.restart = false)
    (hnc : (hs.ptype == ptChallenge && tm.gt0 (tm.ofBits hs.ts)) = false) (hack : (hs.ptype == ptAck && tm.lt0 (tm.ofBits hs.ts)) = true) :
    ep.handshakeIncoming tm e rng hs cid = (ep.onAck e ch hs, rng, 0) := by
  unfold Endpoint.handshakeIncoming
  have hst' : (ch.state == stUnInit || ch.state == stLocal) = true := by
    rcases hst with h | h <;> simp [h]
  simp only [hch, hst', if_true, hr, Bool.false_eq_true, if_false, hnc, hack]

/-- a data datagram refreshes the receive stamp -/
theorem data_stamps {T} (tm : TimeOps T) (e : Env) (rng : Rng) (ep : Endpoint) (bytes : List UInt8) (bits : Bits) (s cl : Nat) (rest : Bits)
    (h1 : readInit bytes = some bits) (h2 : readOutgoingHeader e bits = .ok (s, cl, false) rest) (h3 : rest ≠ []) :
    ∃ c0 : Conn, c0.lastRecvMs = e.nowMs ∧ (ep.incoming tm e rng bytes).1.c = (c0.receivedPacket e rest.dropLast).1 := by
  unfold Endpoint.incoming
  simp only [h1, h2]
  have : rest.isEmpty = false := by cases rest <;> simp_all
  simp only [this, Bool.false_eq_true, if_false]
  exact ⟨_, rfl, rfl⟩

/-! non-vacuity -/
example : (({ connected := true, lastSendMs := 1000 } : Conn).flush { elapsedUs := 200000 }).outPacketId = 1 := by decide
example : (({ connected := true, lastSendMs := 1000 } : Conn).flush { elapsedUs := 199000 }).outPacketId = 0 := by decide

end Utcp.Props.C15
