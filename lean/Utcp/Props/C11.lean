import Utcp.Lemmas.Bunch
import Utcp.Lemmas.Frame
import Utcp.Conn
/-!
# C11 — bunch wire format round-trips exactly and is self-delimiting

S-level statements: a packet is a bit list, so "at every starting bit offset" is the quantification over the
arbitrary `rest` that follows and the arbitrary prefix that precedes (a reader is handed the remainder the
previous reader returned).  The byte-level primitives are tied to these bit-level ones by C12 and by the
correspondence runs (every datagram byte is compared).
-/
namespace Utcp.Props.C11
open Utcp

/-- **bunch round trip**: parsing what the serializer wrote yields the same bunch (sequence modulo 1024) and
consumes exactly the bits written — whatever follows is returned untouched. -/
theorem decode_encode (b : Bunch) (h : WFBunch b) (rest : Bits) :
    ∃ bits, encodeBunch b = some bits ∧ decodeBunch (bits ++ rest) = .ok (wireView b) rest := by
  obtain ⟨hr, hch, hpi, hpf, hnl, hn0, hlen, hs0⟩ := h
  have henc : encodeBunchHeader b = some (writeCtl b.bOpen b.bClose b.closeReason
    ++ [b.bPaused, b.bReliable] ++ writeIntPacked b.chIndex ++ [b.bExports, b.bGuids, b.bPartial]
    ++ writeSeq b.bReliable b.chSeq ++ writePartialFlags b.bPartial b.bPartialInitial b.bPartialFinal
    ++ writeName (b.bReliable || b.bOpen) b.nameIndex ++ writeIntWrapped b.data.length maxPacketBits) := by
    unfold encodeBunchHeader
    have : (b.bClose && !(decide (b.closeReason < closeReasonMax))) = false := by
      rw [closeReasonMax_eq]
      cases hc : b.bClose
      · simp
      · simp [hc] at hr; simp [hr]
    simp [this]
  refine ⟨_, by unfold encodeBunch; rw [henc], ?_⟩
  have hname0 : (b.bReliable || b.bOpen) = false → b.nameIndex = 0 := by
    intro hh; simp at hh; exact hn0 hh.1 hh.2
  unfold decodeBunch
  simp only [List.append_assoc, Rd.bind_apply, readCtl_write _ _ _ hr, List.cons_append, List.nil_append, readBit_cons,
    rd_packed _ (Nat.lt_trans hch (by decide)), readSeq_write _ _ hs0, readPartialFlags_write _ _ _ hpi hpf,
    readName_write _ _ hnl hname0, rd_len _ hlen, readBits_append, Rd.pure_apply]
  unfold wireView
  congr 1
  have h1 : b.chIndex % 65536 = b.chIndex := Nat.mod_eq_of_lt hch
  have h2 : (((b.chSeq % 1024).toNat : Nat) : Int) = b.chSeq % 1024 := by omega
  cases b; simp_all

/-- the serializer refuses exactly the bunches whose close reason it cannot represent -/
theorem encode_none_iff (b : Bunch) : encodeBunch b = none ↔ (b.bClose = true ∧ 15 ≤ b.closeReason) := by
  unfold encodeBunch encodeBunchHeader
  rw [closeReasonMax_eq]
  cases hc : b.bClose
  · simp
  · by_cases h : b.closeReason < 15
    · simp [h]
    · simp [h]; omega

/-- every encoding is non-empty (a reader always makes progress) -/
theorem encode_nonempty (b : Bunch) (bits : Bits) (h : encodeBunch b = some bits) : bits ≠ [] := by
  unfold encodeBunch encodeBunchHeader at h
  split at h
  · rename_i hdr hh
    split at hh
    · simp at hh
    · simp at hh; simp at h; subst h; subst hh; simp [writeCtl]
  · simp at h

/-- parse a packet body as a sequence of back-to-back bunches -/
def decodeMany : Nat → Bits → Option (List Bunch)
  | 0, bs => if bs.isEmpty then some [] else none
  | f+1, bs => if bs.isEmpty then some [] else
    match decodeBunch bs with
    | .ok b rest => (decodeMany f rest).map (b :: ·)
    | .fail _ => none

/-- serialize a list of bunches back to back (`none` if one is refused) -/
def encodeMany : List Bunch → Option Bits
  | [] => some []
  | b :: bs => match encodeBunch b, encodeMany bs with
    | some x, some y => some (x ++ y)
    | _, _ => none

/-- **self-delimiting**: any number of bunches packed back to back (at whatever bit offset the previous one
ended) are recovered in order with nothing left over -/
theorem decode_concat (bs : List Bunch) (h : ∀ b ∈ bs, WFBunch b) :
    ∃ bits, encodeMany bs = some bits ∧ decodeMany bs.length bits = some (bs.map wireView) := by
  induction bs with
  | nil => exact ⟨[], rfl, rfl⟩
  | cons b bs ih =>
    obtain ⟨tl, htl, hdec⟩ := ih (fun x hx => h x (List.mem_cons_of_mem _ hx))
    obtain ⟨hd, hhd, hdd⟩ := decode_encode b (h b (List.mem_cons_self)) tl
    refine ⟨hd ++ tl, by simp [encodeMany, hhd, htl], ?_⟩
    have hne : hd ≠ [] := encode_nonempty b hd hhd
    have : (hd ++ tl).isEmpty = false := by cases hd <;> simp_all
    simp [decodeMany, this, hdd, hdec]

/-! ## packet header (sequence, acknowledged sequence, 1–8 history words) -/

structure WFHeader (h : NotifHeader) : Prop where
  seq : 0 ≤ h.seq ∧ h.seq < 16384
  acked : 0 ≤ h.ackedSeq ∧ h.ackedSeq < 16384
  words : 1 ≤ h.words ∧ h.words ≤ 8
  hist : h.hist.length = 32 * h.words

theorem header_round_trip (h : NotifHeader) (wf : WFHeader h) (rest : Bits) :
    decodePacketHeader (encodeNotifHeader h ++ rest) = .ok (h, rest) := by
  obtain ⟨⟨hs0, hs1⟩, ⟨ha0, ha1⟩, ⟨hw0, hw1⟩, hh⟩ := wf
  unfold decodePacketHeader encodeNotifHeader
  simp only [List.append_assoc]
  rw [readU32_write]
  have hsn : h.seq.toNat % 16384 = h.seq.toNat := Nat.mod_eq_of_lt (by omega)
  have han : h.ackedSeq.toNat % 16384 = h.ackedSeq.toNat := Nat.mod_eq_of_lt (by omega)
  have hw16 : (h.words - 1) % 16 = h.words - 1 := Nat.mod_eq_of_lt (by omega)
  rw [hsn, han, hw16]
  have hsl : h.seq.toNat < 16384 := by omega
  have hal : h.ackedSeq.toNat < 16384 := by omega
  have hp : (h.seq.toNat * 2 ^ 18 + h.ackedSeq.toNat * 16 + (h.words - 1)) % 4294967296 = h.seq.toNat * 2 ^ 18 + h.ackedSeq.toNat * 16 + (h.words - 1) := by
    apply Nat.mod_eq_of_lt; omega
  rw [hp]
  have e1 : (h.seq.toNat * 2 ^ 18 + h.ackedSeq.toNat * 16 + (h.words - 1)) / 2 ^ 18 % 16384 = h.seq.toNat := by omega
  have e2 : (h.seq.toNat * 2 ^ 18 + h.ackedSeq.toNat * 16 + (h.words - 1)) / 16 % 16384 = h.ackedSeq.toNat := by omega
  have e3 : min histWordsMax ((h.seq.toNat * 2 ^ 18 + h.ackedSeq.toNat * 16 + (h.words - 1)) % 16 + 1) = h.words := by
    have : histWordsMax = 8 := by decide
    rw [this]; omega
  simp only [e1, e2, e3]
  rw [readBits_append' _ _ _ hh]
  simp only [List.cons_append, List.nil_append, readBit_cons, Bool.not_false, if_true]
  have hs : ((h.seq.toNat : Nat) : Int) = h.seq := Int.toNat_of_nonneg hs0
  have ha : ((h.ackedSeq.toNat : Nat) : Int) = h.ackedSeq := Int.toNat_of_nonneg ha0
  cases h; simp_all

/-- **datagram framing**: the bits recovered from a datagram (`bitbuf_read_init`) are exactly the bits written
before the terminator bit, for every bit count (not only whole bytes) -/
theorem framing_round_trip (bits : Bits) : readInit (bitsToBytes (bits ++ [true])) = some bits :=
  readInit_bitsToBytes bits

/-! non-vacuity -/
example : WFBunch { chIndex := 32766, bOpen := true, bClose := true, closeReason := 14, bReliable := true, bPartial := true,
                    bPartialInitial := true, nameIndex := 4294967295, chSeq := 123456, data := [true, false, true] } := by
  constructor <;> simp
example : WFHeader { seq := 16383, ackedSeq := 0, words := 2, hist := List.replicate 64 true } := by
  constructor <;> simp

end Utcp.Props.C11
