import Utcp.Props.C09_Header
/-!
# C11 at the level of the byte array: the packet header writer, and the header round trip in bytes

`packet_header_write` (with `bHasPacketInfoPayload = 0`, the only value the library sets) as the sequence of bit-buffer calls it makes: the packed word, one
`bitbuf_write_int_byte_order` per history word, the packet-info bit.  Into a zeroed buffer with room every call succeeds, touches no byte outside the buffer and
the calls together append exactly the bits of the bit-level `encodeNotifHeader` (for which `Props/C11.lean` proves the round trip).
-/
namespace Utcp.BB
open Utcp

/-- the history bits cut into the 32-bit words the C code keeps them in (`History[i]`) -/
def histWords : Nat → Bits → List Nat
  | 0, _ => []
  | n + 1, bs => bitsToNat (bs.take 32) :: histWords n (bs.drop 32)

/-- `PackedHeader_Pack` (tied to the translated C function by `Props/C11_Gen.lean`) -/
def packedWord (h : NotifHeader) : Nat := (h.seq.toNat % 16384) * 2^18 + (h.ackedSeq.toNat % 16384) * 16 + (h.words - 1) % 16

/-- `packet_header_write`: the calls of the C function in their order, for a header of `n` history words -/
def notifHeaderOps (h : NotifHeader) (n : Nat) : List LOp :=
  [LOp.word (packedWord h)] ++ (histWords n h.hist).map LOp.word ++ [LOp.bit 0]

theorem histWords_bits (n : Nat) (bs : Bits) (h : bs.length = 32 * n) : ((histWords n bs).map LOp.word).flatMap LOp.bits = bs := by
  induction n generalizing bs with
  | zero =>
    have : bs = [] := List.eq_nil_of_length_eq_zero (by omega)
    simp [histWords, this]
  | succ n ih =>
    unfold histWords
    rw [List.map_cons, List.flatMap_cons, ih (bs.drop 32) (by simp only [List.length_drop]; omega)]
    have h1 : natToBits (bitsToNat (bs.take 32)) 32 = bs.take 32 := by
      have := natToBits_bitsToNat (bs.take 32)
      rwa [List.length_take, Nat.min_eq_left (by omega)] at this
    show Utcp.writeU32 (bitsToNat (bs.take 32)) ++ bs.drop 32 = bs
    unfold Utcp.writeU32
    rw [h1, List.take_append_drop]

theorem histWords_ok (n : Nat) (bs : Bits) : ∀ o ∈ (histWords n bs).map LOp.word, o.ok := by
  induction n generalizing bs with
  | zero => intro o ho; simp [histWords] at ho
  | succ n ih =>
    intro o ho
    unfold histWords at ho
    rw [List.map_cons, List.mem_cons] at ho
    rcases ho with ho | ho
    · subst ho
      show bitsToNat (bs.take 32) < 2 ^ 32
      have := bitsToNat_lt (bs.take 32)
      have hl : (bs.take 32).length ≤ 32 := by rw [List.length_take]; exact Nat.min_le_left _ _
      exact Nat.lt_of_lt_of_le this (Nat.pow_le_pow_right (by decide) hl)
    · exact ih _ o ho

theorem notifHeaderOps_bits (h : NotifHeader) (n : Nat) (hl : h.hist.length = 32 * n) : (notifHeaderOps h n).flatMap LOp.bits = encodeNotifHeader h := by
  unfold notifHeaderOps encodeNotifHeader
  rw [List.flatMap_append, List.flatMap_append, histWords_bits n h.hist hl]
  simp [LOp.bits, packedWord]

theorem notifHeaderOps_ok (h : NotifHeader) (n : Nat) : ∀ o ∈ notifHeaderOps h n, o.ok := by
  intro o ho
  unfold notifHeaderOps at ho
  simp only [List.mem_append, List.mem_singleton] at ho
  rcases ho with (ho | ho) | ho
  · subst ho
    show packedWord h < 2 ^ 32
    unfold packedWord
    omega
  · exact histWords_ok n h.hist o ho
  · subst ho; trivial

/-- **`packet_header_write` on the byte array**: into a zeroed buffer with room, the header writer's calls all succeed, touch no byte outside the buffer and
append exactly the bits of the bit-level `encodeNotifHeader` -/
theorem write_packet_header_bytes (h : NotifHeader) (n : Nat) (hl : h.hist.length = 32 * n)
    (b : Buf) (hb : WB b) (hroom : b.num + needAll (notifHeaderOps h n) ≤ b.size) :
    ∃ b', writeAll (notifHeaderOps h n) b = some (true, b') ∧ WB b' ∧ b'.size = b.size ∧ content b' = content b ++ encodeNotifHeader h := by
  obtain ⟨b', h1, h2, h3, h4, _⟩ := writeAll_spec (notifHeaderOps h n) b (notifHeaderOps_ok h n) hb hroom
  exact ⟨b', h1, h2, h3, by rw [h4, notifHeaderOps_bits h n hl]⟩

/-- the room the header needs: 32 bits per word and the packet-info bit -/
theorem notifHeaderOps_need (h : NotifHeader) (n : Nat) : needAll (notifHeaderOps h n) = 32 * (n + 1) + 1 := by
  have hw : ∀ (k : Nat) (bs : Bits), (((histWords k bs).map LOp.word).map LOp.need).sum = 32 * k := by
    intro k
    induction k with
    | zero => intro bs; simp [histWords]
    | succ k ih =>
      intro bs
      unfold histWords
      rw [List.map_cons, List.map_cons, List.sum_cons, ih]
      simp [LOp.need, LOp.bits, Utcp.writeU32]
      omega
  unfold needAll notifHeaderOps
  rw [List.map_append, List.map_append, List.sum_append, List.sum_append, hw]
  simp [LOp.need, LOp.bits, Utcp.writeU32]
  omega

/-! non-vacuity: a header with one history word -/
example : ({ seq := 5, ackedSeq := 3, words := 1, hist := List.replicate 32 true } : NotifHeader).hist.length = 32 * 1 := by decide

end Utcp.BB
