import Utcp.Handshake
/-!
# C08 — the listener is stateless: unfinished handshakes leave no trace

`LState.react` is the model of `utcp_listener_incoming` as a function of the listener's *persistent state*
`(secret0, secret1, active, lastSecretUpdate, addrScratch)`; `Listener.incoming` only appends what it
emitted to the log.  The random streams and the clock are *environment* (inputs), as in the C code where the
PRNG is process global.
-/
namespace Utcp.Props.C08
open Utcp

/-- what one datagram may emit: nothing, or exactly one reply datagram (never an allocation, never a callback) -/
def AtMostOneReply (evs : List Event) : Prop := evs = [] ∨ ∃ bytes, evs = [.out bytes]

theorem onHandshake_frame {T} (tm : TimeOps T) (mac : Mac) (e : Env) (rng : Rng) (l : LState T) (addr : String) (client : Nat) (hs : HsData)
    (hnone : (l.onHandshake tm mac e rng addr client hs).acc = none) :
    (l.onHandshake tm mac e rng addr client hs).st = l ∧ AtMostOneReply (l.onHandshake tm mac e rng addr client hs).evs := by
  unfold LState.onHandshake at *
  by_cases hinit : (hs.ptype == ptInitial && tm.isZero (tm.ofBits hs.ts)) = true
  · simp only [hinit, if_true] at hnone ⊢
    by_cases hempty : addr.isEmpty = true
    · simp [hempty] at hnone
    · simp only [hempty, Bool.false_eq_true, if_false]
      refine ⟨?_, Or.inr ⟨_, rfl⟩⟩
      trivial
  · simp only [hinit, Bool.false_eq_true, if_false] at hnone ⊢
    by_cases hv : (l.decision tm mac e addr hs != 0) = true
    · simp only [hv, if_true]
      refine ⟨?_, Or.inl rfl⟩
      trivial
    · simp [hv] at hnone

/-- **frame**: a datagram that does not complete a handshake leaves the listener exactly as it was, emits at
most one reply and allocates nothing — whatever the bytes, the address, the clock and the random draws -/
theorem frame {T} (tm : TimeOps T) (mac : Mac) (e : Env) (rng : Rng) (l : LState T) (addr : String) (bytes : List UInt8)
    (hnone : (l.react tm mac e rng addr bytes).acc = none) :
    (l.react tm mac e rng addr bytes).st = l ∧ AtMostOneReply (l.react tm mac e rng addr bytes).evs := by
  unfold LState.react at *
  split
  · exact ⟨rfl, Or.inl rfl⟩
  · split
    · exact ⟨rfl, Or.inl rfl⟩
    · split
      · exact ⟨rfl, Or.inr ⟨_, rfl⟩⟩
      · split
        · exact ⟨rfl, Or.inl rfl⟩
        · rename_i hs hparse
          simp only [*] at hnone
          exact onHandshake_frame tm mac e rng l addr _ hs hnone

/-- at the level of the listener object: same persistent state, log extended by at most one `out` -/
theorem frame_listener {T} (tm : TimeOps T) (mac : Mac) (e : Env) (rng : Rng) (l : Listener T) (addr : String) (bytes : List UInt8)
    (hnone : (l.incoming tm mac e rng addr bytes).2.2.2 = none) :
    (l.incoming tm mac e rng addr bytes).1.st = l.st ∧
    ((l.incoming tm mac e rng addr bytes).1.log = l.log ∨ ∃ b, (l.incoming tm mac e rng addr bytes).1.log = .out b :: l.log) := by
  unfold Listener.incoming at *
  obtain ⟨h1, h2⟩ := frame tm mac e rng l.st addr bytes hnone
  refine ⟨h1, ?_⟩
  rcases h2 with h2 | ⟨b, h2⟩
  · left; simp [h2]
  · right; exact ⟨b, by simp [h2]⟩

/-- the listener never allocates, whatever it receives -/
theorem no_alloc {T} (tm : TimeOps T) (mac : Mac) (e : Env) (rng : Rng) (l : LState T) (addr : String) (bytes : List UInt8) :
    ∀ ev ∈ (l.react tm mac e rng addr bytes).evs, (∃ b, ev = .out b) ∨ (∃ r a, ev = .accept r a) := by
  intro ev hev
  unfold LState.react LState.onHandshake at hev
  repeat' split at hev
  all_goals simp at hev
  all_goals first
    | exact Or.inl ⟨_, hev⟩
    | exact Or.inr ⟨_, _, hev⟩
    | (rcases hev with h | h <;> first | exact Or.inl ⟨_, h⟩ | exact Or.inr ⟨_, _, h⟩)

/-- one input to the listener, with the environment it arrives in -/
structure Input where
  e : Env
  rng : Rng
  addr : String
  bytes : List UInt8

def run {T} (tm : TimeOps T) (mac : Mac) (l : LState T) : List Input → LState T
  | [] => l
  | i :: is => run tm mac (l.react tm mac i.e i.rng i.addr i.bytes).st is

def NonCompleting {T} (tm : TimeOps T) (mac : Mac) (l : LState T) : List Input → Prop
  | [] => True
  | i :: is => (l.react tm mac i.e i.rng i.addr i.bytes).acc = none ∧ NonCompleting tm mac (l.react tm mac i.e i.rng i.addr i.bytes).st is

/-- **history freedom**: any amount of non-completing traffic — initial packets from unboundedly many
addresses, malformed packets, failed and expired responses, stray data packets, in any order and number —
leaves the listener *equal* to what it was … -/
theorem history_free_state {T} (tm : TimeOps T) (mac : Mac) (l : LState T) (ds : List Input) (h : NonCompleting tm mac l ds) :
    run tm mac l ds = l := by
  induction ds generalizing l with
  | nil => rfl
  | cons i is ih =>
    obtain ⟨h1, h2⟩ := h
    have hf := (frame tm mac i.e i.rng l i.addr i.bytes h1).1
    simp only [run]
    rw [hf] at h2 ⊢
    exact ih l h2

/-- … so every later datagram is answered byte for byte (reply, return code, acceptance, next random state) as
it would have been without that traffic -/
theorem history_free_reply {T} (tm : TimeOps T) (mac : Mac) (l : LState T) (ds : List Input) (h : NonCompleting tm mac l ds) (i : Input) :
    (run tm mac l ds).react tm mac i.e i.rng i.addr i.bytes = l.react tm mac i.e i.rng i.addr i.bytes := by
  rw [history_free_state tm mac l ds h]

/-- a completed handshake leaves behind only the tail of the address scratch field (never read: every
comparison stops at the NUL that the reset puts in byte 0); secrets, active slot and rotation time are untouched
by *any* datagram -/
theorem secrets_untouched {T} (tm : TimeOps T) (mac : Mac) (e : Env) (rng : Rng) (l : LState T) (addr : String) (bytes : List UInt8) :
    let l' := (l.react tm mac e rng addr bytes).st
    l'.secret0 = l.secret0 ∧ l'.secret1 = l.secret1 ∧ l'.active = l.active ∧ l'.lastSecretUpdate = l.lastSecretUpdate := by
  intro l'
  have hl : l' = (l.react tm mac e rng addr bytes).st := rfl
  unfold LState.react LState.onHandshake at hl
  split at hl <;> (try (rw [hl]; exact ⟨rfl, rfl, rfl, rfl⟩))
  split at hl <;> (try (rw [hl]; exact ⟨rfl, rfl, rfl, rfl⟩))
  split at hl <;> (try (rw [hl]; exact ⟨rfl, rfl, rfl, rfl⟩))
  split at hl <;> (try (rw [hl]; exact ⟨rfl, rfl, rfl, rfl⟩))
  split at hl
  · split at hl <;> (rw [hl]; exact ⟨rfl, rfl, rfl, rfl⟩)
  · split at hl <;> (rw [hl]; exact ⟨rfl, rfl, rfl, rfl⟩)

/-! non-vacuity: a random byte string is non-completing for a fresh listener -/
example : (({ lastSecretUpdate := (0 : Int) } : LState Int).react intOps (fun _ _ => []) {} {} "1.2.3.4:5" [1, 2, 3]).acc = none := by decide

end Utcp.Props.C08
