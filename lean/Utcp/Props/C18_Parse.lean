import Utcp.Props.C04
/-!
# C18 — a genuine packet is parsed completely, bunch by bunch, with no error

The last clause of C18: a datagram the sender emitted, delivered to a peer that accepts it, "is parsed completely with no bits left over
and no error".  The theorems say *how* it is parsed: the bunch loop of `ReceivedPacket`, run on the body of a genuine packet — a
concatenation of encodings of well-formed bunches on valid channels — does exactly what handing the decoded bunches one after the other to
the bunch handler does (`bunchLoop_genuine`): every `decodeBunch` succeeds, yields the bunch that was encoded (sequence modulo 1024), no
channel index is refused, nothing is left over; the two parse-error exits of `ReceivedRawBunch` are never taken.
-/
namespace Utcp.Props.C18Parse
open Utcp Utcp.Gen Utcp.Props

/-- what `ReceivedRawBunch` does with a bunch once it is decoded and its channel index is in range -/
def handleBunch (c : Conn) (w : Bunch) : Conn × Bool :=
  let c := c.emit (.alloc .node)
  let b := { w with packetId := c.inPacketId }
  match (c.getOrCreateChan b true).2 with
  | none => ((c.getOrCreateChan b true).1.emit (.free .node), false)
  | some x =>
    let r := (c.getOrCreateChan b true).1.processBunch x (absSeq (c.getOrCreateChan b true).1 x b)
    (r.1.dispatchAll b.chIndex, r.2)

/-- handing a list of decoded bunches to the handler, one after the other; the flags "do not acknowledge" accumulate -/
def handleAll : Conn → Bool → List Bunch → Conn × Bool
  | c, skip, [] => (c, skip)
  | c, skip, w :: rest => handleAll (handleBunch c w).1 (skip || (handleBunch c w).2) rest

theorem rawBunch_genuine (c : Conn) (bits rest : Bits) (w : Bunch) (hd : decodeBunch bits = .ok w rest) (hch : w.chIndex < maxChannels) :
    c.receivedRawBunch bits = ((handleBunch c w).1, rest, (handleBunch c w).2) := by
  unfold Conn.receivedRawBunch handleBunch
  have hn : ¬ (w.chIndex ≥ maxChannels) := by omega
  simp only [hd, hn, if_false]
  generalize (c.emit (.alloc .node)).getOrCreateChan { w with packetId := (c.emit (.alloc .node)).inPacketId } true = g
  obtain ⟨c1, o⟩ := g
  cases o <;> rfl

/-- **the bunch loop on a genuine body**: it is the sequential handling of the bunches that were encoded, and nothing is left over -/
theorem bunchLoop_genuine (bs : List Bunch) : ∀ (fuel : Nat) (c : Conn) (skip : Bool), bs.length ≤ fuel →
    (∀ b ∈ bs, WFBunch b ∧ b.chIndex < maxChannels) →
    Conn.bunchLoop fuel c (bodyOf bs) skip = ((handleAll c skip (bs.map wireView)).1, [], (handleAll c skip (bs.map wireView)).2) := by
  induction bs with
  | nil =>
    intro fuel c skip _ _
    cases fuel with
    | zero => rfl
    | succ f => unfold Conn.bunchLoop; simp [bodyOf, handleAll]
  | cons b tl ih =>
    intro fuel c skip hf hall
    cases fuel with
    | zero => simp at hf
    | succ f =>
      obtain ⟨hwf, hch⟩ := hall b List.mem_cons_self
      obtain ⟨bits, henc, hdec⟩ := C11.decode_encode b hwf (bodyOf tl)
      have hne : bits ≠ [] := C11.encode_nonempty b bits henc
      have hbody : bodyOf (b :: tl) = bits ++ bodyOf tl := by simp [bodyOf, encB, henc]
      rw [hbody]
      unfold Conn.bunchLoop
      have hnonempty : (bits ++ bodyOf tl).isEmpty = false := by cases bits <;> simp_all
      simp only [hnonempty, Bool.false_eq_true, if_false]
      have hw : (wireView b).chIndex < maxChannels := hch
      rw [rawBunch_genuine c (bits ++ bodyOf tl) (bodyOf tl) (wireView b) hdec hw]
      simp only
      rw [ih f _ _ (by simp at hf; omega) (fun x hx => hall x (List.mem_cons_of_mem _ hx))]
      simp only [List.map_cons, handleAll]

/-- **an accepted genuine packet**: `ReceivedPacket` on a header it accepts followed by a genuine body updates the acknowledgement
state, handles the bunches in order, records the verdict for the packet, and reports that everything was consumed -/
theorem receivedPacket_genuine (e : Env) (c : Conn) (bits : Bits) (h : NotifHeader) (bs : List Bunch)
    (hd : decodePacketHeader bits = .ok (h, bodyOf bs)) (hpos : c.notify.deltaSeq h > 0)
    (hall : ∀ b ∈ bs, WFBunch b ∧ b.chIndex < maxChannels) :
    c.receivedPacket e bits =
      (let c2 := ({ c with inPacketId := c.inPacketId + c.notify.deltaSeq h } : Conn).notifyUpdate e h
       let r := handleAll c2 false (bs.map wireView)
       ({ r.1 with notify := r.1.notify.ackSeq r.1.inPacketId (!r.2) }, true)) := by
  unfold Conn.receivedPacket
  have hneg : ¬ (c.notify.deltaSeq h ≤ 0) := by omega
  simp only [hd, hneg, if_false]
  have hlen : bs.length ≤ (bodyOf bs).length + 1 := by
    have : ∀ l : List Bunch, (∀ b ∈ l, WFBunch b) → l.length ≤ (bodyOf l).length := by
      intro l
      induction l with
      | nil => intro _; simp [bodyOf]
      | cons b tl ih =>
        intro hl
        obtain ⟨bits', henc, _⟩ := C11.decode_encode b (hl b List.mem_cons_self) []
        have hne := C11.encode_nonempty b bits' henc
        have := ih (fun x hx => hl x (List.mem_cons_of_mem _ hx))
        have hb : bodyOf (b :: tl) = bits' ++ bodyOf tl := by simp [bodyOf, encB, henc]
        rw [hb]
        have : 0 < bits'.length := by cases bits' <;> simp_all
        simp only [List.length_cons, List.length_append]; omega
    have := this bs (fun b hb => (hall b hb).1)
    omega
  rw [bunchLoop_genuine bs _ _ false hlen hall]
  simp

/-! ## every datagram the sender emits is such a packet -/

theorem sent_channels_valid (ops : List (Env × C18.Op)) : ∀ (c : Conn) (sent : List Bunch), (∀ b ∈ sent, b.chIndex < maxChannels) →
    ∀ b ∈ C04.sentOf c ops sent, b.chIndex < maxChannels := by
  induction ops with
  | nil => intro c sent h; exact h
  | cons p rest ih =>
    intro c sent h
    obtain ⟨e, op⟩ := p
    cases op with
    | send b =>
      refine ih _ _ ?_
      intro x hx
      unfold Conn.sentAfter at hx
      cases hchk : c.sendCheck b with
      | inl err => rw [hchk] at hx; exact h x hx
      | inr h0 =>
        rw [hchk] at hx
        rcases List.mem_cons.mp hx with rfl | hx
        · have := (C14.accepted_fits c b h0 hchk).2.1
          show b.chIndex < maxChannels
          have hm : maxChannels = 32767 := by decide
          omega
        · exact h x hx
    | flush => exact ih _ _ h
    | recv bits => exact ih _ _ h
    | update => exact ih _ _ h

/-- **every data datagram ever emitted, delivered to a peer that accepts its header, is parsed completely, bunch by bunch, with no
error**: `S` is any sender state reached from `utcp_sequence_init` by any history, `d` any datagram in its log, the receiver `c` any
connection under the same magic-header configuration.  The receiving endpoint takes `d` apart into a packet header and a body of
well-formed bunches on valid channels; if `c` accepts the header, `ReceivedPacket` is the sequential handling of exactly those bunches
and reports that nothing was left over -/
theorem emitted_datagram_parses (mb mg : Nat) (hfit : mg < 2 ^ mb) (opsS : List (Env × C18.Op)) (hS : ∀ p ∈ opsS, p.1.magicBits = mb ∧ p.1.magic = mg) (iS oS : Int)
    (d : List UInt8) (hd : Event.out d ∈ (C18.run (({} : Conn).seqInit iS oS) opsS).log) (e : Env) (he : e.magicBits = mb ∧ e.magic = mg) :
    ∃ (bits : Bits) (h : NotifHeader) (bs : List Bunch), C04.wireBits e d = some bits ∧ decodePacketHeader bits = .ok (h, bodyOf bs) ∧
      (∀ b ∈ bs, WFBunch b ∧ b.chIndex < maxChannels) ∧
      ∀ c : Conn, c.notify.deltaSeq h > 0 →
        c.receivedPacket e bits =
          (let c2 := ({ c with inPacketId := c.inPacketId + c.notify.deltaSeq h } : Conn).notifyUpdate e h
           let r := handleAll c2 false (bs.map wireView)
           ({ r.1 with notify := r.1.notify.ackSeq r.1.inPacketId (!r.2) }, true)) := by
  obtain ⟨e', s, cl, hh, body, he', wf, hform, bs, hbody, hgood⟩ := C04.sender_emits_only_sent mb mg opsS hS iS oS d hd
  have henv : outgoingHeader e' s cl false = outgoingHeader e s cl false := by
    unfold outgoingHeader; rw [he'.1, he'.2, he.1, he.2]
  rw [henv] at hform
  obtain ⟨w1, w2, w3⟩ := C04.wire_to_body e s cl hh wf body (by rw [he.1, he.2]; exact hfit)
  have hvalid := sent_channels_valid opsS (({} : Conn).seqInit iS oS) [] (by intro b hb; cases hb)
  have hall : ∀ b ∈ bs, WFBunch b ∧ b.chIndex < maxChannels := by
    intro b hb
    obtain ⟨hwf, t, ht, hseen, _⟩ := hgood b hb
    refine ⟨hwf, ?_⟩
    have := (C04.seen_eq_iff (wireView b) t hseen).1
    have hv := hvalid t ht
    show b.chIndex < maxChannels
    have e1 : (wireView b).chIndex = b.chIndex := rfl
    omega
  refine ⟨(encodeNotifHeader hh ++ body ++ [true]).dropLast, hh, bs, ?_, by rw [w3, hbody], hall, ?_⟩
  · unfold C04.wireBits
    rw [hform, w1]
    simp only [w2]
  · intro c hpos
    exact receivedPacket_genuine e c _ hh bs (by rw [w3, hbody]) hpos hall

end Utcp.Props.C18Parse
