import Utcp.Lemmas.EmitCount
/-!
# C02: the id a send returns is the id of the packet that carries the bunch

`utcp_send_bunch` returns a full (32-bit, here unbounded) packet id; delivery statuses are reported for full ids as well (`Props/C02_Order.lean`); on the wire
only 14 bits travel.  This file ties the three together on the sending side, over every history:

* `run_outinv` — after any history of sends, flushes, incoming packet bodies of any bits and updates, the 14-bit sequence number the next packet will carry is
  the full id of the next packet modulo 2^14.  The two counters move in one place only (`flushNow`), together — although datagrams are emitted from many places:
  flushes, sends that spill into the next packet, and the retransmissions a NAK triggers in the middle of `ReceivedPacket`.
* `header_carries_id` — hence the header written when a packet is started, and the header it is refreshed with at the flush, carry that id modulo 2^14.
* `send_returns_pending_id` — an accepted send returns the id of the packet into whose buffer the bunch was just written, and `flush_consumes_id`: emitting that
  packet consumes exactly that id.
* `datagrams_count` — over every history the number of datagrams handed to the outgoing callback equals the number of packet ids consumed (`Lemmas/EmitCount.lean`).
-/
namespace Utcp.Props.C02Hist
open Utcp Utcp.Gen Utcp.Props

theorem seqInit_outinv (c : Conn) (i o : Int) : OutInv (c.seqInit i o) := by
  unfold OutInv Conn.seqInit Notify.init
  show seq_num_init (o % 65536) = o % 16384
  exact C02.seq_init_mod o

theorem apply_ostep (e : Env) (c : Conn) (op : C18.Op) : OStep c (C18.apply e c op) := by
  cases op with
  | send b => exact sendBunch_ostep e c b
  | flush => exact flush_ostep e c
  | recv bits => exact receivedPacket_ostep e c bits
  | update => exact update_ostep e c

/-- **every history**: the wire sequence of the next packet is its full id modulo 2^14 -/
theorem run_outinv (ops : List (Env × C18.Op)) : ∀ c : Conn, OutInv c → OutInv (C18.run c ops) := by
  induction ops with
  | nil => intro c h; exact h
  | cons p rest ih => intro c h; exact ih _ (apply_ostep p.1 c p.2 h)

theorem fresh_run_outinv (ops : List (Env × C18.Op)) (i o : Int) : OutInv (C18.run (({} : Conn).seqInit i o) ops) :=
  run_outinv ops _ (seqInit_outinv _ i o)

/-- **the header carries the id**: the header written when a packet is started (`fillFresh`) and the header it is refreshed with when it is emitted
(`fillRefresh`, when the history still fits) both have the next packet's full id modulo 2^14 in their sequence field -/
theorem header_carries_id (c : Conn) (h : OutInv c) :
    c.notify.fillFresh.2.seq = c.outPacketId % 16384 ∧ ∀ n hd, c.notify.fillRefresh = some (n, hd) → hd.seq = c.outPacketId % 16384 := by
  unfold OutInv at h
  refine ⟨by simp [Notify.fillFresh, Notify.headerWith, h], ?_⟩
  intro n hd hr
  unfold Notify.fillRefresh at hr
  split at hr
  · simp at hr
  · simp only [Option.some.injEq, Prod.mk.injEq] at hr
    obtain ⟨_, rfl⟩ := hr
    simp [Notify.headerWith, h]

/-- `WriteBitsToSendBufferInternal` returns the id of the packet whose buffer it appended to … -/
theorem writeInternal_returns (e : Env) (c : Conn) (bits : Bits) : (c.writeInternal e bits).2 = c.outPacketId := rfl

/-- … and that packet is either still pending under that id, with the bits at the end of its body, or has just been emitted (the buffer was full) -/
theorem writeInternal_cases (e : Env) (c : Conn) (bits : Bits) :
    ((c.writeInternal e bits).1.outPacketId = c.outPacketId ∧ (c.writeInternal e bits).1.sendBody = c.sendBody ++ bits) ∨
    (c.writeInternal e bits).1 = ({ c with sendBody := c.sendBody ++ bits } : Conn).flush e := by
  unfold Conn.writeInternal
  dsimp only
  split
  · exact Or.inr rfl
  · exact Or.inl ⟨rfl, rfl⟩

/-- after `PrepareWriteBitsToSendBuffer` a packet is open -/
theorem prepareWrite_active (e : Env) (c : Conn) (n : Nat) : (c.prepareWrite e n).sendActive = true := by
  unfold Conn.prepareWrite
  dsimp only
  split <;> split <;> simp_all [Conn.startPacket]

/-- **an accepted send returns the id of the packet the bunch was written into**: `SendRawBunch` opens a packet if none is open (`prepareWrite`, which first
emits the pending one if the bunch does not fit), and returns the id that packet will go out with -/
theorem send_returns_pending_id (e : Env) (c : Conn) (b : Bunch) (h0 : Bits) (x : Channel)
    (hx : ((c.getOrCreateChan b false).1.noteClose b).getChan b.chIndex = some x) :
    ∃ c3 : Conn, c3.sendActive = true ∧ (c.sendCommit e b h0).2 = c3.outPacketId ∧
      ∃ bits, (c.sendCommit e b h0).1.log = ((c3.writeInternal e bits).1).log ∨ (c.sendCommit e b h0).1.log = .alloc .node :: ((c3.writeInternal e bits).1).log := by
  unfold Conn.sendCommit
  dsimp only
  split
  · rename_i hnone; rw [hx] at hnone; cases hnone
  · rename_i x' hx'
    generalize (if b.bReliable = true then x'.outReliable + 1 else 0 : Int) = seq
    generalize (if b.bReliable = true then (encodeBunchHeader { b with chSeq := seq }).getD _ else _) = hdr
    generalize (if b.bReliable = true then ((c.getOrCreateChan b false).1.noteClose b).setChan b.chIndex { x' with outReliable := seq } else _) = c2
    refine ⟨c2.prepareWrite e (hdr.length + b.data.length), prepareWrite_active e _ _, rfl, hdr ++ b.data, ?_⟩
    split
    · right
      unfold Conn.addOutRec
      split <;> rfl
    · left; rfl

/-- emitting the open packet consumes exactly its id -/
theorem flush_consumes_id (e : Env) (c : Conn) : (c.flushNow e).outPacketId = c.outPacketId + 1 ∧ ∃ d, (c.flushNow e).log = .out d :: c.log :=
  ⟨rfl, _, rfl⟩

theorem apply_ecnt (e : Env) (c : Conn) (op : C18.Op) : ECnt c (C18.apply e c op) := by
  cases op with
  | send b => exact sendBunch_ecnt e c b
  | flush => exact flush_ecnt e c
  | recv bits => exact receivedPacket_ecnt e c bits
  | update => exact update_ecnt e c

/-- **every history**: datagrams emitted = packet ids consumed -/
theorem run_ecnt (ops : List (Env × C18.Op)) : ∀ c : Conn, ECnt c (C18.run c ops) := by
  induction ops with
  | nil => intro c; exact ECnt.refl c
  | cons p rest ih => intro c; exact (apply_ecnt p.1 c p.2).trans (ih _)

/-- **one id per datagram**: after any history of a connection started by `utcp_sequence_init i o`, the number of datagrams it has handed to the outgoing
callback is exactly the number of packet ids it has consumed (`OutPacketId − o`) — whether they left through a flush, through a send that spilled into the next
packet or through a retransmission triggered while a packet was being received.  With `run_outinv` / `header_carries_id`: the k-th datagram carries the wire
sequence `(o + k) mod 2^14`, and by `Props/C02_Order.lean` the k-th status is the verdict for id `o + k` -/
theorem datagrams_count (ops : List (Env × C18.Op)) (i o : Int) :
    ((outs (C18.run (({} : Conn).seqInit i o) ops).log : Nat) : Int) = (C18.run (({} : Conn).seqInit i o) ops).outPacketId - o := by
  have h := run_ecnt ops (({} : Conn).seqInit i o)
  unfold ECnt at h
  have h0 : outs (({} : Conn).seqInit i o).log = 0 := rfl
  have h1 : (({} : Conn).seqInit i o).outPacketId = o := rfl
  rw [h0, h1] at h
  omega

/-! non-vacuity: a fresh connection whose initial outgoing sequence is beyond the 14-bit range -/
example : OutInv (({} : Conn).seqInit 100 70000) := seqInit_outinv _ _ _
example : (({} : Conn).seqInit 100 70000).notify.outSeq = 4464 := by decide

end Utcp.Props.C02Hist
