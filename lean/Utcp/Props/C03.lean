import Utcp.Lemmas.GroupInv
import Utcp.Props.C01
/-!
# C03 — partial bunches are reassembled all-or-nothing and never mixed

* **one fragment, any state** (`Lemmas/Partial.lean`, restated here): the reassembly list of a channel always has the shape
  "initial, then non-initial non-final fragments of the same reliability with matching sequence"; a group is handed over only
  when its final fragment has been merged, it is then the *whole* list, and the list is emptied; a refused fragment never
  extends a group; an over-long group (more fragments than the callback array holds, extent read from the source) is dropped.
* **every history** (`Lemmas/GroupInv.lean`): whatever bit strings `ReceivedPacket` is fed, interleaved with any sends and
  flushes, *every* receive callback the endpoint ever makes carries either one non-partial bunch or one complete group: first
  fragment initial, last fragment final, nothing in between initial or final, all fragments partial, of one reliability, with
  matching sequence numbers, at most 256 of them (`every_callback_is_a_group`, `group_facts`).  Together with C01's
  `delivered_once` (no reliable sequence number is delivered twice) a reliable group is delivered at most once.
Not proved in Lean: that a *reliable* group is eventually delivered and that an unreliable group whose packets were all accepted
is delivered (liveness across the two endpoints: monitors `C03/lost`, `C03/ulost` on the real code).
-/
namespace Utcp.Props.C03
open Utcp Utcp.Gen Utcp.Partial

theorem group_limit : maxGroup = 256 ∧ Gen.EXTENT_HandleBunch = Gen.MaxSequenceHistoryLength := Partial.group_limit

/-! ## one fragment, any state -/

/-- **the reassembly list keeps its shape** whatever fragment arrives (`merge_partial_data`) -/
theorem merge_shape (c : Conn) (x : Channel) (b : Bunch) (hb : b.bPartial = true) (hs : Shape x.inPartial) :
    Shape (mergePartial c x b).2.1.inPartial := Partial.merge_shape c x b hb hs

/-- a group is reported available only when a non-initial *final* fragment has just been merged, and then the list
is exactly the old (non-empty) list followed by it -/
theorem available_iff (c : Conn) (x : Channel) (b : Bunch) (h : (mergePartial c x b).2.2.1 = .available) :
    b.bPartialInitial = false ∧ b.bPartialFinal = true ∧ (mergePartial c x b).2.1.inPartial = x.inPartial ++ [b] ∧ x.inPartial ≠ [] :=
  Partial.available_iff c x b h

/-- a refused or fatal merge never extends the list: it is left alone or cleared -/
theorem refused_no_growth (c : Conn) (x : Channel) (b : Bunch) (h : (mergePartial c x b).2.2.1 = .failed ∨ (mergePartial c x b).2.2.1 = .fatal) :
    (mergePartial c x b).2.1.inPartial = x.inPartial ∨ (mergePartial c x b).2.1.inPartial = [] := Partial.refused_no_growth c x b h

/-- fragments of different reliability are never combined, reliable fragments only with the next channel sequence,
unreliable ones only from the same or the next packet -/
theorem merged_follows (c : Conn) (x : Channel) (b : Bunch) (last : Bunch) (hl : x.inPartial.getLast? = some last)
    (hi : b.bPartialInitial = false) (hm : (mergePartial c x b).2.1.inPartial = x.inPartial ++ [b]) : Follows last b :=
  Partial.merged_follows c x b last hl hi hm

/-- a complete list (shape + final last element) is a well-formed group -/
theorem group_of_shape (g : List Bunch) (hs : Shape g) (hne : g ≠ []) (hfin : (g.getLast?.map (·.bPartialFinal)) = some true) :
    (g.head?.map (·.bPartialInitial)) = some true ∧ (∀ b ∈ g, b.bPartial = true) := Partial.group_of_shape g hs hne hfin

/-! ## every history -/

/-- one step of a history (the operations of `C01.Op`: send any bunch, flush, `ReceivedPacket` on any bits) keeps the shape
invariant and only logs callbacks that carry a single bunch or a complete group -/
theorem step_groups (e : Env) (c : Conn) (op : C01.Op) (h : GInv c) : GInv (C01.apply e c op) ∧ Adds GroupP c (C01.apply e c op) := by
  cases op with
  | send b => exact sendBunch_ginv e c b h
  | flush => exact flush_ginv e c h
  | recv bits => exact receivedPacket_ginv e c bits h

theorem run_groups (ops : List (Env × C01.Op)) : ∀ c : Conn, GInv c → GInv (C01.run c ops) ∧ Adds GroupP c (C01.run c ops) := by
  induction ops with
  | nil => intro c h; exact ⟨h, Adds.refl _ _⟩
  | cons p rest ih =>
    intro c h
    obtain ⟨e, op⟩ := p
    obtain ⟨s1, s2⟩ := step_groups e c op h
    obtain ⟨r1, r2⟩ := ih _ s1
    exact ⟨r1, s2.trans r2⟩

/-- **all-or-nothing, never mixed — for every callback of every history**: a receive callback logged during the history carries
one non-partial bunch, or one complete group of at most 256 fragments with the group shape -/
theorem every_callback_is_a_group (ops : List (Env × C01.Op)) (c : Conn) (h : GInv c) (g : List Bunch)
    (hg : Event.recv g ∈ (C01.run c ops).log) : Event.recv g ∈ c.log ∨ GroupOK g := by
  obtain ⟨_, new, hlog, hnew⟩ := run_groups ops c h
  rw [hlog] at hg
  rcases List.mem_append.mp hg with hg | hg
  · right; exact hnew _ hg g rfl
  · left; exact hg

/-- what `GroupOK` says in the terms of the property: positive count; more than one element ⇒ first initial, last final, every
element partial, and neighbours follow each other (same reliability, matching sequence) -/
theorem group_facts (g : List Bunch) (h : GroupOK g) :
    1 ≤ g.length ∧ g.length ≤ 256 ∧
    ((∃ b, g = [b] ∧ b.bPartial = false) ∨
     ((g.head?.map (·.bPartialInitial)) = some true ∧ (g.getLast?.map (·.bPartialFinal)) = some true ∧ (∀ b ∈ g, b.bPartial = true) ∧ Shape g)) := by
  rcases h with ⟨b, rfl, hb⟩ | ⟨hs, hne, hfin, hlen⟩
  · exact ⟨by simp, by simp, Or.inl ⟨b, rfl, hb⟩⟩
  · obtain ⟨h1, h2⟩ := Partial.group_of_shape g hs hne hfin
    refine ⟨?_, hlen, Or.inr ⟨h1, hfin, h2, hs⟩⟩
    cases g with
    | nil => exact absurd rfl hne
    | cons a t => simp

/-- the invariant holds on a freshly initialised connection -/
theorem fresh_groups (i o : Int) : GInv (({} : Conn).seqInit i o) := by
  intro ch x hx
  have hn : (({} : Conn).seqInit i o).getChan ch = none := rfl
  rw [hn] at hx; cases hx

/-! non-vacuity -/
example : Shape [{ bPartial := true, bPartialInitial := true, bReliable := true, chSeq := 7 },
                 { bPartial := true, bReliable := true, chSeq := 8 }] := by
  simp [Shape, Shape.Tail, Follows]
example : GroupOK [{ bPartial := true, bPartialInitial := true, bReliable := true, chSeq := 7 },
                   { bPartial := true, bPartialFinal := true, bReliable := true, chSeq := 8 }] := by
  right; simp [Shape, Shape.Tail, Follows]

end Utcp.Props.C03
