import Utcp.Lemmas.ByteReader
/-!
# C09 / C11 at the level of the byte array: the bunch parser

`utcp_bunch_read` as the sequence of bit-buffer calls it makes (`lDecodeBunch`), over the byte-array model of `Utcp/ByteBuf.lean`, in which touching a byte
outside an array is a fault.  It refines the bit-level `decodeBunch` of `Utcp/Bunch.lean` (for which C11 proves the round trip and C09 totality): hence, for every
datagram image, every cursor and every content, the parser reads only bytes that hold valid bits and writes only into the bunch's data array.
-/
namespace Utcp.BB
open Utcp

/-! ## `utcp_bunch_read` on the byte array -/

def lReadCtl : LRd (Bool × Bool × Nat) :=
  lReadBit.bind fun ctl =>
  (if ctl then lReadBit else LRd.pure false).bind fun bOpen =>
  (if ctl then lReadBit else LRd.pure false).bind fun bClose =>
  (if bClose then lReadInt closeReasonMax else LRd.pure 0).bind fun reason =>
  LRd.pure (bOpen, bClose, reason)

def lReadSeq (reliable : Bool) : LRd Nat := if reliable then lReadInt maxChSequence else LRd.pure 0
def lReadPartialFlags (partial_ : Bool) : LRd (Bool × Bool) :=
  if partial_ then (lReadBit.bind fun a => lReadBit.bind fun b => LRd.pure (a, b)) else LRd.pure (false, false)
def lReadName (has : Bool) : LRd Nat :=
  if has then (lReadBit.bind fun hard => if !hard then LRd.failHere else lReadIntPacked) else LRd.pure 0

/-- `utcp_bunch_read(bunch, bitbuf)`: the calls of the C function in their order; `data` = the bunch's own (zeroed) data array -/
def lDecodeBunch (data : Mem) : LRd Bunch :=
  lReadCtl.bind fun (bOpen, bClose, reason) =>
  lReadBit.bind fun paused =>
  lReadBit.bind fun reliable =>
  lReadIntPacked.bind fun ch =>
  lReadBit.bind fun exports =>
  lReadBit.bind fun guids =>
  lReadBit.bind fun partial_ =>
  (lReadSeq reliable).bind fun chSeq =>
  (lReadPartialFlags partial_).bind fun (pinit, pfinal) =>
  (lReadName (reliable || bOpen)).bind fun name =>
  (lReadInt maxPacketBits).bind fun nbits =>
  (lReadBitsInto data nbits).bind fun bits =>
  LRd.pure { chIndex := ch % 65536, bOpen := bOpen, bClose := bClose, bPaused := paused, bReliable := reliable,
             bExports := exports, bGuids := guids, bPartial := partial_, bPartialInitial := pinit,
             bPartialFinal := pfinal, closeReason := reason, nameIndex := name, chSeq := chSeq, packetId := 0,
             data := bits }

theorem lReadCtl_refines : Refines lReadCtl readCtl := by
  unfold lReadCtl readCtl
  refine Refines.bind lReadBit_refines fun ctl => ?_
  refine Refines.bind (Refines.ite ctl lReadBit_refines (Refines.pure false)) fun bOpen => ?_
  refine Refines.bind (Refines.ite ctl lReadBit_refines (Refines.pure false)) fun bClose => ?_
  refine Refines.bind (Refines.ite bClose (lReadInt_refines _) (Refines.pure 0)) fun reason => ?_
  exact Refines.pure _

theorem lReadSeq_refines (reliable : Bool) : Refines (lReadSeq reliable) (readSeq reliable) := by
  unfold lReadSeq readSeq
  exact Refines.ite reliable (lReadInt_refines _) (Refines.pure 0)

theorem lReadPartialFlags_refines (p : Bool) : Refines (lReadPartialFlags p) (readPartialFlags p) := by
  unfold lReadPartialFlags readPartialFlags
  refine Refines.ite p ?_ (Refines.pure _)
  exact Refines.bind lReadBit_refines fun a => Refines.bind lReadBit_refines fun b => Refines.pure _

theorem lReadName_refines (has : Bool) : Refines (lReadName has) (readName has) := by
  unfold lReadName readName
  refine Refines.ite has ?_ (Refines.pure 0)
  refine Refines.bind lReadBit_refines fun hard => ?_
  exact Refines.ite (!hard) Refines.failHere lReadIntPacked_refines

/-- **the bunch parser on the byte array**: for every datagram image and cursor (`RB b`: any array that holds the valid bits, cut right behind them if
one likes) and a data array of at least 1024 bytes (the library's is 1452), `utcp_bunch_read` touches no byte outside the two arrays, and returns exactly
what the bit-level `decodeBunch` returns on the remaining bits - the bunch, or failure, and the same cursor. -/
theorem lDecodeBunch_refines (data : Mem) (hdata : BytesOK data) (hlen : 1024 ≤ data.length) : Refines (lDecodeBunch data) decodeBunch := by
  unfold lDecodeBunch decodeBunch
  refine Refines.bind lReadCtl_refines fun ⟨bOpen, bClose, reason⟩ => ?_
  refine Refines.bind lReadBit_refines fun paused => ?_
  refine Refines.bind lReadBit_refines fun reliable => ?_
  refine Refines.bind lReadIntPacked_refines fun ch => ?_
  refine Refines.bind lReadBit_refines fun exports => ?_
  refine Refines.bind lReadBit_refines fun guids => ?_
  refine Refines.bind lReadBit_refines fun partial_ => ?_
  refine Refines.bind (lReadSeq_refines reliable) fun chSeq => ?_
  refine Refines.bind (lReadPartialFlags_refines partial_) fun ⟨pinit, pfinal⟩ => ?_
  refine Refines.bind (lReadName_refines _) fun name => ?_
  refine Refines.bind' (fun n => n < maxPacketBits) (lReadInt_refines _) (fun bs v r h => readInt_lt _ (by decide) bs v r h) fun nbits hn => ?_
  have h8192 : maxPacketBits = 8192 := by decide
  refine Refines.bind (lReadBitsInto_refines data hdata nbits (by rw [h8192] at hn; omega)) fun bits => ?_
  exact Refines.pure _

/-- **no input makes the bunch parser touch memory it does not own**: whatever the bytes, the cursor and the logical end are -/
theorem bunch_parse_never_faults (b : Buf) (hb : RB b) (data : Mem) (hdata : BytesOK data) (hlen : 1024 ≤ data.length) :
    ∃ r b', lDecodeBunch data b = some (r, b') ∧ b'.num ≤ b'.size ∧ b'.size = b.size := by
  obtain ⟨r, b', h, hrb, _, hs, _⟩ := lDecodeBunch_refines data hdata hlen b hb
  exact ⟨r, b', h, hrb.num, hs⟩

/-- the library's data field is large enough (its extent is extracted from the source on every run) -/
theorem data_field_suffices : 1024 ≤ Gen.SIZEOF_BUNCH_DATA.toNat := by decide

/-! non-vacuity: a read buffer of three bytes with 17 valid bits -/
example : RB ⟨[0x12, 0x34, 0x01], 17, 0⟩ := ⟨by intro x hx; simp at hx; omega, by decide, by decide⟩

end Utcp.BB

namespace Utcp.BB

/-- `bitbuf_read_init` never faults: it looks at the last byte of the datagram and nowhere else, whatever the bytes are -/
theorem read_init_never_faults (data : Mem) : ∃ r, readInit data = some r := by
  unfold readInit
  by_cases h : data.length = 0
  · rw [if_pos h]; exact ⟨_, rfl⟩
  · rw [if_neg h, rd_of_lt _ _ (by omega)]
    simp only [Option.bind_some]
    split <;> exact ⟨_, rfl⟩

/-- … and what it accepts is a read buffer in the sense of the theorems above: the logical end lies inside the array -/
theorem read_init_gives_rb (data : Mem) (hd : BytesOK data) (rb : Buf) (h : readInit data = some (true, rb)) : RB rb := by
  unfold readInit at h
  by_cases h0 : data.length = 0
  · rw [if_pos h0] at h; simp at h
  · rw [if_neg h0, rd_of_lt _ _ (by omega)] at h
    simp only [Option.bind_some] at h
    split at h
    · simp at h
    · simp only [Option.some.injEq, Prod.mk.injEq, true_and] at h
      subst h
      refine ⟨hd, ?_, by simp⟩
      simp only
      have : ∀ fuel last cnt, initLoop fuel last cnt ≤ cnt := by
        intro fuel
        induction fuel with
        | zero => intro last cnt; simp [initLoop]
        | succ f ih =>
          intro last cnt
          unfold initLoop
          split
          · exact Nat.le_trans (ih _ _) (by omega)
          · exact Nat.le_refl _
      have := this 8 (data.getD (data.length - 1) 0) (data.length * 8 - 1)
      omega

end Utcp.BB
