import Utcp.Lemmas.Conn
import Utcp.Handshake
import Utcp.Props.C13
import Utcp.Props.C01
import Utcp.Props.C18
import Utcp.Lemmas.Emission
import Utcp.Props.C11
/-!
# C04 — nothing is delivered that was not sent; nothing twice; replays are inert

Local part, for one endpoint fed *arbitrary* bytes: a datagram whose header is not newer than what has been
accepted (or whose ack field lies outside the window of packets awaiting a verdict) changes nothing except
the receive timestamp and the cached session / client id: no delivery, no status callback, no datagram, no
allocation — and therefore no change in what is delivered afterwards.  Over every history (from C01's order invariant):
no reliable channel sequence number is ever handed to the application twice, whatever is replayed (`reliable_at_most_once`).

**Nothing is delivered that was not sent** (last part of the file; `Lemmas/Emission.lean`, `Lemmas/Origin.lean`), in two halves that
meet at the notion of a *good body* — a packet body that is a concatenation of encodings of well-formed bunches each of which looks
(flags, channel, close reason, name, payload) like a bunch in a list `sent`:
* sender, every history (`sender_emits_only_sent`): every datagram an endpoint ever emits on the data path — first transmissions,
  retransmissions after any NAK pattern, packets flushed to make room — consists of the two headers, a good body with respect to
  the bunches its application handed to `utcp_send_bunch` so far, and the terminators;
* receiver, every history (`delivered_were_sent`): if the body of every packet it is given is a good body with respect to `sent`
  — in any order, with any duplication and any loss, interleaved with its own sends — then every bunch of every callback it ever
  makes looks like a bunch in `sent`.
`wire_to_body` shows that the receiving endpoint takes such a datagram apart into exactly the packet header and body the sender
wrote, and `link_integrity` puts the pieces together: **if the receiver is fed only datagrams the sender emitted — in any order, with
any duplication and any loss — every bunch it ever hands to its application looks like a bunch the sender's application handed to
`utcp_send_bunch`.**  The only assumption is the one the property itself makes: the network does not alter or forge datagrams (the
protocol does not authenticate data packets).
-/
namespace Utcp.Props.C04
open Utcp Utcp.Gen

/-- the acceptance test of `packet_notify_delta_seq`, spelled out -/
theorem deltaSeq_pos_iff (n : Notify) (h : NotifHeader) :
    n.deltaSeq h > 0 ↔ (seq_num_greater_than h.seq n.inSeq = true ∧ seq_num_greater_equal h.ackedSeq n.outAckSeq = true
      ∧ seq_num_greater_than n.outSeq h.ackedSeq = true ∧ seq_num_diff h.seq n.inSeq > 0) := by
  rw [Notify.deltaSeq_eq]; unfold Notify.deltaSeqSpec
  by_cases h1 : seq_num_greater_than h.seq n.inSeq = true <;> by_cases h2 : seq_num_greater_equal h.ackedSeq n.outAckSeq = true <;>
    by_cases h3 : seq_num_greater_than n.outSeq h.ackedSeq = true <;> simp [h1, h2, h3]

/-- a header that is not circularly newer than the last accepted one is stale -/
theorem stale_of_not_newer (n : Notify) (h : NotifHeader) (hs : seq_num_greater_than h.seq n.inSeq = false) : n.deltaSeq h = 0 := by
  rw [Notify.deltaSeq_eq]; unfold Notify.deltaSeqSpec; simp [hs]

/-- a header acknowledging something outside `[OutAckSeq, OutSeq)` is refused -/
theorem stale_of_bad_ack (n : Notify) (h : NotifHeader)
    (hs : seq_num_greater_equal h.ackedSeq n.outAckSeq = false ∨ seq_num_greater_than n.outSeq h.ackedSeq = false) : n.deltaSeq h = 0 := by
  rw [Notify.deltaSeq_eq]; unfold Notify.deltaSeqSpec
  rcases hs with hs | hs <;> simp [hs]

/-- **stale packets are inert** at the packet layer: the connection is returned unchanged (same state, same log) -/
theorem stale_inert (e : Env) (c : Conn) (bits : Bits) (h : NotifHeader) (rest : Bits)
    (hd : decodePacketHeader bits = .ok (h, rest)) (hs : c.notify.deltaSeq h ≤ 0) :
    (c.receivedPacket e bits).1 = c := by
  unfold Conn.receivedPacket
  simp [hd, hs]

/-- the same packet again: after a packet with header `h` has been accepted (`inSeq = h.seq`), `h` itself is stale,
and so is every header whose sequence is not circularly newer — whatever else it contains -/
theorem duplicate_is_stale (n : Notify) (h : NotifHeader) (hacc : n.inSeq = h.seq) : n.deltaSeq h = 0 := by
  apply stale_of_not_newer
  rw [hacc]
  exact C13.gt_irrefl h.seq

/-- older packets stay stale: if `x` is the absolute id of the last accepted packet and `y ≤ x` is within the
protocol's window (less than 8192 ids older), a header carrying `y`'s sequence is not newer -/
theorem older_is_stale (n : Notify) (h : NotifHeader) (x y : Int) (hin : n.inSeq = x % 16384) (hh : h.seq = y % 16384)
    (hle : y ≤ x) (hwin : x - y < 8192) : n.deltaSeq h = 0 := by
  apply stale_of_not_newer
  rw [hin, hh, C13.gt_abs y x (by omega)]
  simp; omega

/-- at the endpoint: a stale data datagram only refreshes the receive stamp and the cached session/client id -/
theorem endpoint_stale_inert {T} (tm : TimeOps T) (e : Env) (rng : Rng) (ep : Endpoint) (bytes : List UInt8) (bits rest : Bits) (s cl : Nat)
    (h : NotifHeader) (rest' : Bits)
    (h1 : readInit bytes = some bits) (h2 : readOutgoingHeader e bits = .ok (s, cl, false) rest) (h3 : rest ≠ [])
    (hd : decodePacketHeader rest.dropLast = .ok (h, rest')) (hs : ep.c.notify.deltaSeq h ≤ 0) :
    (ep.incoming tm e rng bytes).1 = { ep with c := { ep.c with lastSessionId := s, lastClientId := cl, lastRecvMs := e.nowMs } }
    ∧ (ep.incoming tm e rng bytes).2.1 = rng := by
  unfold Endpoint.incoming
  simp only [h1, h2]
  have : rest.isEmpty = false := by cases rest <;> simp_all
  simp only [this, Bool.false_eq_true, if_false]
  have hn : ({ ep.c with lastSessionId := s, lastClientId := cl, lastRecvMs := e.nowMs } : Conn).notify = ep.c.notify := rfl
  rw [stale_inert e _ rest.dropLast h rest' hd (by rw [hn]; exact hs)]
  simp

/-! non-vacuity -/
example : ({ inSeq := 16383 } : Notify).deltaSeq { seq := 16383, ackedSeq := 0, words := 1, hist := [] } = 0 := by decide
example : ({ inSeq := 2, outSeq := 5, outAckSeq := 4 } : Notify).deltaSeq { seq := 16380, ackedSeq := 4, words := 1, hist := [] } = 0 := by decide

/-- **at most once, for every history**: however often and wherever datagrams are re-injected (or forged), no reliable bunch of a
channel is delivered a second time -/
theorem reliable_at_most_once (ops : List (Env × C01.Op)) (c : Conn) (h : RecvInv c) (ch : Nat) :
    (relLog ch (C01.run c ops).log).Nodup := C01.delivered_once ops c h ch

/-! ## nothing is delivered that was not sent -/

/-- the bunches `utcp_send_bunch` accepted in a history, newest first, on top of `sent` — each with the channel sequence number the
sender gave it (`Conn.tagged`; a refused bunch is not added) -/
def sentOf : Conn → List (Env × C18.Op) → List Bunch → List Bunch
  | _, [], sent => sent
  | c, (e, .send b) :: rest, sent => sentOf (C18.apply e c (.send b)) rest (c.sentAfter b sent)
  | c, (e, op) :: rest, sent => sentOf (C18.apply e c op) rest sent

theorem sentOf_mono (ops : List (Env × C18.Op)) : ∀ c sent x, x ∈ sent → x ∈ sentOf c ops sent := by
  induction ops with
  | nil => intro c sent x hx; exact hx
  | cons p rest ih =>
    intro c sent x hx
    obtain ⟨e, op⟩ := p
    cases op with
    | send b => exact ih _ _ x (sentAfter_mono c b sent x hx)
    | flush => exact ih _ _ x hx
    | recv bits => exact ih _ _ x hx
    | update => exact ih _ _ x hx

theorem adds_mono_sent {mb mg : Nat} {sent sent' : List Bunch} {c c' : Conn} (h : Adds (EP mb mg sent) c c') (hs : ∀ b ∈ sent, b ∈ sent') : Adds (EP mb mg sent') c c' :=
  h.mono (fun _ hev => hev.mono hs)

/-- **sender**: over every history of sends (valid or not), flushes, incoming packets (any bits: ACKs, NAKs, garbage) and updates — under
a fixed magic-header configuration `(mb, mg)` — the send buffer and every retransmission record stay good bodies, the packet header
stays a well-formed header encoding, and every datagram emitted is `outgoing header ++ well-formed packet header ++ good body ++
terminators`, with respect to the bunches handed to `utcp_send_bunch` so far -/
theorem sender_run (mb mg : Nat) (ops : List (Env × C18.Op)) : ∀ (c : Conn) (sent : List Bunch), EInv sent c →
    (∀ p ∈ ops, p.1.magicBits = mb ∧ p.1.magic = mg) →
    EInv (sentOf c ops sent) (C18.run c ops) ∧ Adds (EP mb mg (sentOf c ops sent)) c (C18.run c ops) := by
  induction ops with
  | nil => intro c sent h _; exact ⟨h, Adds.refl _ _⟩
  | cons p rest ih =>
    intro c sent h hall
    obtain ⟨e, op⟩ := p
    have he := hall (e, op) List.mem_cons_self
    have hrest : ∀ q ∈ rest, q.1.magicBits = mb ∧ q.1.magic = mg := fun q hq => hall q (List.mem_cons_of_mem _ hq)
    cases op with
    | send b =>
      obtain ⟨s1, s2⟩ := sendBunch_einv sent e he c b h
      obtain ⟨r1, r2⟩ := ih _ (c.sentAfter b sent) s1 hrest
      exact ⟨r1, (adds_mono_sent s2 (sentOf_mono rest _ _)).trans r2⟩
    | flush =>
      obtain ⟨s1, s2⟩ := flush_einv sent e he c h
      obtain ⟨r1, r2⟩ := ih _ sent s1 hrest
      exact ⟨r1, (adds_mono_sent s2 (sentOf_mono rest _ sent)).trans r2⟩
    | recv bits =>
      obtain ⟨s1, s2⟩ := receivedPacket_einv sent e he c bits h
      obtain ⟨r1, r2⟩ := ih _ sent s1 hrest
      exact ⟨r1, (adds_mono_sent s2 (sentOf_mono rest _ sent)).trans r2⟩
    | update =>
      obtain ⟨s1, s2⟩ := update_einv sent e he c h
      obtain ⟨r1, r2⟩ := ih _ sent s1 hrest
      exact ⟨r1, (adds_mono_sent s2 (sentOf_mono rest _ sent)).trans r2⟩

/-- … in particular, for a freshly initialised connection: every datagram in the log has that form -/
theorem sender_emits_only_sent (mb mg : Nat) (ops : List (Env × C18.Op)) (hall : ∀ p ∈ ops, p.1.magicBits = mb ∧ p.1.magic = mg) (i o : Int) (d : List UInt8)
    (hd : Event.out d ∈ (C18.run (({} : Conn).seqInit i o) ops).log) :
    ∃ (e : Env) (s cl : Nat) (hh : NotifHeader) (body : Bits), (e.magicBits = mb ∧ e.magic = mg) ∧ C11.WFHeader hh ∧
      d = bitsToBytes (outgoingHeader e s cl false ++ encodeNotifHeader hh ++ body ++ [true, true]) ∧ GoodBody (sentOf (({} : Conn).seqInit i o) ops []) body := by
  obtain ⟨_, new, hlog, hnew⟩ := sender_run mb mg ops (({} : Conn).seqInit i o) [] (fresh_einv _ rfl rfl (seqInit_hinv _ _ _ rfl)) hall
  rw [hlog] at hd
  rcases List.mem_append.mp hd with hd | hd
  · exact hnew _ hd d rfl
  · have hl : (({} : Conn).seqInit i o).log = [] := rfl
    rw [hl] at hd; cases hd

/-- the packets a receiver is given: every one whose header parses has a good body with respect to `sent` -/
def Offered (sent : List Bunch) : List (Env × C01.Op) → Prop
  | [] => True
  | (_, .recv bits) :: rest => (∀ hd body, decodePacketHeader bits = .ok (hd, body) → GoodBody sent body) ∧ Offered sent rest
  | _ :: rest => Offered sent rest

theorem receiver_run (sent : List Bunch) (ops : List (Env × C01.Op)) : ∀ c : Conn, OInv (SentQ sent) c → Offered sent ops →
    OInv (SentQ sent) (C01.run c ops) ∧ Adds (OP (SentQ sent)) c (C01.run c ops) := by
  induction ops with
  | nil => intro c h _; exact ⟨h, Adds.refl _ _⟩
  | cons p rest ih =>
    intro c h hoff
    obtain ⟨e, op⟩ := p
    cases op with
    | send b =>
      obtain ⟨s1, s2⟩ := sendBunch_oinv e c b h
      obtain ⟨r1, r2⟩ := ih _ s1 hoff
      exact ⟨r1, s2.trans r2⟩
    | flush =>
      obtain ⟨s1, s2⟩ := flush_oinv e c h
      obtain ⟨r1, r2⟩ := ih _ s1 hoff
      exact ⟨r1, s2.trans r2⟩
    | recv bits =>
      simp only [Offered] at hoff
      obtain ⟨s1, s2⟩ := receivedPacket_oinv (sentQ_stable sent) e c bits h (by
        intro hd body hdec
        obtain ⟨bs, hb, hall⟩ := hoff.1 hd body hdec
        exact ⟨bs, hb, hall⟩)
      obtain ⟨r1, r2⟩ := ih _ s1 hoff.2
      exact ⟨r1, s2.trans r2⟩

/-- **receiver**: whatever order, duplication or loss the offered packets come in, and whatever the endpoint itself sends in between:
every bunch of every callback made during the history looks like a bunch in `sent` — same flags, channel, close reason, name index
and payload -/
theorem delivered_were_sent (sent : List Bunch) (ops : List (Env × C01.Op)) (i o : Int) (hoff : Offered sent ops)
    (g : List Bunch) (hg : Event.recv g ∈ (C01.run (({} : Conn).seqInit i o) ops).log) :
    ∀ q ∈ g, ∃ b ∈ sent, seen q = seen b ∧ (q.bReliable = true → q.chSeq % 1024 = b.chSeq % 1024) := by
  have h0 : OInv (SentQ sent) (({} : Conn).seqInit i o) := by
    intro ch x hx
    have hn : (({} : Conn).seqInit i o).getChan ch = none := rfl
    rw [hn] at hx; cases hx
  obtain ⟨_, new, hlog, hnew⟩ := receiver_run sent ops _ h0 hoff
  rw [hlog] at hg
  rcases List.mem_append.mp hg with hg | hg
  · exact hnew _ hg g rfl
  · have hl : (({} : Conn).seqInit i o).log = [] := rfl
    rw [hl] at hg; cases hg

/-- what "looks like" means, field by field -/
theorem seen_eq_iff (q b : Bunch) (h : seen q = seen b) :
    q.chIndex = b.chIndex ∧ q.bOpen = b.bOpen ∧ q.bClose = b.bClose ∧ q.bReliable = b.bReliable ∧ q.bPartial = b.bPartial ∧ q.data = b.data ∧
    q.bPaused = b.bPaused ∧ q.bExports = b.bExports ∧ q.bGuids = b.bGuids := by
  unfold seen at h
  injection h with h1 h2 h3 h4 h5 h6 h7 h8 h9 h10 h11 h12 h13 h14 h15
  exact ⟨h1, h2, h3, h5, h8, h15, h4, h6, h7⟩

/-- **the glue between the two halves**: a datagram of the form the sender emits (`sender_emits_only_sent`), whose packet header
is a well-formed header encoding, is taken apart by the receiving endpoint into exactly that header and exactly that body — so the
body `ReceivedPacket` works on is the good body the sender wrote.  (`magic < 2^magicBits`: the configured magic value fits the
configured width, as in every configuration the harness uses.) -/
theorem wire_to_body (e : Env) (s cl : Nat) (h : NotifHeader) (wf : C11.WFHeader h) (body : Bits) (hm : e.magic < 2 ^ e.magicBits) :
    readInit (bitsToBytes (outgoingHeader e s cl false ++ encodeNotifHeader h ++ body ++ [true, true]))
      = some (outgoingHeader e s cl false ++ encodeNotifHeader h ++ body ++ [true]) ∧
    readOutgoingHeader e (outgoingHeader e s cl false ++ encodeNotifHeader h ++ body ++ [true]) = .ok (s % 4, cl % 8, false) (encodeNotifHeader h ++ body ++ [true]) ∧
    decodePacketHeader ((encodeNotifHeader h ++ body ++ [true]).dropLast) = .ok (h, body) := by
  refine ⟨?_, ?_, ?_⟩
  · have : outgoingHeader e s cl false ++ encodeNotifHeader h ++ body ++ [true, true]
        = (outgoingHeader e s cl false ++ encodeNotifHeader h ++ body ++ [true]) ++ [true] := by simp
    rw [this]; exact readInit_bitsToBytes _
  · unfold readOutgoingHeader outgoingHeader
    simp only [List.append_assoc]
    rw [readBits_append' e.magicBits (natToBits e.magic e.magicBits) _ (natToBits_length _ _)]
    have hmag : (e.magicBits != 0 && bitsToNat (natToBits e.magic e.magicBits) != e.magic) = false := by
      rw [bitsToNat_natToBits, Nat.mod_eq_of_lt hm]; simp
    simp only [hmag, Bool.false_eq_true, if_false]
    rw [readBits_append' 2 (natToBits s 2) _ (natToBits_length _ _)]
    simp only
    rw [readBits_append' 3 (natToBits cl 3) _ (natToBits_length _ _)]
    simp only [List.cons_append, List.nil_append, readBit_cons, bitsToNat_natToBits]
  · have : (encodeNotifHeader h ++ body ++ [true]).dropLast = encodeNotifHeader h ++ body := by
      rw [List.dropLast_concat]
    rw [this]
    exact C11.header_round_trip h wf body

/-- what the receiving endpoint hands to `ReceivedPacket` for a data datagram `d` (`utcp_incoming`: strip the terminator, the outgoing
header, the connection-level terminator) -/
def wireBits (e : Env) (d : List UInt8) : Option Bits :=
  match readInit d with
  | none => none
  | some bits =>
    match readOutgoingHeader e bits with
    | .ok (_, _, false) rest => some rest.dropLast
    | _ => none

/-- a receiver's history in which every packet is (the `ReceivedPacket` input for) a datagram the sender `S` emitted — in any order, any
number of times, or never -/
def FromLink (S : Conn) : List (Env × C01.Op) → Prop
  | [] => True
  | (e, .recv bits) :: rest => (∃ d, Event.out d ∈ S.log ∧ wireBits e d = some bits) ∧ FromLink S rest
  | _ :: rest => FromLink S rest

/-- the link hypothesis in the form the receiver-side theorems use: every packet the receiver is given has a good body with respect to the
bunches the sender accepted (numbered as the sender numbered them) -/
theorem link_offered (mb mg : Nat) (hfit : mg < 2 ^ mb) (opsS : List (Env × C18.Op)) (hS : ∀ p ∈ opsS, p.1.magicBits = mb ∧ p.1.magic = mg) (iS oS : Int) :
    ∀ (ops : List (Env × C01.Op)), (∀ p ∈ ops, p.1.magicBits = mb ∧ p.1.magic = mg) →
      FromLink (C18.run (({} : Conn).seqInit iS oS) opsS) ops → Offered (sentOf (({} : Conn).seqInit iS oS) opsS []) ops := by
  intro ops
  induction ops with
  | nil => intro _ _; trivial
  | cons p rest ih =>
    intro hall hl
    obtain ⟨e, op⟩ := p
    have he := hall (e, op) List.mem_cons_self
    have hrest : ∀ q ∈ rest, q.1.magicBits = mb ∧ q.1.magic = mg := fun q hq => hall q (List.mem_cons_of_mem _ hq)
    cases op with
    | send b => exact ih hrest hl
    | flush => exact ih hrest hl
    | recv bits =>
      simp only [FromLink] at hl
      obtain ⟨⟨d, hd, hw⟩, hl'⟩ := hl
      refine ⟨?_, ih hrest hl'⟩
      obtain ⟨e', s, cl, hh, body, he', wf, hform, hgood⟩ := sender_emits_only_sent mb mg opsS hS iS oS d hd
      -- the receiver's environment has the sender's magic configuration, so its parse of `d` yields exactly header and body
      have henv : outgoingHeader e' s cl false = outgoingHeader e s cl false := by
        unfold outgoingHeader; rw [he'.1, he'.2, he.1, he.2]
      rw [henv] at hform
      obtain ⟨w1, w2, w3⟩ := wire_to_body e s cl hh wf body (by rw [he.1, he.2]; exact hfit)
      have hbits : bits = (encodeNotifHeader hh ++ body ++ [true]).dropLast := by
        unfold wireBits at hw
        rw [hform, w1] at hw
        simp only [w2] at hw
        exact (Option.some.inj hw).symm
      intro hd' body' hdec
      rw [hbits, w3] at hdec
      cases hdec
      exact hgood

/-- **end to end.**  `S` is any sender state reached from `utcp_sequence_init` by any history; the receiver is fed, in any order and with
any duplication or loss, only datagrams that `S` emitted (both ends under the magic-header configuration `(mb, mg)`, which fits its
width), interleaved with its own sends and flushes.  Then every bunch of every callback the receiver makes looks — flags, channel, close
reason, name index, payload — like a bunch that the sender's `utcp_send_bunch` accepted, and, if reliable, carries that bunch's channel
sequence number modulo 1024 (the receiver's number is the absolute value it reconstructed; `Props/C01_Link.lean` shows when the two are
equal). -/
theorem link_integrity (mb mg : Nat) (hfit : mg < 2 ^ mb) (opsS : List (Env × C18.Op)) (hS : ∀ p ∈ opsS, p.1.magicBits = mb ∧ p.1.magic = mg) (iS oS : Int)
    (opsR : List (Env × C01.Op)) (hR : ∀ p ∈ opsR, p.1.magicBits = mb ∧ p.1.magic = mg) (iR oR : Int)
    (hlink : FromLink (C18.run (({} : Conn).seqInit iS oS) opsS) opsR)
    (g : List Bunch) (hg : Event.recv g ∈ (C01.run (({} : Conn).seqInit iR oR) opsR).log) :
    ∀ q ∈ g, ∃ b ∈ sentOf (({} : Conn).seqInit iS oS) opsS [], seen q = seen b ∧ (q.bReliable = true → q.chSeq % 1024 = b.chSeq % 1024) :=
  delivered_were_sent (sentOf (({} : Conn).seqInit iS oS) opsS []) opsR iR oR (link_offered mb mg hfit opsS hS iS oS opsR hR hlink) g hg

end Utcp.Props.C04
