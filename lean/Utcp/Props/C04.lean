import Utcp.Lemmas.Conn
import Utcp.Handshake
import Utcp.Props.C13
import Utcp.Props.C01
/-!
# C04 — nothing is delivered that was not sent; nothing twice; replays are inert

Local part, for one endpoint fed *arbitrary* bytes: a datagram whose header is not newer than what has been
accepted (or whose ack field lies outside the window of packets awaiting a verdict) changes nothing except
the receive timestamp and the cached session / client id: no delivery, no status callback, no datagram, no
allocation — and therefore no change in what is delivered afterwards.  Over every history (from C01's order invariant):
no reliable channel sequence number is ever handed to the application twice, whatever is replayed (`reliable_at_most_once`).
-/
namespace Utcp.Props.C04
open Utcp Utcp.Gen

/-- the acceptance test of `packet_notify_delta_seq`, spelled out -/
theorem deltaSeq_pos_iff (n : Notify) (h : NotifHeader) :
    n.deltaSeq h > 0 ↔ (seq_num_greater_than h.seq n.inSeq = true ∧ seq_num_greater_equal h.ackedSeq n.outAckSeq = true
      ∧ seq_num_greater_than n.outSeq h.ackedSeq = true ∧ seq_num_diff h.seq n.inSeq > 0) := by
  rw [Notify.deltaSeq_eq]; unfold Notify.deltaSeqSpec
  by_cases h1 : seq_num_greater_than h.seq n.inSeq = true <;> by_cases h2 : seq_num_greater_equal h.ackedSeq n.outAckSeq = true <;>
    by_cases h3 : seq_num_greater_than n.outSeq h.ackedSeq = true <;> simp [h1, h2, h3]

/-- a header that is not circularly newer than the last accepted one is stale -/
theorem stale_of_not_newer (n : Notify) (h : NotifHeader) (hs : seq_num_greater_than h.seq n.inSeq = false) : n.deltaSeq h = 0 := by
  rw [Notify.deltaSeq_eq]; unfold Notify.deltaSeqSpec; simp [hs]

/-- a header acknowledging something outside `[OutAckSeq, OutSeq)` is refused -/
theorem stale_of_bad_ack (n : Notify) (h : NotifHeader)
    (hs : seq_num_greater_equal h.ackedSeq n.outAckSeq = false ∨ seq_num_greater_than n.outSeq h.ackedSeq = false) : n.deltaSeq h = 0 := by
  rw [Notify.deltaSeq_eq]; unfold Notify.deltaSeqSpec
  rcases hs with hs | hs <;> simp [hs]

/-- **stale packets are inert** at the packet layer: the connection is returned unchanged (same state, same log) -/
theorem stale_inert (e : Env) (c : Conn) (bits : Bits) (h : NotifHeader) (rest : Bits)
    (hd : decodePacketHeader bits = .ok (h, rest)) (hs : c.notify.deltaSeq h ≤ 0) :
    (c.receivedPacket e bits).1 = c := by
  unfold Conn.receivedPacket
  simp [hd, hs]

/-- the same packet again: after a packet with header `h` has been accepted (`inSeq = h.seq`), `h` itself is stale,
and so is every header whose sequence is not circularly newer — whatever else it contains -/
theorem duplicate_is_stale (n : Notify) (h : NotifHeader) (hacc : n.inSeq = h.seq) : n.deltaSeq h = 0 := by
  apply stale_of_not_newer
  rw [hacc]
  exact C13.gt_irrefl h.seq

/-- older packets stay stale: if `x` is the absolute id of the last accepted packet and `y ≤ x` is within the
protocol's window (less than 8192 ids older), a header carrying `y`'s sequence is not newer -/
theorem older_is_stale (n : Notify) (h : NotifHeader) (x y : Int) (hin : n.inSeq = x % 16384) (hh : h.seq = y % 16384)
    (hle : y ≤ x) (hwin : x - y < 8192) : n.deltaSeq h = 0 := by
  apply stale_of_not_newer
  rw [hin, hh, C13.gt_abs y x (by omega)]
  simp; omega

/-- at the endpoint: a stale data datagram only refreshes the receive stamp and the cached session/client id -/
theorem endpoint_stale_inert {T} (tm : TimeOps T) (e : Env) (rng : Rng) (ep : Endpoint) (bytes : List UInt8) (bits rest : Bits) (s cl : Nat)
    (h : NotifHeader) (rest' : Bits)
    (h1 : readInit bytes = some bits) (h2 : readOutgoingHeader e bits = .ok (s, cl, false) rest) (h3 : rest ≠ [])
    (hd : decodePacketHeader rest.dropLast = .ok (h, rest')) (hs : ep.c.notify.deltaSeq h ≤ 0) :
    (ep.incoming tm e rng bytes).1 = { ep with c := { ep.c with lastSessionId := s, lastClientId := cl, lastRecvMs := e.nowMs } }
    ∧ (ep.incoming tm e rng bytes).2.1 = rng := by
  unfold Endpoint.incoming
  simp only [h1, h2]
  have : rest.isEmpty = false := by cases rest <;> simp_all
  simp only [this, Bool.false_eq_true, if_false]
  have hn : ({ ep.c with lastSessionId := s, lastClientId := cl, lastRecvMs := e.nowMs } : Conn).notify = ep.c.notify := rfl
  rw [stale_inert e _ rest.dropLast h rest' hd (by rw [hn]; exact hs)]
  simp

/-! non-vacuity -/
example : ({ inSeq := 16383 } : Notify).deltaSeq { seq := 16383, ackedSeq := 0, words := 1, hist := [] } = 0 := by decide
example : ({ inSeq := 2, outSeq := 5, outAckSeq := 4 } : Notify).deltaSeq { seq := 16380, ackedSeq := 4, words := 1, hist := [] } = 0 := by decide

/-- **at most once, for every history**: however often and wherever datagrams are re-injected (or forged), no reliable bunch of a
channel is delivered a second time -/
theorem reliable_at_most_once (ops : List (Env × C01.Op)) (c : Conn) (h : RecvInv c) (ch : Nat) :
    (relLog ch (C01.run c ops).log).Nodup := C01.delivered_once ops c h ch

end Utcp.Props.C04
