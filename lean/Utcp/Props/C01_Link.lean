import Utcp.Lemmas.Link
/-!
# C01, across the link — reliable bunches arrive in the order they were sent

`Props/C01.lean` proves, for one endpoint fed arbitrary packets, that the reliable bunches of a channel are handed to the application
with strictly increasing sequence numbers.  `Props/C04.lean` proves that whatever is delivered looks like something the peer sent.
Here the two ends are put together *with the sequence numbers*: the sender numbers the reliable bunches of a channel consecutively
(`sender_numbers_consecutively`), every datagram carries these numbers modulo 1024 (`Lemmas/Emission.lean`), the receiver's counter
for the channel never leaves the range of numbers the sender has used (`Lemmas/Window.lean`), so the absolute number the receiver
reconstructs *is* the sender's number — and therefore

**`delivered_in_sending_order_partial`**: on a channel, the reliable bunches handed to the receiving application, in delivery order,
are a sub-sequence of the reliable bunches the sender accepted on that channel, in sending order — same flags, close reason, name,
payload, and the sender's own sequence number; none twice — whatever the network drops, duplicates or reorders.

*Partial* with respect to the property: (1) the channel carries fewer than 1024 reliable bunches in the history (beyond that the proof
needs the window argument — at most 256 unacknowledged bunches, acknowledgements sound — which is not formalised here); (2) one incarnation
of the channel (histories without `utcp_update`, which performs the deferred teardown); (3) that *every* sent bunch is eventually
delivered (liveness) is not proved.
-/
namespace Utcp.Props.C01Link
open Utcp Utcp.Gen Utcp.Props

/-- **the sender numbers the reliable bunches of a channel consecutively**, starting after the initial value: after any history of
sends (accepted or refused), flushes and incoming packets, the numbers given on channel `ch`, newest first, are `n, n-1, …, init+1`
where `n` is the channel's counter -/
theorem sender_numbers_consecutively (ch : Nat) (ops : List (Env × C01.Op)) (i o : Int) :
    Desc (o % 1024) ((C01.run (({} : Conn).seqInit i o) ops).outRelOf ch) (relTags ch (sentOf (({} : Conn).seqInit i o) ops [])) :=
  (run_seq ch (o % 1024) ops _ [] ⟨rfl, by show (({} : Conn).seqInit i o).outRelOf ch = o % 1024; rfl⟩).desc

/-! ## the theorems -/

/-- **the receiver's number is the sender's number.**  `S` and `R` are the two ends, each reached from `utcp_sequence_init` by any
history of sends, flushes and incoming packets; every packet `R` is given is (the `ReceivedPacket` input of) a datagram `S` emitted —
in any order, any number of times, or never; both ends use the magic-header configuration `(mb, mg)`; the initial sequence numbers
mirror each other as the handshake guarantees (`C05.agree`); the channel has carried fewer than 1024 reliable bunches.  Then every
reliable bunch `R` hands to its application on the channel is — in everything the application sees — a bunch `S` accepted on that
channel, and the absolute sequence number `R` reconstructed for it is the number `S` gave it. -/
theorem numbers_agree_partial (mb mg : Nat) (hfit : mg < 2 ^ mb) (ch : Nat)
    (opsS : List (Env × C01.Op)) (hS : ∀ p ∈ opsS, p.1.magicBits = mb ∧ p.1.magic = mg) (iS oS : Int)
    (opsR : List (Env × C01.Op)) (hR : ∀ p ∈ opsR, p.1.magicBits = mb ∧ p.1.magic = mg) (iR oR : Int)
    (hmirror : oS % 1024 = iR % 1024)
    (hlink : C04.FromLink (C01.run (({} : Conn).seqInit iS oS) opsS) opsR)
    (hsmall : (accepted ch (sentOf (({} : Conn).seqInit iS oS) opsS [])).length < 1024)
    (g : List Bunch) (hg : Event.recv g ∈ (C01.run (({} : Conn).seqInit iR oR) opsR).log) (q : Bunch) (hq : q ∈ g)
    (hr : q.bReliable = true) (hc : q.chIndex = ch) :
    ∃ b ∈ accepted ch (sentOf (({} : Conn).seqInit iS oS) opsS []), seen q = seen b ∧ q.chSeq = b.chSeq := by
  -- names
  generalize hsent : sentOf (({} : Conn).seqInit iS oS) opsS [] = sent at hsmall ⊢
  have hdesc := sender_numbers_consecutively ch opsS iS oS
  rw [hsent] at hdesc
  obtain ⟨htags, _, hlen⟩ := desc_facts _ _ _ hdesc
  generalize hhi : (C01.run (({} : Conn).seqInit iS oS) opsS).outRelOf ch = hi at htags hlen hdesc
  have hn : hi - oS % 1024 < 1024 := by
    have : (accepted ch sent).length = (relTags ch sent).length := by unfold accepted relTags; simp
    omega
  -- the sender's side of the link
  have hSl : ∀ p ∈ liftOps opsS, p.1.magicBits = mb ∧ p.1.magic = mg := by
    intro p hp
    unfold liftOps at hp
    obtain ⟨q, hq, rfl⟩ := List.mem_map.mp hp
    exact hS q hq
  have hlink' : C04.FromLink (C18.run (({} : Conn).seqInit iS oS) (liftOps opsS)) opsR := by rw [run_lift]; exact hlink
  have hoff := C04.link_offered mb mg hfit (liftOps opsS) hSl iS oS opsR hR hlink'
  rw [sentOf_lift, hsent] at hoff
  -- the receiver: order, origin, window
  have hQF := sentQ_fits ch (oS % 1024) hi sent htags hn
  have hw0 : WInv (SentQ sent) ch (oS % 1024) hi (({} : Conn).seqInit iR oR) :=
    ⟨hmirror.symm ▸ rfl, by omega, by intro ch' x hx; have : (({} : Conn).seqInit iR oR).getChan ch' = none := rfl; rw [this] at hx; cases hx⟩
  obtain ⟨wfin, wadds⟩ := receiver_run_w sent ch (oS % 1024) hi hQF opsR _ hw0 hoff
  have hord := C01.run_order opsR _ (C01.fresh_order iR oR)
  obtain ⟨b, hb, hseen, hres⟩ := C04.delivered_were_sent sent opsR iR oR hoff g hg q hq
  generalize hRdef : C01.run (({} : Conn).seqInit iR oR) opsR = R at wfin wadds hord hg
  have hlow : oS % 1024 < q.chSeq := by
    obtain ⟨new, hlog, hnew⟩ := wadds
    rw [hlog] at hg
    rcases List.mem_append.mp hg with hg | hg
    · exact hnew _ hg g rfl q hq hr
    · have hl : (({} : Conn).seqInit iR oR).log = [] := rfl
      rw [hl] at hg; cases hg
  obtain ⟨f1, f2⟩ := seen_fields q b hseen
  have hbon : onCh ch b = true := by unfold onCh; rw [← f2, ← f1, hr, hc]; simp
  have hbt : b.chSeq ∈ relTags ch sent := by
    unfold relTags; exact List.mem_map.mpr ⟨b, List.mem_filter.mpr ⟨hb, hbon⟩, rfl⟩
  have hbr := htags _ hbt
  -- the receiver's number is at most its counter, which is at most `hi`
  have hup : q.chSeq ≤ hi := by
    have hqs : q.chSeq ∈ relLog ch R.log := mem_relLog ch R.log g q hg hq hr hc
    cases hx : R.getChan ch with
    | none =>
      have := hord.absent ch (by unfold chanRecv; rw [hx]; rfl)
      rw [this] at hqs; cases hqs
    | some x =>
      have h1 := ((hord.chans ch _ (chanRecv_of_getChan hx)).dl.2) _ hqs
      have h2 := (wfin.chans ch x hx).high rfl
      simp only [recvPart] at h1
      omega
  have heq : q.chSeq = b.chSeq := by
    have := hres hr; omega
  refine ⟨b, ?_, hseen, heq⟩
  unfold accepted
  exact List.mem_reverse.mpr (List.mem_filter.mpr ⟨hb, hbon⟩)

/-- **in the order sent, at most once, intact — across the link** (same hypotheses): the reliable bunches `R` delivered on the channel,
in delivery order, are a sub-sequence of the reliable bunches `S` accepted on it, in sending order, compared on everything the
application sees *and* the channel sequence number. -/
theorem delivered_in_sending_order_partial (mb mg : Nat) (hfit : mg < 2 ^ mb) (ch : Nat)
    (opsS : List (Env × C01.Op)) (hS : ∀ p ∈ opsS, p.1.magicBits = mb ∧ p.1.magic = mg) (iS oS : Int)
    (opsR : List (Env × C01.Op)) (hR : ∀ p ∈ opsR, p.1.magicBits = mb ∧ p.1.magic = mg) (iR oR : Int)
    (hmirror : oS % 1024 = iR % 1024)
    (hlink : C04.FromLink (C01.run (({} : Conn).seqInit iS oS) opsS) opsR)
    (hsmall : (accepted ch (sentOf (({} : Conn).seqInit iS oS) opsS [])).length < 1024) :
    ((delivered ch (C01.run (({} : Conn).seqInit iR oR) opsR).log).map view).Sublist
      ((accepted ch (sentOf (({} : Conn).seqInit iS oS) opsS [])).map view) := by
  have hexact : ∀ q ∈ delivered ch (C01.run (({} : Conn).seqInit iR oR) opsR).log,
      view q ∈ (accepted ch (sentOf (({} : Conn).seqInit iS oS) opsS [])).map view := by
    intro q hq
    obtain ⟨g, hg, hqg, hr, hc⟩ := delivered_mem ch _ q hq
    obtain ⟨b, hb, hseen, heq⟩ := numbers_agree_partial mb mg hfit ch opsS hS iS oS opsR hR iR oR hmirror hlink hsmall g hg q hqg hr hc
    exact List.mem_map.mpr ⟨b, hb, (view_eq q b hseen heq).symm⟩
  have hord := C01.run_order opsR _ (C01.fresh_order iR oR)
  obtain ⟨_, hdec, _⟩ := desc_facts _ _ _ (sender_numbers_consecutively ch opsS iS oS)
  -- both lists are strictly increasing in the sequence number
  have hD : (((delivered ch (C01.run (({} : Conn).seqInit iR oR) opsR).log).map view).map (·.chSeq)).Pairwise (· < ·) := by
    have : ((delivered ch (C01.run (({} : Conn).seqInit iR oR) opsR).log).map view).map (·.chSeq) = relLog ch (C01.run (({} : Conn).seqInit iR oR) opsR).log := by
      rw [List.map_map, ← delivered_seqs]; rfl
    rw [this]; exact hord.increasing ch
  have hL : (((accepted ch (sentOf (({} : Conn).seqInit iS oS) opsS [])).map view).map (·.chSeq)).Pairwise (· < ·) :=
    accepted_increasing ch _ hdec
  refine sublist_of_increasing (·.chSeq) _ _ hL hD ?_
  intro d hd
  obtain ⟨q, hq, rfl⟩ := List.mem_map.mp hd
  exact hexact q hq

/-- … in particular: nothing is delivered twice, and two delivered bunches come out in the order their originals went in -/
theorem delivered_count_le (mb mg : Nat) (hfit : mg < 2 ^ mb) (ch : Nat)
    (opsS : List (Env × C01.Op)) (hS : ∀ p ∈ opsS, p.1.magicBits = mb ∧ p.1.magic = mg) (iS oS : Int)
    (opsR : List (Env × C01.Op)) (hR : ∀ p ∈ opsR, p.1.magicBits = mb ∧ p.1.magic = mg) (iR oR : Int)
    (hmirror : oS % 1024 = iR % 1024)
    (hlink : C04.FromLink (C01.run (({} : Conn).seqInit iS oS) opsS) opsR)
    (hsmall : (accepted ch (sentOf (({} : Conn).seqInit iS oS) opsS [])).length < 1024) :
    (delivered ch (C01.run (({} : Conn).seqInit iR oR) opsR).log).length ≤ (accepted ch (sentOf (({} : Conn).seqInit iS oS) opsS [])).length := by
  have := (delivered_in_sending_order_partial mb mg hfit ch opsS hS iS oS opsR hR iR oR hmirror hlink hsmall).length_le
  rw [List.length_map, List.length_map] at this
  exact this

/-! non-vacuity: a concrete sender history numbers its two reliable bunches 8 and 9 (initial value 7) -/
example : relTags 1 (sentOf (({} : Conn).seqInit 3 7)
    [({}, .send { chIndex := 1, bOpen := true, bReliable := true }), ({}, .flush), ({}, .send { chIndex := 1, bReliable := true })] []) = [9, 8] := by
  decide

end Utcp.Props.C01Link
