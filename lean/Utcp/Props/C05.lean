import Utcp.Handshake
import Utcp.Props.C13
/-!
# C05 — handshake completes despite loss / duplication / reordering, ends agree

Proved here (local and two-endpoint *agreement*): the sequence numbers both ends derive from the cookie mirror
each other, so the first data packet in each direction passes the acceptance test; a connected client ignores
every further (duplicate, delayed, replayed) challenge or ack, so it reports connected once.  The *liveness*
part ("within a bounded time after the network becomes fault-free") is not proved: it is explored by the
handshake correspondence sessions (every fate assignment for the first six datagrams in the thorough tier)
and their monitor.
-/
namespace Utcp.Props.C05
open Utcp Utcp.Gen

theorem seqFromCookie_range (ck : List UInt8) (i : Nat) : 0 ≤ seqFromCookie ck i ∧ seqFromCookie ck i < 16384 := by
  unfold seqFromCookie
  constructor
  · exact Int.natCast_nonneg _
  · have : ((ck.getD (2 * i) 0).toNat + 256 * (ck.getD (2 * i + 1) 0).toNat) % 16384 < 16384 := Nat.mod_lt _ (by decide)
    omega

/-- the connection the server creates when the listener reports the acceptance of `cookie` -/
def serverSide (e : Env) (addr : String) (cookie : List UInt8) : Endpoint :=
  Endpoint.accepted e { addr := addr, restarted := false, cookie := cookie, serverSeq := seqFromCookie cookie 0, clientSeq := seqFromCookie cookie 1 }

/-- the client after the ack carrying `cookie` -/
def clientSide (e : Env) (ep : Endpoint) (ch : Challenge) (cookie : List UInt8) : Endpoint :=
  ep.onAck e { ch with restarted := false } { cookie := cookie }

/-- **the ends agree** on packet ids and initial channel sequences: each side's outgoing numbering is the other
side's incoming numbering, for every cookie value (0, 16383 and everything between) -/
theorem agree (e e' : Env) (addr : String) (ep : Endpoint) (ch : Challenge) (cookie : List UInt8) :
    let s := (serverSide e addr cookie).c
    let c := (clientSide e' ep ch cookie).c
    s.outPacketId = c.inPacketId + 1 ∧ c.outPacketId = s.inPacketId + 1 ∧
    s.initOutReliable = c.initInReliable ∧ c.initOutReliable = s.initInReliable ∧
    s.notify.outSeq = seq_num_inc c.notify.inSeq 1 ∧ c.notify.outSeq = seq_num_inc s.notify.inSeq 1 ∧
    s.cookie = c.cookie := by
  have h0 := seqFromCookie_range cookie 0
  have h1 := seqFromCookie_range cookie 1
  simp only [serverSide, clientSide, Endpoint.accepted, Endpoint.onAck, Conn.seqInit, Conn.emit, Notify.init, Bool.not_false, if_true,
    seq_num_inc, seq_num_init]
  refine ⟨by omega, by omega, trivial, trivial, ?_, ?_, trivial⟩ <;> omega

/-- **the first data packet in each direction is accepted**: the header a freshly connected end writes passes the
peer's acceptance test with sequence delta 1 -/
theorem first_packet_accepted (e e' : Env) (addr : String) (ep : Endpoint) (ch : Challenge) (cookie : List UInt8) (w w' : Nat) :
    let s := (serverSide e addr cookie).c
    let c := (clientSide e' ep ch cookie).c
    s.notify.deltaSeq (c.notify.headerWith w) = 1 ∧ c.notify.deltaSeq (s.notify.headerWith w') = 1 := by
  have h0 := seqFromCookie_range cookie 0
  have h1 := seqFromCookie_range cookie 1
  simp only [serverSide, clientSide, Endpoint.accepted, Endpoint.onAck, Conn.seqInit, Conn.emit, Notify.init, Bool.not_false, if_true,
    Notify.deltaSeq_eq, Notify.deltaSeqSpec, Notify.headerWith, seq_num_greater_than, seq_num_greater_equal, seq_num_diff, seq_num_init]
  constructor
  · have a1 : ((seqFromCookie cookie 1 % 65536 % 16384 % 65536 != (seqFromCookie cookie 1 - 1) % 65536 % 16384 % 65536) = true) := by
      simp only [bne_iff_ne, ne_eq]; omega
    have a2 : decide ((seqFromCookie cookie 1 % 65536 % 16384 % 65536 - (seqFromCookie cookie 1 - 1) % 65536 % 16384 % 65536) % 16384 < 8192) = true := by
      simp only [decide_eq_true_eq]; omega
    have a3 : decide (((seqFromCookie cookie 0 - 1) % 65536 % 16384 % 65536 - ((seqFromCookie cookie 0 % 65536 % 16384 % 65536 - 1) % 65536 % 16384 % 65536)) % 16384 < 8192) = true := by
      simp only [decide_eq_true_eq]; omega
    have a4 : ((seqFromCookie cookie 0 % 65536 % 16384 % 65536 != (seqFromCookie cookie 0 - 1) % 65536 % 16384 % 65536) = true) := by
      simp only [bne_iff_ne, ne_eq]; omega
    have a5 : decide ((seqFromCookie cookie 0 % 65536 % 16384 % 65536 - (seqFromCookie cookie 0 - 1) % 65536 % 16384 % 65536) % 16384 < 8192) = true := by
      simp only [decide_eq_true_eq]; omega
    simp only [a1, a2, a3, a4, a5, Bool.and_self, if_true]
    omega
  · have a1 : ((seqFromCookie cookie 0 % 65536 % 16384 % 65536 != (seqFromCookie cookie 0 - 1) % 65536 % 16384 % 65536) = true) := by
      simp only [bne_iff_ne, ne_eq]; omega
    have a2 : decide ((seqFromCookie cookie 0 % 65536 % 16384 % 65536 - (seqFromCookie cookie 0 - 1) % 65536 % 16384 % 65536) % 16384 < 8192) = true := by
      simp only [decide_eq_true_eq]; omega
    have a3 : decide (((seqFromCookie cookie 1 - 1) % 65536 % 16384 % 65536 - ((seqFromCookie cookie 1 % 65536 % 16384 % 65536 - 1) % 65536 % 16384 % 65536)) % 16384 < 8192) = true := by
      simp only [decide_eq_true_eq]; omega
    have a4 : ((seqFromCookie cookie 1 % 65536 % 16384 % 65536 != (seqFromCookie cookie 1 - 1) % 65536 % 16384 % 65536) = true) := by
      simp only [bne_iff_ne, ne_eq]; omega
    have a5 : decide ((seqFromCookie cookie 1 % 65536 % 16384 % 65536 - (seqFromCookie cookie 1 - 1) % 65536 % 16384 % 65536) % 16384 < 8192) = true := by
      simp only [decide_eq_true_eq]; omega
    simp only [a1, a2, a3, a4, a5, Bool.and_self, if_true]
    omega

/-- **connected once**: a client whose handshake has completed ignores every further handshake datagram that is
not a restart request — duplicated, delayed or replayed challenges and acks cause no event and no state change -/
theorem connected_client_ignores {T} (tm : TimeOps T) (e : Env) (rng : Rng) (ep : Endpoint) (ch : Challenge) (hs : HsData) (cid : Nat)
    (hch : ep.chal = some ch) (hst : ch.state = stInit) (hr : hs.restart = false) :
    ep.handshakeIncoming tm e rng hs cid = (ep, rng, 0) := by
  unfold Endpoint.handshakeIncoming
  have h1 : (ch.state == stUnInit || ch.state == stLocal) = false := by rw [hst]; decide
  simp [hch, h1, hr]

/-- completing the handshake is what puts the client into that state, and reports `connect` exactly once -/
theorem onAck_state (e : Env) (ep : Endpoint) (ch : Challenge) (hs : HsData) :
    (ep.onAck e ch hs).chal.map (·.state) = some stInit ∧ (ep.onAck e ch hs).c.connected = true ∧
    ∃ c0 : Conn, (ep.onAck e ch hs).c.log = .connect ch.restarted :: c0.log ∧ c0.log = ep.c.log := by
  unfold Endpoint.onAck
  refine ⟨rfl, rfl, ?_⟩
  by_cases h : ch.restarted = true
  · exact ⟨ep.c, by simp [h, Conn.emit], rfl⟩
  · refine ⟨ep.c, by simp [h, Conn.emit, Conn.seqInit], rfl⟩

/-- the server-side connection answers a stray handshake packet by re-sending the ack in the *sender's* protocol
version (the repair of defect D3), and nothing else changes -/
theorem server_resends_ack {T} (tm : TimeOps T) (e : Env) (rng : Rng) (ep : Endpoint) (hs : HsData) (cid : Nat) (hch : ep.chal = none) :
    ∃ pkt rng', ep.handshakeIncoming tm e rng hs cid = (ep.out pkt, rng', 0) ∧
      (capHandshake e rng hs.curVer (hsPacket e hs.curVer (e.travel % 4) cid false ptAck hs.sentCount hs.netVer true 0xBFF0000000000000 ep.c.cookie [])) = (rng', pkt) := by
  unfold Endpoint.handshakeIncoming Endpoint.resendAck
  simp only [hch]
  exact ⟨_, _, rfl, rfl⟩

/-! non-vacuity: the wrap values of the cookie-derived sequences -/
example : seqFromCookie [0xFF, 0xFF, 0, 0] 0 = 16383 ∧ seqFromCookie [0xFF, 0xFF, 0, 0] 1 = 0 := by decide

end Utcp.Props.C05
