import Utcp.Handshake
import Utcp.Props.C13
import Utcp.Lemmas.HsFlow
/-!
# C05 — handshake completes despite loss / duplication / reordering, ends agree

Proved here (local and two-endpoint *agreement*): the sequence numbers both ends derive from the cookie mirror
each other, so the first data packet in each direction passes the acceptance test; a connected client ignores
every further (duplicate, delayed, replayed) challenge or ack, so it reports connected once.  The *liveness*
part ("within a bounded time after the network becomes fault-free") is not proved: it is explored by the
handshake correspondence sessions (every fate assignment for the first six datagrams in the thorough tier)
and their monitor.
-/
namespace Utcp.Props.C05
open Utcp Utcp.Gen

theorem seqFromCookie_range (ck : List UInt8) (i : Nat) : 0 ≤ seqFromCookie ck i ∧ seqFromCookie ck i < 16384 := by
  unfold seqFromCookie
  constructor
  · exact Int.natCast_nonneg _
  · have : ((ck.getD (2 * i) 0).toNat + 256 * (ck.getD (2 * i + 1) 0).toNat) % 16384 < 16384 := Nat.mod_lt _ (by decide)
    omega

/-- the connection the server creates when the listener reports the acceptance of `cookie` -/
def serverSide (e : Env) (addr : String) (cookie : List UInt8) : Endpoint :=
  Endpoint.accepted e { addr := addr, restarted := false, cookie := cookie, serverSeq := seqFromCookie cookie 0, clientSeq := seqFromCookie cookie 1 }

/-- the client after the ack carrying `cookie` -/
def clientSide (e : Env) (ep : Endpoint) (ch : Challenge) (cookie : List UInt8) : Endpoint :=
  ep.onAck e { ch with restarted := false } { cookie := cookie }

/-- **the ends agree** on packet ids and initial channel sequences: each side's outgoing numbering is the other
side's incoming numbering, for every cookie value (0, 16383 and everything between) -/
theorem agree (e e' : Env) (addr : String) (ep : Endpoint) (ch : Challenge) (cookie : List UInt8) :
    let s := (serverSide e addr cookie).c
    let c := (clientSide e' ep ch cookie).c
    s.outPacketId = c.inPacketId + 1 ∧ c.outPacketId = s.inPacketId + 1 ∧
    s.initOutReliable = c.initInReliable ∧ c.initOutReliable = s.initInReliable ∧
    s.notify.outSeq = seq_num_inc c.notify.inSeq 1 ∧ c.notify.outSeq = seq_num_inc s.notify.inSeq 1 ∧
    s.cookie = c.cookie := by
  have h0 := seqFromCookie_range cookie 0
  have h1 := seqFromCookie_range cookie 1
  simp only [serverSide, clientSide, Endpoint.accepted, Endpoint.onAck, Conn.seqInit, Conn.emit, Notify.init, Bool.not_false, if_true,
    seq_num_inc, seq_num_init]
  refine ⟨by omega, by omega, trivial, trivial, ?_, ?_, trivial⟩ <;> omega

/-- **the first data packet in each direction is accepted**: the header a freshly connected end writes passes the
peer's acceptance test with sequence delta 1 -/
theorem first_packet_accepted (e e' : Env) (addr : String) (ep : Endpoint) (ch : Challenge) (cookie : List UInt8) (w w' : Nat) :
    let s := (serverSide e addr cookie).c
    let c := (clientSide e' ep ch cookie).c
    s.notify.deltaSeq (c.notify.headerWith w) = 1 ∧ c.notify.deltaSeq (s.notify.headerWith w') = 1 := by
  have h0 := seqFromCookie_range cookie 0
  have h1 := seqFromCookie_range cookie 1
  simp only [serverSide, clientSide, Endpoint.accepted, Endpoint.onAck, Conn.seqInit, Conn.emit, Notify.init, Bool.not_false, if_true,
    Notify.deltaSeq_eq, Notify.deltaSeqSpec, Notify.headerWith, seq_num_greater_than, seq_num_greater_equal, seq_num_diff, seq_num_init]
  constructor
  · have a1 : ((seqFromCookie cookie 1 % 65536 % 16384 % 65536 != (seqFromCookie cookie 1 - 1) % 65536 % 16384 % 65536) = true) := by
      simp only [bne_iff_ne, ne_eq]; omega
    have a2 : decide ((seqFromCookie cookie 1 % 65536 % 16384 % 65536 - (seqFromCookie cookie 1 - 1) % 65536 % 16384 % 65536) % 16384 < 8192) = true := by
      simp only [decide_eq_true_eq]; omega
    have a3 : decide (((seqFromCookie cookie 0 - 1) % 65536 % 16384 % 65536 - ((seqFromCookie cookie 0 % 65536 % 16384 % 65536 - 1) % 65536 % 16384 % 65536)) % 16384 < 8192) = true := by
      simp only [decide_eq_true_eq]; omega
    have a4 : ((seqFromCookie cookie 0 % 65536 % 16384 % 65536 != (seqFromCookie cookie 0 - 1) % 65536 % 16384 % 65536) = true) := by
      simp only [bne_iff_ne, ne_eq]; omega
    have a5 : decide ((seqFromCookie cookie 0 % 65536 % 16384 % 65536 - (seqFromCookie cookie 0 - 1) % 65536 % 16384 % 65536) % 16384 < 8192) = true := by
      simp only [decide_eq_true_eq]; omega
    simp only [a1, a2, a3, a4, a5, Bool.and_self, if_true]
    omega
  · have a1 : ((seqFromCookie cookie 0 % 65536 % 16384 % 65536 != (seqFromCookie cookie 0 - 1) % 65536 % 16384 % 65536) = true) := by
      simp only [bne_iff_ne, ne_eq]; omega
    have a2 : decide ((seqFromCookie cookie 0 % 65536 % 16384 % 65536 - (seqFromCookie cookie 0 - 1) % 65536 % 16384 % 65536) % 16384 < 8192) = true := by
      simp only [decide_eq_true_eq]; omega
    have a3 : decide (((seqFromCookie cookie 1 - 1) % 65536 % 16384 % 65536 - ((seqFromCookie cookie 1 % 65536 % 16384 % 65536 - 1) % 65536 % 16384 % 65536)) % 16384 < 8192) = true := by
      simp only [decide_eq_true_eq]; omega
    have a4 : ((seqFromCookie cookie 1 % 65536 % 16384 % 65536 != (seqFromCookie cookie 1 - 1) % 65536 % 16384 % 65536) = true) := by
      simp only [bne_iff_ne, ne_eq]; omega
    have a5 : decide ((seqFromCookie cookie 1 % 65536 % 16384 % 65536 - (seqFromCookie cookie 1 - 1) % 65536 % 16384 % 65536) % 16384 < 8192) = true := by
      simp only [decide_eq_true_eq]; omega
    simp only [a1, a2, a3, a4, a5, Bool.and_self, if_true]
    omega

/-- **connected once**: a client whose handshake has completed ignores every further handshake datagram that is
not a restart request — duplicated, delayed or replayed challenges and acks cause no event and no state change -/
theorem connected_client_ignores {T} (tm : TimeOps T) (e : Env) (rng : Rng) (ep : Endpoint) (ch : Challenge) (hs : HsData) (cid : Nat)
    (hch : ep.chal = some ch) (hst : ch.state = stInit) (hr : hs.restart = false) :
    ep.handshakeIncoming tm e rng hs cid = (ep, rng, 0) := by
  unfold Endpoint.handshakeIncoming
  have h1 : (ch.state == stUnInit || ch.state == stLocal) = false := by rw [hst]; decide
  simp [hch, h1, hr]

/-- completing the handshake is what puts the client into that state, and reports `connect` exactly once -/
theorem onAck_state (e : Env) (ep : Endpoint) (ch : Challenge) (hs : HsData) :
    (ep.onAck e ch hs).chal.map (·.state) = some stInit ∧ (ep.onAck e ch hs).c.connected = true ∧
    ∃ c0 : Conn, (ep.onAck e ch hs).c.log = .connect ch.restarted :: c0.log ∧ c0.log = ep.c.log := by
  unfold Endpoint.onAck
  refine ⟨rfl, rfl, ?_⟩
  by_cases h : ch.restarted = true
  · exact ⟨ep.c, by simp [h, Conn.emit], rfl⟩
  · refine ⟨ep.c, by simp [h, Conn.emit, Conn.seqInit], rfl⟩

/-- the server-side connection answers a stray handshake packet by re-sending the ack in the *sender's* protocol
version (the repair of defect D3), and nothing else changes -/
theorem server_resends_ack {T} (tm : TimeOps T) (e : Env) (rng : Rng) (ep : Endpoint) (hs : HsData) (cid : Nat) (hch : ep.chal = none) :
    ∃ pkt rng', ep.handshakeIncoming tm e rng hs cid = (ep.out pkt, rng', 0) ∧
      (capHandshake e rng hs.curVer (hsPacket e hs.curVer (e.travel % 4) cid false ptAck hs.sentCount hs.netVer true 0xBFF0000000000000 ep.c.cookie [])) = (rng', pkt) := by
  unfold Endpoint.handshakeIncoming Endpoint.resendAck
  simp only [hch]
  exact ⟨_, _, rfl, rfl⟩

/-! ## the fault-free exchange: four datagrams connect both ends, for every parameter; and so does every retransmission -/

/-- the process-global configuration at clock reading `t` -/
def at_ (cfg : Env) (t : Int) : Env := { cfg with elapsedUs := t }

/-- the newest event of an endpoint, if it is a datagram -/
def lastOut (ep : Endpoint) : Option (List UInt8) :=
  match ep.c.log with
  | .out d :: _ => some d
  | _ => none

/-- second half of the exchange, executable: the client's newest datagram (a response) reaches the listener at `t4`; the application
creates the server-side connection when the listener reports the acceptance; the listener's answer reaches the client at `t5`.
Result: final client, server-side connection, the acceptance; `none` if a step does not produce what the next one needs. -/
def finish {T} (tm : TimeOps T) (mac : Mac) (cfg : Env) (t4 t5 : Int) (rA rL : Rng) (ep2 : Endpoint) (l : LState T) (addr : String) :
    Option (Endpoint × Endpoint × Accepted) :=
  match lastOut ep2 with
  | none => none
  | some d3 =>
    let r4 := l.react tm mac (at_ cfg t4) rL addr d3
    match r4.acc, r4.evs with
    | some acc, [.accept _ _, .out d4] =>
      let s5 := ep2.incoming tm (at_ cfg t5) rA d4
      some (s5.1, Endpoint.accepted (at_ cfg t4) acc, acc)
    | _, _ => none

/-- the exchange from an initial packet on: the client's newest datagram reaches the listener at `t2`, the listener's answer reaches the
client at `t3`, then `finish` -/
def fromInitial {T} (tm : TimeOps T) (mac : Mac) (cfg : Env) (t2 t3 t4 t5 : Int) (rA rL : Rng) (ep1 : Endpoint) (l : LState T) (addr : String) :
    Option (Endpoint × Endpoint × Accepted) :=
  match lastOut ep1 with
  | none => none
  | some d1 =>
    let r2 := l.react tm mac (at_ cfg t2) rL addr d1
    match r2.evs with
    | [.out d2] =>
      let s3 := ep1.incoming tm (at_ cfg t3) rA d2
      finish tm mac cfg t4 t5 s3.2.1 r2.rng s3.1 r2.st addr
    | _ => none

/-- **the exchange**: the client connects at `t1`; each datagram an end emits is handed, unchanged, to the other end -/
def exchange {T} (tm : TimeOps T) (mac : Mac) (cfg : Env) (t1 t2 t3 t4 t5 : Int) (rA rB : Rng) (counter : Nat)
    (ep0 : Endpoint) (l : LState T) (addr : String) : Option (Endpoint × Endpoint × Accepted) :=
  let s1 := ep0.connect (at_ cfg t1) rA counter
  fromInitial tm mac cfg t2 t3 t4 t5 s1.2.1 rB s1.1 l addr

/-- what "the handshake completed and the ends agree" means for the result of an exchange that started with the client's log at `base`:
one acceptance, for this address, not a restart; the client is connected, reported `connect` exactly once and otherwise only emitted
datagrams; the two connections agree on packet ids, initial channel sequences, ack sequence numbers and cookie -/
def Completes (addr : String) (base : List Event) (r : Option (Endpoint × Endpoint × Accepted)) : Prop :=
  ∃ cl sv acc, r = some (cl, sv, acc) ∧
    acc.addr = addr ∧ acc.restarted = false ∧
    cl.c.connected = true ∧ cl.chal.map (·.state) = some stInit ∧
    (∃ mid, (∀ ev ∈ mid, ∃ d, ev = .out d) ∧ cl.c.log = .connect false :: (mid ++ base)) ∧
    sv.c.outPacketId = cl.c.inPacketId + 1 ∧ cl.c.outPacketId = sv.c.inPacketId + 1 ∧
    sv.c.initOutReliable = cl.c.initInReliable ∧ cl.c.initOutReliable = sv.c.initInReliable ∧
    sv.c.notify.outSeq = seq_num_inc cl.c.notify.inSeq 1 ∧ cl.c.notify.outSeq = seq_num_inc sv.c.notify.inSeq 1 ∧
    sv.c.cookie = cl.c.cookie ∧ cl.c.cookie = acc.cookie

/-- **from a response on**: a pending client whose newest datagram is a response carrying a cookie this listener state issues for this
address, arriving while the cookie is alive, is accepted, and the ack connects it -/
theorem finish_completes {T} (tm : TimeOps T) (mac : Mac) (cfg : Env) (t3 t4 t5 : Int) (rA rL r0 : Rng) (ep2 : Endpoint) (ch2 : Challenge)
    (l : LState T) (addr : String) (cid cnt : Nat) (sid : Bool) (ts : UInt64)
    (hm : cfg.magic < 2 ^ cfg.magicBits) (hck : cfg.checksum < 4294967296) (hmac : ∀ k m, (mac k m).length = 20) (ha : addr.isEmpty = false)
    (hch : ep2.chal = some ch2) (hst : ch2.state = stUnInit ∨ ch2.state = stLocal) (hr : ch2.restarted = false) (hcnt : cnt < 256)
    (hout : lastOut ep2 = some (bitsBytes (responsePktG (at_ cfg t3) r0 cid cnt sid ts (l.cookie mac addr sid ts)).2))
    (hlife : LState.validLife tm (at_ cfg t4) (responseDataG (at_ cfg t3) cnt sid ts (l.cookie mac addr sid ts)) = true)
    (hsec : l.validSecret tm (responseDataG (at_ cfg t3) cnt sid ts (l.cookie mac addr sid ts)) = true)
    (hneg : tm.lt0 (tm.ofBits 0xBFF0000000000000) = true) :
    Completes addr ep2.c.log (finish tm mac cfg t4 t5 rA rL ep2 l addr) := by
  obtain ⟨b3, r3, w3a, w3b, w3c⟩ := response_wireG (at_ cfg t3) r0 cid cnt sid ts (l.cookie mac addr sid ts) hm (hmac _ _) hcnt hck
  have w3b' : readOutgoingHeader (at_ cfg t4) b3 = .ok (0, cid % 8, true) r3 := w3b
  let hs3 := responseDataG (at_ cfg t3) cnt sid ts (l.cookie mac addr sid ts)
  have h4 := react_of_wire tm mac (at_ cfg t4) rL l addr _ b3 r3 _ _ _ w3a w3b' w3c
  have s4 := response_step tm mac (at_ cfg t4) rL l addr (cid % 8) hs3 rfl rfl rfl ha hlife hsec rfl
  rw [← h4] at s4
  obtain ⟨_, _, s4acc, s4evs⟩ := s4
  obtain ⟨b4, r4, w4a, w4b, w4c⟩ := ack_wire (at_ cfg t4) rL (cid % 8) hs3 hm (hmac _ _) hcnt hck
  have w4b' : readOutgoingHeader (at_ cfg t5) b4 = .ok (cfg.travel % 4 % 4, cid % 8 % 8, true) r4 := w4b
  have s5 := ack_step tm (at_ cfg t5) rA ep2 ch2 (ackData hs3) (cid % 8 % 8) hch hst rfl rfl hneg
  have i5 := incoming_of_wire tm (at_ cfg t5) rA ep2 _ b4 r4 _ _ _ w4a w4b' w4c
  rw [s5] at i5
  simp only [bne_self_eq_false, Bool.false_eq_true, if_false] at i5
  let acc : Accepted := { addr := addr, restarted := false, cookie := hs3.cookie, serverSeq := seqFromCookie hs3.cookie 0, clientSeq := seqFromCookie hs3.cookie 1 }
  refine ⟨ep2.onAck (at_ cfg t5) ch2 (ackData hs3), Endpoint.accepted (at_ cfg t4) acc, acc, ?_, ?_⟩
  · unfold finish
    simp only [hout, s4acc, s4evs, i5]
    rfl
  · have ag := agree (at_ cfg t4) (at_ cfg t5) addr ep2 ch2 hs3.cookie
    have hc : (ep2.onAck (at_ cfg t5) ch2 (ackData hs3)).c = (clientSide (at_ cfg t5) ep2 ch2 hs3.cookie).c := by
      simp only [Endpoint.onAck, clientSide, hr, Bool.not_false, if_true]
      rfl
    rw [← hc] at ag
    refine ⟨rfl, rfl, rfl, rfl, ⟨[], by simp, ?_⟩, ag.1, ag.2.1, ag.2.2.1, ag.2.2.2.1, ag.2.2.2.2.1, ag.2.2.2.2.2.1, ag.2.2.2.2.2.2, ?_⟩
    · simp only [Endpoint.onAck, hr, Conn.emit, Conn.seqInit, Bool.not_false, if_true, List.nil_append]
    · simp only [Endpoint.onAck, hr, Conn.emit, Bool.not_false, if_true]
      rfl

/-- the cookie lifetime test, for a cookie issued at clock reading `issued` and presented at `now` -/
def lifeOk {T} (tm : TimeOps T) (issued now : Int) : Bool :=
  tm.ge0 (tm.sub (tm.now now) (tm.ofBits (tm.toBits (tm.now issued)))) &&
  tm.gt0 (tm.lifeLeft (tm.sub (tm.now now) (tm.ofBits (tm.toBits (tm.now issued)))))

/-- the secret-id-versus-rotation-time test, for a cookie issued at `issued` under the then active secret -/
def secretOk {T} (tm : TimeOps T) (l : LState T) (issued : Int) : Bool :=
  if (if (l.active != 0) then 1 else 0) == l.active then tm.ge0 (tm.sub (tm.ofBits (tm.toBits (tm.now issued))) l.lastSecretUpdate)
  else tm.le0 (tm.sub (tm.ofBits (tm.toBits (tm.now issued))) l.lastSecretUpdate)

/-- what the time algebra has to satisfy for the exchange at these clock readings: zero is zero, the ack's −1.0 is negative, the
challenge timestamp is positive, and the response arrives within the cookie's lifetime with no secret rotation in between -/
structure Timely {T} (tm : TimeOps T) (l : LState T) (t2 t4 : Int) : Prop where
  zero : tm.isZero (tm.ofBits 0) = true
  ackNeg : tm.lt0 (tm.ofBits 0xBFF0000000000000) = true
  chalPos : tm.gt0 (tm.ofBits (tm.toBits (tm.now t2))) = true
  life : lifeOk tm t2 t4 = true
  secret : secretOk tm l t2 = true

/-- **from an initial packet on**: a pending client whose newest datagram is an initial packet gets a challenge, answers it, is accepted
and connected -/
theorem fromInitial_completes {T} (tm : TimeOps T) (mac : Mac) (cfg : Env) (t1 t2 t3 t4 t5 : Int) (rA rL r0 : Rng) (ep1 : Endpoint) (ch1 : Challenge)
    (l : LState T) (addr : String) (cid cnt : Nat)
    (hm : cfg.magic < 2 ^ cfg.magicBits) (hck : cfg.checksum < 4294967296) (hmac : ∀ k m, (mac k m).length = 20) (ha : addr.isEmpty = false)
    (hch : ep1.chal = some ch1) (hst : ch1.state = stUnInit ∨ ch1.state = stLocal) (hr : ch1.restarted = false) (hsc : ch1.sentCount < 256)
    (hcnt : cnt < 256) (hout : lastOut ep1 = some (bitsBytes (initialPktG (at_ cfg t1) r0 cid cnt).2))
    (ht : Timely tm l t2 t4) :
    ∃ d3, Completes addr (.out d3 :: ep1.c.log) (fromInitial tm mac cfg t2 t3 t4 t5 rA rL ep1 l addr) := by
  obtain ⟨b1, r1, w1a, w1b, w1c⟩ := initial_wire (at_ cfg t1) r0 cid cnt hm hck hcnt
  have w1b' : readOutgoingHeader (at_ cfg t2) b1 = .ok (0, cid % 8, true) r1 := w1b
  have h2 := react_of_wire tm mac (at_ cfg t2) rL l addr _ b1 r1 _ _ _ w1a w1b' w1c
  have s2 := initial_step tm mac (at_ cfg t2) rL l addr (cid % 8) ht.zero ha (at_ cfg t1) rfl cnt
  rw [← h2] at s2
  obtain ⟨s2st, _, _, s2rng, s2evs⟩ := s2
  have hcs : (at_ cfg t2).checksum = cfg.checksum := rfl
  rw [hcs] at s2rng s2evs
  obtain ⟨b2, r2, w2a, w2b, w2c⟩ := challenge_wire tm mac (at_ cfg t2) rL l addr (cid % 8) cnt cfg.checksum hm hmac hcnt hck
  have w2b' : readOutgoingHeader (at_ cfg t3) b2 = .ok (cfg.travel % 4 % 4, cid % 8 % 8, true) r2 := w2b
  let hs2 := challengeData tm mac (at_ cfg t2) l addr cnt cfg.checksum
  have s3 := challenge_step tm (at_ cfg t3) rA ep1 ch1 hs2 (cid % 8 % 8) hch hst hr rfl rfl ht.chalPos
  have i3 := incoming_of_wire tm (at_ cfg t3) rA ep1 _ b2 r2 _ _ _ w2a w2b' w2c
  rw [s3] at i3
  simp only [bne_self_eq_false, Bool.false_eq_true, if_false] at i3
  let ch2 : Challenge := { ch1 with lastChallengeMs := (at_ cfg t3).nowMs, sentCount := (ch1.sentCount + 1) % 256, lastClientSendMs := (at_ cfg t3).nowMs,
                                    lastSecretId := hs2.secretId, lastTs := hs2.ts, lastCookie := hs2.cookie, state := stLocal }
  obtain ⟨ep2, hep2⟩ : ∃ x : Endpoint, ({ c := ep1.c.emit (.out (bitsBytes (responsePkt (at_ cfg t3) rA ch1 hs2).2)), chal := some ch2 } : Endpoint) = x := ⟨_, rfl⟩
  rw [hep2] at i3
  have hfin := finish_completes tm mac cfg t3 t4 t5 (responsePkt (at_ cfg t3) rA ch1 hs2).1
    (challengePkt tm mac (at_ cfg t2) rL l addr (cid % 8) cnt cfg.checksum).1 rA ep2 ch2 l addr ch1.clientId ch1.sentCount hs2.secretId hs2.ts
    hm hck hmac ha (by rw [← hep2]) (Or.inr rfl) hr hsc (by rw [← hep2]; rfl) ht.life ht.secret ht.ackNeg
  refine ⟨bitsBytes (responsePkt (at_ cfg t3) rA ch1 hs2).2, ?_⟩
  have hlog : ep2.c.log = .out (bitsBytes (responsePkt (at_ cfg t3) rA ch1 hs2).2) :: ep1.c.log := by rw [← hep2]; rfl
  rw [← hlog]
  unfold fromInitial
  simp only [hout, s2evs, s2st, s2rng, i3]
  exact hfin

/-- **fault-free completion, for every parameter**: whatever the magic-header configuration, the clock readings, the random
streams (padding lengths 9…16 bytes), the client-id counter, the listener's secrets, the MAC (any function producing 20 bytes), the
non-empty address and the client's prior data-path state — if the four datagrams arrive as sent and the response arrives within the
cookie's lifetime, both ends complete and agree -/
theorem fault_free_completion {T} (tm : TimeOps T) (mac : Mac) (cfg : Env) (t1 t2 t3 t4 t5 : Int) (rA rB : Rng) (counter : Nat)
    (ep0 : Endpoint) (l : LState T) (addr : String)
    (hm : cfg.magic < 2 ^ cfg.magicBits) (hck : cfg.checksum < 4294967296) (hmac : ∀ k m, (mac k m).length = 20)
    (ha : addr.isEmpty = false) (ht : Timely tm l t2 t4) :
    ∃ d3 d1, Completes addr (.out d3 :: .out d1 :: .alloc .chal :: ep0.c.log) (exchange tm mac cfg t1 t2 t3 t4 t5 rA rB counter ep0 l addr) := by
  have h1 := connect_step (at_ cfg t1) rA counter ep0
  obtain ⟨ep1, hep1⟩ : ∃ x : Endpoint, (ep0.connect (at_ cfg t1) rA counter).1 = x := ⟨_, rfl⟩
  let ch1 : Challenge := { clientId := (counter + 1) % 8, sentCount := 1, lastClientSendMs := (at_ cfg t1).nowMs }
  have hch1 : ep1.chal = some ch1 := by rw [← hep1, h1]
  have hlo1 : lastOut ep1 = some (bitsBytes (initialPktG (at_ cfg t1) rA ((counter + 1) % 8) 0).2) := by rw [← hep1, h1]; rfl
  have hlog : ep1.c.log = .out (bitsBytes (initialPktG (at_ cfg t1) rA ((counter + 1) % 8) 0).2) :: .alloc .chal :: ep0.c.log := by rw [← hep1, h1]; rfl
  obtain ⟨d3, hc⟩ := fromInitial_completes tm mac cfg t1 t2 t3 t4 t5 (ep0.connect (at_ cfg t1) rA counter).2.1 rB rA ep1 ch1 l addr ((counter + 1) % 8) 0
    hm hck hmac ha hch1 (Or.inl rfl) rfl (by show (1 : Nat) < 256; decide) (by decide) hlo1 ht
  refine ⟨d3, bitsBytes (initialPktG (at_ cfg t1) rA ((counter + 1) % 8) 0).2, ?_⟩
  rw [← hlog]
  unfold exchange
  simp only [hep1]
  exact hc

/-- **retransmission, starting over**: a pending client (any history of lost, duplicated or stale datagrams behind it) whose
retransmission timer fires while it holds no usable challenge re-sends the initial packet; if the network delivers from then on, both
ends complete and agree -/
theorem retry_initial_completes {T} (tm : TimeOps T) (mac : Mac) (cfg : Env) (t1 t2 t3 t4 t5 : Int) (rA rB : Rng)
    (ep : Endpoint) (ch : Challenge) (l : LState T) (addr : String)
    (hm : cfg.magic < 2 ^ cfg.magicBits) (hck : cfg.checksum < 4294967296) (hmac : ∀ k m, (mac k m).length = 20) (ha : addr.isEmpty = false)
    (hch : ep.chal = some ch) (hr : ch.restarted = false) (hsc : ch.sentCount < 256)
    (hdue : retryDue (at_ cfg t1) ch) (hst : ch.state = stUnInit ∨ chalExpired (at_ cfg t1) ch) (ht : Timely tm l t2 t4) :
    ∃ d3 d1, Completes addr (.out d3 :: .out d1 :: ep.c.log)
      (fromInitial tm mac cfg t2 t3 t4 t5 (ep.handshakeUpdate tm (at_ cfg t1) rA).2 rB (ep.handshakeUpdate tm (at_ cfg t1) rA).1 l addr) := by
  have h1 := update_retry_initial tm (at_ cfg t1) rA ep ch hch hr hdue hst
  obtain ⟨ep1, hep1⟩ : ∃ x : Endpoint, (ep.handshakeUpdate tm (at_ cfg t1) rA).1 = x := ⟨_, rfl⟩
  let ch1 : Challenge := { ch with state := stUnInit, sentCount := (ch.sentCount + 1) % 256, lastClientSendMs := (at_ cfg t1).nowMs }
  have hch1 : ep1.chal = some ch1 := by rw [← hep1, h1]
  have hlo1 : lastOut ep1 = some (bitsBytes (initialPktG (at_ cfg t1) rA ch.clientId ch.sentCount).2) := by rw [← hep1, h1]; rfl
  have hlog : ep1.c.log = .out (bitsBytes (initialPktG (at_ cfg t1) rA ch.clientId ch.sentCount).2) :: ep.c.log := by rw [← hep1, h1]; rfl
  have hlt : (ch.sentCount + 1) % 256 < 256 := Nat.mod_lt _ (by decide)
  obtain ⟨d3, hc⟩ := fromInitial_completes tm mac cfg t1 t2 t3 t4 t5 (ep.handshakeUpdate tm (at_ cfg t1) rA).2 rB rA ep1 ch1 l addr ch.clientId ch.sentCount
    hm hck hmac ha hch1 (Or.inl rfl) hr hlt hsc hlo1 ht
  refine ⟨d3, bitsBytes (initialPktG (at_ cfg t1) rA ch.clientId ch.sentCount).2, ?_⟩
  rw [← hlog, hep1]
  exact hc

/-- **retransmission of the response**: a pending client holding a challenge this listener state issued for this address, whose
retransmission timer fires, re-sends its response; if that and the ack are delivered while the cookie is alive, both ends complete and
agree -/
theorem retry_response_completes {T} (tm : TimeOps T) (mac : Mac) (cfg : Env) (t3 t4 t5 : Int) (rA rB : Rng)
    (ep : Endpoint) (ch : Challenge) (l : LState T) (addr : String)
    (hm : cfg.magic < 2 ^ cfg.magicBits) (hck : cfg.checksum < 4294967296) (hmac : ∀ k m, (mac k m).length = 20) (ha : addr.isEmpty = false)
    (hch : ep.chal = some ch) (hr : ch.restarted = false) (hsc : ch.sentCount < 256)
    (hdue : retryDue (at_ cfg t3) ch) (hst : ch.state = stLocal) (hx : ¬ chalExpired (at_ cfg t3) ch)
    (hnz : tm.isZero (tm.ofBits ch.lastTs) = false)
    (hck' : ch.lastCookie = l.cookie mac addr ch.lastSecretId ch.lastTs)
    (hlife : LState.validLife tm (at_ cfg t4) (responseDataG (at_ cfg t3) ch.sentCount ch.lastSecretId ch.lastTs ch.lastCookie) = true)
    (hsec : l.validSecret tm (responseDataG (at_ cfg t3) ch.sentCount ch.lastSecretId ch.lastTs ch.lastCookie) = true)
    (hneg : tm.lt0 (tm.ofBits 0xBFF0000000000000) = true) :
    ∃ d3, Completes addr (.out d3 :: ep.c.log)
      (finish tm mac cfg t4 t5 (ep.handshakeUpdate tm (at_ cfg t3) rA).2 rB (ep.handshakeUpdate tm (at_ cfg t3) rA).1 l addr) := by
  have h1 := update_retry_response tm (at_ cfg t3) rA ep ch hch hr hdue hst hx hnz
  obtain ⟨ep2, hep2⟩ : ∃ x : Endpoint, (ep.handshakeUpdate tm (at_ cfg t3) rA).1 = x := ⟨_, rfl⟩
  let ch2 : Challenge := { ch with sentCount := (ch.sentCount + 1) % 256, lastClientSendMs := (at_ cfg t3).nowMs }
  have hch2 : ep2.chal = some ch2 := by rw [← hep2, h1]
  have hlo : lastOut ep2 = some (bitsBytes (responsePktG (at_ cfg t3) rA ch.clientId ch.sentCount ch.lastSecretId ch.lastTs ch.lastCookie).2) := by rw [← hep2, h1]; rfl
  have hlog : ep2.c.log = .out (bitsBytes (responsePktG (at_ cfg t3) rA ch.clientId ch.sentCount ch.lastSecretId ch.lastTs ch.lastCookie).2) :: ep.c.log := by rw [← hep2, h1]; rfl
  rw [hck'] at hlo hlife hsec
  have hc := finish_completes tm mac cfg t3 t4 t5 (ep.handshakeUpdate tm (at_ cfg t3) rA).2 rB rA ep2 ch2 l addr ch.clientId ch.sentCount ch.lastSecretId ch.lastTs
    hm hck hmac ha hch2 (Or.inr hst) hr hsc hlo hlife hsec hneg
  refine ⟨bitsBytes (responsePktG (at_ cfg t3) rA ch.clientId ch.sentCount ch.lastSecretId ch.lastTs ch.lastCookie).2, ?_⟩
  rw [← hlog, hep2]
  exact hc

/-- the two retransmission theorems cover every pending client: it either holds no usable challenge or a fresh one -/
theorem retry_cases (e : Env) (ch : Challenge) (hst : ch.state = stUnInit ∨ ch.state = stLocal) :
    (ch.state = stUnInit ∨ chalExpired e ch) ∨ (ch.state = stLocal ∧ ¬ chalExpired e ch) := by
  by_cases hx : chalExpired e ch
  · exact Or.inl (Or.inr hx)
  · rcases hst with h | h
    · exact Or.inl (Or.inl h)
    · exact Or.inr ⟨h, hx⟩

/-! ### the hypotheses are satisfiable: an exact time algebra (integer microseconds, with the ack's −1.0 as a sentinel) -/

/-- integer microseconds; the one negative value the protocol puts on the wire (−1.0, in the ack) is represented exactly -/
def sOps : TimeOps Int where
  now := fun us => us + 1000000
  ofBits := fun b => if b = 0xBFF0000000000000 then -1000000 else (b.toNat : Int)
  toBits := fun t => if t = -1000000 then 0xBFF0000000000000 else UInt64.ofNat t.toNat
  sub := fun a b => a - b
  lifeLeft := fun x => Gen.MAX_COOKIE_LIFETIME_S * 1000000 - x
  ge0 := fun x => decide (x ≥ 0)
  gt0 := fun x => decide (x > 0)
  le0 := fun x => decide (x ≤ 0)
  lt0 := fun x => decide (x < 0)
  isZero := fun x => x == 0

theorem sOps_stamp (t : Int) (h0 : 0 ≤ t) (hb : t + 1000000 < 9223372036854775808) :
    sOps.ofBits (sOps.toBits (sOps.now t)) = t + 1000000 := by
  have hne : ¬ (t + 1000000 = -1000000) := by omega
  have hn : ((t + 1000000).toNat : Int) = t + 1000000 := Int.toNat_of_nonneg (by omega)
  have hlt : (t + 1000000).toNat < 18446744073709551616 := by omega
  have htn : (UInt64.ofNat (t + 1000000).toNat).toNat = (t + 1000000).toNat := by
    rw [UInt64.toNat_ofNat']; exact Nat.mod_eq_of_lt hlt
  have hne2 : ¬ (UInt64.ofNat (t + 1000000).toNat = 0xBFF0000000000000) := by
    intro h
    have h' := congrArg UInt64.toNat h
    rw [htn] at h'
    have : (0xBFF0000000000000 : UInt64).toNat = 13830554455654793216 := by decide
    omega
  simp only [sOps, hne, if_false, hne2, htn, hn]

/-- with exact time the conditions are: the challenge is issued at a non-negative clock reading `t2` not before the last secret
rotation, the listener has rotated at least once, and the response arrives at `t4` with `t2 ≤ t4 < t2 + MAX_COOKIE_LIFETIME` -/
theorem timely_exact (l : LState Int) (t2 t4 : Int) (h0 : 0 ≤ t2) (hb : t2 + 1000000 < 9223372036854775808)
    (h24 : t2 ≤ t4) (hlt : t4 < t2 + Gen.MAX_COOKIE_LIFETIME_S * 1000000) (hact : l.active ≤ 1) (hrot : l.lastSecretUpdate ≤ t2 + 1000000) :
    Timely sOps l t2 t4 := by
  have hs := sOps_stamp t2 h0 hb
  refine ⟨by decide, by decide, ?_, ?_, ?_⟩
  · rw [hs]; simp only [sOps, decide_eq_true_eq]; omega
  · unfold lifeOk; rw [hs]
    simp only [sOps, Gen.MAX_COOKIE_LIFETIME_S, Bool.and_eq_true, decide_eq_true_eq] at hlt ⊢
    omega
  · unfold secretOk; rw [hs]
    have ha : l.active = 0 ∨ l.active = 1 := by omega
    rcases ha with ha | ha <;> simp only [ha, sOps] <;> simp <;> omega

example : Timely sOps ({ lastSecretUpdate := 1000000, active := 0 } : LState Int) 5000000 5200000 :=
  timely_exact _ _ _ (by decide) (by decide) (by decide) (by decide) (by decide) (by decide)

/-! non-vacuity: the wrap values of the cookie-derived sequences -/
example : seqFromCookie [0xFF, 0xFF, 0, 0] 0 = 16383 ∧ seqFromCookie [0xFF, 0xFF, 0, 0] 1 = 0 := by decide

end Utcp.Props.C05
