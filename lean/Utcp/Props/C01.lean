import Utcp.Lemmas.Log
import Utcp.Props.C13
import Utcp.Props.C11
import Utcp.Lemmas.RecvOrder
/-!
# C01 — reliable bunches: exactly once, in order, intact, per channel

Local building blocks, each for arbitrary states and inputs:
* receiver: a reliable bunch is handed on only when its absolute sequence is the next one; an already processed
  sequence is dropped without any callback; a bunch ahead of sequence is queued, sorted, at most once;
  the wire residue of a sequence within the window of 512 is made absolute correctly (C13);
* sender: a reliable send consumes exactly the next sequence of its channel and retains the exact bits it put on
  the wire; a retransmission re-sends those very bits, so every copy of (channel, sequence) on the network encodes
  the same bunch, which the receiver decodes to the bunch that was sent (C11).
Over **every history** (second half of the file, `Lemmas/RecvOrder.lean`): whatever bit strings `ReceivedPacket` is fed —
genuine, duplicated, reordered, corrupted, forged — interleaved with any sends and flushes of the endpoint itself, the
channel sequence numbers of the reliable bunches handed to the application on a channel are **strictly increasing**
(`delivered_in_order`): no reliable bunch is delivered twice, none out of order (`delivered_once`).  The invariant behind it
(`RecvInv`) also covers the fragments of a reliable group still being assembled.  Scope: one incarnation of a channel — the
history contains no `utcp_update` that tears a channel down (after a teardown the numbering of a re-opened channel
legitimately starts again).
The remaining end-to-end statements — that the bunch delivered under sequence `s` *is* the bunch the peer sent under `s`
(needs: the network forges nothing, and the window invariant that keeps the 10-bit wire residue unambiguous), and eventual
delivery — are *not* proved in Lean: they are checked on the real code by the C01 monitor over the fault-injecting
sessions, and the two-endpoint invariant they rest on is written out in DESIGN.md, Appendix A.
-/
namespace Utcp.Props.C01
open Utcp Utcp.Gen

/-- the out-of-order queue is strictly sorted by absolute sequence -/
def Sorted (q : List Bunch) : Prop := q.Pairwise (fun a b => a.chSeq < b.chSeq)

theorem enqueue_mem (b : Bunch) (q q' : List Bunch) (h : enqueueIncoming b q = some q') : ∀ x, x ∈ q' ↔ (x = b ∨ x ∈ q) := by
  induction q generalizing q' with
  | nil => simp [enqueueIncoming] at h; subst h; simp
  | cons a rest ih =>
    unfold enqueueIncoming at h
    split at h
    · simp at h
    · split at h
      · simp at h; subst h; intro x; simp
      · cases hr : enqueueIncoming b rest with
        | none => simp [hr] at h
        | some r =>
          simp [hr] at h; subst h
          intro x
          simp only [List.mem_cons, ih r hr x]
          constructor
          · rintro (h1 | h1 | h1)
            · exact Or.inr (Or.inl h1)
            · exact Or.inl h1
            · exact Or.inr (Or.inr h1)
          · rintro (h1 | h1 | h1)
            · exact Or.inr (Or.inl h1)
            · exact Or.inl h1
            · exact Or.inr (Or.inr h1)

/-- **queueing keeps the order and never duplicates**: the queue stays strictly sorted -/
theorem enqueue_sorted (b : Bunch) (q q' : List Bunch) (hs : Sorted q) (h : enqueueIncoming b q = some q') : Sorted q' := by
  induction q generalizing q' with
  | nil => simp [enqueueIncoming] at h; subst h; simp [Sorted]
  | cons a rest ih =>
    unfold Sorted at hs
    rw [List.pairwise_cons] at hs
    unfold enqueueIncoming at h
    split at h
    · simp at h
    · rename_i hne
      split at h
      · rename_i hlt
        simp at h; subst h
        unfold Sorted
        rw [List.pairwise_cons]
        refine ⟨?_, List.pairwise_cons.mpr hs⟩
        intro x hx
        rcases List.mem_cons.mp hx with rfl | hx
        · exact hlt
        · exact Int.lt_trans hlt (hs.1 x hx)
      · rename_i hnlt
        cases hr : enqueueIncoming b rest with
        | none => simp [hr] at h
        | some r =>
          simp [hr] at h; subst h
          unfold Sorted
          rw [List.pairwise_cons]
          refine ⟨?_, ih r hs.2 hr⟩
          intro x hx
          rcases (enqueue_mem b rest r hr x).mp hx with rfl | hx
          · have : ¬ (x.chSeq = a.chSeq) := by simpa using hne
            omega
          · exact hs.1 x hx

/-- a sequence that is already queued is refused (the node is freed, nothing is queued twice) -/
theorem enqueue_duplicate (b : Bunch) (q : List Bunch) (h : ∃ x ∈ q, x.chSeq = b.chSeq) (hs : Sorted q) : enqueueIncoming b q = none := by
  induction q with
  | nil => simp at h
  | cons a rest ih =>
    unfold Sorted at hs
    rw [List.pairwise_cons] at hs
    unfold enqueueIncoming
    obtain ⟨x, hx, hxe⟩ := h
    rcases List.mem_cons.mp hx with rfl | hx
    · simp [hxe]
    · have hlt := hs.1 x hx
      have h1 : ¬ (b.chSeq = a.chSeq) := by omega
      have h2 : ¬ (b.chSeq < a.chSeq) := by omega
      simp [h1, h2, ih ⟨x, hx, hxe⟩ hs.2]

/-- **already processed ⇒ dropped**: a reliable bunch at or below the channel's counter causes no callback and no
state change beyond releasing its buffer -/
theorem duplicate_dropped (c : Conn) (x : Channel) (b : Bunch) (hrel : b.bReliable = true) (hold : b.chSeq ≤ x.inReliable) :
    c.processBunch x b = (c.emit (.free .node), false) := by
  unfold Conn.processBunch
  simp [hrel, hold]

/-- **only the next sequence is handed on**: whenever `processBunch` passes a reliable bunch to `ReceivedNextBunch`,
its sequence is exactly `InReliable + 1` -/
theorem next_only (c : Conn) (x : Channel) (b : Bunch) (hrel : b.bReliable = true)
    (h : c.processBunch x b = c.receivedNextBunch b) (hne : c.receivedNextBunch b ≠ (c.emit (.free .node), false))
    (hq : ∀ q, c.receivedNextBunch b ≠ (c.setChan b.chIndex { x with inRec := q }, false))
    (hfull : c.receivedNextBunch b ≠ (c.emit (.free .node), true)) : b.chSeq = x.inReliable + 1 := by
  unfold Conn.processBunch at h
  by_cases h1 : b.chSeq ≤ x.inReliable
  · simp [hrel, h1] at h; exact absurd h.symm hne
  · by_cases h2 : b.chSeq = x.inReliable + 1
    · exact h2
    · simp only [hrel, h1, h2, Bool.true_and, decide_false, Bool.false_eq_true, if_false, bne_iff_ne, ne_eq, not_false_eq_true, decide_true, if_true] at h
      split at h
      · exact absurd h.symm hfull
      · cases he : enqueueIncoming b x.inRec with
        | none => simp [he] at h; exact absurd h.symm hne
        | some q => simp [he] at h; exact absurd h.symm (hq q)

/-- the waiting queue is drained only through its head, and only while the head is the next sequence -/
theorem dispatch_stops (fuel : Nat) (c : Conn) (ch : Nat) (x : Channel) (b : Bunch) (rest : List Bunch)
    (hx : c.getChan ch = some x) (hq : x.inRec = b :: rest) (hne : b.chSeq ≠ x.inReliable + 1) :
    Conn.dispatchWaiting (fuel + 1) c ch = c := by
  unfold Conn.dispatchWaiting
  simp [hx, hq, hne]

/-- the wire carries the sequence modulo 1024; against a counter within 512 of it the receiver recovers the absolute value -/
theorem absSeq_recovers (c : Conn) (x : Channel) (b : Bunch) (abs : Int) (hrel : b.bReliable = true)
    (hwire : b.chSeq = abs % 1024) (hwin : x.inReliable - 512 ≤ abs ∧ abs ≤ x.inReliable + 511) :
    (absSeq c x b).chSeq = abs := by
  unfold absSeq
  simp only [hrel, if_true, hwire]
  exact C13.makeRelative_recovers abs x.inReliable hwin

/-- **sender**: a reliable send takes exactly the next sequence number of its channel -/
theorem send_takes_next (e : Env) (c : Conn) (b : Bunch) (h0 : Bits) (x : Channel) (hrel : b.bReliable = true)
    (hx : ((c.getOrCreateChan b false).1.noteClose b).getChan b.chIndex = some x) :
    ∃ c2 : Conn, c2.getChan b.chIndex = some { x with outReliable := x.outReliable + 1 } ∧
      (c.sendCommit e b h0).2 = (c2.prepareWrite e (((encodeBunchHeader { b with chSeq := x.outReliable + 1 }).getD h0).length + b.data.length)).outPacketId := by
  unfold Conn.sendCommit
  simp only [hx, hrel, if_true]
  exact ⟨_, getChan_setChan_self _ _ _, rfl⟩

/-- **retransmission re-sends the retained bits verbatim**: `resendNodes` passes exactly `n.bits` to the send buffer -/
theorem resend_verbatim (e : Env) (c : Conn) (ch : Nat) (n : OutNode) (rest : List OutNode) :
    c.resendNodes e ch (n :: rest) =
      (match ((c.writeBits e n.bits).1).getChan ch with
        | none => (c.writeBits e n.bits).1
        | some x => (c.writeBits e n.bits).1.setChan ch { x with outRec := x.outRec ++ [{ n with packetId := (c.writeBits e n.bits).2 }] }).resendNodes e ch rest := by
  rfl

/-- what is retained for a bunch is its wire encoding, which the peer decodes to the bunch that was sent (C11) -/
theorem retained_bits_decode (b : Bunch) (hwf : WFBunch b) (rest : Bits) :
    ∃ bits, encodeBunch b = some bits ∧ decodeBunch (bits ++ rest) = .ok (wireView b) rest := C11.decode_encode b hwf rest

/-! non-vacuity -/
example : Sorted [{ chSeq := 5 }, { chSeq := 7 }] := by simp [Sorted]
example : enqueueIncoming { chSeq := 6 } [{ chSeq := 5 }, { chSeq := 7 }] = some [{ chSeq := 5 }, { chSeq := 6 }, { chSeq := 7 }] := by decide

/-! ## every history: at most once, in order -/

/-- what the application and the network can do to an endpoint (no channel teardown: one incarnation of each channel) -/
inductive Op where
  | send (b : Bunch)
  | flush
  /-- the body of any datagram handed to `ReceivedPacket` -/
  | recv (bits : Bits)

def apply (e : Env) (c : Conn) : Op → Conn
  | .send b => (c.sendBunch e b).1
  | .flush => c.flush e
  | .recv bits => (c.receivedPacket e bits).1

def run (c : Conn) : List (Env × Op) → Conn
  | [] => c
  | (e, op) :: rest => run (apply e c op) rest

theorem step_order (e : Env) (c : Conn) (op : Op) (h : RecvInv c) : RecvInv (apply e c op) := by
  cases op with
  | send b => exact sendBunch_inv e c b h
  | flush => exact h.of_rsame (flush_rsame e c)
  | recv bits => exact receivedPacket_inv e c bits h

theorem run_order (ops : List (Env × Op)) : ∀ c : Conn, RecvInv c → RecvInv (run c ops) := by
  induction ops with
  | nil => intro c h; exact h
  | cons p rest ih =>
    intro c h
    obtain ⟨e, op⟩ := p
    exact ih _ (step_order e c op h)

/-- the invariant holds on a freshly initialised connection: no channel, nothing delivered -/
theorem fresh_order (i o : Int) : RecvInv (({} : Conn).seqInit i o) :=
  empty_recvinv _ rfl (fun _ => rfl)

/-- **in order**: after any history, the reliable bunches delivered on channel `ch` (oldest first) carry strictly increasing
channel sequence numbers -/
theorem delivered_in_order (ops : List (Env × Op)) (c : Conn) (h : RecvInv c) (ch : Nat) :
    (relLog ch (run c ops).log).Pairwise (· < ·) :=
  (run_order ops c h).increasing ch

/-- **at most once**: no channel sequence number is delivered twice -/
theorem delivered_once (ops : List (Env × Op)) (c : Conn) (h : RecvInv c) (ch : Nat) : (relLog ch (run c ops).log).Nodup := by
  have := delivered_in_order ops c h ch
  exact this.imp (fun hlt => by omega)

/-- and never beyond what the channel has counted: every delivered number is at most the channel's `InReliable` -/
theorem delivered_bounded (ops : List (Env × Op)) (c : Conn) (h : RecvInv c) (ch : Nat) (x : Channel) (hx : (run c ops).getChan ch = some x) :
    ∀ s ∈ relLog ch (run c ops).log, s ≤ x.inReliable :=
  ((run_order ops c h).chans ch _ (chanRecv_of_getChan hx)).dl.2

/-- **the out-of-order queue is bounded** (the repair of defect D15): after any history, a channel never holds `UTCP_RELIABLE_BUFFER` (256)
or more bunches waiting for a missing predecessor — so, with the sender's at most 256 unacknowledged bunches, fewer than 512 sequence
numbers of a channel are in flight, which is what the 10-bit wire sequence can tell apart -/
theorem queue_bounded (ops : List (Env × Op)) (c : Conn) (h : RecvInv c) (ch : Nat) (x : Channel) (hx : (run c ops).getChan ch = some x) :
    x.inRec.length < 256 :=
  ((run_order ops c h).chans ch _ (chanRecv_of_getChan hx)).qlen

/-- a reliable bunch ahead of sequence that finds the queue full is refused: nothing is queued, the node is released, and the packet
is not acknowledged (`skip = true`), so the peer sends the bunch again -/
theorem full_queue_refuses (c : Conn) (x : Channel) (b : Bunch) (hrel : b.bReliable = true) (hahead : b.chSeq > x.inReliable + 1)
    (hfull : x.inRec.length + 1 ≥ reliableBuffer) : c.processBunch x b = (c.emit (.free .node), true) := by
  unfold Conn.processBunch
  have h1 : ¬ (b.chSeq ≤ x.inReliable) := by omega
  have h2 : b.chSeq ≠ x.inReliable + 1 := by omega
  simp [hrel, h1, h2, hfull]

/-! non-vacuity: a fresh connection satisfies the invariant; a concrete history keeps it -/
example : RecvInv (run (({} : Conn).seqInit 3 7) [({}, .send { chIndex := 1, bOpen := true, bReliable := true }), ({}, .flush), ({}, .recv [true, false, true])]) :=
  run_order _ _ (fresh_order 3 7)

end Utcp.Props.C01
