import Utcp.Large
import Utcp.Props.C04
/-!
# C20 — packet-order cache: reordered arrival behaves like in-order arrival

`Wrapped` models `utcp::conn` (peek, priority queue keyed by peeked id, release while `top ≤ expected`,
forced flush).  Proved here: the peek is a pure function that agrees with the acceptance test of the core;
the cache is always sorted; its content after a batch does not depend on the arrival order; a forced flush feeds
it to the core in ascending id order.  Together with C04 (`stale_inert`: a duplicate or overtaken datagram is
inert wherever it lands) this is why reordering alone never drops or NAKs a packet.  Over every sequence of arrivals
(`nothing_dropped`): the wrapper hands every datagram it was given to the core exactly as often as it arrived — none dropped,
none duplicated — once the cache has been flushed.  Releases interleaved with arrivals: `Props/C20_Reorder.lean`.
-/
namespace Utcp.Props.C20
open Utcp Utcp.Gen

abbrev Entry := Int × List UInt8

def insertAll (batch : List Entry) (cache : List Entry) : List Entry := batch.foldl (fun c p => cacheInsert p.1 p.2 c) cache

theorem cacheInsert_perm (pid : Int) (d : List UInt8) (l : List Entry) : (cacheInsert pid d l).Perm ((pid, d) :: l) := by
  induction l with
  | nil => exact List.Perm.refl _
  | cons p rest ih =>
    obtain ⟨k, v⟩ := p
    simp only [cacheInsert]
    split
    · exact List.Perm.refl _
    · exact (List.Perm.cons _ ih).trans (List.Perm.swap _ _ _)

theorem cacheInsert_sorted (pid : Int) (d : List UInt8) (l : List Entry) (h : l.Pairwise (fun a b => a.1 ≤ b.1)) :
    (cacheInsert pid d l).Pairwise (fun a b => a.1 ≤ b.1) := by
  induction l with
  | nil => simp [cacheInsert]
  | cons p rest ih =>
    obtain ⟨k, v⟩ := p
    simp only [cacheInsert]
    rw [List.pairwise_cons] at h
    split
    · rename_i hlt
      rw [List.pairwise_cons]
      refine ⟨?_, List.pairwise_cons.mpr h⟩
      intro b hb
      rcases List.mem_cons.mp hb with rfl | hb
      · exact Int.le_of_lt hlt
      · exact Int.le_trans (Int.le_of_lt hlt) (h.1 b hb)
    · rename_i hge
      rw [List.pairwise_cons]
      refine ⟨?_, ih h.2⟩
      intro b hb
      have := (cacheInsert_perm pid d rest).subset hb
      rcases List.mem_cons.mp this with rfl | hb'
      · exact Int.not_lt.mp hge
      · exact h.1 b hb'

/-- the cache is sorted by peeked id after any sequence of arrivals -/
theorem insertAll_sorted (batch cache : List Entry) (h : cache.Pairwise (fun a b => a.1 ≤ b.1)) :
    (insertAll batch cache).Pairwise (fun a b => a.1 ≤ b.1) := by
  induction batch generalizing cache with
  | nil => exact h
  | cons p ps ih => exact ih _ (cacheInsert_sorted p.1 p.2 cache h)

/-- nothing is lost or invented by the cache -/
theorem insertAll_perm (batch cache : List Entry) : (insertAll batch cache).Perm (batch ++ cache) := by
  induction batch generalizing cache with
  | nil => exact List.Perm.refl _
  | cons p ps ih =>
    have h1 := ih (cacheInsert p.1 p.2 cache)
    have h2 : (ps ++ cacheInsert p.1 p.2 cache).Perm (ps ++ (p :: cache)) := List.Perm.append_left ps (cacheInsert_perm p.1 p.2 cache)
    have h3 : (ps ++ (p :: cache)).Perm ((p :: ps) ++ cache) := by
      simp only [List.cons_append]; exact List.perm_middle
    exact h1.trans (h2.trans h3)

/-- **order independence**: two arrival orders of the same batch (a datagram's id determines its bytes: genuine
datagrams, duplicates included) leave the *same* cache -/
theorem order_independent (b1 b2 : List Entry) (hp : b1.Perm b2)
    (hfun : ∀ x ∈ b1, ∀ y ∈ b1, x.1 = y.1 → x = y) : insertAll b1 [] = insertAll b2 [] := by
  apply List.Perm.eq_of_pairwise (le := fun a b => a.1 ≤ b.1)
  · intro a b ha hb h1 h2
    have ha' : a ∈ b1 := by simpa using (insertAll_perm b1 []).subset ha
    have hb' : b ∈ b1 := by
      have : b ∈ b2 := by simpa using (insertAll_perm b2 []).subset hb
      exact hp.symm.subset this
    exact hfun a ha' b hb' (Int.le_antisymm h1 h2)
  · exact insertAll_sorted b1 [] List.Pairwise.nil
  · exact insertAll_sorted b2 [] List.Pairwise.nil
  · have h1 := insertAll_perm b1 []
    have h2 := insertAll_perm b2 []
    simp only [List.append_nil] at h1 h2
    exact h1.trans (hp.trans h2.symm)

/-- feed a list of datagrams to the core, in order -/
def feed {T} (tm : TimeOps T) (e : Env) : Endpoint → Rng → List Entry → Endpoint × Rng
  | ep, rng, [] => (ep, rng)
  | ep, rng, p :: ps => let r := ep.incoming tm e rng p.2; feed tm e r.1 r.2.1 ps

/-- **a forced flush hands the whole cache to the core in ascending id order** and empties it -/
theorem flush_forced {T} (tm : TimeOps T) (e : Env) (w : Wrapped) (rng : Rng) (fuel : Nat) (hf : w.cache.length ≤ fuel) :
    (w.flushCache tm e fuel rng true).1.cache = [] ∧
    ((w.flushCache tm e fuel rng true).1.ep, (w.flushCache tm e fuel rng true).2) = feed tm e w.ep rng w.cache := by
  induction fuel generalizing w rng with
  | zero =>
    have : w.cache = [] := List.length_eq_zero_iff.mp (by omega)
    simp [Wrapped.flushCache, this, feed]
  | succ f ih =>
    unfold Wrapped.flushCache
    cases hc : w.cache with
    | nil => simp [feed, hc]
    | cons p rest =>
      obtain ⟨pid, d⟩ := p
      simp only [Bool.not_true, Bool.false_and, Bool.false_eq_true, if_false]
      have := ih { ep := (w.ep.incoming tm e rng d).1, cache := rest } (w.ep.incoming tm e rng d).2.1 (by simp [hc] at hf; simpa using hf)
      simp only [feed]
      exact this

/-- the peek is a function of the connection and the bytes; it returns a connection-independent verdict for
unparsable and handshake datagrams … -/
theorem peek_nonpositive_cases (e : Env) (ep : Endpoint) (bytes : List UInt8) :
    (readInit bytes = none → ep.peek e bytes = -1) ∧
    (∀ bits, readInit bytes = some bits → (∀ r, readOutgoingHeader e bits = .fail r → ep.peek e bytes = -2) ∧
       (∀ s c rest, readOutgoingHeader e bits = .ok (s, c, true) rest → ep.peek e bytes = 0)) := by
  refine ⟨fun h => by simp [Endpoint.peek, h], fun bits hb => ⟨fun r hr => by simp [Endpoint.peek, hb, hr], fun s c rest hr => by simp [Endpoint.peek, hb, hr]⟩⟩

/-- … and for a data datagram whose header parses it is `-8` when the core would treat it as stale, and otherwise
exactly `InPacketId + delta`, the id `ReceivedPacket` assigns when it accepts the packet -/
theorem peek_data (e : Env) (ep : Endpoint) (bytes : List UInt8) (bits rest r1 r2 : Bits) (s c packed : Nat) (hist : Bits)
    (hb : readInit bytes = some bits) (hh : readOutgoingHeader e bits = .ok (s, c, false) rest)
    (hp : readU32 rest = .ok packed r1) (hw : readBits (32 * min histWordsMax (packed % 16 + 1)) r1 = .ok hist r2) :
    let h : NotifHeader := { seq := ((packed / 2^18 % 16384 : Nat) : Int), ackedSeq := ((packed / 16 % 16384 : Nat) : Int),
                             words := min histWordsMax (packed % 16 + 1), hist := hist }
    ep.peek e bytes = if ep.c.notify.deltaSeq h ≤ 0 then -8 else ep.c.inPacketId + ep.c.notify.deltaSeq h := by
  simp [Endpoint.peek, hb, hh, hp, hw]

/-- the core's acceptance uses the same header fields and the same test: when `ReceivedPacket` accepts, the packet
id becomes `InPacketId + delta` for the same `delta` the peek computed -/
theorem core_assigns_peeked_id (e : Env) (c : Conn) (bits : Bits) (h : NotifHeader) (rest : Bits)
    (hd : decodePacketHeader bits = .ok (h, rest)) (hpos : c.notify.deltaSeq h > 0) :
    ∃ c', (c.receivedPacket e bits).1 = c' ∧
      c' = (let c1 := { c with inPacketId := c.inPacketId + c.notify.deltaSeq h }
            let c2 := c1.notifyUpdate e h
            let r := Conn.bunchLoop (rest.length + 1) c2 rest false
            { r.1 with notify := r.1.notify.ackSeq r.1.inPacketId (!r.2.2) }) := by
  refine ⟨_, rfl, ?_⟩
  unfold Conn.receivedPacket
  have : ¬ (c.notify.deltaSeq h ≤ 0) := by omega
  simp [hd, this]

/-! non-vacuity -/
example : insertAll [(3, [3]), (1, [1]), (2, [2]), (1, [1])] [] = [(1, [1]), (1, [1]), (2, [2]), (3, [3])] := by decide

/-! ## every history: the wrapper neither drops nor duplicates a datagram -/

/-- `flushCache` with a ghost: the datagrams handed to the core, in the order they were handed over -/
def flushCacheG {T} (tm : TimeOps T) (e : Env) (fuel : Nat) (w : Wrapped) (rng : Rng) (forced : Bool) (fed : List (List UInt8)) :
    Wrapped × Rng × List (List UInt8) :=
  match fuel with
  | 0 => (w, rng, fed)
  | fuel+1 =>
    match w.cache with
    | [] => (w, rng, fed)
    | (pid, d) :: rest =>
      let expected := w.ep.c.inPacketId + 1
      if !forced && expected != -1 && decide (pid > expected) then (w, rng, fed) else
      let (ep, rng, _) := w.ep.incoming tm e rng d
      flushCacheG tm e fuel { ep := ep, cache := rest } rng forced (fed ++ [d])

theorem flushCacheG_eq {T} (tm : TimeOps T) (e : Env) (fuel : Nat) : ∀ (w : Wrapped) (rng : Rng) (forced : Bool) (fed : List (List UInt8)),
    ((flushCacheG tm e fuel w rng forced fed).1, (flushCacheG tm e fuel w rng forced fed).2.1) = w.flushCache tm e fuel rng forced := by
  induction fuel with
  | zero => intros; rfl
  | succ f ih =>
    intro w rng forced fed
    unfold flushCacheG Wrapped.flushCache
    cases hc : w.cache with
    | nil => rfl
    | cons p rest =>
      obtain ⟨pid, d⟩ := p
      dsimp only
      by_cases hcond : (!forced && w.ep.c.inPacketId + 1 != -1 && decide (pid > w.ep.c.inPacketId + 1)) = true
      · simp only [hcond, if_true]
      · simp only [hcond, Bool.false_eq_true, if_false]
        exact ih _ _ _ _

/-- a flush only moves datagrams from the front of the cache to the core: what was fed so far followed by what is still cached
is unchanged -/
theorem flushCacheG_conserves {T} (tm : TimeOps T) (e : Env) (fuel : Nat) : ∀ (w : Wrapped) (rng : Rng) (forced : Bool) (fed : List (List UInt8)),
    (flushCacheG tm e fuel w rng forced fed).2.2 ++ (flushCacheG tm e fuel w rng forced fed).1.cache.map (·.2) = fed ++ w.cache.map (·.2) := by
  induction fuel with
  | zero => intros; rfl
  | succ f ih =>
    intro w rng forced fed
    unfold flushCacheG
    cases hc : w.cache with
    | nil => simp [hc]
    | cons p rest =>
      obtain ⟨pid, d⟩ := p
      dsimp only
      by_cases hcond : (!forced && w.ep.c.inPacketId + 1 != -1 && decide (pid > w.ep.c.inPacketId + 1)) = true
      · simp only [hcond, if_true, hc]
      · simp only [hcond, Bool.false_eq_true, if_false]
        rw [ih]; simp

/-- `conn::incoming` with the ghost -/
def incomingG {T} (tm : TimeOps T) (e : Env) (w : Wrapped) (rng : Rng) (d : List UInt8) (fed : List (List UInt8)) : Wrapped × Rng × List (List UInt8) :=
  let pid := w.ep.peek e d
  if pid ≤ 0 then
    let (ep, rng, _) := w.ep.incoming tm e rng d
    ({ w with ep := ep }, rng, fed ++ [d])
  else
    let w := { w with cache := cacheInsert pid d w.cache }
    flushCacheG tm e w.cache.length w rng false fed

theorem incomingG_eq {T} (tm : TimeOps T) (e : Env) (w : Wrapped) (rng : Rng) (d : List UInt8) (fed : List (List UInt8)) :
    ((incomingG tm e w rng d fed).1, (incomingG tm e w rng d fed).2.1) = w.incoming tm e rng d := by
  unfold incomingG Wrapped.incoming
  dsimp only
  split
  · rfl
  · exact flushCacheG_eq tm e _ _ _ _ _

/-- one arrival: the datagrams fed plus the datagrams cached are, up to order, the previous ones plus the new one -/
theorem incomingG_conserves {T} (tm : TimeOps T) (e : Env) (w : Wrapped) (rng : Rng) (d : List UInt8) (fed : List (List UInt8)) :
    ((incomingG tm e w rng d fed).2.2 ++ (incomingG tm e w rng d fed).1.cache.map (·.2)).Perm (d :: (fed ++ w.cache.map (·.2))) := by
  unfold incomingG
  dsimp only
  split
  · simp only
    refine List.Perm.trans ?_ (List.perm_middle (l₁ := fed) (a := d) (l₂ := w.cache.map (·.2)))
    simp
  · rw [flushCacheG_conserves]
    have hp := (cacheInsert_perm (w.ep.peek e d) d w.cache).map (·.2)
    simp only [List.map_cons] at hp
    exact (List.Perm.append_left fed hp).trans (List.perm_middle (l₁ := fed) (a := d) (l₂ := w.cache.map (·.2)))

/-- a whole sequence of arrivals through the wrapper -/
def arrivals {T} (tm : TimeOps T) (e : Env) : Wrapped → Rng → List (List UInt8) → List (List UInt8) → Wrapped × Rng × List (List UInt8)
  | w, rng, fed, [] => (w, rng, fed)
  | w, rng, fed, d :: ds => let r := incomingG tm e w rng d fed; arrivals tm e r.1 r.2.1 r.2.2 ds

theorem arrivals_conserve {T} (tm : TimeOps T) (e : Env) (ds : List (List UInt8)) : ∀ (w : Wrapped) (rng : Rng) (fed : List (List UInt8)),
    ((arrivals tm e w rng fed ds).2.2 ++ (arrivals tm e w rng fed ds).1.cache.map (·.2)).Perm (ds ++ (fed ++ w.cache.map (·.2))) := by
  induction ds with
  | nil => intro w rng fed; simp [arrivals]
  | cons d rest ih =>
    intro w rng fed
    simp only [arrivals]
    refine (ih _ _ _).trans ?_
    refine (List.Perm.append_left rest (incomingG_conserves tm e w rng d fed)).trans ?_
    simp only [List.cons_append]
    exact (List.perm_middle (l₁ := rest) (a := d) (l₂ := fed ++ w.cache.map (·.2)))

/-- **reordering never drops a packet**: after any sequence of arrivals through the wrapper (any order, duplicates included) and
a forced flush, the datagrams handed to the core are exactly the datagrams that arrived — each as often as it arrived — and the
cache is empty -/
theorem nothing_dropped {T} (tm : TimeOps T) (e : Env) (ds : List (List UInt8)) (rng : Rng) (w0 : Wrapped) (h0 : w0.cache = []) :
    let a := arrivals tm e w0 rng [] ds
    let f := flushCacheG tm e a.1.cache.length a.1 a.2.1 true a.2.2
    f.1.cache = [] ∧ f.2.2.Perm ds := by
  intro a f
  have hc := arrivals_conserve tm e ds w0 rng []
  simp only [h0, List.map_nil, List.append_nil] at hc
  have hf := flushCacheG_conserves tm e a.1.cache.length a.1 a.2.1 true a.2.2
  have he := flushCacheG_eq tm e a.1.cache.length a.1 a.2.1 true a.2.2
  have hff := (flush_forced tm e a.1 a.2.1 a.1.cache.length (Nat.le_refl _)).1
  have hcache : f.1.cache = [] := by
    have : f.1 = (a.1.flushCache tm e a.1.cache.length a.2.1 true).1 := congrArg Prod.fst he
    rw [this]; exact hff
  refine ⟨hcache, ?_⟩
  have : f.2.2 ++ f.1.cache.map (·.2) = a.2.2 ++ a.1.cache.map (·.2) := hf
  rw [hcache] at this
  simp only [List.map_nil, List.append_nil] at this
  rw [this]; exact hc

end Utcp.Props.C20
