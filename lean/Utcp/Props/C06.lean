import Utcp.Handshake
import Utcp.Props.C08
/-!
# C06 — the listener accepts only a fresh cookie it issued to that very address

The MAC is a parameter (`mac : secret → message → cookie`).  "Cannot be forged without the secret" is the
usual symbolic assumption about `mac` and is *not* provable; what is proved is the decision logic around it:
an acceptance happens iff the datagram carries, for exactly the presenting address, the MAC under one of the
listener's two current secrets of (timestamp, address), inside the lifetime window, with a secret id that is
consistent with the last rotation.
-/
namespace Utcp.Props.C06
open Utcp

/-- the message that is authenticated: timestamp, address length, address bytes (`GenerateCookie`) -/
def cookieInput (ts : UInt64) (addr : String) : List UInt8 := le64 ts.toNat ++ le64 addr.toUTF8.toList.length ++ addr.toUTF8.toList

theorem cookie_eq {T} (mac : Mac) (l : LState T) (addr : String) (sid : Bool) (ts : UInt64) :
    l.cookie mac addr sid ts = mac (if sid then l.secret1 else l.secret0) (cookieInput ts addr) := rfl

/-- the three tests a response must pass -/
structure Passes {T} (tm : TimeOps T) (mac : Mac) (e : Env) (l : LState T) (addr : String) (hs : HsData) : Prop where
  /-- not in the future, and younger than the maximum cookie lifetime -/
  fresh : LState.validLife tm e hs = true
  /-- issued under the current secret after the last rotation, or under the previous secret before it -/
  slot : l.validSecret tm hs = true
  /-- the cookie is the MAC, under that secret, of this timestamp and *this* address -/
  mac_ok : hs.cookie = mac (if hs.secretId then l.secret1 else l.secret0) (cookieInput hs.ts addr)

theorem decision_zero_iff {T} (tm : TimeOps T) (mac : Mac) (e : Env) (l : LState T) (addr : String) (hs : HsData) :
    l.decision tm mac e addr hs = 0 ↔ Passes tm mac e l addr hs := by
  unfold LState.decision
  have hck : l.cookieOk mac addr hs = true ↔ hs.cookie = mac (if hs.secretId then l.secret1 else l.secret0) (cookieInput hs.ts addr) := by
    unfold LState.cookieOk; rw [cookie_eq]
    constructor
    · intro h; exact (beq_iff_eq.mp h).symm
    · intro h; exact beq_iff_eq.mpr h.symm
  constructor
  · intro h
    cases h1 : LState.validLife tm e hs <;> cases h2 : l.validSecret tm hs <;> cases h3 : l.cookieOk mac addr hs <;> simp [h1, h2, h3] at h
    exact ⟨h1, h2, hck.mp h3⟩
  · intro ⟨h1, h2, h3⟩
    simp [h1, h2, hck.mpr h3]

/-- every failure code names the test that failed -/
theorem decision_codes {T} (tm : TimeOps T) (mac : Mac) (e : Env) (l : LState T) (addr : String) (hs : HsData) :
    (l.decision tm mac e addr hs = -6 ↔ (LState.validLife tm e hs && l.validSecret tm hs) = false) ∧
    (l.decision tm mac e addr hs = -7 ↔ ((LState.validLife tm e hs && l.validSecret tm hs) = true ∧ l.cookieOk mac addr hs = false)) := by
  unfold LState.decision
  cases h1 : (LState.validLife tm e hs && l.validSecret tm hs) <;> cases h3 : l.cookieOk mac addr hs <;> simp

/-- **accept iff** (non-empty address): the listener reports an acceptance exactly when the datagram is a
well-framed, size-valid handshake packet that is not an initial packet and passes the three tests -/
theorem accept_iff {T} (tm : TimeOps T) (mac : Mac) (e : Env) (rng : Rng) (l : LState T) (addr : String) (bytes : List UInt8)
    (hne : addr.isEmpty = false) :
    (l.react tm mac e rng addr bytes).acc.isSome = true ↔
      ∃ bits s client rest hs, readInit bytes = some bits ∧ readOutgoingHeader e bits = .ok (s, client, true) rest ∧ parseHandshake rest = some hs
        ∧ (hs.ptype == ptInitial && tm.isZero (tm.ofBits hs.ts)) = false ∧ Passes tm mac e l addr hs := by
  unfold LState.react
  constructor
  · intro h
    split at h
    · simp at h
    · rename_i bits hbits
      split at h
      · simp at h
      · rename_i s client isHs rest hhdr
        split at h
        · simp at h
        · rename_i hishs
          split at h
          · simp at h
          · rename_i hs hparse
            unfold LState.onHandshake at h
            by_cases hinit : (hs.ptype == ptInitial && tm.isZero (tm.ofBits hs.ts)) = true
            · simp [hinit, hne] at h
            · simp only [hinit, Bool.false_eq_true, if_false] at h
              by_cases hv : (l.decision tm mac e addr hs != 0) = true
              · simp [hv] at h
              · have hz : l.decision tm mac e addr hs = 0 := by simpa using hv
                have hi : isHs = true := by simpa using hishs
                subst hi
                exact ⟨bits, s, client, rest, hs, hbits, hhdr, hparse, by simpa using hinit, (decision_zero_iff tm mac e l addr hs).mp hz⟩
  · intro ⟨bits, s, client, rest, hs, h1, h2, h3, h4, h5⟩
    have hz := (decision_zero_iff tm mac e l addr hs).mpr h5
    simp only [h1, h2, h3, Bool.not_true, Bool.false_eq_true, if_false]
    unfold LState.onHandshake
    simp [h4, hz]

/-- the authenticated message determines timestamp and address: a cookie issued to one address is the MAC of a
*different* message for every other address (so presenting it from elsewhere fails unless `mac` collides) -/
theorem le64_length (n : Nat) : (le64 n).length = 8 := by simp [le64]

theorem cookieInput_injective (ts ts' : UInt64) (a a' : String) (h : cookieInput ts a = cookieInput ts' a') :
    le64 ts.toNat = le64 ts'.toNat ∧ a.toUTF8.toList = a'.toUTF8.toList := by
  unfold cookieInput at h
  rw [List.append_assoc, List.append_assoc] at h
  have h1 := List.append_inj h (by simp [le64_length])
  have h2 := List.append_inj h1.2 (by simp [le64_length])
  exact ⟨h1.1, h2.2⟩

/-- an acceptance hands the application the sequence numbers encoded in the *accepted datagram's* cookie — nothing
the listener remembers enters, so earlier datagrams (accepted or not) cannot influence them -/
theorem accepted_sequences {T} (tm : TimeOps T) (mac : Mac) (e : Env) (rng : Rng) (l : LState T) (addr : String) (client : Nat) (hs : HsData)
    (a : Accepted) (h : (l.onHandshake tm mac e rng addr client hs).acc = some a) (hne : addr.isEmpty = false) (hr : hs.restart = false) :
    a.serverSeq = seqFromCookie hs.cookie 0 ∧ a.clientSeq = seqFromCookie hs.cookie 1 ∧ a.cookie = hs.cookie ∧ a.addr = addr := by
  unfold LState.onHandshake at h
  by_cases hinit : (hs.ptype == ptInitial && tm.isZero (tm.ofBits hs.ts)) = true
  · simp [hinit, hne] at h
  · simp only [hinit, Bool.false_eq_true, if_false] at h
    by_cases hv : (l.decision tm mac e addr hs != 0) = true
    · simp [hv] at h
    · simp [hv, hr] at h
      subst h; simp

/-- non-accepting datagrams have no effect at all (C08), in particular on any later acceptance -/
theorem no_effect {T} (tm : TimeOps T) (mac : Mac) (l : LState T) (ds : List C08.Input) (h : C08.NonCompleting tm mac l ds) (i : C08.Input) :
    (C08.run tm mac l ds).react tm mac i.e i.rng i.addr i.bytes = l.react tm mac i.e i.rng i.addr i.bytes :=
  C08.history_free_reply tm mac l ds h i

/-- the address capacity obligation of `GenerateCookie` (defect D6): timestamp + length + a 63-character address
and its terminator fit the stack buffer, with the extents read from the current source -/
theorem cookie_buffer_fits : Gen.SIZEOF_DOUBLE + Gen.SIZEOF_SIZE_T + Gen.ADDRSTR_PORT_SIZE ≤ Gen.EXTENT_CookieData
    ∧ 64 + Gen.EXTENT_CookieData ≤ Gen.EXTENT_IKeyPad_Data := by decide

end Utcp.Props.C06
