import Utcp.Props.C20_Reorder
/-! # C18, continued: the header of a genuine datagram ahead of the counter is accepted by an in-sync peer (uses the burst lemmas of C20_Reorder) -/
namespace Utcp.Props.C20
open Utcp Utcp.Gen

/-- **a genuine data datagram ahead of the counter is accepted**: for a receiver in a burst state (`RBurst`: 14-bit receive sequence = counter mod 2^14,
nothing newly acknowledged), a data datagram whose header parses, carries the id `key` (mod 2^14) with `counter < key ≤ counter + 8191` and acknowledges what
the receiver already knows, moves the counter to exactly `key` - whatever the bunches inside it do.  In particular the next datagram in order
(`key = counter + 1`) is never refused by an in-sync peer. -/
theorem ahead_datagram_accepted {T} (tm : TimeOps T) (e : Env) (ep : Endpoint) (rng : Rng) (d : List UInt8) (key A O : Int)
    (hd : DataDg e d (key % 16384) A) (hR : RBurst A O ep)
    (hparse : ∃ bits s c rest h body, readInit d = some bits ∧ readOutgoingHeader e bits = .ok (s, c, false) rest ∧ decodePacketHeader rest.dropLast = .ok (h, body))
    (hAA : seq_num_greater_equal A A = true) (hOA : seq_num_greater_than O A = true) (hAAn : seq_num_greater_than A A = false)
    (hw : ep.c.inPacketId < key ∧ key ≤ ep.c.inPacketId + 8191) :
    (ep.incoming tm e rng d).1.c.inPacketId = key ∧ RBurst A O (ep.incoming tm e rng d).1 := by
  obtain ⟨hR', hstep⟩ := step_burst tm e ep rng d key A O hd hR hAA hOA hAAn ⟨by omega, by omega⟩
  refine ⟨?_, hR'⟩
  rcases hstep with h | ⟨_, h⟩
  · -- the counter did not move: impossible, the header is accepted
    exfalso
    obtain ⟨bits, s, c, rest, packed, r1, hist, r2, hri, hro, hne, hru, hrb, hseq, hack, hdec⟩ := hd
    obtain ⟨bits', s', c', rest', hh, body, hri', hro', hdp⟩ := hparse
    rw [hri] at hri'; cases hri'
    rw [hro] at hro'; cases hro'
    obtain ⟨hs1, hs2⟩ := hdec hh body hdp
    have hdelta := delta_burst ep.c.notify hh ep.c.inPacketId key A O hR.2.2 hR.1 hR.2.1 hs1 hs2 hAA hOA ⟨by omega, by omega⟩
    have hk : key > ep.c.inPacketId := hw.1
    rw [if_pos hk] at hdelta
    -- unfold the receive path far enough to read the counter off
    unfold Endpoint.incoming at h
    simp only [hri, hro, Bool.false_eq_true, if_false, hne] at h
    unfold Conn.receivedPacket at h
    simp only [hdp] at h
    have hpos : ¬ (({ ep.c with lastSessionId := s, lastClientId := c, lastRecvMs := e.nowMs } : Conn).notify.deltaSeq hh ≤ 0) := by
      show ¬ (ep.c.notify.deltaSeq hh ≤ 0)
      rw [hdelta]; omega
    rw [if_neg hpos] at h
    simp only at h
    generalize hc2 : ({ ({ ep.c with lastSessionId := s, lastClientId := c, lastRecvMs := e.nowMs } : Conn) with
        inPacketId := ep.c.inPacketId + ({ ep.c with lastSessionId := s, lastClientId := c, lastRecvMs := e.nowMs } : Conn).notify.deltaSeq hh } : Conn).notifyUpdate e hh = c2 at h
    have hu : c2.inPacketId = ep.c.inPacketId + ep.c.notify.deltaSeq hh := by
      rw [← hc2]
      unfold Conn.notifyUpdate
      have : seq_num_greater_than hh.ackedSeq ep.c.notify.outAckSeq = false := by rw [hs2, hR.1]; exact hAAn
      simp only [this, Bool.false_eq_true, if_false]
    have hsame := bunchLoop_sameN (body.length + 1) c2 body false
    generalize Conn.bunchLoop (body.length + 1) c2 body false = r at hsame h
    obtain ⟨c3, rest3, skip⟩ := r
    simp only at hsame h
    rw [hsame.inPacketId, hu, hdelta] at h
    omega
  · exact h

end Utcp.Props.C20
