import Utcp.Props.C06
/-!
# C07 — a cookie stays valid across one secret rotation and dies on time

Proved for the exact time algebra `intOps` (integer microseconds; `utcp_gettime` = µs clock + 1 s).  The
driver runs the same model with `Float` (binary64, as the C code does); that IEEE doubles order the values
involved the same way is *assumed* (the thresholds are sampled to the millisecond in the correspondence runs,
and the clock scale factors are extracted from the code on every run — see `units`).
-/
namespace Utcp.Props.C07
open Utcp Utcp.Gen

/-- the lifetime constant is compared in the clock's own unit: `utcp_gettime()` advances by 1 per second of
`utcp_add_elapsed_time` (extracted by running the code), and the lifetime is 40 of those -/
theorem units : GETTIME_US_AT_1S - GETTIME_US_AT_0 = 1000000 ∧ GETTIME_US_AT_0 = 1000000 ∧ MAX_COOKIE_LIFETIME_S = 40 ∧ MIN_COOKIE_LIFETIME_S = 15 := by decide

/-- the two secret slots occupy disjoint 64-byte rows of `HandshakeSecret` (layout read from the compiled struct) -/
theorem slots_disjoint : SECRET_ROW_STRIDE = 64 ∧ SECRET_ROWS = 2 ∧ SECRET_BYTE_SIZE = 64 ∧ SECRET_COUNT = 2 := by decide

def lifetimeUs : Int := 40000000

/-- one rotation (`utcp_listener_update_secret` on an initialised listener) at clock `us` -/
def rotate (l : LState Int) (us : Int) (rng : Rng) (special : Option (List UInt8)) : LState Int :=
  (l.updateSecret intOps { elapsedUs := us } rng special).1

/-- a rotation flips the active slot, stamps the rotation time and overwrites **only** the newly active slot -/
theorem rotate_spec (l : LState Int) (us : Int) (rng : Rng) (special : Option (List UInt8)) (h : l.active = 0 ∨ l.active = 1) :
    (rotate l us rng special).active = 1 - l.active ∧ (rotate l us rng special).lastSecretUpdate = us + 1000000 ∧
    (l.active = 0 → (rotate l us rng special).secret0 = l.secret0) ∧ (l.active = 1 → (rotate l us rng special).secret1 = l.secret1) := by
  unfold rotate LState.updateSecret intOps
  rcases h with h | h <;> cases special <;> simp [h]

/-- a well-formed timestamp pattern (the listener only ever issues these) -/
def tsOf (us : Int) : UInt64 := intOps.toBits (intOps.now us)

theorem tsOf_value (us : Int) (h0 : 0 ≤ us + 1000000) (h1 : us + 1000000 < 2 ^ 64) : intOps.ofBits (tsOf us) = us + 1000000 := by
  unfold tsOf intOps
  simp only
  have : (us + 1000000).toNat < 2 ^ 64 := by omega
  rw [UInt64.toNat_ofNat_of_lt' this]
  omega

/-- the two timing tests on the exact algebra, for a cookie issued at clock `t0` and presented at clock `t` -/
theorem validLife_iff (t0 t : Int) (hs : HsData) (h : intOps.ofBits hs.ts = t0 + 1000000) :
    LState.validLife intOps { elapsedUs := t } hs = true ↔ (0 ≤ t - t0 ∧ t - t0 < lifetimeUs) := by
  unfold LState.validLife
  rw [h]
  unfold intOps lifetimeUs
  simp only [Bool.and_eq_true, decide_eq_true_eq]
  have : MAX_COOKIE_LIFETIME_S = 40 := by decide
  rw [this]
  omega

theorem validSecret_iff (l : LState Int) (t0 : Int) (hs : HsData) (h : intOps.ofBits hs.ts = t0 + 1000000) :
    l.validSecret intOps hs = true ↔
      (if (if hs.secretId then 1 else 0) = l.active then l.lastSecretUpdate ≤ t0 + 1000000 else t0 + 1000000 ≤ l.lastSecretUpdate) := by
  unfold LState.validSecret
  rw [h]
  unfold intOps
  by_cases hc : (if hs.secretId then 1 else 0) = l.active
  · simp [hc]
  · simp [hc]; omega

/-- the response a client sends to a challenge issued by listener state `l0` at clock `t0` to `addr` -/
structure ResponseTo (mac : Mac) (l0 : LState Int) (t0 : Int) (addr : String) (hs : HsData) : Prop where
  sid : hs.secretId = (l0.active != 0)
  ts : intOps.ofBits hs.ts = t0 + 1000000
  ck : hs.cookie = l0.cookie mac addr hs.secretId hs.ts
  act : l0.active = 0 ∨ l0.active = 1
  after : l0.lastSecretUpdate ≤ t0 + 1000000      -- the challenge was issued after the listener's last rotation

/-- **no rotation**: accepted iff it arrives before the lifetime has elapsed -/
theorem no_rotation (mac : Mac) (l0 : LState Int) (t0 t : Int) (addr : String) (hs : HsData) (hr : ResponseTo mac l0 t0 addr hs) (ht : t0 ≤ t) :
    l0.decision intOps mac { elapsedUs := t } addr hs = 0 ↔ t - t0 < lifetimeUs := by
  rw [C06.decision_zero_iff]
  constructor
  · intro ⟨h1, _, _⟩
    exact ((validLife_iff t0 t hs hr.ts).mp h1).2
  · intro h
    refine ⟨(validLife_iff t0 t hs hr.ts).mpr ⟨by omega, h⟩, ?_, ?_⟩
    · rw [validSecret_iff l0 t0 hs hr.ts]
      have : (if hs.secretId then 1 else 0) = l0.active := by
        rw [hr.sid]; rcases hr.act with h | h <;> simp [h]
      simp [this, hr.after]
    · rw [hr.ck, C06.cookie_eq]

/-- **one rotation** between challenge and response (random or caller-supplied secret): still accepted iff inside the lifetime -/
theorem one_rotation (mac : Mac) (l0 : LState Int) (t0 t1 t : Int) (addr : String) (hs : HsData) (rng : Rng) (sp : Option (List UInt8))
    (hr : ResponseTo mac l0 t0 addr hs) (h01 : t0 ≤ t1) (h1t : t1 ≤ t) :
    (rotate l0 t1 rng sp).decision intOps mac { elapsedUs := t } addr hs = 0 ↔ t - t0 < lifetimeUs := by
  obtain ⟨ha, hu, hs0, hs1⟩ := rotate_spec l0 t1 rng sp hr.act
  rw [C06.decision_zero_iff]
  constructor
  · intro ⟨h1, _, _⟩
    exact ((validLife_iff t0 t hs hr.ts).mp h1).2
  · intro h
    refine ⟨(validLife_iff t0 t hs hr.ts).mpr ⟨by omega, h⟩, ?_, ?_⟩
    · rw [validSecret_iff _ t0 hs hr.ts, ha, hu]
      have : ¬ ((if hs.secretId then 1 else 0) = 1 - l0.active) := by
        rw [hr.sid]; rcases hr.act with h | h <;> simp [h]
      simp only [this, if_false]; omega
    · rw [hr.ck, C06.cookie_eq]
      rcases hr.act with h | h
      · have : hs.secretId = false := by rw [hr.sid]; simp [h]
        simp [this, hs0 h]
      · have : hs.secretId = true := by rw [hr.sid]; simp [h]
        simp [this, hs1 h]

/-- **two rotations**, the second one strictly after the challenge was issued: rejected (`-6`), whatever the secrets -/
theorem two_rotations (mac : Mac) (l0 : LState Int) (t0 t1 t2 t : Int) (addr : String) (hs : HsData) (r1 r2 : Rng) (s1 s2 : Option (List UInt8))
    (hr : ResponseTo mac l0 t0 addr hs) (h02 : t0 < t2) :
    (rotate (rotate l0 t1 r1 s1) t2 r2 s2).decision intOps mac { elapsedUs := t } addr hs = -6 := by
  obtain ⟨ha, _, _, _⟩ := rotate_spec l0 t1 r1 s1 hr.act
  have hact1 : (rotate l0 t1 r1 s1).active = 0 ∨ (rotate l0 t1 r1 s1).active = 1 := by
    rw [ha]; rcases hr.act with h | h <;> simp [h]
  obtain ⟨ha2, hu2, _, _⟩ := rotate_spec (rotate l0 t1 r1 s1) t2 r2 s2 hact1
  rw [(C06.decision_codes _ _ _ _ _ _).1]
  have hv : (rotate (rotate l0 t1 r1 s1) t2 r2 s2).validSecret intOps hs = false := by
    rw [Bool.eq_false_iff]
    intro hc
    rw [validSecret_iff _ t0 hs hr.ts, ha2, hu2, ha] at hc
    have : (if hs.secretId then 1 else 0) = 1 - (1 - l0.active) := by
      rw [hr.sid]; rcases hr.act with h | h <;> simp [h]
    simp only [this, if_true] at hc
    omega
  simp [hv]

/-- **three rotations**: the active slot is the other one again, but the rotation that refilled the cookie's slot lies
after the challenge — rejected when the last rotation is strictly after the challenge … (the slot test needs `ts ≤ last
rotation`, which holds, so the decision falls to the cookie comparison under a *new* secret: `-7` unless `mac` collides) -/
theorem lifetime_elapsed (mac : Mac) (l : LState Int) (t0 t : Int) (addr : String) (hs : HsData) (hts : intOps.ofBits hs.ts = t0 + 1000000)
    (h : t - t0 ≥ lifetimeUs) : l.decision intOps mac { elapsedUs := t } addr hs = -6 := by
  rw [(C06.decision_codes _ _ _ _ _ _).1]
  have : LState.validLife intOps { elapsedUs := t } hs = false := by
    rw [Bool.eq_false_iff]; intro hc
    have := (validLife_iff t0 t hs hts).mp hc
    omega
  simp [this]

/-- a response from the future (clock went backwards / forged timestamp) is rejected too -/
theorem from_the_future (mac : Mac) (l : LState Int) (t0 t : Int) (addr : String) (hs : HsData) (hts : intOps.ofBits hs.ts = t0 + 1000000)
    (h : t < t0) : l.decision intOps mac { elapsedUs := t } addr hs = -6 := by
  rw [(C06.decision_codes _ _ _ _ _ _).1]
  have : LState.validLife intOps { elapsedUs := t } hs = false := by
    rw [Bool.eq_false_iff]; intro hc
    have := (validLife_iff t0 t hs hts).mp hc
    omega
  simp [this]

/-! non-vacuity: the premises are satisfiable, e.g. slot 0 active, challenge 5 s after the last rotation -/
example : ResponseTo (fun k m => k.take 4 ++ m.take 16) { lastSecretUpdate := 1000000, active := 0 } 5000000 "a:1"
    { secretId := false, ts := tsOf 5000000,
      cookie := ({ lastSecretUpdate := 1000000, active := 0 } : LState Int).cookie (fun k m => k.take 4 ++ m.take 16) "a:1" false (tsOf 5000000) } := by
  constructor <;> first | rfl | decide | simp

end Utcp.Props.C07
