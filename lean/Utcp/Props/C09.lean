import Utcp.Lemmas.Shrinks
import Utcp.Lemmas.Keeps
import Utcp.Handshake
import Utcp.Lemmas.Partial
import Utcp.Lemmas.RecvAdds
/-!
# C09 — arbitrary datagrams never crash, corrupt memory or hang an endpoint

What a theorem about the model can carry, for **every** byte string and every state:
* *always returns*: every function of the model is total (Lean's termination checker accepted them; loops run on
  explicit fuel), and the fuel given to the bunch loop is provably sufficient — each bunch read consumes at least
  one bit, so the loop ends with nothing left over;
* *callback arguments*: every `on_recv_bunch` invocation has `1 ≤ count ≤ 256`;
* *no abort*: the model has no abort outcome; the assertions of the C code that are reachable from the wire were
  removed (defects D2, D7) or are invariants (see DESIGN.md §6 C09) and the assert-enabled build of the real code
  is run on every correspondence scenario.
What it cannot carry — raw C memory safety — is *observed* (ASan/UBSan on exact-size heap buffers in both build
flavours on hostile input), not proved.
-/
namespace Utcp.Props.C09
open Utcp Utcp.Gen

/-- every bunch read makes progress, also when it fails and the connection is being closed -/
theorem rawBunch_progress (c : Conn) (b : Bool) (bs : Bits) : (c.receivedRawBunch (b :: bs)).2.1.length < (b :: bs).length := by
  have hp := decodeBunch_progress b bs
  unfold Conn.receivedRawBunch
  dsimp only
  cases h : decodeBunch (b :: bs) with
  | fail rest => simp only [h, RR.rest] at hp ⊢; exact hp
  | ok v rest =>
    simp only [h, RR.rest] at hp
    simp only
    split
    · exact hp
    · split <;> exact hp

/-- **the bunch loop of `ReceivedPacket` terminates with nothing left over**: the fuel `length + 1` the model passes
is sufficient for every input, so an accepted packet is always parsed to the end (`utcp_incoming` returns true) -/
theorem bunchLoop_consumes_all (fuel : Nat) : ∀ (c : Conn) (bits : Bits) (skip : Bool), bits.length < fuel →
    (Conn.bunchLoop fuel c bits skip).2.1 = [] := by
  induction fuel with
  | zero => intro c bits skip h; omega
  | succ f ih =>
    intro c bits skip h
    unfold Conn.bunchLoop
    cases bits with
    | nil => simp
    | cons b bs =>
      simp only [List.isEmpty_cons, Bool.false_eq_true, if_false]
      have hp := rawBunch_progress c b bs
      exact ih _ _ _ (Nat.lt_of_lt_of_le hp (Nat.le_of_lt_succ h))

theorem accepted_packet_returns_true (e : Env) (c : Conn) (bits : Bits) (h : NotifHeader) (rest : Bits)
    (hd : decodePacketHeader bits = .ok (h, rest)) (hpos : c.notify.deltaSeq h > 0) : (c.receivedPacket e bits).2 = true := by
  unfold Conn.receivedPacket
  have : ¬ (c.notify.deltaSeq h ≤ 0) := by omega
  simp only [hd, this, if_false]
  rw [bunchLoop_consumes_all (rest.length + 1) _ rest false (by omega)]
  rfl

/-- a header that does not parse closes the connection with one of the two header reasons and returns false -/
theorem bad_header_closes (e : Env) (c : Conn) (bits : Bits) (r : Nat) (hd : decodePacketHeader bits = .error r) :
    (c.receivedPacket e bits) = (c.markClose r, false) ∧ (r = crReadHeaderFail ∨ r = crReadHeaderExtraFail) := by
  refine ⟨by unfold Conn.receivedPacket; simp [hd], ?_⟩
  unfold decodePacketHeader at hd
  cases h1 : readU32 bits with
  | fail r1 => simp [h1] at hd; exact Or.inl hd.symm
  | ok packed r1 =>
    simp only [h1] at hd
    cases h2 : readBits (32 * min histWordsMax (packed % 16 + 1)) r1 with
    | fail r2 => simp [h2] at hd; exact Or.inl hd.symm
    | ok hist r2 =>
      simp only [h2] at hd
      cases h3 : readBit r2 with
      | fail r3 => simp [h3] at hd; exact Or.inr hd.symm
      | ok info r3 =>
        simp only [h3] at hd
        cases info with
        | false => simp at hd
        | true =>
          simp only [Bool.not_true, Bool.false_eq_true, if_false] at hd
          cases h4 : readInt 1024 r3 with
          | fail r4 => simp [h4] at hd; exact Or.inr hd.symm
          | ok v4 r4 =>
            simp only [h4] at hd
            cases h5 : readBit r4 with
            | fail r5 => simp [h5] at hd; exact Or.inr hd.symm
            | ok ft r5 =>
              simp only [h5] at hd
              cases ft with
              | false => simp at hd
              | true =>
                simp only [Bool.not_true, Bool.false_eq_true, if_false] at hd
                cases h6 : readBits 8 r5 with
                | fail r6 => simp [h6] at hd; exact Or.inr hd.symm
                | ok v6 r6 => simp [h6] at hd

/-- the receive callback is only ever invoked with a positive count that fits the callback array -/
def RecvOK (ev : Event) : Prop := ∀ bs, ev = .recv bs → 1 ≤ bs.length ∧ bs.length ≤ 256

theorem recvOK_of_not_recv (ev : Event) (h : isRecv ev = false) : RecvOK ev := by
  intro bs hb; subst hb; simp [isRecv] at h

theorem isOut_recvOK (ev : Event) (h : isOut ev) : RecvOK ev := by cases ev <;> simp_all [isOut, RecvOK]
theorem isFreeNode_recvOK (ev : Event) (h : isFreeNode ev) : RecvOK ev := by
  cases ev with
  | recv bs => simp [isFreeNode] at h
  | _ => intro bs hb; cases hb

theorem recvOK_pred : RecvPred RecvOK :=
  ⟨fun k bs hb => (by cases hb), fun k bs hb => (by cases hb), fun k bs hb => (by cases hb), fun g h1 h2 bs hb => (by cases hb; exact ⟨h1, h2⟩)⟩

/-- `ReceivedNextBunch`: at most one callback, with `1 ≤ count ≤ 256` (an over-long group is dropped instead).
(The chain of lemmas behind this — one per function of the receive path — is in `Lemmas/RecvAdds.lean`, stated for any
event predicate that holds of allocator events and of callbacks with a valid count.) -/
theorem receivedNextBunch_adds (c : Conn) (b : Bunch) : Adds RecvOK c (c.receivedNextBunch b).1 :=
  _root_.Utcp.receivedNextBunch_adds recvOK_pred c b

/-- `ReceivedRawBunch` on any remaining bits -/
theorem receivedRawBunch_adds (c : Conn) (bits : Bits) : Adds RecvOK c (c.receivedRawBunch bits).1 :=
  _root_.Utcp.receivedRawBunch_adds recvOK_pred c bits

theorem bunchLoop_adds (fuel : Nat) (c : Conn) (bits : Bits) (skip : Bool) : Adds RecvOK c (Conn.bunchLoop fuel c bits skip).1 :=
  _root_.Utcp.bunchLoop_adds recvOK_pred fuel c bits skip

theorem handleNotification_adds (e : Env) (c : Conn) (v : Int × Bool) : Adds RecvOK c (c.handleNotification e v) := by
  have hs : ∀ p a, RecvOK (.status p a) := fun p a bs hb => by cases hb
  unfold Conn.handleNotification
  dsimp only
  have h0 : Adds RecvOK c { c with lastNotified := c.lastNotified + 1 } := Adds.of_log_eq rfl
  split
  · exact h0
  · split
    · refine Adds.emit_trans ?_ _ (hs _ _)
      exact (Adds.of_log_eq rfl : Adds RecvOK c _).trans ((onAckChans_adds _ _ _).mono isFreeNode_recvOK)
    · refine Adds.emit_trans ?_ _ (hs _ _)
      exact h0.trans ((onNakChans_adds e _ _ _).mono isOut_recvOK)

theorem notifyUpdate_adds (e : Env) (c : Conn) (h : NotifHeader) : Adds RecvOK c (c.notifyUpdate e h) := by
  unfold Conn.notifyUpdate
  dsimp only
  refine Adds.trans ?_ (Adds.of_log_eq rfl)
  split
  · refine Adds.trans ?_ (Adds.of_log_eq rfl)
    have : ∀ (vs : List (Int × Bool)) (c : Conn), Adds RecvOK c (vs.foldl (Conn.handleNotification e) c) := by
      intro vs
      induction vs with
      | nil => intro c; exact Adds.refl _ _
      | cons v rest ih => intro c; exact (handleNotification_adds e c v).trans (ih _)
    exact (Adds.of_log_eq rfl : Adds RecvOK c _).trans (this _ _)
  · exact Adds.refl _ _

/-- **for every bit string handed to `ReceivedPacket`**, in every state: whatever is delivered is delivered with a
valid count -/
theorem receivedPacket_adds (e : Env) (c : Conn) (bits : Bits) : Adds RecvOK c (c.receivedPacket e bits).1 := by
  unfold Conn.receivedPacket
  split
  · exact markClose_adds _ _ _
  · rename_i h rest hd
    dsimp only
    split
    · exact Adds.refl _ _
    · have h1 : Adds RecvOK c { c with inPacketId := c.inPacketId + c.notify.deltaSeq h } := Adds.of_log_eq rfl
      have h2 := h1.trans (notifyUpdate_adds e _ h)
      have h3 := h2.trans (bunchLoop_adds (rest.length + 1) _ rest false)
      generalize Conn.bunchLoop (rest.length + 1) (Conn.notifyUpdate e { c with inPacketId := c.inPacketId + c.notify.deltaSeq h } h) rest false = r at h3 ⊢
      obtain ⟨c2, rest2, skip2⟩ := r
      exact h3.trans (Adds.of_log_eq rfl)

/-! non-vacuity: a one-bit packet body is consumed -/
example : (Conn.bunchLoop 2 {} [true] false).2.1 = [] := by decide

end Utcp.Props.C09
