import Utcp.Large
/-!
# C19 — `large_bunch`: split then reassemble is the identity, for every bit length

`large_bunch_num` is regenerated from `abstract/utcp.cpp` by `tools/ctrans.py` on every run; the fragment
extraction and the reassembly are the hand model in `Utcp/Large.lean` (tied by the `lsend` correspondence
runs, which go through the real `large_bunch` constructor, iterator and reassembling constructor).
-/
namespace Utcp.Props.C19
open Utcp Utcp.Gen

/-- the extracted constants are the ones the model was written against -/
theorem consts_ok : CXX_MAX_PARTIAL_BUNCH_SIZE_BITS = 7264 ∧ CXX_MAX_SINGLE_BUNCH_SIZE_BITS = 7265 ∧ CXX_MAX_SINGLE_BUNCH_SIZE_BYTES = 908
    ∧ CXX_MAX_PARTIAL_BUNCH_SIZE_BITS = 8 * CXX_MAX_SINGLE_BUNCH_SIZE_BYTES ∧ SIZEOF_EXT_DATA = 92928 ∧ NetMaxConstructedPartialBunchSizeBytes = 65536 := by decide

/-- every payload the constructor accepts (`bits2bytes n ≤ sizeof ExtData`) fits the 28-bit length field -/
theorem accepted_fits_field (n : Int) (h0 : 0 ≤ n) (h64 : n < 2 ^ 64 - 7) (h : bits2bytes n ≤ SIZEOF_EXT_DATA) : n < 2 ^ 28 := by
  simp only [bits2bytes, SIZEOF_EXT_DATA] at *
  omega

/-- `large_bunch::num()` as regenerated from the source: one fragment per started block of 7264 bits -/
theorem num_eq (n : Nat) (h : n < 2 ^ 28) : large_bunch_num n = if n = 0 then 1 else (n / 7264 + 1 : Nat) := by
  simp only [large_bunch_num]
  have h1 : ((n : Int) + 2147483648) % 4294967296 - 2147483648 = n := by omega
  rw [h1]
  by_cases hn : n = 0
  · subst hn; simp
  · have hpos : (n : Int) > 0 := by omega
    simp only [hpos, decide_true, if_true, hn, if_false]
    rw [Int.tdiv_eq_ediv_of_nonneg (by omega)]
    omega

theorem partialBits_eq : partialBits = 7264 := by decide

/-- number of fragments -/
theorem split_length (b : Bunch) (h : b.data.length < 2 ^ 28) :
    (Large.split b).length = if b.data.length ≤ 7264 then 1 else b.data.length / 7264 + 1 := by
  unfold Large.split
  rw [partialBits_eq]
  by_cases hle : b.data.length ≤ 7264
  · simp [hle]
  · simp only [hle, if_false, List.length_map, List.length_range]
    rw [num_eq _ h]
    have : b.data.length ≠ 0 := by omega
    simp only [this, if_false]
    omega

/-- chunking lemma: consecutive `c`-sized windows concatenate to a prefix -/
theorem chunks_take {α} (c : Nat) (l : List α) (k : Nat) :
    (List.range k).flatMap (fun i => (l.drop (c * i)).take c) = l.take (c * k) := by
  induction k with
  | zero => simp
  | succ k ih =>
    rw [List.range_succ, List.flatMap_append, ih]
    simp only [List.flatMap_cons, List.flatMap_nil, List.append_nil]
    rw [Nat.mul_succ, List.take_add]

/-- the data of fragment `pos` is the `pos`-th window of 7264 bits -/
theorem subBunch_data (b : Bunch) (pos : Nat) (hpos : pos ≤ b.data.length / 7264) :
    (Large.subBunch b pos).data = (b.data.drop (7264 * pos)).take 7264 := by
  unfold Large.subBunch
  rw [partialBits_eq]
  simp only
  by_cases h : pos = b.data.length / 7264
  · have hb : (pos == b.data.length / 7264) = true := by simp [h]
    rw [if_pos hb]
    have hlen : (b.data.drop (7264 * pos)).length = b.data.length - 7264 * pos := by simp
    rw [List.take_of_length_le (by omega), List.take_of_length_le]
    rw [hlen]
    have := Nat.lt_div_mul_add (a := b.data.length) (b := 7264) (by omega)
    subst h
    have h2 : b.data.length % 7264 < 7264 := Nat.mod_lt _ (by omega)
    have h3 := Nat.div_add_mod b.data.length 7264
    omega
  · have hb : (pos == b.data.length / 7264) = false := by simp [h]
    simp [hb]

/-- **reassembly is the identity**: joining the fragments reproduces the payload bit for bit (and so its length) -/
theorem join_split (b : Bunch) (h : b.data.length < 2 ^ 28) : Large.join (Large.split b) = b.data := by
  unfold Large.split Large.join
  rw [partialBits_eq]
  by_cases hle : b.data.length ≤ 7264
  · simp [hle]
  · simp only [hle, if_false]
    rw [num_eq _ h]
    have hn : b.data.length ≠ 0 := by omega
    simp only [hn, if_false, Int.toNat_natCast]
    rw [List.flatMap_map]
    have : ∀ i ∈ List.range (b.data.length / 7264 + 1), (Large.subBunch b i).data = (b.data.drop (7264 * i)).take 7264 := by
      intro i hi
      apply subBunch_data
      have := List.mem_range.mp hi
      omega
    rw [List.flatMap_def, List.map_congr_left this, ← List.flatMap_def, chunks_take]
    apply List.take_of_length_le
    have h3 := Nat.div_add_mod b.data.length 7264
    have h2 : b.data.length % 7264 < 7264 := Nat.mod_lt _ (by omega)
    omega

/-- fragment lengths sum to the payload length: nothing beyond the payload is transmitted -/
theorem lengths_sum (b : Bunch) (h : b.data.length < 2 ^ 28) :
    ((Large.split b).map (·.data.length)).sum = b.data.length := by
  have := congrArg List.length (join_split b h)
  rw [← this]
  unfold Large.join
  rw [List.length_flatMap]

/-- every fragment is within the single-bunch limit -/
theorem fragment_le (b : Bunch) (f : Bunch) (hf : f ∈ Large.split b) : f.data.length ≤ 7265 := by
  unfold Large.split at hf
  rw [partialBits_eq] at hf
  by_cases hle : b.data.length ≤ 7264
  · simp only [hle, if_true, List.mem_singleton] at hf
    subst hf; omega
  · simp only [hle, if_false, List.mem_map] at hf
    obtain ⟨i, _, rfl⟩ := hf
    unfold Large.subBunch
    rw [partialBits_eq]
    simp only
    split
    · rename_i heq
      have : i = b.data.length / 7264 := by simpa using heq
      simp only [List.length_take, List.length_drop]
      have h3 := Nat.div_add_mod b.data.length 7264
      have h2 : b.data.length % 7264 < 7264 := Nat.mod_lt _ (by omega)
      omega
    · simp only [List.length_take]; omega

/-- flags: a payload that is split yields only partial bunches, exactly the first is initial and exactly the
last is final; every other field is copied -/
theorem flags (b : Bunch) (h : b.data.length < 2 ^ 28) (hgt : b.data.length > 7264) (i : Nat) (hi : i < (Large.split b).length) :
    let f := (Large.split b)[i]
    f.bPartial = true ∧ (f.bPartialInitial = true ↔ i = 0) ∧ (f.bPartialFinal = true ↔ i + 1 = (Large.split b).length)
    ∧ f.chIndex = b.chIndex ∧ f.bReliable = b.bReliable ∧ f.bOpen = b.bOpen ∧ f.bClose = b.bClose ∧ f.nameIndex = b.nameIndex := by
  have hl := split_length b h
  have hnle : ¬ b.data.length ≤ 7264 := by omega
  simp only [hnle, if_false] at hl
  intro f
  have hsp : Large.split b = (List.range (b.data.length / 7264 + 1)).map (Large.subBunch b) := by
    unfold Large.split
    rw [partialBits_eq, num_eq _ h]
    have hn : b.data.length ≠ 0 := by omega
    simp only [hnle, hn, if_false]
    congr 2
  have hf : f = Large.subBunch b i := by
    show (Large.split b)[i] = _
    simp [hsp]
  rw [hf, hl]
  unfold Large.subBunch
  rw [partialBits_eq]
  have hdiv : b.data.length / 7264 > 0 := Nat.div_pos (by omega) (by omega)
  simp only [hdiv, decide_true, beq_iff_eq, true_and, and_true]
  omega

/-- a payload that fits one bunch is sent as is -/
theorem small_unsplit (b : Bunch) (h : b.data.length ≤ 7264) : Large.split b = [b] := by
  unfold Large.split; rw [partialBits_eq]; simp [h]

/-! non-vacuity: the lengths that the pre-fix code split wrongly (7264·k + 7257 … 7263), and a multiple of 7264 -/
example : large_bunch_num (7264 * 2 + 7260) = 3 ∧ large_bunch_num 7265 = 2 ∧ large_bunch_num 14528 = 3 ∧ large_bunch_num 0 = 1 := by decide
example : ((Large.split { data := List.replicate 40 true }).map (·.data.length)) = [40] := by decide

end Utcp.Props.C19
