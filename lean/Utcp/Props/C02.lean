import Utcp.Lemmas.Keeps
import Utcp.Lemmas.Notify
import Utcp.Lemmas.RecvKeeps
import Utcp.Props.C13
/-!
# C02 — delivery status: one verdict per packet, in order, ACK only if accepted

Local part (one endpoint, *arbitrary* incoming headers — hostile ones included): the delivery statuses an
endpoint reports carry consecutive packet ids, without gap or repetition, and the bookkeeping invariant that
makes this true (`LastNotifiedPacketId ≡ OutAckSeq (mod 2^14)`) is preserved by every accepted header.

Closed loop (two endpoints; second half of the file): the receiver's 256-bit register means what the sender takes it to
mean.  `receivedPacket_rinv` — every way the receive path touches the register is a request "record verdict `v` for the
packet whose id is `p`" made for a packet it accepted, with `v = true` exactly when none of its bunches was refused;
`ack_sound` — whenever the sender turns *any* header the receiver can write (any number of history words) into delivery
statuses, every ACK status names a packet id (mod 2^14) for which the receiver made such a request with verdict `true`.
Together: **ACK ⇒ the peer accepted that packet and refused none of its bunches.**  Third part, with the receiver's
unbounded packet-id counter as ghost (`RConn`, `receivedPacket_rconn`, `status_exact`): each status `(p, v)` corresponds to a
position `idx` of the receiver's register, i.e. to the packet `q = InPacketId - idx ≡ p (mod 2^14)`, and `v = true` **iff** the
receiver asked for `q` to be acknowledged — the "only if" unconditionally, the "if" whenever the position lies inside the
256-bit register, inside the transmitted words and inside what the receiver has recorded since `utcp_sequence_init`
(the property's "no more than 256 packets awaiting a verdict"); requests are made for strictly increasing ids, so a packet
reported NAK under these conditions is never acknowledged later either.  What is *not* proved in Lean: that the sender's
own full id `p` *equals* `q` (only `p ≡ q (mod 2^14)`; equality needs the in-flight window invariant across both endpoints
and the network), and the latency bound; these are checked by the C02 monitor on the real code (`acc` lines of the trace
against every `status` line).
-/
namespace Utcp.Props.C02
open Utcp Utcp.Gen

/-- the delivery statuses in a log, newest first -/
def statuses (log : List Event) : List (Int × Bool) :=
  (log.filter isStatus).map fun | .status p a => (p, a) | _ => (0, false)

theorem statuses_cons_status (p : Int) (a : Bool) (log : List Event) : statuses (.status p a :: log) = (p, a) :: statuses log := by
  simp [statuses, List.filter_cons, isStatus]

theorem statuses_of_adds {P : Event → Prop} {c c' : Conn} (h : Adds P c c') (hp : ∀ ev, P ev → isStatus ev = false) :
    statuses c'.log = statuses c.log := by
  unfold statuses; rw [h.filter_eq isStatus hp]

theorem isOut_not_status (ev : Event) (h : isOut ev) : isStatus ev = false := by cases ev <;> simp_all [isOut, isStatus]
theorem isFreeNode_not_status (ev : Event) (h : isFreeNode ev) : isStatus ev = false := by
  cases ev with
  | free k => rfl
  | _ => first | rfl | simp_all [isFreeNode]

theorem seq_init_mod (x : Int) : seq_num_init (x % 65536) = x % 16384 := by
  simp only [seq_num_init]; omega

/-- one verdict: the packet-id counter advances by one; when the wire sequence matches it, exactly one status is
reported and it carries that id; the ack bookkeeping of the notify layer is not touched -/
theorem handle_step (e : Env) (c : Conn) (v : Int × Bool) :
    (c.handleNotification e v).lastNotified = c.lastNotified + 1 ∧
    (v.1 = (c.lastNotified + 1) % 16384 → statuses (c.handleNotification e v).log = (c.lastNotified + 1, v.2) :: statuses c.log) ∧
    (c.handleNotification e v).notify.outAckSeq = c.notify.outAckSeq := by
  unfold Conn.handleNotification
  dsimp only
  rw [seq_init_mod]
  by_cases hm : ((c.lastNotified + 1) % 16384 != v.1) = true
  · simp only [hm, if_true]
    refine ⟨?_, ?_, ?_⟩
    · trivial
    · intro h; simp [h] at hm
    · trivial
  · simp only [hm, Bool.false_eq_true, if_false]
    by_cases hv : v.2 = true
    · simp only [hv, if_true]
      have hk := onAckChans_keeps (c.lastNotified + 1) (c.chans.map (·.1)) { c with lastNotified := c.lastNotified + 1, outAckPacketId := c.lastNotified + 1 }
      have ha := onAckChans_adds (c.lastNotified + 1) (c.chans.map (·.1)) { c with lastNotified := c.lastNotified + 1, outAckPacketId := c.lastNotified + 1 }
      refine ⟨hk.lastNotified, ?_, hk.outAckSeq⟩
      intro _
      simp only [emit_log, hk.lastNotified]
      rw [statuses_cons_status, statuses_of_adds ha isFreeNode_not_status]
    · simp only [hv, Bool.false_eq_true, if_false]
      have hk := onNakChans_keeps e (c.lastNotified + 1) (c.chans.map (·.1)) { c with lastNotified := c.lastNotified + 1 }
      have ha := onNakChans_adds e (c.lastNotified + 1) (c.chans.map (·.1)) { c with lastNotified := c.lastNotified + 1 }
      refine ⟨hk.lastNotified, ?_, hk.outAckSeq⟩
      intro _
      simp only [emit_log, hk.lastNotified]
      have hv' : v.2 = false := by simpa using hv
      rw [statuses_cons_status, statuses_of_adds ha isOut_not_status]

/-- ids `ln+1, ln+2, …` paired with the verdict bits, newest first -/
def expected (ln : Int) : List (Int × Bool) → List (Int × Bool)
  | [] => []
  | v :: rest => expected (ln + 1) rest ++ [(ln + 1, v.2)]

theorem expected_length (ln : Int) (vs : List (Int × Bool)) : (expected ln vs).length = vs.length := by
  induction vs generalizing ln with
  | nil => rfl
  | cons v rest ih => simp [expected, ih]

theorem expected_reverse_cons (ln : Int) (v : Int × Bool) (rest : List (Int × Bool)) :
    (expected ln (v :: rest)).reverse = (ln + 1, v.2) :: (expected (ln + 1) rest).reverse := by
  simp [expected]

/-- the ids in `expected` are consecutive: oldest first they read `ln+1, ln+2, …, ln+k` -/
theorem expected_ids (vs : List (Int × Bool)) : ∀ (ln : Int) (k : Nat) (hk : k < (expected ln vs).reverse.length),
    ((expected ln vs).reverse)[k].1 = ln + 1 + (k : Int) := by
  induction vs with
  | nil => intro ln k hk; simp [expected] at hk
  | cons v rest ih =>
    intro ln k hk
    simp only [expected_reverse_cons] at hk ⊢
    cases k with
    | zero => simp
    | succ k =>
      simp only [List.getElem_cons_succ]
      rw [ih (ln + 1) k (by simpa using hk)]
      push_cast; omega

/-- a run of verdicts whose wire sequences continue the counter is reported as consecutive ids, in order -/
theorem handle_fold (e : Env) (vs : List (Int × Bool)) : ∀ (c : Conn),
    (∀ j (hj : j < vs.length), vs[j].1 = (c.lastNotified + 1 + (j : Int)) % 16384) →
    statuses (vs.foldl (Conn.handleNotification e) c).log = expected c.lastNotified vs ++ statuses c.log ∧
    (vs.foldl (Conn.handleNotification e) c).lastNotified = c.lastNotified + vs.length ∧
    (vs.foldl (Conn.handleNotification e) c).notify.outAckSeq = c.notify.outAckSeq := by
  induction vs with
  | nil => intro c _; simp [expected]
  | cons v rest ih =>
    intro c h
    obtain ⟨h1, h2, h3⟩ := handle_step e c v
    have hv0 : v.1 = (c.lastNotified + 1) % 16384 := by
      have := h 0 (by simp); simpa using this
    obtain ⟨i1, i2, i3⟩ := ih (c.handleNotification e v) (by
      intro j hj
      have := h (j + 1) (by simp; omega)
      simp only [List.getElem_cons_succ] at this
      rw [this, h1]; congr 1; push_cast; omega)
    simp only [List.foldl_cons]
    refine ⟨?_, ?_, ?_⟩
    · rw [i1, h2 hv0, h1]
      simp [expected]
    · rw [i2, h1]; simp; omega
    · rw [i3, h3]

/-- the bookkeeping invariant: the full id of the last packet with a verdict is congruent to the 14-bit `OutAckSeq` -/
def Inv (c : Conn) : Prop := c.notify.outAckSeq = c.lastNotified % 16384

/-- `utcp_sequence_init` establishes the invariant -/
theorem seqInit_inv (c : Conn) (i o : Int) : Inv (c.seqInit i o) := by
  unfold Inv Conn.seqInit Notify.init
  simp only [seq_num_init]
  omega

/-- the verdict list `packet_notify_update` produces continues the counter -/
theorem verdicts_seq (c : Conn) (h : NotifHeader) (n : Nat) (hinv : Inv c) :
    ∀ j (hj : j < (verdicts c.notify.outAckSeq h n).length), (verdicts c.notify.outAckSeq h n)[j].1 = (c.lastNotified + 1 + (j : Int)) % 16384 := by
  intro j hj
  unfold verdicts at hj ⊢
  simp only [List.length_map, List.length_range] at hj
  simp only [List.getElem_map, List.getElem_range, seq_num_inc, seq_num_init]
  rw [hinv]
  push_cast
  omega

/-- **status order**: processing an accepted header reports the packets `ln+1 … ln+k` — consecutive ids, oldest
first, no gap, no repetition — where `k` is the number of newly covered packets, and re-establishes the invariant -/
theorem notifyUpdate_statuses (e : Env) (c : Conn) (h : NotifHeader) (hinv : Inv c) (hacked : 0 ≤ h.ackedSeq ∧ h.ackedSeq < 16384) :
    ∃ vs : List (Int × Bool), statuses (c.notifyUpdate e h).log = expected c.lastNotified vs ++ statuses c.log ∧
      (c.notifyUpdate e h).lastNotified = c.lastNotified + vs.length ∧ Inv (c.notifyUpdate e h) := by
  unfold Conn.notifyUpdate
  dsimp only
  by_cases hgt : seq_num_greater_than h.ackedSeq c.notify.outAckSeq = true
  · simp only [hgt, if_true]
    let c0 : Conn := { c with notify := c.notify.updateInAckSeqAck (seq_num_diff h.ackedSeq c.notify.outAckSeq).toNat h.ackedSeq }
    have hc0a : c0.notify.outAckSeq = c.notify.outAckSeq := by
      show (c.notify.updateInAckSeqAck _ _).outAckSeq = _
      unfold Notify.updateInAckSeqAck
      dsimp only
      split
      · split
        · split <;> rfl
        · rfl
      · rfl
    have hc0l : c0.lastNotified = c.lastNotified := rfl
    have hinv0 : Inv c0 := by unfold Inv; rw [hc0a, hc0l]; exact hinv
    have hvs := verdicts_seq c0 h (seq_num_diff h.ackedSeq c.notify.outAckSeq).toNat hinv0
    rw [hc0a] at hvs
    obtain ⟨f1, f2, f3⟩ := handle_fold e (verdicts c.notify.outAckSeq h (seq_num_diff h.ackedSeq c.notify.outAckSeq).toNat) c0 hvs
    refine ⟨verdicts c.notify.outAckSeq h (seq_num_diff h.ackedSeq c.notify.outAckSeq).toNat, ?_, ?_, ?_⟩
    · exact f1
    · exact f2
    · have hd := C13.diff_spec h.ackedSeq c.notify.outAckSeq ⟨hacked.1, by omega⟩ ⟨by rw [hinv]; omega, by rw [hinv]; omega⟩
      have hpos := (C13.gt_iff_diff_pos h.ackedSeq c.notify.outAckSeq ⟨hacked.1, hacked.2⟩ ⟨by rw [hinv]; omega, by rw [hinv]; omega⟩).mp hgt
      have hcast : ((seq_num_diff h.ackedSeq c.notify.outAckSeq).toNat : Int) = seq_num_diff h.ackedSeq c.notify.outAckSeq := Int.toNat_of_nonneg (by omega)
      have hf2 : (List.foldl (Conn.handleNotification e) c0 (verdicts c.notify.outAckSeq h (seq_num_diff h.ackedSeq c.notify.outAckSeq).toNat)).lastNotified
          = c.lastNotified + seq_num_diff h.ackedSeq c.notify.outAckSeq := by
        rw [f2, hc0l]; simp only [verdicts, List.length_map, List.length_range]; rw [hcast]
      generalize List.foldl (Conn.handleNotification e) c0 (verdicts c.notify.outAckSeq h (seq_num_diff h.ackedSeq c.notify.outAckSeq).toNat) = cF at hf2 ⊢
      unfold Inv
      show h.ackedSeq = cF.lastNotified % 16384
      rw [hf2]
      unfold Inv at hinv
      omega
  · simp only [hgt, Bool.false_eq_true, if_false]
    exact ⟨[], by simp [expected], by simp, hinv⟩

/-! ## closed loop: ACK ⇒ the peer accepted the packet -/

/-- the verdicts `packet_notify_update` derives from header `h` in state `c` -/
def ackVerdicts (c : Conn) (h : NotifHeader) : List (Int × Bool) :=
  if seq_num_greater_than h.ackedSeq c.notify.outAckSeq then verdicts c.notify.outAckSeq h (seq_num_diff h.ackedSeq c.notify.outAckSeq).toNat else []

/-- `notifyUpdate_statuses` with the verdict list made explicit -/
theorem notifyUpdate_statuses_explicit (e : Env) (c : Conn) (h : NotifHeader) (hinv : Inv c) :
    statuses (c.notifyUpdate e h).log = expected c.lastNotified (ackVerdicts c h) ++ statuses c.log := by
  unfold Conn.notifyUpdate ackVerdicts
  dsimp only
  by_cases hgt : seq_num_greater_than h.ackedSeq c.notify.outAckSeq = true
  · simp only [hgt, if_true]
    let c0 : Conn := { c with notify := c.notify.updateInAckSeqAck (seq_num_diff h.ackedSeq c.notify.outAckSeq).toNat h.ackedSeq }
    have hc0a : c0.notify.outAckSeq = c.notify.outAckSeq := by
      show (c.notify.updateInAckSeqAck _ _).outAckSeq = _
      unfold Notify.updateInAckSeqAck
      dsimp only
      split
      · split
        · split <;> rfl
        · rfl
      · rfl
    have hc0l : c0.lastNotified = c.lastNotified := rfl
    have hinv0 : Inv c0 := by unfold Inv; rw [hc0a, hc0l]; exact hinv
    have hvs := verdicts_seq c0 h (seq_num_diff h.ackedSeq c.notify.outAckSeq).toNat hinv0
    rw [hc0a] at hvs
    exact (handle_fold e (verdicts c.notify.outAckSeq h (seq_num_diff h.ackedSeq c.notify.outAckSeq).toNat) c0 hvs).1
  · simp only [hgt, Bool.false_eq_true, if_false]
    simp [expected]

/-- membership in `expected`: the `j`-th verdict is reported for packet `ln + 1 + j` -/
theorem mem_expected (vs : List (Int × Bool)) : ∀ (ln : Int) (p : Int × Bool), p ∈ expected ln vs →
    ∃ j, ∃ hj : j < vs.length, p = (ln + 1 + (j : Int), (vs[j]).2) := by
  induction vs with
  | nil => intro ln p hp; simp [expected] at hp
  | cons v rest ih =>
    intro ln p hp
    simp only [expected, List.mem_append, List.mem_singleton] at hp
    rcases hp with hp | rfl
    · obtain ⟨j, hj, rfl⟩ := ih (ln + 1) p hp
      refine ⟨j + 1, by simp; omega, ?_⟩
      simp only [List.getElem_cons_succ]
      rw [Prod.ext_iff]; simp only; refine ⟨by push_cast; omega, trivial⟩
    · exact ⟨0, by simp, by simp⟩

/-- **ACK soundness.**  `R` is the receiver's packet-notify state at the moment it writes a header with any number `w` of
history words; `c` is the sender.  Every ACK status the sender derives from that header is for a packet id that — modulo
2^14 — the receiver was asked to acknowledge (`calls`), and by `receivedPacket_rinv` such requests are only made for
packets the receiver accepted and none of whose bunches it refused. -/
theorem ack_sound (c : Conn) (R : Notify) (tg calls : List (Int × Bool)) (w : Nat) (hR : RInv R tg calls) (hinv : Inv c) :
    ∀ p, p ∈ expected c.lastNotified (ackVerdicts c (R.headerWith w)) → p.2 = true → (p.1 % 16384, true) ∈ calls := by
  intro p hp ht
  obtain ⟨j, hj, rfl⟩ := mem_expected _ _ _ hp
  simp only at ht ⊢
  unfold ackVerdicts at hj ht
  by_cases hgt : seq_num_greater_than (R.headerWith w).ackedSeq c.notify.outAckSeq = true
  · simp only [hgt, if_true] at hj ht ⊢
    have ho : 0 ≤ c.notify.outAckSeq ∧ c.notify.outAckSeq < 16384 := by rw [hinv]; omega
    have hmem := List.getElem_mem hj
    have hs := verdicts_sound R tg calls w c.notify.outAckSeq hR ho hgt _ hmem ht
    have hid := verdicts_seq c (R.headerWith w) _ hinv j hj
    have : (verdicts c.notify.outAckSeq (R.headerWith w) (seq_num_diff (R.headerWith w).ackedSeq c.notify.outAckSeq).toNat)[j]
        = ((c.lastNotified + 1 + (j : Int)) % 16384, true) := by
      rw [Prod.ext_iff]; exact ⟨hid, ht⟩
    rw [this] at hs
    exact hs
  · simp [hgt] at hj

/-- the statuses a sender reports on processing the receiver's header, as one statement -/
theorem ack_status_sound (e : Env) (c : Conn) (R : Notify) (tg calls : List (Int × Bool)) (w : Nat) (hR : RInv R tg calls) (hinv : Inv c) :
    ∃ news, statuses (c.notifyUpdate e (R.headerWith w)).log = news ++ statuses c.log ∧
      ∀ p ∈ news, p.2 = true → (p.1 % 16384, true) ∈ calls := by
  refine ⟨expected c.lastNotified (ackVerdicts c (R.headerWith w)), ?_, ack_sound c R tg calls w hR hinv⟩
  exact notifyUpdate_statuses_explicit e c _ hinv

/-- `handleNotification` (release on ACK, retransmission on NAK) leaves the receive register alone -/
theorem handleNotification_reg (e : Env) (c : Conn) (v : Int × Bool) :
    (c.handleNotification e v).notify.hist = c.notify.hist ∧ (c.handleNotification e v).notify.inAckSeq = c.notify.inAckSeq ∧
    (c.handleNotification e v).inPacketId = c.inPacketId := by
  unfold Conn.handleNotification
  dsimp only
  split
  · exact ⟨rfl, rfl, rfl⟩
  · split
    · have hk := onAckChans_keeps (c.lastNotified + 1) (c.chans.map (·.1)) { c with lastNotified := c.lastNotified + 1, outAckPacketId := c.lastNotified + 1 }
      exact ⟨hk.hist, hk.inAckSeq, hk.inPacketId⟩
    · have hk := onNakChans_keeps e (c.lastNotified + 1) (c.chans.map (·.1)) { c with lastNotified := c.lastNotified + 1 }
      exact ⟨hk.hist, hk.inAckSeq, hk.inPacketId⟩

theorem notifyUpdate_reg (e : Env) (c : Conn) (h : NotifHeader) :
    (c.notifyUpdate e h).notify.hist = c.notify.hist ∧ (c.notifyUpdate e h).notify.inAckSeq = c.notify.inAckSeq ∧
    (c.notifyUpdate e h).inPacketId = c.inPacketId := by
  unfold Conn.notifyUpdate
  dsimp only
  have hfold : ∀ (vs : List (Int × Bool)) (c : Conn), (vs.foldl (Conn.handleNotification e) c).notify.hist = c.notify.hist ∧
      (vs.foldl (Conn.handleNotification e) c).notify.inAckSeq = c.notify.inAckSeq ∧ (vs.foldl (Conn.handleNotification e) c).inPacketId = c.inPacketId := by
    intro vs
    induction vs with
    | nil => intro c; exact ⟨rfl, rfl, rfl⟩
    | cons v rest ih =>
      intro c
      obtain ⟨a1, a2, a3⟩ := handleNotification_reg e c v
      obtain ⟨b1, b2, b3⟩ := ih (c.handleNotification e v)
      exact ⟨b1.trans a1, b2.trans a2, b3.trans a3⟩
  have hu : ∀ k a, (c.notify.updateInAckSeqAck k a).hist = c.notify.hist ∧ (c.notify.updateInAckSeqAck k a).inAckSeq = c.notify.inAckSeq := by
    intro k a
    unfold Notify.updateInAckSeqAck
    dsimp only
    split
    · split
      · split <;> exact ⟨rfl, rfl⟩
      · exact ⟨rfl, rfl⟩
    · exact ⟨rfl, rfl⟩
  split
  · obtain ⟨f1, f2, f3⟩ := hfold (verdicts c.notify.outAckSeq h (seq_num_diff h.ackedSeq c.notify.outAckSeq).toNat)
      { c with notify := c.notify.updateInAckSeqAck (seq_num_diff h.ackedSeq c.notify.outAckSeq).toNat h.ackedSeq }
    obtain ⟨u1, u2⟩ := hu (seq_num_diff h.ackedSeq c.notify.outAckSeq).toNat h.ackedSeq
    exact ⟨f1.trans u1, f2.trans u2, f3⟩
  · exact ⟨rfl, rfl, rfl⟩

/-- **the only way the receive path writes the register**: a datagram body either leaves the register as it was (unparsable
header, or a stale / duplicate / out-of-window sequence), or it is accepted — the packet-id counter advances to the
packet's id — and exactly one request is recorded: `(that id mod 2^14, no bunch of the packet was refused)`. -/
theorem receivedPacket_rinv (e : Env) (c : Conn) (bits : Bits) (tg calls : List (Int × Bool)) (h : RInv c.notify tg calls) :
    (RInv (c.receivedPacket e bits).1.notify tg calls ∧ (c.receivedPacket e bits).1.inPacketId = c.inPacketId) ∨
    (c.inPacketId < (c.receivedPacket e bits).1.inPacketId ∧
      ∃ tg' refused, RInv (c.receivedPacket e bits).1.notify tg' (((c.receivedPacket e bits).1.inPacketId % 16384, !refused) :: calls)) := by
  unfold Conn.receivedPacket
  split
  · left
    rw [markClose_notify, markClose_inPacketId]
    exact ⟨h, rfl⟩
  · rename_i hd rest hdec
    dsimp only
    split
    · left; exact ⟨h, rfl⟩
    · rename_i hdelta
      right
      obtain ⟨n1, n2, n3⟩ := notifyUpdate_reg e { c with inPacketId := c.inPacketId + c.notify.deltaSeq hd } hd
      generalize ({ c with inPacketId := c.inPacketId + c.notify.deltaSeq hd } : Conn).notifyUpdate e hd = c2 at n1 n2 n3 ⊢
      have hs := bunchLoop_sameN (rest.length + 1) c2 rest false
      generalize Conn.bunchLoop (rest.length + 1) c2 rest false = r at hs ⊢
      obtain ⟨c3, rest', skip⟩ := r
      simp only at hs ⊢
      have h3 : RInv c3.notify tg calls := h.congr (by rw [hs.notify]; exact n1) (by rw [hs.notify]; exact n2)
      have hid : c3.inPacketId = c.inPacketId + c.notify.deltaSeq hd := by rw [hs.inPacketId]; exact n3
      refine ⟨by rw [hid]; omega, ?_⟩
      obtain ⟨tg', ht⟩ := ackSeq_rinv c3.notify tg calls c3.inPacketId (!skip) h3
      exact ⟨tg', skip, ht⟩

/-- `utcp_sequence_init` starts the register empty: no request has been made, no bit is set -/
theorem seqInit_rinv (c : Conn) (i o : Int) : RInv (c.seqInit i o).notify [] [] := by
  unfold Conn.seqInit
  exact init_rinv _ _ _ (by simp only [seq_num_init]; omega)

/-- everything the sending machinery does (flush, header refresh, retransmission, release) keeps the register's meaning -/
theorem keeps_rinv {c c' : Conn} {tg calls : List (Int × Bool)} (hk : Keeps c c') (h : RInv c.notify tg calls) : RInv c'.notify tg calls :=
  h.congr hk.hist hk.inAckSeq

/-! non-vacuity -/
example : Inv ((({} : Conn).seqInit 16383 0)) := seqInit_inv _ _ _
example : expected 41 [(0, true), (0, false), (0, true)] = [(44, true), (43, false), (42, true)] := by decide
example : RInv ((({} : Conn).seqInit 5 16383)).notify [] [] := seqInit_rinv _ _ _

/-! ## the same, with unbounded packet ids: ACK **iff** accepted and not refused -/

/-- a parsed packet header carries a 14-bit sequence number -/
theorem decode_seq_range (bits : Bits) (hd : NotifHeader) (rest : Bits) (h : decodePacketHeader bits = .ok (hd, rest)) :
    0 ≤ hd.seq ∧ hd.seq < 16384 := by
  unfold decodePacketHeader at h
  have key : ∀ packed : Nat, (0 : Int) ≤ ((packed / 2 ^ 18 % 16384 : Nat) : Int) ∧ ((packed / 2 ^ 18 % 16384 : Nat) : Int) < 16384 := by
    intro packed; omega
  cases h1 : readU32 bits with
  | fail r1 => simp [h1] at h
  | ok packed r1 =>
    simp only [h1] at h
    cases h2 : readBits (32 * min histWordsMax (packed % 16 + 1)) r1 with
    | fail r2 => simp [h2] at h
    | ok hist r2 =>
      simp only [h2] at h
      cases h3 : readBit r2 with
      | fail r3 => simp [h3] at h
      | ok info r3 =>
        simp only [h3] at h
        cases info with
        | false => simp only [Bool.not_false, if_true, Except.ok.injEq, Prod.mk.injEq] at h; obtain ⟨rfl, _⟩ := h; exact key _
        | true =>
          simp only [Bool.not_true, Bool.false_eq_true, if_false] at h
          cases h4 : readInt 1024 r3 with
          | fail r4 => simp [h4] at h
          | ok v4 r4 =>
            simp only [h4] at h
            cases h5 : readBit r4 with
            | fail r5 => simp [h5] at h
            | ok ft r5 =>
              simp only [h5] at h
              cases ft with
              | false => simp only [Bool.not_false, if_true, Except.ok.injEq, Prod.mk.injEq] at h; obtain ⟨rfl, _⟩ := h; exact key _
              | true =>
                simp only [Bool.not_true, Bool.false_eq_true, if_false] at h
                cases h6 : readBits 8 r5 with
                | fail r6 => simp [h6] at h
                | ok v6 r6 => simp only [h6, Except.ok.injEq, Prod.mk.injEq] at h; obtain ⟨rfl, _⟩ := h; exact key _

theorem ackSeqLoop_inSeq (fuel : Nat) : ∀ (n : Notify) (acked : Int) (isAck : Bool), (ackSeqLoop fuel n acked isAck).inSeq = n.inSeq := by
  induction fuel with
  | zero => intros; rfl
  | succ f ih =>
    intro n acked isAck
    unfold ackSeqLoop
    split
    · rw [ih]
    · rfl

theorem notifyUpdate_inSeq (e : Env) (c : Conn) (h : NotifHeader) : (c.notifyUpdate e h).notify.inSeq = h.seq := by
  unfold Conn.notifyUpdate; rfl

/-- receiver-side invariant at the connection level: the register describes the packets up to the packet-id counter -/
structure RConn (c : Conn) (tg calls : List (Int × Bool)) : Prop where
  reg : RInvF c.notify tg calls c.inPacketId
  inSeq : 0 ≤ c.notify.inSeq ∧ c.notify.inSeq < 16384

/-- **the receive path, with full packet ids.**  A datagram body either changes nothing the register depends on, or the
packet is accepted: the counter grows (by less than 2^13) to the packet's id `q`, exactly one request `(q, no bunch refused)` is
added — for an id larger than every id a request was ever made for — and the register describes the packets up to `q`. -/
theorem receivedPacket_rconn (e : Env) (c : Conn) (bits : Bits) (tg calls : List (Int × Bool)) (h : RConn c tg calls) :
    (RConn (c.receivedPacket e bits).1 tg calls ∧ (c.receivedPacket e bits).1.inPacketId = c.inPacketId) ∨
    (c.inPacketId < (c.receivedPacket e bits).1.inPacketId ∧
      ∃ tg' refused, RConn (c.receivedPacket e bits).1 tg' (((c.receivedPacket e bits).1.inPacketId, !refused) :: calls)) := by
  unfold Conn.receivedPacket
  split
  · left
    refine ⟨⟨?_, ?_⟩, markClose_inPacketId _ _⟩
    · rw [markClose_notify, markClose_inPacketId]; exact h.reg
    · rw [markClose_notify]; exact h.inSeq
  · rename_i hd rest hdec
    dsimp only
    split
    · left; exact ⟨h, rfl⟩
    · rename_i hdelta
      right
      have hseq := decode_seq_range bits hd rest hdec
      -- the counter advances by the circular distance of the header sequence, which is positive and below 2^13
      have hdl : 0 < c.notify.deltaSeq hd ∧ c.notify.deltaSeq hd < 8192 := by
        refine ⟨by omega, ?_⟩
        rw [Notify.deltaSeq_eq] at hdelta ⊢; unfold Notify.deltaSeqSpec at hdelta ⊢
        split
        · exact (C13.diff_spec hd.seq c.notify.inSeq ⟨hseq.1, by omega⟩ ⟨h.inSeq.1, by have := h.inSeq.2; omega⟩).2.1
        · omega
      obtain ⟨n1, n2, n3⟩ := notifyUpdate_reg e { c with inPacketId := c.inPacketId + c.notify.deltaSeq hd } hd
      have n4 := notifyUpdate_inSeq e { c with inPacketId := c.inPacketId + c.notify.deltaSeq hd } hd
      generalize ({ c with inPacketId := c.inPacketId + c.notify.deltaSeq hd } : Conn).notifyUpdate e hd = c2 at n1 n2 n3 n4 ⊢
      have hs := bunchLoop_sameN (rest.length + 1) c2 rest false
      generalize Conn.bunchLoop (rest.length + 1) c2 rest false = r at hs ⊢
      obtain ⟨c3, rest', skip⟩ := r
      simp only at hs ⊢
      have h3 : RInvF c3.notify tg calls c.inPacketId := h.reg.congr (by rw [hs.notify]; exact n1) (by rw [hs.notify]; exact n2)
      have hid : c3.inPacketId = c.inPacketId + c.notify.deltaSeq hd := by rw [hs.inPacketId]; exact n3
      refine ⟨by rw [hid]; omega, ?_⟩
      obtain ⟨tg', ht⟩ := ackSeq_rinvF c3.notify tg calls c.inPacketId c3.inPacketId (!skip) h3 (by rw [hid]; omega) (by rw [hid]; omega)
      refine ⟨tg', skip, ⟨ht, ?_⟩⟩
      show 0 ≤ (c3.notify.ackSeq c3.inPacketId (!skip)).inSeq ∧ (c3.notify.ackSeq c3.inPacketId (!skip)).inSeq < 16384
      unfold Notify.ackSeq
      rw [ackSeqLoop_inSeq, hs.notify, n4]
      exact hseq

theorem seqInit_rconn (c : Conn) (i o : Int) : RConn (c.seqInit i o) [] [] := by
  refine ⟨?_, ?_⟩
  · unfold Conn.seqInit
    exact init_rinvF _ _ _ _ (by simp only [seq_num_init]; omega)
  · show 0 ≤ (c.notify.init _ _).inSeq ∧ (c.notify.init _ _).inSeq < 16384
    unfold Notify.init
    simp only [seq_num_init]; omega

theorem keeps_rconn {c c' : Conn} {tg calls : List (Int × Bool)} (hk : Keeps c c') (h : RConn c tg calls) : RConn c' tg calls :=
  ⟨by rw [hk.inPacketId]; exact h.reg.congr hk.hist hk.inAckSeq, by rw [hk.inSeq]; exact h.inSeq⟩

/-- **every delivery status, both ways.**  `R` is the receiver at the moment it writes a header with `w` history words, `c` the
sender that processes it.  For each status `(p, v)` the sender reports there is a position `idx` of the receiver's register — the
packet `q = R.inPacketId - idx`, congruent to `p` modulo 2^14 — such that
* `v = true`  ⇒ the receiver asked for `q` to be acknowledged (it accepted `q` and refused none of its bunches);
* `v = false` ⇒ if the position lies inside the register (`idx < 256`), inside the words transmitted and inside what the receiver
  has recorded since its sequence was initialised, the receiver did **not** ask for `q` to be acknowledged — and since requests
  are only ever made for ids above all earlier ones (`receivedPacket_rconn`), it never will. -/
theorem status_exact (c : Conn) (R : Conn) (tg calls : List (Int × Bool)) (w : Nat) (hR : RConn R tg calls) (hinv : Inv c) :
    ∀ p, p ∈ expected c.lastNotified (ackVerdicts c (R.notify.headerWith w)) →
      ∃ idx : Nat, p.1 % 16384 = (R.inPacketId - (idx : Int)) % 16384 ∧
        (p.2 = true → (R.inPacketId - (idx : Int), true) ∈ calls) ∧
        (p.2 = false → idx < 256 → idx < 32 * (min w histWordsMax) → idx < tg.length → (R.inPacketId - (idx : Int), true) ∉ calls) := by
  intro p hp
  obtain ⟨j, hj, rfl⟩ := mem_expected _ _ _ hp
  unfold ackVerdicts at hj
  by_cases hgt : seq_num_greater_than (R.notify.headerWith w).ackedSeq c.notify.outAckSeq = true
  · have hav : ackVerdicts c (R.notify.headerWith w) = verdicts c.notify.outAckSeq (R.notify.headerWith w) (seq_num_diff (R.notify.headerWith w).ackedSeq c.notify.outAckSeq).toNat := by
      unfold ackVerdicts; simp only [hgt, if_true]
    simp only [hgt, if_true] at hj
    have ho : 0 ≤ c.notify.outAckSeq ∧ c.notify.outAckSeq < 16384 := by rw [hinv]; omega
    have hjc : j < (seq_num_diff (R.notify.headerWith w).ackedSeq c.notify.outAckSeq).toNat := by simpa [verdicts] using hj
    have hx := verdicts_exact R.notify tg calls R.inPacketId w c.notify.outAckSeq hR.reg ho hgt j hjc _ (List.getElem?_eq_getElem hj)
    have hid := verdicts_seq c (R.notify.headerWith w) _ hinv j hj
    refine ⟨(seq_num_diff (R.notify.headerWith w).ackedSeq c.notify.outAckSeq).toNat - 1 - j, ?_, ?_, ?_⟩
    · simp only
      rw [← hx.1, hid]
    · simp only [hav]; exact hx.2.1
    · simp only [hav]; exact hx.2.2
  · simp [hgt] at hj

example : RConn ((({} : Conn).seqInit 5 16383)) [] [] := seqInit_rconn _ _ _

end Utcp.Props.C02
