import Utcp.Lemmas.Keeps
import Utcp.Props.C13
/-!
# C02 — delivery status: one verdict per packet, in order, ACK only if accepted

Local part (one endpoint, *arbitrary* incoming headers — hostile ones included): the delivery statuses an
endpoint reports carry consecutive packet ids, without gap or repetition, and the bookkeeping invariant that
makes this true (`LastNotifiedPacketId ≡ OutAckSeq (mod 2^14)`) is preserved by every accepted header.  The
closed-loop soundness statements (ACK ⇒ the peer accepted, NAK ⇒ it never did) are *not* proved in Lean; they
are checked by the C02 monitor on the real code (`acc` lines of the trace against every `status` line) and
stated in DESIGN.md, Appendix A.
-/
namespace Utcp.Props.C02
open Utcp Utcp.Gen

/-- the delivery statuses in a log, newest first -/
def statuses (log : List Event) : List (Int × Bool) :=
  (log.filter isStatus).map fun | .status p a => (p, a) | _ => (0, false)

theorem statuses_cons_status (p : Int) (a : Bool) (log : List Event) : statuses (.status p a :: log) = (p, a) :: statuses log := by
  simp [statuses, List.filter_cons, isStatus]

theorem statuses_of_adds {P : Event → Prop} {c c' : Conn} (h : Adds P c c') (hp : ∀ ev, P ev → isStatus ev = false) :
    statuses c'.log = statuses c.log := by
  unfold statuses; rw [h.filter_eq isStatus hp]

theorem isOut_not_status (ev : Event) (h : isOut ev) : isStatus ev = false := by cases ev <;> simp_all [isOut, isStatus]
theorem isFreeNode_not_status (ev : Event) (h : isFreeNode ev) : isStatus ev = false := by
  cases ev with
  | free k => rfl
  | _ => first | rfl | simp_all [isFreeNode]

theorem seq_init_mod (x : Int) : seq_num_init (x % 65536) = x % 16384 := by
  simp only [seq_num_init]; omega

/-- one verdict: the packet-id counter advances by one; when the wire sequence matches it, exactly one status is
reported and it carries that id; the ack bookkeeping of the notify layer is not touched -/
theorem handle_step (e : Env) (c : Conn) (v : Int × Bool) :
    (c.handleNotification e v).lastNotified = c.lastNotified + 1 ∧
    (v.1 = (c.lastNotified + 1) % 16384 → statuses (c.handleNotification e v).log = (c.lastNotified + 1, v.2) :: statuses c.log) ∧
    (c.handleNotification e v).notify.outAckSeq = c.notify.outAckSeq := by
  unfold Conn.handleNotification
  dsimp only
  rw [seq_init_mod]
  by_cases hm : ((c.lastNotified + 1) % 16384 != v.1) = true
  · simp only [hm, if_true]
    refine ⟨?_, ?_, ?_⟩
    · trivial
    · intro h; simp [h] at hm
    · trivial
  · simp only [hm, Bool.false_eq_true, if_false]
    by_cases hv : v.2 = true
    · simp only [hv, if_true]
      have hk := onAckChans_keeps (c.lastNotified + 1) (c.chans.map (·.1)) { c with lastNotified := c.lastNotified + 1, outAckPacketId := c.lastNotified + 1 }
      have ha := onAckChans_adds (c.lastNotified + 1) (c.chans.map (·.1)) { c with lastNotified := c.lastNotified + 1, outAckPacketId := c.lastNotified + 1 }
      refine ⟨hk.lastNotified, ?_, hk.outAckSeq⟩
      intro _
      simp only [emit_log, hk.lastNotified]
      rw [statuses_cons_status, statuses_of_adds ha isFreeNode_not_status]
    · simp only [hv, Bool.false_eq_true, if_false]
      have hk := onNakChans_keeps e (c.lastNotified + 1) (c.chans.map (·.1)) { c with lastNotified := c.lastNotified + 1 }
      have ha := onNakChans_adds e (c.lastNotified + 1) (c.chans.map (·.1)) { c with lastNotified := c.lastNotified + 1 }
      refine ⟨hk.lastNotified, ?_, hk.outAckSeq⟩
      intro _
      simp only [emit_log, hk.lastNotified]
      have hv' : v.2 = false := by simpa using hv
      rw [statuses_cons_status, statuses_of_adds ha isOut_not_status]

/-- ids `ln+1, ln+2, …` paired with the verdict bits, newest first -/
def expected (ln : Int) : List (Int × Bool) → List (Int × Bool)
  | [] => []
  | v :: rest => expected (ln + 1) rest ++ [(ln + 1, v.2)]

theorem expected_length (ln : Int) (vs : List (Int × Bool)) : (expected ln vs).length = vs.length := by
  induction vs generalizing ln with
  | nil => rfl
  | cons v rest ih => simp [expected, ih]

theorem expected_reverse_cons (ln : Int) (v : Int × Bool) (rest : List (Int × Bool)) :
    (expected ln (v :: rest)).reverse = (ln + 1, v.2) :: (expected (ln + 1) rest).reverse := by
  simp [expected]

/-- the ids in `expected` are consecutive: oldest first they read `ln+1, ln+2, …, ln+k` -/
theorem expected_ids (vs : List (Int × Bool)) : ∀ (ln : Int) (k : Nat) (hk : k < (expected ln vs).reverse.length),
    ((expected ln vs).reverse)[k].1 = ln + 1 + (k : Int) := by
  induction vs with
  | nil => intro ln k hk; simp [expected] at hk
  | cons v rest ih =>
    intro ln k hk
    simp only [expected_reverse_cons] at hk ⊢
    cases k with
    | zero => simp
    | succ k =>
      simp only [List.getElem_cons_succ]
      rw [ih (ln + 1) k (by simpa using hk)]
      push_cast; omega

/-- a run of verdicts whose wire sequences continue the counter is reported as consecutive ids, in order -/
theorem handle_fold (e : Env) (vs : List (Int × Bool)) : ∀ (c : Conn),
    (∀ j (hj : j < vs.length), vs[j].1 = (c.lastNotified + 1 + (j : Int)) % 16384) →
    statuses (vs.foldl (Conn.handleNotification e) c).log = expected c.lastNotified vs ++ statuses c.log ∧
    (vs.foldl (Conn.handleNotification e) c).lastNotified = c.lastNotified + vs.length ∧
    (vs.foldl (Conn.handleNotification e) c).notify.outAckSeq = c.notify.outAckSeq := by
  induction vs with
  | nil => intro c _; simp [expected]
  | cons v rest ih =>
    intro c h
    obtain ⟨h1, h2, h3⟩ := handle_step e c v
    have hv0 : v.1 = (c.lastNotified + 1) % 16384 := by
      have := h 0 (by simp); simpa using this
    obtain ⟨i1, i2, i3⟩ := ih (c.handleNotification e v) (by
      intro j hj
      have := h (j + 1) (by simp; omega)
      simp only [List.getElem_cons_succ] at this
      rw [this, h1]; congr 1; push_cast; omega)
    simp only [List.foldl_cons]
    refine ⟨?_, ?_, ?_⟩
    · rw [i1, h2 hv0, h1]
      simp [expected]
    · rw [i2, h1]; simp; omega
    · rw [i3, h3]

/-- the bookkeeping invariant: the full id of the last packet with a verdict is congruent to the 14-bit `OutAckSeq` -/
def Inv (c : Conn) : Prop := c.notify.outAckSeq = c.lastNotified % 16384

/-- `utcp_sequence_init` establishes the invariant -/
theorem seqInit_inv (c : Conn) (i o : Int) : Inv (c.seqInit i o) := by
  unfold Inv Conn.seqInit Notify.init
  simp only [seq_num_init]
  omega

/-- the verdict list `packet_notify_update` produces continues the counter -/
theorem verdicts_seq (c : Conn) (h : NotifHeader) (n : Nat) (hinv : Inv c) :
    ∀ j (hj : j < (verdicts c.notify.outAckSeq h n).length), (verdicts c.notify.outAckSeq h n)[j].1 = (c.lastNotified + 1 + (j : Int)) % 16384 := by
  intro j hj
  unfold verdicts at hj ⊢
  simp only [List.length_map, List.length_range] at hj
  simp only [List.getElem_map, List.getElem_range, seq_num_inc, seq_num_init]
  rw [hinv]
  push_cast
  omega

/-- **status order**: processing an accepted header reports the packets `ln+1 … ln+k` — consecutive ids, oldest
first, no gap, no repetition — where `k` is the number of newly covered packets, and re-establishes the invariant -/
theorem notifyUpdate_statuses (e : Env) (c : Conn) (h : NotifHeader) (hinv : Inv c) (hacked : 0 ≤ h.ackedSeq ∧ h.ackedSeq < 16384) :
    ∃ vs : List (Int × Bool), statuses (c.notifyUpdate e h).log = expected c.lastNotified vs ++ statuses c.log ∧
      (c.notifyUpdate e h).lastNotified = c.lastNotified + vs.length ∧ Inv (c.notifyUpdate e h) := by
  unfold Conn.notifyUpdate
  dsimp only
  by_cases hgt : seq_num_greater_than h.ackedSeq c.notify.outAckSeq = true
  · simp only [hgt, if_true]
    let c0 : Conn := { c with notify := c.notify.updateInAckSeqAck (seq_num_diff h.ackedSeq c.notify.outAckSeq).toNat h.ackedSeq }
    have hc0a : c0.notify.outAckSeq = c.notify.outAckSeq := by
      show (c.notify.updateInAckSeqAck _ _).outAckSeq = _
      unfold Notify.updateInAckSeqAck
      dsimp only
      split
      · split
        · split <;> rfl
        · rfl
      · rfl
    have hc0l : c0.lastNotified = c.lastNotified := rfl
    have hinv0 : Inv c0 := by unfold Inv; rw [hc0a, hc0l]; exact hinv
    have hvs := verdicts_seq c0 h (seq_num_diff h.ackedSeq c.notify.outAckSeq).toNat hinv0
    rw [hc0a] at hvs
    obtain ⟨f1, f2, f3⟩ := handle_fold e (verdicts c.notify.outAckSeq h (seq_num_diff h.ackedSeq c.notify.outAckSeq).toNat) c0 hvs
    refine ⟨verdicts c.notify.outAckSeq h (seq_num_diff h.ackedSeq c.notify.outAckSeq).toNat, ?_, ?_, ?_⟩
    · exact f1
    · exact f2
    · have hd := C13.diff_spec h.ackedSeq c.notify.outAckSeq ⟨hacked.1, by omega⟩ ⟨by rw [hinv]; omega, by rw [hinv]; omega⟩
      have hpos := (C13.gt_iff_diff_pos h.ackedSeq c.notify.outAckSeq ⟨hacked.1, hacked.2⟩ ⟨by rw [hinv]; omega, by rw [hinv]; omega⟩).mp hgt
      have hcast : ((seq_num_diff h.ackedSeq c.notify.outAckSeq).toNat : Int) = seq_num_diff h.ackedSeq c.notify.outAckSeq := Int.toNat_of_nonneg (by omega)
      have hf2 : (List.foldl (Conn.handleNotification e) c0 (verdicts c.notify.outAckSeq h (seq_num_diff h.ackedSeq c.notify.outAckSeq).toNat)).lastNotified
          = c.lastNotified + seq_num_diff h.ackedSeq c.notify.outAckSeq := by
        rw [f2, hc0l]; simp only [verdicts, List.length_map, List.length_range]; rw [hcast]
      generalize List.foldl (Conn.handleNotification e) c0 (verdicts c.notify.outAckSeq h (seq_num_diff h.ackedSeq c.notify.outAckSeq).toNat) = cF at hf2 ⊢
      unfold Inv
      show h.ackedSeq = cF.lastNotified % 16384
      rw [hf2]
      unfold Inv at hinv
      omega
  · simp only [hgt, Bool.false_eq_true, if_false]
    exact ⟨[], by simp [expected], by simp, hinv⟩

/-! non-vacuity -/
example : Inv ((({} : Conn).seqInit 16383 0)) := seqInit_inv _ _ _
example : expected 41 [(0, true), (0, false), (0, true)] = [(44, true), (43, false), (42, true)] := by decide

end Utcp.Props.C02
