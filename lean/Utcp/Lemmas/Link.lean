import Utcp.Props.C04
import Utcp.Lemmas.Window
/-!
# Helper definitions and lemmas for `Props/C01_Link.lean` (the two ends of a link, with sequence numbers)
-/
namespace Utcp.Props.C01Link
open Utcp Utcp.Gen Utcp.Props

/-! ## histories without teardown are histories -/

def lift : C01.Op → C18.Op
  | .send b => .send b
  | .flush => .flush
  | .recv bits => .recv bits

def liftOps (ops : List (Env × C01.Op)) : List (Env × C18.Op) := ops.map (fun p => (p.1, lift p.2))

theorem run_lift (ops : List (Env × C01.Op)) : ∀ c : Conn, C18.run c (liftOps ops) = C01.run c ops := by
  induction ops with
  | nil => intro c; rfl
  | cons p rest ih =>
    intro c
    obtain ⟨e, op⟩ := p
    cases op <;> exact ih _

/-- the bunches accepted in a history, newest first, numbered as the sender numbered them -/
def sentOf : Conn → List (Env × C01.Op) → List Bunch → List Bunch
  | _, [], sent => sent
  | c, (e, .send b) :: rest, sent => sentOf (C01.apply e c (.send b)) rest (c.sentAfter b sent)
  | c, (e, op) :: rest, sent => sentOf (C01.apply e c op) rest sent

theorem sentOf_lift (ops : List (Env × C01.Op)) : ∀ (c : Conn) (sent : List Bunch), C04.sentOf c (liftOps ops) sent = sentOf c ops sent := by
  induction ops with
  | nil => intro c sent; rfl
  | cons p rest ih =>
    intro c sent
    obtain ⟨e, op⟩ := p
    cases op <;> exact ih _ _

/-! ## the sender numbers consecutively -/

def onCh (ch : Nat) (b : Bunch) : Bool := b.bReliable && b.chIndex == ch

/-- sequence numbers of the reliable bunches of channel `ch` in `sent` (newest first, like `sent`) -/
def relTags (ch : Nat) (sent : List Bunch) : List Int := (sent.filter (onCh ch)).map (·.chSeq)

/-- `hi, hi-1, …, lo+1` -/
def Desc (lo : Int) : Int → List Int → Prop
  | hi, [] => hi = lo
  | hi, t :: rest => t = hi ∧ Desc lo (hi - 1) rest

theorem desc_facts (lo : Int) : ∀ (l : List Int) (hi : Int), Desc lo hi l →
    (∀ t ∈ l, lo < t ∧ t ≤ hi) ∧ l.Pairwise (· > ·) ∧ hi - lo = l.length := by
  intro l
  induction l with
  | nil => intro hi h; simp only [Desc] at h; subst h; simp
  | cons t rest ih =>
    intro hi h
    simp only [Desc] at h
    obtain ⟨rfl, hr⟩ := h
    obtain ⟨i1, i2, i3⟩ := ih _ hr
    refine ⟨?_, ?_, ?_⟩
    · intro x hx
      rcases List.mem_cons.mp hx with rfl | hx
      · constructor <;> omega
      · have := i1 x hx; omega
    · rw [List.pairwise_cons]
      exact ⟨fun x hx => by have := i1 x hx; omega, i2⟩
    · simp only [List.length_cons]; push_cast; omega

structure SeqInv (ch : Nat) (lo : Int) (c : Conn) (sent : List Bunch) : Prop where
  init : c.initOutReliable = lo
  desc : Desc lo (c.outRelOf ch) (relTags ch sent)

theorem sendBunch_refused (e : Env) (c : Conn) (b : Bunch) (err : Int) (h : c.sendCheck b = .inl err) : (c.sendBunch e b).1 = c := by
  unfold Conn.sendBunch Conn.sendRaw
  simp only [h]
  split <;> rfl

theorem sendBunch_accepted (e : Env) (c : Conn) (b : Bunch) (h0 : Bits) (h : c.sendCheck b = .inr h0) : (c.sendBunch e b).1 = (c.sendCommit e b h0).1 := by
  unfold Conn.sendBunch Conn.sendRaw
  simp only [h]
  split <;> rfl

theorem step_seq (ch : Nat) (lo : Int) (e : Env) (c : Conn) (op : C01.Op) (sent : List Bunch) (h : SeqInv ch lo c sent) :
    SeqInv ch lo (C01.apply e c op) (match op with | .send b => c.sentAfter b sent | _ => sent) := by
  cases op with
  | flush =>
    have hs := flush_osame e c
    exact ⟨hs.init.trans h.init, by show Desc lo ((c.flush e).outRelOf ch) _; rw [hs.out ch]; exact h.desc⟩
  | recv bits =>
    have hs := receivedPacket_osame e c bits
    exact ⟨hs.init.trans h.init, by show Desc lo ((c.receivedPacket e bits).1.outRelOf ch) _; rw [hs.out ch]; exact h.desc⟩
  | send b =>
    show SeqInv ch lo (c.sendBunch e b).1 (c.sentAfter b sent)
    unfold Conn.sentAfter
    cases hchk : c.sendCheck b with
    | inl err => simp only; rw [sendBunch_refused e c b err hchk]; exact h
    | inr h0 =>
      simp only
      rw [sendBunch_accepted e c b h0 hchk]
      obtain ⟨o1, o2, o3⟩ := sendCommit_out e c b h0 hchk
      refine ⟨o1.trans h.init, ?_⟩
      by_cases hon : onCh ch b = true
      · have hr : b.bReliable = true := by unfold onCh at hon; simp at hon; exact hon.1
        have hc : b.chIndex = ch := by unfold onCh at hon; simp at hon; exact hon.2
        have htag : relTags ch (c.tagged b :: sent) = c.nextSeq b :: relTags ch sent := by
          unfold relTags
          have : onCh ch (c.tagged b) = true := hon
          simp only [List.filter_cons, this, if_true, List.map_cons]
          rfl
        rw [htag, ← hc, o3]
        simp only [hr, if_true, Desc, true_and]
        have : c.nextSeq b - 1 = c.outRelOf b.chIndex := by unfold Conn.nextSeq; simp only [hr, if_true]; omega
        rw [this, hc]; exact h.desc
      · have htag : relTags ch (c.tagged b :: sent) = relTags ch sent := by
          unfold relTags
          have h2 : onCh ch b = false := by simpa using hon
          have : onCh ch (c.tagged b) = false := h2
          simp only [List.filter_cons, this, Bool.false_eq_true, if_false]
        rw [htag]
        by_cases hc : ch = b.chIndex
        · subst hc
          have hr : b.bReliable = false := by unfold onCh at hon; simp at hon; cases hb : b.bReliable <;> simp_all
          rw [o3]; simp only [hr, Bool.false_eq_true, if_false]; exact h.desc
        · rw [o2 ch hc]; exact h.desc

theorem run_seq (ch : Nat) (lo : Int) (ops : List (Env × C01.Op)) : ∀ (c : Conn) (sent : List Bunch), SeqInv ch lo c sent →
    SeqInv ch lo (C01.run c ops) (sentOf c ops sent) := by
  induction ops with
  | nil => intro c sent h; exact h
  | cons p rest ih =>
    intro c sent h
    obtain ⟨e, op⟩ := p
    have hs := step_seq ch lo e c op sent h
    cases op with
    | send b => exact ih _ _ hs
    | flush => exact ih _ _ hs
    | recv bits => exact ih _ _ hs

/-! ## the receiver stays inside the sender's numbers -/

theorem seen_fields (q b : Bunch) (h : seen q = seen b) : q.chIndex = b.chIndex ∧ q.bReliable = b.bReliable := by
  have := C04.seen_eq_iff q b h
  exact ⟨this.1, this.2.2.2.1⟩

/-- a reliable bunch on `ch` that looks like one the sender numbered, taken as the successor of a counter inside the sender's range, is
still inside it — because the channel has carried fewer than 1024 numbers -/
theorem sentQ_fits (ch : Nat) (lo hi : Int) (sent : List Bunch) (htags : ∀ t ∈ relTags ch sent, lo < t ∧ t ≤ hi) (hsmall : hi - lo < 1024) :
    ∀ b, SentQ sent b → Fits ch lo hi b := by
  intro b ⟨tb, htb, hseen, hres⟩ hr hc r hlo hhi hnext
  obtain ⟨f1, f2⟩ := seen_fields b tb hseen
  have hmem : tb.chSeq ∈ relTags ch sent := by
    unfold relTags
    refine List.mem_map.mpr ⟨tb, List.mem_filter.mpr ⟨htb, ?_⟩, rfl⟩
    unfold onCh; rw [← f2, ← f1, hr, hc]; simp
  have ht := htags _ hmem
  have := hres hr
  omega

/-- the receiver's side of the link, with the window invariant: fed only good bodies, the counters stay in range and every reliable
delivery is numbered above the initial value -/
theorem receiver_run_w (sent : List Bunch) (ch : Nat) (lo hi : Int) (hQF : ∀ b, SentQ sent b → Fits ch lo hi b)
    (ops : List (Env × C01.Op)) : ∀ c : Conn, WInv (SentQ sent) ch lo hi c → C04.Offered sent ops →
    WInv (SentQ sent) ch lo hi (C01.run c ops) ∧ Adds (WP lo) c (C01.run c ops) := by
  induction ops with
  | nil => intro c h _; exact ⟨h, Adds.refl _ _⟩
  | cons p rest ih =>
    intro c h hoff
    obtain ⟨e, op⟩ := p
    cases op with
    | send b =>
      obtain ⟨s1, s2⟩ := sendBunch_w e c b h
      obtain ⟨r1, r2⟩ := ih _ s1 hoff
      exact ⟨r1, s2.trans r2⟩
    | flush =>
      obtain ⟨s1, s2⟩ := flush_w e c h
      obtain ⟨r1, r2⟩ := ih _ s1 hoff
      exact ⟨r1, s2.trans r2⟩
    | recv bits =>
      simp only [C04.Offered] at hoff
      obtain ⟨s1, s2⟩ := receivedPacket_w (sentQ_stable sent) hQF e c bits h (by
        intro hd body hdec
        obtain ⟨bs, hb, hall⟩ := hoff.1 hd body hdec
        exact ⟨bs, hb, hall⟩)
      obtain ⟨r1, r2⟩ := ih _ s1 hoff.2
      exact ⟨r1, s2.trans r2⟩

/-! ## delivered bunches, not only their numbers -/

def relBunches (ch : Nat) (g : List Bunch) : List Bunch := g.filter (onCh ch)

/-- the reliable bunches of channel `ch` that the log says were delivered, oldest first -/
def delivered (ch : Nat) : List Event → List Bunch
  | [] => []
  | .recv g :: rest => delivered ch rest ++ relBunches ch g
  | _ :: rest => delivered ch rest

theorem delivered_seqs (ch : Nat) (log : List Event) : (delivered ch log).map (·.chSeq) = relLog ch log := by
  induction log with
  | nil => rfl
  | cons ev rest ih =>
    cases ev with
    | recv g => simp only [delivered, relLog, List.map_append, ih]; rfl
    | _ => simpa [delivered, relLog] using ih

theorem delivered_mem (ch : Nat) (log : List Event) (q : Bunch) (h : q ∈ delivered ch log) :
    ∃ g, Event.recv g ∈ log ∧ q ∈ g ∧ q.bReliable = true ∧ q.chIndex = ch := by
  induction log with
  | nil => simp [delivered] at h
  | cons ev rest ih =>
    cases ev with
    | recv g =>
      simp only [delivered, List.mem_append] at h
      rcases h with h | h
      · obtain ⟨g', h1, h2⟩ := ih h; exact ⟨g', List.mem_cons_of_mem _ h1, h2⟩
      · unfold relBunches at h
        obtain ⟨h1, h2⟩ := List.mem_filter.mp h
        unfold onCh at h2; simp at h2
        exact ⟨g, List.mem_cons_self, h1, h2.1, h2.2⟩
    | _ =>
      all_goals
        simp only [delivered] at h
        obtain ⟨g', h1, h2⟩ := ih h
        exact ⟨g', List.mem_cons_of_mem _ h1, h2⟩

/-- what of a bunch the application sees, with its channel sequence number -/
def view (b : Bunch) : Bunch := { seen b with chSeq := b.chSeq }

theorem view_seq (b : Bunch) : (view b).chSeq = b.chSeq := rfl

theorem view_eq (q b : Bunch) (h1 : seen q = seen b) (h2 : q.chSeq = b.chSeq) : view q = view b := by
  unfold view; rw [h1, h2]

/-- the reliable bunches the sender accepted on channel `ch`, in sending order, numbered -/
def accepted (ch : Nat) (sent : List Bunch) : List Bunch := (sent.filter (onCh ch)).reverse

/-- a strictly increasing list all of whose elements occur in another strictly increasing list is a sub-sequence of it -/
theorem sublist_of_increasing (key : Bunch → Int) : ∀ (L D : List Bunch), (L.map key).Pairwise (· < ·) → (D.map key).Pairwise (· < ·) →
    (∀ d ∈ D, d ∈ L) → D.Sublist L := by
  intro L
  induction L with
  | nil =>
    intro D _ _ hm
    cases D with
    | nil => exact List.Sublist.slnil
    | cons d _ => exact absurd (hm d List.mem_cons_self) (by simp)
  | cons a L' ih =>
    intro D hL hD hm
    cases D with
    | nil => exact List.nil_sublist _
    | cons d D' =>
      simp only [List.map_cons, List.pairwise_cons] at hL hD
      have hD'mem : ∀ x ∈ D', x ∈ L' := by
        intro x hx
        have hkx : key d < key x := hD.1 (key x) (List.mem_map.mpr ⟨x, hx, rfl⟩)
        rcases List.mem_cons.mp (hm x (List.mem_cons_of_mem _ hx)) with rfl | h
        · -- x = a: then key a > key d, but d ∈ a :: L' has key ≥ key a
          rcases List.mem_cons.mp (hm d List.mem_cons_self) with rfl | hd
          · omega
          · have := hL.1 (key d) (List.mem_map.mpr ⟨d, hd, rfl⟩); omega
        · exact h
      rcases List.mem_cons.mp (hm d List.mem_cons_self) with rfl | hd
      · exact List.Sublist.cons_cons _ (ih D' hL.2 hD.2 hD'mem)
      · refine List.Sublist.cons _ (ih (d :: D') hL.2 ?_ ?_)
        · simp only [List.map_cons, List.pairwise_cons]; exact hD
        · intro x hx
          rcases List.mem_cons.mp hx with rfl | hx
          · exact hd
          · exact hD'mem x hx


theorem mem_relLog (ch : Nat) (log : List Event) (g : List Bunch) (q : Bunch) (hg : Event.recv g ∈ log) (hq : q ∈ g)
    (hr : q.bReliable = true) (hc : q.chIndex = ch) : q.chSeq ∈ relLog ch log := by
  induction log with
  | nil => cases hg
  | cons ev rest ih =>
    rcases List.mem_cons.mp hg with rfl | hg
    · simp only [relLog, List.mem_append]
      right
      unfold relOf
      exact List.mem_map.mpr ⟨q, List.mem_filter.mpr ⟨hq, by simp [hr, hc]⟩, rfl⟩
    · have := ih hg
      cases ev with
      | recv g' => simp only [relLog, List.mem_append]; left; exact this
      | _ => simpa [relLog] using this

theorem accepted_increasing (ch : Nat) (sent : List Bunch) (hdec : (relTags ch sent).Pairwise (· > ·)) :
    (((accepted ch sent).map view).map (·.chSeq)).Pairwise (· < ·) := by
  have : ((accepted ch sent).map view).map (·.chSeq) = (relTags ch sent).reverse := by
    unfold accepted relTags
    rw [List.map_map, List.map_reverse]; rfl
  rw [this, List.pairwise_reverse]
  exact hdec.imp (fun h => h)

/-! ### consecutive runs -/

/-- `s, s+1, s+2, …` -/
def Asc : Int → List Int → Prop
  | _, [] => True
  | s, t :: rest => t = s ∧ Asc (s + 1) rest

theorem asc_ge : ∀ (l : List Int) (s : Int), Asc s l → ∀ t ∈ l, s ≤ t := by
  intro l
  induction l with
  | nil => intro s _ t ht; cases ht
  | cons a rest ih =>
    intro s h t ht
    simp only [Asc] at h
    rcases List.mem_cons.mp ht with rfl | ht
    · omega
    · have := ih _ h.2 t ht; omega

theorem asc_snoc : ∀ (l : List Int) (s : Int), Asc s l → Asc s (l ++ [s + l.length]) := by
  intro l
  induction l with
  | nil => intro s _; simp [Asc]
  | cons a rest ih =>
    intro s h
    simp only [Asc] at h
    simp only [List.cons_append, Asc, List.length_cons]
    refine ⟨h.1, ?_⟩
    have := ih _ h.2
    have e : s + 1 + (rest.length : Int) = s + ((rest.length + 1 : Nat) : Int) := by push_cast; omega
    rw [e] at this; exact this

theorem asc_of_desc (lo : Int) : ∀ (l : List Int) (hi : Int), Desc lo hi l → Asc (lo + 1) l.reverse := by
  intro l
  induction l with
  | nil => intro hi _; simp [Asc]
  | cons t rest ih =>
    intro hi h
    simp only [Desc] at h
    obtain ⟨rfl, hr⟩ := h
    have h1 := ih _ hr
    obtain ⟨_, _, hlen⟩ := desc_facts lo _ _ hr
    have h2 := asc_snoc _ _ h1
    rw [List.reverse_cons]
    have e : lo + 1 + (rest.reverse.length : Int) = t := by rw [List.length_reverse]; omega
    rw [e] at h2; exact h2

/-- a consecutive run all of whose elements occur in a consecutive list, starting where the list starts, is a prefix of it -/
theorem prefix_of_asc : ∀ (G L : List Bunch) (a : Int), Asc a (L.map (·.chSeq)) → Asc a (G.map (·.chSeq)) → (∀ x ∈ G, x ∈ L) →
    ∃ post, L = G ++ post := by
  intro G
  induction G with
  | nil => intro L a _ _ _; exact ⟨L, rfl⟩
  | cons z G' ih =>
    intro L a hL hG hm
    simp only [List.map_cons, Asc] at hG
    cases L with
    | nil => exact absurd (hm z List.mem_cons_self) (by simp)
    | cons w L' =>
      simp only [List.map_cons, Asc] at hL
      have hzw : z = w := by
        rcases List.mem_cons.mp (hm z List.mem_cons_self) with h | h
        · exact h
        · have := asc_ge _ _ hL.2 z.chSeq (List.mem_map.mpr ⟨z, h, rfl⟩); omega
      subst hzw
      have hm' : ∀ x ∈ G', x ∈ L' := by
        intro x hx
        rcases List.mem_cons.mp (hm x (List.mem_cons_of_mem _ hx)) with h | h
        · have := asc_ge _ _ hG.2 x.chSeq (List.mem_map.mpr ⟨x, hx, rfl⟩)
          rw [h] at this; omega
        · exact h
      obtain ⟨post, hp⟩ := ih L' (a + 1) hL.2 (by rw [← hG.1, hL.1] at hG; exact hG.2) hm'
      exact ⟨post, by rw [hp]; rfl⟩

/-- a consecutive run all of whose elements occur in a consecutive list is a contiguous segment of it -/
theorem infix_of_asc : ∀ (L G : List Bunch) (a s : Int), Asc a (L.map (·.chSeq)) → Asc s (G.map (·.chSeq)) → (∀ x ∈ G, x ∈ L) →
    ∃ pre post, L = pre ++ G ++ post := by
  intro L
  induction L with
  | nil =>
    intro G a s _ _ hm
    cases G with
    | nil => exact ⟨[], [], rfl⟩
    | cons y _ => exact absurd (hm y List.mem_cons_self) (by simp)
  | cons x L' ih =>
    intro G a s hL hG hm
    cases G with
    | nil => exact ⟨x :: L', [], by simp⟩
    | cons y G' =>
      simp only [List.map_cons, Asc] at hL
      have hGy : y.chSeq = s := by simp only [List.map_cons, Asc] at hG; exact hG.1
      by_cases hyx : y = x
      · subst hyx
        have hsa : s = a := by rw [← hGy, hL.1]
        subst hsa
        obtain ⟨post, hp⟩ := prefix_of_asc (y :: G') (y :: L') s (by simp only [List.map_cons, Asc]; exact hL) hG hm
        exact ⟨[], post, by simpa using hp⟩
      · have hyL : y ∈ L' := by
          rcases List.mem_cons.mp (hm y List.mem_cons_self) with h | h
          · exact absurd h hyx
          · exact h
        have hsge : a + 1 ≤ s := by
          have := asc_ge _ _ hL.2 y.chSeq (List.mem_map.mpr ⟨y, hyL, rfl⟩); omega
        have hm' : ∀ z ∈ y :: G', z ∈ L' := by
          intro z hz
          rcases List.mem_cons.mp (hm z hz) with h | h
          · have := asc_ge _ _ hG z.chSeq (List.mem_map.mpr ⟨z, hz, rfl⟩)
            rw [h] at this; omega
          · exact h
        obtain ⟨pre, post, hp⟩ := ih (y :: G') (a + 1) s hL.2 hG hm'
        exact ⟨x :: pre, post, by rw [hp]; simp⟩

end Utcp.Props.C01Link
