import Utcp.Lemmas.OutSeq
import Utcp.Lemmas.GroupInv
import Utcp.Lemmas.SendInv
import Utcp.Lemmas.Balance
import Utcp.Lemmas.Origin
/-!
# Retransmission records are never dropped silently (sender side)

`recBits c ch`: the serialized reliable bunches channel `ch` still holds for retransmission.  `RKeep c c'`: every one of them is still
held in `c'` (possibly re-tagged with a new packet id).  Everything keeps them — flushing, sending, the whole receive path, a NAK (which
re-sends and re-queues them), the periodic update (which tears a channel down only when it holds none) — except the release on a
positive acknowledgement, which removes exactly the records tagged with the acknowledged packet id (`onAckChans_split`) and reports
that id to the application (`Fate`).
-/
namespace Utcp
open Gen

def recBits (c : Conn) (ch : Nat) : List Bits :=
  match c.getChan ch with
  | some x => x.outRec.map (·.bits)
  | none => []

def RKeep (c c' : Conn) : Prop := ∀ ch, ∀ b ∈ recBits c ch, b ∈ recBits c' ch

theorem RKeep.refl (c : Conn) : RKeep c c := fun _ _ h => h
theorem RKeep.trans {a b c : Conn} (h1 : RKeep a b) (h2 : RKeep b c) : RKeep a c := fun ch x hx => h2 ch x (h1 ch x hx)

theorem RKeep.of_chans {c c' : Conn} (hc : c'.chans = c.chans) : RKeep c c' := by
  intro ch b hb
  unfold recBits Conn.getChan at hb ⊢
  rw [hc]; exact hb

theorem recBits_of_get {c : Conn} {ch : Nat} {x : Channel} (h : c.getChan ch = some x) : recBits c ch = x.outRec.map (·.bits) := by
  unfold recBits; rw [h]

theorem setChan_rkeep (c : Conn) (ch : Nat) (x x' : Channel) (h : c.getChan ch = some x)
    (hsub : ∀ n ∈ x.outRec, ∃ n' ∈ x'.outRec, n'.bits = n.bits) : RKeep c (c.setChan ch x') := by
  intro ch' b hb
  by_cases he : ch' = ch
  · subst he
    rw [recBits_of_get h] at hb
    rw [recBits_of_get (getChan_setChan_self c ch' x')]
    obtain ⟨n, hn, rfl⟩ := List.mem_map.mp hb
    obtain ⟨n', hn', hbits⟩ := hsub n hn
    exact List.mem_map.mpr ⟨n', hn', hbits⟩
  · unfold recBits at hb ⊢
    rw [getChan_setChan_other _ _ _ _ he]; exact hb

/-- the receive side of a channel changes, its records do not -/
theorem setChan_rkeep' (c : Conn) (ch : Nat) (x x' : Channel) (h : c.getChan ch = some x) (ho : x'.outRec = x.outRec) : RKeep c (c.setChan ch x') :=
  setChan_rkeep c ch x x' h (fun n hn => ⟨n, by rw [ho]; exact hn, rfl⟩)

theorem emit_rkeep (c : Conn) (ev : Event) : RKeep c (c.emit ev) := RKeep.of_chans rfl
theorem markClose_rkeep (c : Conn) (r : Nat) : RKeep c (c.markClose r) := RKeep.of_chans (markClose_chans c r)
theorem freeNodes_rkeep (c : Conn) (k : Nat) : RKeep c (c.freeNodes k) := RKeep.of_chans (freeNodes_chans' c k)

theorem noteClose_rkeep (c : Conn) (b : Bunch) : RKeep c (c.noteClose b) := by
  unfold Conn.noteClose
  split
  · exact RKeep.refl _
  · dsimp only
    have hc : RKeep c (if (b.chIndex == 0) = true then c.markClose crControlChannelClose else c) := by
      split
      · exact markClose_rkeep _ _
      · exact RKeep.refl _
    generalize (if (b.chIndex == 0) = true then c.markClose crControlChannelClose else c) = c' at *
    split
    · exact hc
    · rename_i x hx
      exact (hc.trans (setChan_rkeep' c' _ x (x.markClosed b.closeReason) hx (markClosed_outRec _ _))).trans (RKeep.of_chans rfl)

theorem foldl_noteClose_rkeep (g : List Bunch) : ∀ c : Conn, RKeep c (g.foldl Conn.noteClose c) := by
  induction g with
  | nil => intro c; exact RKeep.refl _
  | cons b rest ih => intro c; exact (noteClose_rkeep c b).trans (ih _)

theorem mergePartial_rkeep (c : Conn) (x : Channel) (b : Bunch) : RKeep c (mergePartial c x b).1 := RKeep.of_chans (mergePartial_chans c x b)

theorem mergePartial_outRec (c : Conn) (x : Channel) (b : Bunch) : (mergePartial c x b).2.1.outRec = x.outRec := by
  unfold mergePartial mergeInitial mergeNext
  split
  · split
    · rfl
    · split <;> rfl
  · split
    · rfl
    · split
      · rfl
      · split <;> rfl

theorem receivedNextBunch_rkeep (c : Conn) (b : Bunch) : RKeep c (c.receivedNextBunch b).1 := by
  unfold Conn.receivedNextBunch
  split
  · exact emit_rkeep _ _
  · rename_i x hx
    dsimp only
    have hx0 : (if b.bReliable = true then { x with inReliable := b.chSeq } else x).outRec = x.outRec := by split <;> rfl
    split
    · have hm := mergePartial_rkeep c (if b.bReliable = true then { x with inReliable := b.chSeq } else x) b
      have hmc := mergePartial_chans c (if b.bReliable = true then { x with inReliable := b.chSeq } else x) b
      have hmo := mergePartial_outRec c (if b.bReliable = true then { x with inReliable := b.chSeq } else x) b
      generalize hmp : mergePartial c (if b.bReliable = true then { x with inReliable := b.chSeq } else x) b = r at hm hmc hmo
      obtain ⟨c1, x1, res, skip⟩ := r
      simp only at hm hmc hmo ⊢
      have hx1 : c1.getChan b.chIndex = some x := by unfold Conn.getChan at hx ⊢; rw [hmc]; exact hx
      have h1 : RKeep c (c1.setChan b.chIndex x1) := hm.trans (setChan_rkeep' _ _ x x1 hx1 (hmo.trans hx0))
      cases res with
      | succeed => exact h1
      | fatal => exact h1.trans (emit_rkeep _ _)
      | failed => exact h1.trans (emit_rkeep _ _)
      | available =>
        simp only
        split
        · have hg : ((c1.setChan b.chIndex x1).freeNodes x1.inPartial.length).getChan b.chIndex = some x1 := by
            unfold Conn.getChan; rw [freeNodes_chans']; exact getChan_setChan_self _ _ _
          exact ((h1.trans (freeNodes_rkeep _ x1.inPartial.length)).trans (setChan_rkeep' _ _ x1 { x1 with inPartial := [] } hg rfl)).trans (markClose_rkeep _ _)
        · have h2 := (h1.trans (foldl_noteClose_rkeep x1.inPartial _)).trans (emit_rkeep _ (.recv x1.inPartial))
          have h3 := h2.trans (freeNodes_rkeep _ x1.inPartial.length)
          split
          · exact h3
          · rename_i x4 hx4
            exact h3.trans (setChan_rkeep' _ _ x4 _ hx4 rfl)
    · exact (((setChan_rkeep' c _ x _ hx hx0).trans (noteClose_rkeep _ _)).trans (emit_rkeep _ _)).trans (emit_rkeep _ _)

theorem dispatchWaiting_rkeep (fuel : Nat) : ∀ (c : Conn) (ch : Nat), RKeep c (Conn.dispatchWaiting fuel c ch) := by
  induction fuel with
  | zero => intro c ch; exact RKeep.refl _
  | succ f ih =>
    intro c ch
    unfold Conn.dispatchWaiting
    split
    · exact RKeep.refl _
    · rename_i x hx
      split
      · exact RKeep.refl _
      · rename_i b rest hq
        split
        · exact RKeep.refl _
        · dsimp only
          exact ((setChan_rkeep' c ch x { x with inRec := rest } hx rfl).trans (receivedNextBunch_rkeep _ b)).trans (ih _ _)

theorem createChan_rkeep (c : Conn) (ch : Nat) (hn : c.getChan ch = none) : RKeep c (c.createChan ch) := by
  unfold Conn.createChan
  dsimp only
  have key : ∀ (c1 : Conn) (x : Channel), c1.chans = c.chans → RKeep c (c1.setChan ch x) := by
    intro c1 x h1 ch' b hb
    by_cases he : ch' = ch
    · subst he; unfold recBits at hb; rw [hn] at hb; cases hb
    · unfold recBits at hb ⊢
      rw [getChan_setChan_other _ _ _ _ he]
      have : c1.getChan ch' = c.getChan ch' := by unfold Conn.getChan; rw [h1]
      rw [this]; exact hb
  split
  · exact key _ _ rfl
  · split
    · exact key _ _ rfl
    · exact key _ _ rfl

theorem getOrCreateChan_rkeep (c : Conn) (b : Bunch) (inc : Bool) : RKeep c (c.getOrCreateChan b inc).1 := by
  unfold Conn.getOrCreateChan
  split
  · exact RKeep.refl _
  · rename_i hn
    split
    · exact createChan_rkeep c _ hn
    · exact RKeep.refl _

theorem processBunch_rkeep (c : Conn) (x : Channel) (b : Bunch) (hx : c.getChan b.chIndex = some x) : RKeep c (c.processBunch x b).1 := by
  unfold Conn.processBunch
  split
  · exact emit_rkeep _ _
  · split
    · split
      · exact emit_rkeep _ _
      · split
        · exact setChan_rkeep' _ _ x _ hx rfl
        · exact emit_rkeep _ _
    · exact receivedNextBunch_rkeep _ _

theorem receivedRawBunch_rkeep (c : Conn) (bits : Bits) : RKeep c (c.receivedRawBunch bits).1 := by
  unfold Conn.receivedRawBunch
  dsimp only
  have h0 : RKeep c (c.emit (.alloc .node)) := emit_rkeep _ _
  split
  · exact (h0.trans (markClose_rkeep _ _)).trans (emit_rkeep _ _)
  · rename_i b rest hd
    split
    · exact (h0.trans (markClose_rkeep _ _)).trans (emit_rkeep _ _)
    · have hg := getOrCreateChan_rkeep (c.emit (.alloc .node)) { b with packetId := (c.emit (.alloc .node)).inPacketId } true
      have g2 := getOrCreateChan_get (c.emit (.alloc .node)) { b with packetId := (c.emit (.alloc .node)).inPacketId } true
      split
      · exact (h0.trans hg).trans (emit_rkeep _ _)
      · rename_i x hx
        have hget := g2 x hx
        exact ((h0.trans hg).trans (processBunch_rkeep _ x _ (by rw [absSeq_chIndex]; exact hget))).trans (dispatchWaiting_rkeep _ _ _)

/-- **the bunch loop of `ReceivedPacket` drops no retransmission record** -/
theorem bunchLoop_rkeep (fuel : Nat) : ∀ (c : Conn) (bits : Bits) (skip : Bool), RKeep c (Conn.bunchLoop fuel c bits skip).1 := by
  induction fuel with
  | zero => intro c bits skip; exact RKeep.refl _
  | succ f ih =>
    intro c bits skip
    unfold Conn.bunchLoop
    split
    · exact RKeep.refl _
    · exact (receivedRawBunch_rkeep c bits).trans (ih _ _ _)

/-! ### sending, flushing, NAK -/

theorem flush_rkeep (e : Env) (c : Conn) : RKeep c (c.flush e) := RKeep.of_chans (flush_chans e c)
theorem writeBits_rkeep (e : Env) (c : Conn) (bits : Bits) : RKeep c (c.writeBits e bits).1 := RKeep.of_chans (writeBits_chans e c bits)

/-- re-sending re-queues: nothing held is lost, and every re-sent record is held again -/
theorem resendNodes_rkeep (e : Env) (ch : Nat) (nodes : List OutNode) : ∀ c : Conn, (c.getChan ch).isSome →
    RKeep c (c.resendNodes e ch nodes) ∧ ∀ n ∈ nodes, n.bits ∈ recBits (c.resendNodes e ch nodes) ch := by
  induction nodes with
  | nil => intro c _; exact ⟨RKeep.refl _, by intro n hn; cases hn⟩
  | cons n rest ih =>
    intro c hs
    unfold Conn.resendNodes
    dsimp only
    have hw := writeBits_rkeep e c n.bits
    have hwc := writeBits_chans e c n.bits
    have hs1 : ((c.writeBits e n.bits).1.getChan ch).isSome := by unfold Conn.getChan at hs ⊢; rw [hwc]; exact hs
    cases hx : (c.writeBits e n.bits).1.getChan ch with
    | none => rw [hx] at hs1; simp at hs1
    | some x =>
      simp only
      have h1 : RKeep (c.writeBits e n.bits).1 ((c.writeBits e n.bits).1.setChan ch { x with outRec := x.outRec ++ [{ n with packetId := (c.writeBits e n.bits).2 }] }) :=
        setChan_rkeep _ ch x _ hx (fun m hm => ⟨m, List.mem_append_left _ hm, rfl⟩)
      have hnew : n.bits ∈ recBits ((c.writeBits e n.bits).1.setChan ch { x with outRec := x.outRec ++ [{ n with packetId := (c.writeBits e n.bits).2 }] }) ch := by
        rw [recBits_of_get (getChan_setChan_self _ _ _)]
        exact List.mem_map.mpr ⟨{ n with packetId := (c.writeBits e n.bits).2 }, by simp, rfl⟩
      obtain ⟨i1, i2⟩ := ih ((c.writeBits e n.bits).1.setChan ch { x with outRec := x.outRec ++ [{ n with packetId := (c.writeBits e n.bits).2 }] })
        (by rw [getChan_setChan_self]; rfl)
      refine ⟨(hw.trans h1).trans i1, ?_⟩
      intro m hm
      rcases List.mem_cons.mp hm with rfl | hm
      · exact i1 ch _ hnew
      · exact i2 m hm

theorem removeOutgoing_mem (pid : Int) (l : List OutNode) : ∀ n ∈ l, n ∈ (removeOutgoing pid l).1 ∨ n ∈ (removeOutgoing pid l).2 := by
  induction l with
  | nil => intro n hn; cases hn
  | cons a rest ih =>
    intro n hn
    unfold removeOutgoing
    split
    · rcases List.mem_cons.mp hn with rfl | hn
      · left; simp
      · rcases ih n hn with h | h
        · left; simp [h]
        · right; exact h
    · split
      · right; exact hn
      · rcases List.mem_cons.mp hn with rfl | hn
        · right; simp
        · rcases ih n hn with h | h
          · left; exact h
          · right; simp [h]

theorem removeOutgoing_pid (pid : Int) (l : List OutNode) : ∀ n ∈ (removeOutgoing pid l).1, n.packetId = pid := by
  induction l with
  | nil => intro n hn; simp [removeOutgoing] at hn
  | cons a rest ih =>
    intro n hn
    unfold removeOutgoing at hn
    split at hn
    · rename_i h
      simp only [List.mem_cons] at hn
      rcases hn with rfl | hn
      · simpa using h
      · exact ih n hn
    · split at hn
      · simp at hn
      · exact ih n hn

/-- **a NAK loses nothing**: the records of the lost packet are re-sent and re-queued under the new packet's id -/
theorem onNakChans_rkeep (e : Env) (pid : Int) (chs : List Nat) : ∀ c : Conn, RKeep c (c.onNakChans e pid chs) := by
  induction chs with
  | nil => intro c; exact RKeep.refl _
  | cons ch rest ih =>
    intro c
    unfold Conn.onNakChans
    split
    · exact ih c
    · rename_i x hx
      dsimp only
      refine RKeep.trans ?_ (ih _)
      obtain ⟨r1, r2⟩ := resendNodes_rkeep e ch (removeOutgoing pid x.outRec).1 (c.setChan ch { x with outRec := (removeOutgoing pid x.outRec).2 })
        (by rw [getChan_setChan_self]; rfl)
      intro ch' b hb
      by_cases he : ch' = ch
      · subst he
        rw [recBits_of_get hx] at hb
        obtain ⟨n, hn, rfl⟩ := List.mem_map.mp hb
        rcases removeOutgoing_mem pid x.outRec n hn with h | h
        · exact r2 n h
        · apply r1 ch'
          rw [recBits_of_get (getChan_setChan_self _ _ _)]
          exact List.mem_map.mpr ⟨n, h, rfl⟩
      · apply r1 ch'
        unfold recBits at hb ⊢
        rw [getChan_setChan_other _ _ _ _ he]; exact hb

/-! ### ACK: the one place where records go -/

/-- channel `ch` of `c` holds a record with these bits, tagged with packet id `pid` -/
def TaggedIn (c : Conn) (ch : Nat) (b : Bits) (pid : Int) : Prop := ∃ x n, c.getChan ch = some x ∧ n ∈ x.outRec ∧ n.bits = b ∧ n.packetId = pid

theorem foldl_emit_chans {α} (ev : Event) (l : List α) : ∀ c : Conn, (l.foldl (fun c _ => c.emit ev) c).chans = c.chans := by
  induction l with
  | nil => intro c; rfl
  | cons _ rest ih => intro c; exact (ih _).trans rfl

/-- **release on ACK removes exactly the records tagged with the acknowledged packet id** -/
theorem onAckChans_split (pid : Int) (chs : List Nat) : ∀ c : Conn, ∀ ch', ∀ b ∈ recBits c ch',
    b ∈ recBits (c.onAckChans pid chs) ch' ∨ TaggedIn c ch' b pid := by
  induction chs with
  | nil => intro c ch' b hb; exact Or.inl hb
  | cons ch rest ih =>
    intro c ch' b hb
    unfold Conn.onAckChans
    split
    · exact ih c ch' b hb
    · rename_i x hx
      dsimp only
      -- the state after this channel's release
      have hc1 : ∀ ch2, ((removeOutgoing pid x.outRec).1.foldl (fun c _ => c.emit (.free .node)) (c.setChan ch { x with outRec := (removeOutgoing pid x.outRec).2 })).getChan ch2
          = (c.setChan ch { x with outRec := (removeOutgoing pid x.outRec).2 }).getChan ch2 := by
        intro ch2; unfold Conn.getChan; rw [foldl_emit_chans]
      generalize hc1def : (removeOutgoing pid x.outRec).1.foldl (fun c _ => c.emit (.free .node)) (c.setChan ch { x with outRec := (removeOutgoing pid x.outRec).2 }) = c1 at hc1
      by_cases he : ch' = ch
      · subst he
        rw [recBits_of_get hx] at hb
        obtain ⟨n, hn, rfl⟩ := List.mem_map.mp hb
        rcases removeOutgoing_mem pid x.outRec n hn with h | h
        · exact Or.inr ⟨x, n, hx, hn, rfl, removeOutgoing_pid pid x.outRec n h⟩
        · have h1 : n.bits ∈ recBits c1 ch' := by
            unfold recBits; rw [hc1, getChan_setChan_self]
            exact List.mem_map.mpr ⟨n, h, rfl⟩
          rcases ih c1 ch' n.bits h1 with h2 | ⟨x2, n2, hx2, hn2, hb2, hp2⟩
          · exact Or.inl h2
          · rw [hc1, getChan_setChan_self] at hx2
            cases hx2
            exact Or.inr ⟨x, n2, hx, (removeOutgoing_subset pid x.outRec).2 n2 hn2, hb2, hp2⟩
      · have h1 : b ∈ recBits c1 ch' := by
          unfold recBits at hb ⊢; rw [hc1, getChan_setChan_other _ _ _ _ he]; exact hb
        rcases ih c1 ch' b h1 with h2 | ⟨x2, n2, hx2, hn2, hb2, hp2⟩
        · exact Or.inl h2
        · rw [hc1, getChan_setChan_other _ _ _ _ he] at hx2
          exact Or.inr ⟨x2, n2, hx2, hn2, hb2, hp2⟩

/-! ### fates -/

/-- what happened between `c` and `c'`: the log grew by `new`, and every record held in `c` is still held in `c'` unless `new` reports a
positive acknowledgement -/
def Fate (c c' : Conn) : Prop :=
  ∃ new, c'.log = new ++ c.log ∧ ∀ ch, ∀ b ∈ recBits c ch, b ∈ recBits c' ch ∨ ∃ pid, Event.status pid true ∈ new

theorem Fate.refl (c : Conn) : Fate c c := ⟨[], rfl, fun _ _ h => Or.inl h⟩

theorem Fate.trans {a b c : Conn} (h1 : Fate a b) (h2 : Fate b c) : Fate a c := by
  obtain ⟨n1, l1, k1⟩ := h1
  obtain ⟨n2, l2, k2⟩ := h2
  refine ⟨n2 ++ n1, by rw [l2, l1, List.append_assoc], ?_⟩
  intro ch x hx
  rcases k1 ch x hx with h | ⟨pid, hp⟩
  · rcases k2 ch x h with h' | ⟨pid, hp⟩
    · exact Or.inl h'
    · exact Or.inr ⟨pid, List.mem_append_left _ hp⟩
  · exact Or.inr ⟨pid, List.mem_append_right _ hp⟩

theorem Fate.of_keep {P : Event → Prop} {c c' : Conn} (hk : RKeep c c') (ha : Adds P c c') : Fate c c' := by
  obtain ⟨new, hl, _⟩ := ha
  exact ⟨new, hl, fun ch b hb => Or.inl (hk ch b hb)⟩

theorem truePred_notif : NotifPred (fun _ => True) := ⟨fun _ _ => trivial, fun _ _ => trivial, fun _ _ => trivial⟩
theorem truePred_recv : RecvPred (fun _ => True) := ⟨fun _ => trivial, fun _ => trivial, fun _ => trivial, fun _ _ _ => trivial⟩

/-- **one notification**: a NAK (or a notification for another packet) loses nothing; an ACK releases exactly the records tagged with the
packet id it reports to the application -/
theorem handleNotification_fate (e : Env) (c : Conn) (v : Int × Bool) :
    Fate c (c.handleNotification e v) ∧
    ∀ ch, ∀ b ∈ recBits c ch, b ∈ recBits (c.handleNotification e v) ch ∨
      (TaggedIn c ch b (c.lastNotified + 1) ∧ Event.status (c.lastNotified + 1) true ∈ (c.handleNotification e v).log) := by
  have hadds := handleNotification_adds_gen truePred_notif e c v
  obtain ⟨new, hl, _⟩ := hadds
  have key : ∀ ch, ∀ b ∈ recBits c ch, b ∈ recBits (c.handleNotification e v) ch ∨
      (TaggedIn c ch b (c.lastNotified + 1) ∧ Event.status (c.lastNotified + 1) true ∈ new) := by
    intro ch b hb
    have hb0 : b ∈ recBits ({ c with lastNotified := c.lastNotified + 1 } : Conn) ch := hb
    revert hl
    unfold Conn.handleNotification
    dsimp only
    split
    · intro _; exact Or.inl hb0
    · split
      · intro hl
        have hb1 : b ∈ recBits ({ c with lastNotified := c.lastNotified + 1, outAckPacketId := c.lastNotified + 1 } : Conn) ch := hb
        have hk : (({ c with lastNotified := c.lastNotified + 1, outAckPacketId := c.lastNotified + 1 } : Conn).onAckChans (c.lastNotified + 1) (c.chans.map (·.1))).lastNotified
            = c.lastNotified + 1 := (onAckChans_keeps _ _ _).lastNotified
        rw [hk] at hl ⊢
        rcases onAckChans_split (c.lastNotified + 1) (c.chans.map (·.1)) _ ch b hb1 with h | h
        · exact Or.inl (emit_rkeep _ _ ch b h)
        · refine Or.inr ⟨h, ?_⟩
          -- the status event is the newest one
          cases new with
          | nil =>
            -- impossible: the log grew by at least the status event
            have hlen := congrArg List.length hl
            obtain ⟨n2, l2, _⟩ := onAckChans_adds (c.lastNotified + 1) (c.chans.map (·.1)) ({ c with lastNotified := c.lastNotified + 1, outAckPacketId := c.lastNotified + 1 } : Conn)
            simp only [Conn.emit, List.length_cons, List.nil_append] at hlen
            rw [l2] at hlen
            simp only [List.length_append] at hlen
            omega
          | cons ev rest =>
            simp only [Conn.emit, List.cons_append, List.cons.injEq] at hl
            rw [← hl.1]; exact List.mem_cons_self
      · intro _
        exact Or.inl (emit_rkeep _ _ ch b (onNakChans_rkeep e (c.lastNotified + 1) (c.chans.map (·.1)) _ ch b hb0))
  refine ⟨⟨new, hl, fun ch b hb => ?_⟩, fun ch b hb => ?_⟩
  · rcases key ch b hb with h | h
    · exact Or.inl h
    · exact Or.inr ⟨_, h.2⟩
  · rcases key ch b hb with h | h
    · exact Or.inl h
    · exact Or.inr ⟨h.1, by rw [hl]; exact List.mem_append_left _ h.2⟩

theorem notifyUpdate_fate (e : Env) (c : Conn) (h : NotifHeader) : Fate c (c.notifyUpdate e h) := by
  have hfold : ∀ (vs : List (Int × Bool)) (c : Conn), Fate c (vs.foldl (Conn.handleNotification e) c) := by
    intro vs
    induction vs with
    | nil => intro c; exact Fate.refl _
    | cons v rest ih => intro c; exact (handleNotification_fate e c v).1.trans (ih _)
  have same : ∀ c c' : Conn, c'.chans = c.chans → c'.log = c.log → Fate c c' := fun c c' h1 h2 =>
    Fate.of_keep (RKeep.of_chans h1) (Adds.of_log_eq h2 : Adds (fun _ => True) c c')
  unfold Conn.notifyUpdate
  dsimp only
  split
  · exact (((same c { c with notify := c.notify.updateInAckSeqAck (seq_num_diff h.ackedSeq c.notify.outAckSeq).toNat h.ackedSeq } rfl rfl).trans (hfold _ _)).trans
      (same _ _ rfl rfl)).trans (same _ _ rfl rfl)
  · exact same _ _ rfl rfl

/-- **`ReceivedPacket` on any bit string**: every record is kept unless the packet carried a positive acknowledgement that was reported -/
theorem receivedPacket_fate (e : Env) (c : Conn) (bits : Bits) : Fate c (c.receivedPacket e bits).1 := by
  have same : ∀ c c' : Conn, c'.chans = c.chans → c'.log = c.log → Fate c c' := fun c c' h1 h2 =>
    Fate.of_keep (RKeep.of_chans h1) (Adds.of_log_eq h2 : Adds (fun _ => True) c c')
  unfold Conn.receivedPacket
  split
  · exact same _ _ (markClose_chans _ _) (markClose_log _ _)
  · rename_i hd rest hdec
    dsimp only
    split
    · exact Fate.refl _
    · have h1 := (same c ({ c with inPacketId := c.inPacketId + c.notify.deltaSeq hd } : Conn) rfl rfl).trans (notifyUpdate_fate e _ hd)
      generalize ({ c with inPacketId := c.inPacketId + c.notify.deltaSeq hd } : Conn).notifyUpdate e hd = c2 at h1 ⊢
      have h2 : Fate c2 (Conn.bunchLoop (rest.length + 1) c2 rest false).1 :=
        Fate.of_keep (bunchLoop_rkeep _ c2 rest false) (bunchLoop_adds truePred_recv _ c2 rest false)
      generalize Conn.bunchLoop (rest.length + 1) c2 rest false = r at h2 ⊢
      obtain ⟨c3, rest', skip⟩ := r
      simp only at h2 ⊢
      exact (h1.trans h2).trans (same _ _ rfl rfl)

/-! ### sending adds a record; the periodic update tears down only channels that hold none -/

theorem addOutRec_rkeep (c : Conn) (ch : Nat) (pid : Int) (bits : Bits) : RKeep c (c.addOutRec ch pid bits) := by
  unfold Conn.addOutRec
  split
  · exact RKeep.refl _
  · rename_i x hx
    exact setChan_rkeep c ch x _ hx (fun n hn => ⟨n, List.mem_append_left _ hn, rfl⟩)

theorem sendBunch_rkeep (e : Env) (c : Conn) (b : Bunch) : RKeep c (c.sendBunch e b).1 := by
  have hraw : RKeep c (c.sendRaw e b).1 := by
    unfold Conn.sendRaw
    split
    · exact RKeep.refl _
    · unfold Conn.sendCommit
      dsimp only
      have h1 : RKeep c ((c.getOrCreateChan b false).1.noteClose b) := (getOrCreateChan_rkeep c b false).trans (noteClose_rkeep _ b)
      generalize (c.getOrCreateChan b false).1.noteClose b = c1 at h1 ⊢
      split
      · exact h1
      · rename_i x hx
        generalize (if b.bReliable = true then x.outReliable + 1 else 0 : Int) = seq
        generalize (if b.bReliable = true then (encodeBunchHeader { b with chSeq := seq }).getD _ else _) = hdr
        have h2 : RKeep c1 (if b.bReliable = true then c1.setChan b.chIndex { x with outReliable := seq } else c1) := by
          split
          · exact setChan_rkeep' c1 _ x _ hx rfl
          · exact RKeep.refl _
        generalize (if b.bReliable = true then c1.setChan b.chIndex { x with outReliable := seq } else c1) = c2 at h2 ⊢
        have h4 : RKeep c ((c2.prepareWrite e (hdr.length + b.data.length)).writeInternal e (hdr ++ b.data)).1 :=
          ((h1.trans h2).trans (RKeep.of_chans (prepareWrite_chans e c2 _))).trans (RKeep.of_chans (writeInternal_chans e _ _))
        split
        · exact (h4.trans (emit_rkeep _ _)).trans (addOutRec_rkeep _ _ _ _)
        · exact h4
  unfold Conn.sendBunch
  generalize c.sendRaw e b = r at hraw ⊢
  obtain ⟨c', rr⟩ := r
  simp only at hraw ⊢
  split <;> exact hraw

theorem find_of_mem_sorted : ∀ (l : List (Nat × Channel)) (p : Nat × Channel), KeysSorted l → p ∈ l → l.find? (·.1 == p.1) = some p := by
  intro l
  induction l with
  | nil => intro p _ hp; cases hp
  | cons q rest ih =>
    intro p hs hp
    unfold KeysSorted at hs
    rw [List.pairwise_cons] at hs
    rcases List.mem_cons.mp hp with rfl | hp
    · simp [List.find?]
    · have hlt := hs.1 p hp
      have hne : (q.1 == p.1) = false := by simp; omega
      simp only [List.find?, hne]
      exact ih p hs.2 hp

theorem find_filter_ne (l : List (Nat × Channel)) (k ch : Nat) (h : ch ≠ k) :
    (l.filter (·.1 != k)).find? (·.1 == ch) = l.find? (·.1 == ch) := by
  induction l with
  | nil => rfl
  | cons q rest ih =>
    by_cases hq : q.1 = k
    · have h1 : (q.1 != k) = false := by simp [hq]
      have h2 : (q.1 == ch) = false := by simp [hq]; exact fun h' => h h'.symm
      simp only [List.filter_cons, h1, Bool.false_eq_true, if_false, List.find?, h2]
      exact ih
    · have h1 : (q.1 != k) = true := by simp [hq]
      simp only [List.filter_cons, h1, if_true, List.find?]
      cases hq2 : (q.1 == ch) with
      | true => rfl
      | false => exact ih

/-- **deferred teardown frees only channels that hold no record** (the channel table is sorted, as `BInvK` maintains) -/
theorem delayClose_rkeep (c : Conn) (hs : KeysSorted c.chans) : RKeep c c.delayClose := by
  unfold Conn.delayClose
  split
  · exact RKeep.refl _
  · dsimp only
    have hfold : ∀ (l : List (Nat × Channel)) (c' : Conn), KeysSorted c'.chans → (∀ q ∈ l, q ∈ c'.chans) → l.Pairwise (fun a b => a.1 ≠ b.1) →
        RKeep c' (l.foldl (fun c (p : Nat × Channel) =>
          if !p.2.bClose then c
          else if !p.2.outRec.isEmpty then { c with hasChannelClose := true }
          else { c.freeChan p.2 with chans := c.chans.filter (·.1 != p.1) }) c') := by
      intro l
      induction l with
      | nil => intro c' _ _ _; exact RKeep.refl _
      | cons p rest ih =>
        intro c' hs' hmem hpw
        rw [List.pairwise_cons] at hpw
        simp only [List.foldl_cons]
        have hrestmem : ∀ q ∈ rest, q ∈ c'.chans := fun q hq => hmem q (List.mem_cons_of_mem _ hq)
        split
        · exact ih _ hs' hrestmem hpw.2
        · split
          · exact (RKeep.of_chans rfl : RKeep c' { c' with hasChannelClose := true }).trans (ih _ hs' hrestmem hpw.2)
          · rename_i hcl hemp
            have hp : p ∈ c'.chans := hmem p List.mem_cons_self
            have hstep : RKeep c' ({ c'.freeChan p.2 with chans := c'.chans.filter (·.1 != p.1) } : Conn) := by
              intro ch b hb
              by_cases he : ch = p.1
              · subst he
                have hg : c'.getChan p.1 = some p.2 := by
                  unfold Conn.getChan; rw [find_of_mem_sorted _ p hs' hp]; rfl
                rw [recBits_of_get hg] at hb
                have : p.2.outRec = [] := by
                  cases h : p.2.outRec with
                  | nil => rfl
                  | cons a t => simp [h] at hemp
                rw [this] at hb; cases hb
              · unfold recBits Conn.getChan at hb ⊢
                show b ∈ (match ((c'.chans.filter (·.1 != p.1)).find? (·.1 == ch)).map (·.2) with | some (x : Channel) => x.outRec.map OutNode.bits | none => [])
                rw [find_filter_ne _ _ _ he]; exact hb
            refine hstep.trans (ih _ (List.Pairwise.filter _ hs') ?_ hpw.2)
            intro q hq
            show q ∈ c'.chans.filter (·.1 != p.1)
            rw [List.mem_filter]
            refine ⟨hrestmem q hq, ?_⟩
            have := hpw.1 q hq
            simp; exact fun h => this h.symm
    refine (RKeep.of_chans rfl : RKeep c { c with hasChannelClose := false }).trans (hfold c.chans.reverse _ hs (fun q hq => by simpa using hq) ?_)
    rw [List.pairwise_reverse]
    exact hs.imp (fun hlt => by omega)

theorem update_rkeep (e : Env) (c : Conn) (hs : KeysSorted c.chans) : RKeep c (c.checkTimeout e).updateTail.1 := by
  have h1 : RKeep c (c.checkTimeout e) := by
    unfold Conn.checkTimeout
    split
    · exact markClose_rkeep _ _
    · exact RKeep.refl _
  have hs1 : KeysSorted (c.checkTimeout e).chans := by
    unfold Conn.checkTimeout
    split
    · rw [markClose_chans]; exact hs
    · exact hs
  have h2 := delayClose_rkeep _ hs1
  unfold Conn.updateTail
  dsimp only
  split
  · exact h1.trans h2
  · exact (h1.trans h2).trans (emit_rkeep _ _)

/-! ### every step only appends to the log -/

abbrev AnyEv : Event → Prop := fun _ => True

theorem freeChan_any (c : Conn) (x : Channel) : Adds AnyEv c (c.freeChan x) := by
  unfold Conn.freeChan
  dsimp only
  refine Adds.emit_trans ?_ _ trivial
  exact (((freeNodes_adds c _).mono (fun _ _ => trivial)).trans ((freeNodes_adds _ _).mono (fun _ _ => trivial))).trans ((freeNodes_adds _ _).mono (fun _ _ => trivial))

theorem update_any (e : Env) (c : Conn) : Adds AnyEv c (c.checkTimeout e).updateTail.1 := by
  have h1 : Adds AnyEv c (c.checkTimeout e) := by
    unfold Conn.checkTimeout
    split
    · exact markClose_adds _ _ _
    · exact Adds.refl _ _
  have hd : ∀ c : Conn, Adds AnyEv c c.delayClose := by
    intro c
    unfold Conn.delayClose
    split
    · exact Adds.refl _ _
    · dsimp only
      have hfold : ∀ (l : List (Nat × Channel)) (c' : Conn),
          Adds AnyEv c' (l.foldl (fun c (p : Nat × Channel) =>
            if !p.2.bClose then c
            else if !p.2.outRec.isEmpty then { c with hasChannelClose := true }
            else { c.freeChan p.2 with chans := c.chans.filter (·.1 != p.1) }) c') := by
        intro l
        induction l with
        | nil => intro c'; exact Adds.refl _ _
        | cons p rest ih =>
          intro c'
          simp only [List.foldl_cons]
          split
          · exact ih _
          · split
            · exact (Adds.of_log_eq rfl : Adds AnyEv c' { c' with hasChannelClose := true }).trans (ih _)
            · exact ((freeChan_any c' p.2).trans (Adds.of_log_eq rfl)).trans (ih _)
      exact (Adds.of_log_eq rfl : Adds AnyEv c { c with hasChannelClose := false }).trans (hfold _ _)
  unfold Conn.updateTail
  dsimp only
  split
  · exact h1.trans (hd _)
  · exact (h1.trans (hd _)).emit_trans _ trivial

theorem sendBunch_any (e : Env) (c : Conn) (b : Bunch) : Adds AnyEv c (c.sendBunch e b).1 :=
  (sendBunch_oinv (Q := fun _ => True) e c b (fun _ _ _ => ⟨fun _ _ => trivial, fun _ _ => trivial⟩)).2.mono (fun _ _ => trivial)

theorem flush_any (e : Env) (c : Conn) : Adds AnyEv c (c.flush e) := (flush_adds e c).mono (fun _ _ => trivial)

end Utcp
