import Utcp.Lemmas.Conn
/-! The event log is a monotone history: every operation only *adds* events.  `Adds P c c'` says that `c'`'s log
extends `c`'s by events that all satisfy `P`. -/
namespace Utcp
open Gen

def Adds (P : Event → Prop) (c c' : Conn) : Prop := ∃ evs, c'.log = evs ++ c.log ∧ ∀ ev ∈ evs, P ev

theorem Adds.refl (P : Event → Prop) (c : Conn) : Adds P c c := ⟨[], rfl, by simp⟩

theorem Adds.of_log_eq {P : Event → Prop} {c c' : Conn} (h : c'.log = c.log) : Adds P c c' := ⟨[], by simp [h], by simp⟩

theorem Adds.trans {P : Event → Prop} {a b c : Conn} (h1 : Adds P a b) (h2 : Adds P b c) : Adds P a c := by
  obtain ⟨e1, l1, p1⟩ := h1
  obtain ⟨e2, l2, p2⟩ := h2
  refine ⟨e2 ++ e1, by rw [l2, l1, List.append_assoc], ?_⟩
  intro ev hev
  rcases List.mem_append.mp hev with h | h
  · exact p2 ev h
  · exact p1 ev h

theorem Adds.mono {P Q : Event → Prop} {a b : Conn} (h : Adds P a b) (hpq : ∀ ev, P ev → Q ev) : Adds Q a b := by
  obtain ⟨e1, l1, p1⟩ := h
  exact ⟨e1, l1, fun ev hev => hpq ev (p1 ev hev)⟩

theorem Adds.emit {P : Event → Prop} (c : Conn) (ev : Event) (h : P ev) : Adds P c (c.emit ev) :=
  ⟨[ev], rfl, by simpa using h⟩

theorem Adds.emit_trans {P : Event → Prop} {a b : Conn} (h : Adds P a b) (ev : Event) (hp : P ev) : Adds P a (b.emit ev) :=
  h.trans (Adds.emit b ev hp)

/-- an operation that adds only events outside `S` leaves the `S`-projection of the log unchanged -/
theorem Adds.filter_eq {P : Event → Prop} {a b : Conn} (h : Adds P a b) (f : Event → Bool) (hf : ∀ ev, P ev → f ev = false) :
    b.log.filter f = a.log.filter f := by
  obtain ⟨evs, hl, hp⟩ := h
  rw [hl, List.filter_append]
  have : evs.filter f = [] := by
    rw [List.filter_eq_nil_iff]
    intro ev hev; simp [hf ev (hp ev hev)]
  simp [this]

def isOut : Event → Prop | .out _ => True | _ => False
def isStatus : Event → Bool | .status _ _ => true | _ => false
def isRecv : Event → Bool | .recv _ => true | _ => false
def isFreeNode : Event → Prop | .free .node => True | _ => False

theorem markClose_adds (P : Event → Prop) (c : Conn) (r : Nat) : Adds P c (c.markClose r) := Adds.of_log_eq (markClose_log c r)
theorem setChan_adds (P : Event → Prop) (c : Conn) (ch : Nat) (x : Channel) : Adds P c (c.setChan ch x) := Adds.of_log_eq rfl
theorem startPacket_adds (P : Event → Prop) (c : Conn) : Adds P c c.startPacket := Adds.of_log_eq rfl

theorem flushNow_adds (e : Env) (c : Conn) : Adds isOut c (c.flushNow e) := ⟨[.out _], rfl, by simp [isOut]⟩

theorem flush_adds (e : Env) (c : Conn) : Adds isOut c (c.flush e) := by
  unfold Conn.flush
  split
  · exact Adds.refl _ _
  · split
    · exact flushNow_adds e c
    · exact (startPacket_adds _ c).trans (flushNow_adds e _)

theorem prepareWrite_adds (e : Env) (c : Conn) (n : Nat) : Adds isOut c (c.prepareWrite e n) := by
  unfold Conn.prepareWrite
  dsimp only
  split
  · split
    · exact (flush_adds e c).trans (startPacket_adds _ _)
    · exact flush_adds e c
  · split
    · exact startPacket_adds _ _
    · exact Adds.refl _ _

theorem writeInternal_adds (e : Env) (c : Conn) (bits : Bits) : Adds isOut c (c.writeInternal e bits).1 := by
  unfold Conn.writeInternal
  dsimp only
  split
  · exact (Adds.of_log_eq rfl : Adds isOut c { c with sendBody := c.sendBody ++ bits }).trans (flush_adds e _)
  · exact Adds.of_log_eq rfl

theorem writeBits_adds (e : Env) (c : Conn) (bits : Bits) : Adds isOut c (c.writeBits e bits).1 := by
  unfold Conn.writeBits
  exact (prepareWrite_adds e c _).trans (writeInternal_adds e _ bits)

theorem resendNodes_adds (e : Env) (ch : Nat) (nodes : List OutNode) : ∀ c : Conn, Adds isOut c (c.resendNodes e ch nodes) := by
  induction nodes with
  | nil => intro c; exact Adds.refl _ _
  | cons n rest ih =>
    intro c
    unfold Conn.resendNodes
    dsimp only
    refine (writeBits_adds e c n.bits).trans ?_
    refine Adds.trans ?_ (ih _)
    split
    · exact Adds.refl _ _
    · exact setChan_adds _ _ _ _

theorem onNakChans_adds (e : Env) (pid : Int) (chs : List Nat) : ∀ c : Conn, Adds isOut c (c.onNakChans e pid chs) := by
  induction chs with
  | nil => intro c; exact Adds.refl _ _
  | cons ch rest ih =>
    intro c
    unfold Conn.onNakChans
    split
    · exact ih c
    · dsimp only
      exact ((setChan_adds _ c ch _).trans (resendNodes_adds e ch _ _)).trans (ih _)

theorem foldl_emit_adds {α} (P : Event → Prop) (ev : Event) (hp : P ev) (l : List α) : ∀ c : Conn, Adds P c (l.foldl (fun c _ => c.emit ev) c) := by
  induction l with
  | nil => intro c; exact Adds.refl _ _
  | cons _ rest ih => intro c; exact (Adds.emit c ev hp).trans (ih _)

theorem freeNodes_adds (c : Conn) (k : Nat) : Adds isFreeNode c (c.freeNodes k) := by
  unfold Conn.freeNodes
  exact foldl_emit_adds isFreeNode (.free .node) (by simp [isFreeNode]) _ c

theorem onAckChans_adds (pid : Int) (chs : List Nat) : ∀ c : Conn, Adds isFreeNode c (c.onAckChans pid chs) := by
  induction chs with
  | nil => intro c; exact Adds.refl _ _
  | cons ch rest ih =>
    intro c
    unfold Conn.onAckChans
    split
    · exact ih c
    · dsimp only
      exact ((setChan_adds _ c ch _).trans (foldl_emit_adds isFreeNode (.free .node) (by simp [isFreeNode]) _ _)).trans (ih _)

end Utcp
