import Utcp.Lemmas.Retain
/-!
# Who marks a channel closed (receiver side of C10)

A channel's `bClose` mark is what the deferred teardown of `utcp_update` acts on.  `CStep c c'`: between `c` and `c'` the log only grew
and every channel that is marked closed in `c'` either was already marked in `c` or is *justified by the log*: a callback in `c'.log`
delivered a close bunch on that channel (`ClosedBy`).  Every function of the library except the local send of a close bunch is a
`CStep`; so a channel is never marked closed — and hence never torn down — before a close bunch has been handed to the application in
sequence on it (or the local application closed it itself).
-/
namespace Utcp
open Gen

/-- a callback in the log delivered a bunch with the close flag on channel `ch` -/
def ClosedBy (log : List Event) (ch : Nat) : Prop := ∃ g, Event.recv g ∈ log ∧ ∃ q ∈ g, q.bClose = true ∧ q.chIndex = ch

theorem ClosedBy.mono {log : List Event} {ch : Nat} (h : ClosedBy log ch) (new : List Event) : ClosedBy (new ++ log) ch := by
  obtain ⟨g, hg, hq⟩ := h
  exact ⟨g, List.mem_append_right _ hg, hq⟩

structure CStep (c c' : Conn) : Prop where
  log : ∃ new, c'.log = new ++ c.log
  mark : ∀ ch x', c'.getChan ch = some x' → x'.bClose = true → (∃ x, c.getChan ch = some x ∧ x.bClose = true) ∨ ClosedBy c'.log ch

theorem CStep.refl (c : Conn) : CStep c c := ⟨⟨[], rfl⟩, fun ch x' hx hb => Or.inl ⟨x', hx, hb⟩⟩

theorem CStep.trans {a b c : Conn} (h1 : CStep a b) (h2 : CStep b c) : CStep a c := by
  obtain ⟨n1, l1⟩ := h1.log
  obtain ⟨n2, l2⟩ := h2.log
  refine ⟨⟨n2 ++ n1, by rw [l2, l1, List.append_assoc]⟩, ?_⟩
  intro ch x' hx hb
  rcases h2.mark ch x' hx hb with ⟨x, hx2, hb2⟩ | h
  · rcases h1.mark ch x hx2 hb2 with h | h
    · exact Or.inl h
    · right; rw [l2]; exact h.mono n2
  · exact Or.inr h

theorem CStep.of_chans {c c' : Conn} (hc : c'.chans = c.chans) (hl : ∃ new, c'.log = new ++ c.log) : CStep c c' :=
  ⟨hl, fun ch x' hx hb => Or.inl ⟨x', by unfold Conn.getChan at hx ⊢; rw [← hc]; exact hx, hb⟩⟩

theorem CStep.of_adds {P : Event → Prop} {c c' : Conn} (hc : c'.chans = c.chans) (ha : Adds P c c') : CStep c c' := by
  obtain ⟨new, hl, _⟩ := ha
  exact CStep.of_chans hc ⟨new, hl⟩

theorem setChan_cstep (c : Conn) (ch : Nat) (x x' : Channel) (h : c.getChan ch = some x) (hb : x'.bClose = x.bClose) : CStep c (c.setChan ch x') := by
  refine ⟨⟨[], rfl⟩, ?_⟩
  intro ch2 y hy hyb
  by_cases he : ch2 = ch
  · subst he
    rw [getChan_setChan_self] at hy; cases hy
    exact Or.inl ⟨x, h, by rw [← hb]; exact hyb⟩
  · rw [getChan_setChan_other _ _ _ _ he] at hy
    exact Or.inl ⟨y, hy, hyb⟩

theorem emit_cstep (c : Conn) (ev : Event) : CStep c (c.emit ev) := CStep.of_chans rfl ⟨[ev], rfl⟩
theorem markClose_cstep (c : Conn) (r : Nat) : CStep c (c.markClose r) := CStep.of_chans (markClose_chans c r) ⟨[], by rw [markClose_log]; rfl⟩
theorem freeNodes_cstep (c : Conn) (k : Nat) : CStep c (c.freeNodes k) := CStep.of_adds (freeNodes_chans' c k) (freeNodes_adds c k)

/-- delivering `g` — marking the channels of its closing bunches, then the callback — is justified by the callback itself -/
theorem noteClose_recv_cstep (g : List Bunch) : ∀ (done : List Bunch) (c0 c : Conn), (∃ new, c.log = new ++ c0.log) →
    (∀ ch x', c.getChan ch = some x' → x'.bClose = true → (∃ x, c0.getChan ch = some x ∧ x.bClose = true) ∨ ∃ q ∈ done, q.bClose = true ∧ q.chIndex = ch) →
    CStep c0 ((g.foldl Conn.noteClose c).emit (.recv (done ++ g))) := by
  induction g with
  | nil =>
    intro done c0 c hl hm
    obtain ⟨new, hl⟩ := hl
    refine ⟨⟨.recv (done ++ []) :: new, by show Event.recv (done ++ []) :: c.log = _; rw [hl]; rfl⟩, ?_⟩
    intro ch x' hx hb
    rcases hm ch x' hx hb with h | ⟨q, hq, hqc, hqi⟩
    · exact Or.inl h
    · exact Or.inr ⟨done ++ [], List.mem_cons_self, q, by simpa using hq, hqc, hqi⟩
  | cons b rest ih =>
    intro done c0 c hl hm
    have hstep : (∃ new, (c.noteClose b).log = new ++ c0.log) ∧
        (∀ ch x', (c.noteClose b).getChan ch = some x' → x'.bClose = true →
          (∃ x, c0.getChan ch = some x ∧ x.bClose = true) ∨ ∃ q ∈ done ++ [b], q.bClose = true ∧ q.chIndex = ch) := by
      obtain ⟨new, hl⟩ := hl
      obtain ⟨n2, hl2, _⟩ := noteClose_adds (fun _ => True) c b
      refine ⟨⟨n2 ++ new, by rw [hl2, hl, List.append_assoc]⟩, ?_⟩
      intro ch x' hx hb
      unfold Conn.noteClose at hx
      split at hx
      · rcases hm ch x' hx hb with h | ⟨q, hq, h2⟩
        · exact Or.inl h
        · exact Or.inr ⟨q, List.mem_append_left _ hq, h2⟩
      · rename_i hcl
        have hbc : b.bClose = true := by simpa using hcl
        dsimp only at hx
        have hmc : ∀ ch, (if (b.chIndex == 0) = true then c.markClose crControlChannelClose else c).getChan ch = c.getChan ch := by
          intro ch; split
          · exact markClose_getChan _ _ _
          · rfl
        generalize (if (b.chIndex == 0) = true then c.markClose crControlChannelClose else c) = c1 at hx hmc
        split at hx
        · rw [hmc] at hx
          rcases hm ch x' hx hb with h | ⟨q, hq, h2⟩
          · exact Or.inl h
          · exact Or.inr ⟨q, List.mem_append_left _ hq, h2⟩
        · rename_i y hy
          rw [oweTeardown_getChan] at hx
          by_cases he : ch = b.chIndex
          · subst he
            exact Or.inr ⟨b, by simp, hbc, rfl⟩
          · rw [getChan_setChan_other _ _ _ _ he, hmc] at hx
            rcases hm ch x' hx hb with h | ⟨q, hq, h2⟩
            · exact Or.inl h
            · exact Or.inr ⟨q, List.mem_append_left _ hq, h2⟩
    have := ih (done ++ [b]) c0 (c.noteClose b) hstep.1 hstep.2
    simpa using this

theorem mergePartial_cstep (c : Conn) (x : Channel) (b : Bunch) : CStep c (mergePartial c x b).1 :=
  CStep.of_adds (mergePartial_chans c x b) (mergePartial_adds c x b)

theorem mergePartial_bClose (c : Conn) (x : Channel) (b : Bunch) : (mergePartial c x b).2.1.bClose = x.bClose := by
  unfold mergePartial mergeInitial mergeNext
  split
  · split
    · rfl
    · split <;> rfl
  · split
    · rfl
    · split
      · rfl
      · split <;> rfl

theorem receivedNextBunch_cstep (c : Conn) (b : Bunch) : CStep c (c.receivedNextBunch b).1 := by
  unfold Conn.receivedNextBunch
  split
  · exact emit_cstep _ _
  · rename_i x hx
    dsimp only
    have hx0 : (if b.bReliable = true then { x with inReliable := b.chSeq } else x).bClose = x.bClose := by split <;> rfl
    split
    · have hm := mergePartial_cstep c (if b.bReliable = true then { x with inReliable := b.chSeq } else x) b
      have hmc := mergePartial_chans c (if b.bReliable = true then { x with inReliable := b.chSeq } else x) b
      have hmo := mergePartial_bClose c (if b.bReliable = true then { x with inReliable := b.chSeq } else x) b
      generalize hmp : mergePartial c (if b.bReliable = true then { x with inReliable := b.chSeq } else x) b = r at hm hmc hmo
      obtain ⟨c1, x1, res, skip⟩ := r
      simp only at hm hmc hmo ⊢
      have hx1 : c1.getChan b.chIndex = some x := by unfold Conn.getChan at hx ⊢; rw [hmc]; exact hx
      have h1 : CStep c (c1.setChan b.chIndex x1) := hm.trans (setChan_cstep _ _ x x1 hx1 (hmo.trans hx0))
      cases res with
      | succeed => exact h1
      | fatal => exact h1.trans (emit_cstep _ _)
      | failed => exact h1.trans (emit_cstep _ _)
      | available =>
        simp only
        split
        · have hg : ((c1.setChan b.chIndex x1).freeNodes x1.inPartial.length).getChan b.chIndex = some x1 := by
            unfold Conn.getChan; rw [freeNodes_chans']; exact getChan_setChan_self _ _ _
          exact ((h1.trans (freeNodes_cstep _ x1.inPartial.length)).trans (setChan_cstep _ _ x1 { x1 with inPartial := [] } hg rfl)).trans (markClose_cstep _ _)
        · have h2 : CStep (c1.setChan b.chIndex x1) ((x1.inPartial.foldl Conn.noteClose (c1.setChan b.chIndex x1)).emit (.recv x1.inPartial)) := by
            have := noteClose_recv_cstep x1.inPartial [] (c1.setChan b.chIndex x1) (c1.setChan b.chIndex x1) ⟨[], rfl⟩
              (fun ch x' hx' hb' => Or.inl ⟨x', hx', hb'⟩)
            simpa using this
          have h3 := (h1.trans h2).trans (freeNodes_cstep _ x1.inPartial.length)
          split
          · exact h3
          · rename_i x4 hx4
            exact h3.trans (setChan_cstep _ _ x4 _ hx4 rfl)
    · have h1 : CStep c (c.setChan b.chIndex (if b.bReliable = true then { x with inReliable := b.chSeq } else x)) := setChan_cstep c _ x _ hx hx0
      have h2 := noteClose_recv_cstep [b] [] (c.setChan b.chIndex (if b.bReliable = true then { x with inReliable := b.chSeq } else x)) _ ⟨[], rfl⟩
        (fun ch x' hx' hb' => Or.inl ⟨x', hx', hb'⟩)
      simp only [List.foldl_cons, List.foldl_nil, List.nil_append] at h2
      exact (h1.trans h2).trans (emit_cstep _ _)

theorem dispatchWaiting_cstep (fuel : Nat) : ∀ (c : Conn) (ch : Nat), CStep c (Conn.dispatchWaiting fuel c ch) := by
  induction fuel with
  | zero => intro c ch; exact CStep.refl _
  | succ f ih =>
    intro c ch
    unfold Conn.dispatchWaiting
    split
    · exact CStep.refl _
    · rename_i x hx
      split
      · exact CStep.refl _
      · rename_i b rest hq
        split
        · exact CStep.refl _
        · dsimp only
          exact ((setChan_cstep c ch x { x with inRec := rest } hx rfl).trans (receivedNextBunch_cstep _ b)).trans (ih _ _)

theorem createChan_cstep (c : Conn) (ch : Nat) (hn : c.getChan ch = none) : CStep c (c.createChan ch) := by
  obtain ⟨new, hl, _⟩ := createChan_adds truePred_recv c ch
  refine ⟨⟨new, hl⟩, ?_⟩
  intro ch' x' hx hb
  unfold Conn.createChan at hx
  dsimp only at hx
  have key : ∀ c1 : Conn, c1.chans = c.chans →
      (c1.setChan ch { inReliable := c1.initInReliable, outReliable := c1.initOutReliable }).getChan ch' = some x' →
      (∃ x, c.getChan ch' = some x ∧ x.bClose = true) := by
    intro c1 h1 hx
    by_cases he : ch' = ch
    · subst he; rw [getChan_setChan_self] at hx; cases hx; simp at hb
    · rw [getChan_setChan_other _ _ _ _ he] at hx
      exact ⟨x', by unfold Conn.getChan at hx ⊢; rw [← h1]; exact hx, hb⟩
  split at hx
  · exact Or.inl (key _ rfl hx)
  · split at hx
    · exact Or.inl (key _ rfl hx)
    · exact Or.inl (key _ rfl hx)

theorem getOrCreateChan_cstep (c : Conn) (b : Bunch) (inc : Bool) : CStep c (c.getOrCreateChan b inc).1 := by
  unfold Conn.getOrCreateChan
  split
  · exact CStep.refl _
  · rename_i hn
    split
    · exact createChan_cstep c _ hn
    · exact CStep.refl _

theorem processBunch_cstep (c : Conn) (x : Channel) (b : Bunch) (hx : c.getChan b.chIndex = some x) : CStep c (c.processBunch x b).1 := by
  unfold Conn.processBunch
  split
  · exact emit_cstep _ _
  · split
    · split
      · exact emit_cstep _ _
      · split
        · exact setChan_cstep _ _ x _ hx rfl
        · exact emit_cstep _ _
    · exact receivedNextBunch_cstep _ _

theorem receivedRawBunch_cstep (c : Conn) (bits : Bits) : CStep c (c.receivedRawBunch bits).1 := by
  unfold Conn.receivedRawBunch
  dsimp only
  have h0 : CStep c (c.emit (.alloc .node)) := emit_cstep _ _
  split
  · exact (h0.trans (markClose_cstep _ _)).trans (emit_cstep _ _)
  · rename_i b rest hd
    split
    · exact (h0.trans (markClose_cstep _ _)).trans (emit_cstep _ _)
    · have hg := getOrCreateChan_cstep (c.emit (.alloc .node)) { b with packetId := (c.emit (.alloc .node)).inPacketId } true
      have g2 := getOrCreateChan_get (c.emit (.alloc .node)) { b with packetId := (c.emit (.alloc .node)).inPacketId } true
      split
      · exact (h0.trans hg).trans (emit_cstep _ _)
      · rename_i x hx
        have hget := g2 x hx
        exact ((h0.trans hg).trans (processBunch_cstep _ x _ (by rw [absSeq_chIndex]; exact hget))).trans (dispatchWaiting_cstep _ _ _)

theorem bunchLoop_cstep (fuel : Nat) : ∀ (c : Conn) (bits : Bits) (skip : Bool), CStep c (Conn.bunchLoop fuel c bits skip).1 := by
  induction fuel with
  | zero => intro c bits skip; exact CStep.refl _
  | succ f ih =>
    intro c bits skip
    unfold Conn.bunchLoop
    split
    · exact CStep.refl _
    · exact (receivedRawBunch_cstep c bits).trans (ih _ _ _)

/-! ### the sending machinery and the acknowledgement path never mark a channel -/

theorem flush_cstep (e : Env) (c : Conn) : CStep c (c.flush e) := CStep.of_adds (flush_chans e c) (flush_adds e c)
theorem writeBits_cstep (e : Env) (c : Conn) (bits : Bits) : CStep c (c.writeBits e bits).1 := CStep.of_adds (writeBits_chans e c bits) (writeBits_adds e c bits)

theorem resendNodes_cstep (e : Env) (ch : Nat) (nodes : List OutNode) : ∀ c : Conn, CStep c (c.resendNodes e ch nodes) := by
  induction nodes with
  | nil => intro c; exact CStep.refl _
  | cons n rest ih =>
    intro c
    unfold Conn.resendNodes
    dsimp only
    refine (writeBits_cstep e c n.bits).trans (CStep.trans ?_ (ih _))
    split
    · exact CStep.refl _
    · rename_i x hx
      exact setChan_cstep _ ch x _ hx rfl

theorem onNakChans_cstep (e : Env) (pid : Int) (chs : List Nat) : ∀ c : Conn, CStep c (c.onNakChans e pid chs) := by
  induction chs with
  | nil => intro c; exact CStep.refl _
  | cons ch rest ih =>
    intro c
    unfold Conn.onNakChans
    split
    · exact ih c
    · rename_i x hx
      dsimp only
      exact ((setChan_cstep c ch x { x with outRec := (removeOutgoing pid x.outRec).2 } hx rfl).trans (resendNodes_cstep e ch _ _)).trans (ih _)

theorem foldl_emit_cstep {α} (ev : Event) (l : List α) : ∀ c : Conn, CStep c (l.foldl (fun c _ => c.emit ev) c) := by
  induction l with
  | nil => intro c; exact CStep.refl _
  | cons _ rest ih => intro c; exact (emit_cstep c ev).trans (ih _)

theorem onAckChans_cstep (pid : Int) (chs : List Nat) : ∀ c : Conn, CStep c (c.onAckChans pid chs) := by
  induction chs with
  | nil => intro c; exact CStep.refl _
  | cons ch rest ih =>
    intro c
    unfold Conn.onAckChans
    split
    · exact ih c
    · rename_i x hx
      dsimp only
      exact ((setChan_cstep c ch x { x with outRec := (removeOutgoing pid x.outRec).2 } hx rfl).trans (foldl_emit_cstep _ _ _)).trans (ih _)

theorem cstep_same (c c' : Conn) (h1 : c'.chans = c.chans) (h2 : c'.log = c.log) : CStep c c' := CStep.of_chans h1 ⟨[], by rw [h2]; rfl⟩

theorem handleNotification_cstep (e : Env) (c : Conn) (v : Int × Bool) : CStep c (c.handleNotification e v) := by
  unfold Conn.handleNotification
  dsimp only
  split
  · exact cstep_same _ _ rfl rfl
  · split
    · exact ((cstep_same c { c with lastNotified := c.lastNotified + 1, outAckPacketId := c.lastNotified + 1 } rfl rfl).trans (onAckChans_cstep _ _ _)).trans (emit_cstep _ _)
    · exact ((cstep_same c { c with lastNotified := c.lastNotified + 1 } rfl rfl).trans (onNakChans_cstep e _ _ _)).trans (emit_cstep _ _)

theorem notifyUpdate_cstep (e : Env) (c : Conn) (h : NotifHeader) : CStep c (c.notifyUpdate e h) := by
  have hfold : ∀ (vs : List (Int × Bool)) (c : Conn), CStep c (vs.foldl (Conn.handleNotification e) c) := by
    intro vs
    induction vs with
    | nil => intro c; exact CStep.refl _
    | cons v rest ih => intro c; exact (handleNotification_cstep e c v).trans (ih _)
  unfold Conn.notifyUpdate
  dsimp only
  split
  · exact (((cstep_same c { c with notify := c.notify.updateInAckSeqAck (seq_num_diff h.ackedSeq c.notify.outAckSeq).toNat h.ackedSeq } rfl rfl).trans (hfold _ _)).trans
      (cstep_same _ _ rfl rfl)).trans (cstep_same _ _ rfl rfl)
  · exact cstep_same _ _ rfl rfl

/-- **`ReceivedPacket` on any bit string marks a channel closed only by delivering a close bunch on it** -/
theorem receivedPacket_cstep (e : Env) (c : Conn) (bits : Bits) : CStep c (c.receivedPacket e bits).1 := by
  unfold Conn.receivedPacket
  split
  · exact markClose_cstep _ _
  · rename_i hd rest hdec
    dsimp only
    split
    · exact CStep.refl _
    · have h1 := (cstep_same c ({ c with inPacketId := c.inPacketId + c.notify.deltaSeq hd } : Conn) rfl rfl).trans (notifyUpdate_cstep e _ hd)
      generalize ({ c with inPacketId := c.inPacketId + c.notify.deltaSeq hd } : Conn).notifyUpdate e hd = c2 at h1 ⊢
      have h2 := bunchLoop_cstep (rest.length + 1) c2 rest false
      generalize Conn.bunchLoop (rest.length + 1) c2 rest false = r at h2 ⊢
      obtain ⟨c3, rest', skip⟩ := r
      simp only at h2 ⊢
      exact (h1.trans h2).trans (cstep_same _ _ rfl rfl)

/-- the periodic update marks nothing (it removes channels) -/
theorem update_cstep (e : Env) (c : Conn) (hs : KeysSorted c.chans) : CStep c (c.checkTimeout e).updateTail.1 := by
  obtain ⟨new, hl, _⟩ := update_any e c
  refine ⟨⟨new, hl⟩, ?_⟩
  intro ch x' hx hb
  left
  -- every channel of the result is a channel of `c`, unchanged: the teardown only filters the table
  have hgen : ∀ (f : Conn → Nat × Channel → Conn), (∀ c p ch x', (f c p).getChan ch = some x' → c.getChan ch = some x') →
      ∀ (l : List (Nat × Channel)) (c' : Conn) ch x', (l.foldl f c').getChan ch = some x' → c'.getChan ch = some x' := by
    intro f hf l
    induction l with
    | nil => intro c' ch x' h; exact h
    | cons p rest ih => intro c' ch x' h; exact hf _ p ch x' (ih _ ch x' h)
  have hsub : ∀ c : Conn, ∀ ch x', c.delayClose.getChan ch = some x' → c.getChan ch = some x' := by
    intro c ch x' hx
    unfold Conn.delayClose at hx
    split at hx
    · exact hx
    · dsimp only at hx
      have hstep : ∀ (c' : Conn) (p : Nat × Channel) ch x', (if !p.2.bClose then c'
            else if !p.2.outRec.isEmpty then { c' with hasChannelClose := true }
            else { c'.freeChan p.2 with chans := c'.chans.filter (·.1 != p.1) }).getChan ch = some x' → c'.getChan ch = some x' := by
        intro c' p ch x' h
        split at h
        · exact h
        · split at h
          · exact h
          · unfold Conn.getChan at h ⊢
            by_cases he : ch = p.1
            · subst he
              simp only at h
              have hnone : (c'.chans.filter (·.1 != p.1)).find? (·.1 == p.1) = none := by
                rw [List.find?_eq_none]
                intro q hq
                have := (List.mem_filter.mp hq).2
                simp at this ⊢; exact this
              rw [hnone] at h; cases h
            · simp only at h
              rw [find_filter_ne _ _ _ he] at h; exact h
      exact hgen _ hstep c.chans.reverse { c with hasChannelClose := false } ch x' hx
  have h2 : (c.checkTimeout e).updateTail.1.getChan ch = some x' → (c.checkTimeout e).getChan ch = some x' := by
    intro h
    unfold Conn.updateTail at h
    dsimp only at h
    split at h
    · exact hsub _ ch x' h
    · exact hsub _ ch x' h
  have h3 := h2 hx
  have h4 : (c.checkTimeout e).getChan ch = c.getChan ch := by
    unfold Conn.checkTimeout; split
    · exact markClose_getChan _ _ _
    · rfl
  exact ⟨x', by rw [← h4]; exact h3, hb⟩

/-! ### the invariant: every mark has a reason -/

/-- every channel marked closed had a close bunch delivered on it, or is in the list `L` of channels the local application closed -/
def CloseInv (L : List Nat) (c : Conn) : Prop := ∀ ch x, c.getChan ch = some x → x.bClose = true → ClosedBy c.log ch ∨ ch ∈ L

theorem CloseInv.step {L : List Nat} {c c' : Conn} (h : CloseInv L c) (hs : CStep c c') : CloseInv L c' := by
  intro ch x' hx hb
  rcases hs.mark ch x' hx hb with ⟨x, hx0, hb0⟩ | hcl
  · obtain ⟨new, hl⟩ := hs.log
    rcases h ch x hx0 hb0 with h1 | h1
    · left; rw [hl]; exact h1.mono new
    · exact Or.inr h1
  · exact Or.inl hcl

theorem CloseInv.mono {L L' : List Nat} {c : Conn} (h : CloseInv L c) (hs : ∀ x ∈ L, x ∈ L') : CloseInv L' c := by
  intro ch x hx hb
  rcases h ch x hx hb with h1 | h1
  · exact Or.inl h1
  · exact Or.inr (hs ch h1)

/-- the channels the local application has closed, after `utcp_send_bunch` of `b` -/
def Conn.closedAfter (c : Conn) (b : Bunch) (L : List Nat) : List Nat :=
  match c.sendCheck b with
  | .inl _ => L
  | .inr _ => if b.bClose then b.chIndex :: L else L

theorem noteClose_closeinv (L : List Nat) (c : Conn) (b : Bunch) (h : CloseInv L c) : CloseInv (if b.bClose then b.chIndex :: L else L) (c.noteClose b) := by
  obtain ⟨n2, hl2, _⟩ := noteClose_adds (fun _ => True) c b
  intro ch x' hx hb
  unfold Conn.noteClose at hx
  split at hx
  · rename_i hcl
    have : b.bClose = false := by simpa using hcl
    simp only [this, Bool.false_eq_true, if_false]
    rcases h ch x' hx hb with h1 | h1
    · left; rw [hl2]; exact h1.mono n2
    · exact Or.inr h1
  · rename_i hcl
    have hbc : b.bClose = true := by simpa using hcl
    simp only [hbc, if_true]
    dsimp only at hx
    have hmc : ∀ ch, (if (b.chIndex == 0) = true then c.markClose crControlChannelClose else c).getChan ch = c.getChan ch := by
      intro ch; split
      · exact markClose_getChan _ _ _
      · rfl
    generalize (if (b.chIndex == 0) = true then c.markClose crControlChannelClose else c) = c1 at hx hmc
    have hold : ∀ y, c.getChan ch = some y → y.bClose = true → ClosedBy (c.noteClose b).log ch ∨ ch ∈ b.chIndex :: L := by
      intro y hy hyb
      rcases h ch y hy hyb with h1 | h1
      · left; rw [hl2]; exact h1.mono n2
      · exact Or.inr (List.mem_cons_of_mem _ h1)
    split at hx
    · rw [hmc] at hx; exact hold x' hx hb
    · rw [oweTeardown_getChan] at hx
      by_cases he : ch = b.chIndex
      · subst he; exact Or.inr List.mem_cons_self
      · rw [getChan_setChan_other _ _ _ _ he, hmc] at hx; exact hold x' hx hb

theorem addOutRec_cstep (c : Conn) (ch : Nat) (pid : Int) (bits : Bits) : CStep c (c.addOutRec ch pid bits) := by
  unfold Conn.addOutRec
  split
  · exact CStep.refl _
  · rename_i x hx
    exact setChan_cstep c ch x _ hx rfl

/-- **`utcp_send_bunch`** marks at most the channel of an accepted close bunch -/
theorem sendBunch_closeinv (L : List Nat) (e : Env) (c : Conn) (b : Bunch) (h : CloseInv L c) : CloseInv (c.closedAfter b L) (c.sendBunch e b).1 := by
  have hraw : CloseInv (c.closedAfter b L) (c.sendRaw e b).1 := by
    unfold Conn.sendRaw Conn.closedAfter
    cases hchk : c.sendCheck b with
    | inl err => exact h
    | inr h0 =>
      simp only
      unfold Conn.sendCommit
      dsimp only
      have h1 : CloseInv (if b.bClose then b.chIndex :: L else L) ((c.getOrCreateChan b false).1.noteClose b) :=
        noteClose_closeinv L _ b (h.step (getOrCreateChan_cstep c b false))
      generalize (c.getOrCreateChan b false).1.noteClose b = c1 at h1 ⊢
      generalize (if b.bClose = true then b.chIndex :: L else L) = L1 at h1 ⊢
      split
      · exact h1
      · rename_i x hx
        generalize (if b.bReliable = true then x.outReliable + 1 else 0 : Int) = seq
        generalize (if b.bReliable = true then (encodeBunchHeader { b with chSeq := seq }).getD _ else _) = hdr
        have h2 : CStep c1 (if b.bReliable = true then c1.setChan b.chIndex { x with outReliable := seq } else c1) := by
          split
          · exact setChan_cstep c1 _ x _ hx rfl
          · exact CStep.refl _
        generalize (if b.bReliable = true then c1.setChan b.chIndex { x with outReliable := seq } else c1) = c2 at h2 ⊢
        have h4 : CStep c1 ((c2.prepareWrite e (hdr.length + b.data.length)).writeInternal e (hdr ++ b.data)).1 :=
          (h2.trans (CStep.of_adds (prepareWrite_chans e c2 _) (prepareWrite_adds e c2 _))).trans (CStep.of_adds (writeInternal_chans e _ _) (writeInternal_adds e _ _))
        split
        · exact h1.step ((h4.trans (emit_cstep _ _)).trans (addOutRec_cstep _ _ _ _))
        · exact h1.step h4
  unfold Conn.sendBunch
  generalize c.sendRaw e b = r at hraw ⊢
  obtain ⟨c', rr⟩ := r
  simp only at hraw ⊢
  split <;> exact hraw

end Utcp
