import Utcp.ByteBuf
/-! Byte arrays as bit sequences: the basic facts behind `Props/C12_Bytes.lean`. -/
namespace Utcp.BB

def BytesOK (m : Mem) : Prop := ∀ x ∈ m, x < 256
/-- bit `k` of a byte array (LSB first inside each byte) -/
def bit (m : Mem) (k : Nat) : Bool := (m.getD (k / 8) 0).testBit (k % 8)

theorem rd_of_lt (m : Mem) (i : Nat) (h : i < m.length) : rd m i = some (m.getD i 0) := by
  unfold rd; simp [List.getD, List.getElem?_eq_getElem h]

theorem getD_lt_256 (m : Mem) (h : BytesOK m) (i : Nat) : m.getD i 0 < 256 := by
  by_cases hi : i < m.length
  · have : m.getD i 0 = m[i] := by simp [List.getD, List.getElem?_eq_getElem hi]
    rw [this]; exact h _ (List.getElem_mem hi)
  · have : m.getD i 0 = 0 := by simp [List.getD, List.getElem?_eq_none (Nat.le_of_not_lt hi)]
    omega

theorem wr_of_lt (m : Mem) (i v : Nat) (h : i < m.length) : wr m i v = some (m.set i (v % 256)) := by
  unfold wr; simp [h]

theorem bytesOK_set (m : Mem) (h : BytesOK m) (i v : Nat) : BytesOK (m.set i (v % 256)) := by
  intro x hx
  rcases List.mem_or_eq_of_mem_set hx with h1 | h1
  · exact h x h1
  · subst h1; omega

theorem bit_set (m : Mem) (i x k : Nat) (hi : i < m.length) :
    bit (m.set i x) k = if k / 8 = i then x.testBit (k % 8) else bit m k := by
  unfold bit
  by_cases h : k / 8 = i
  · subst h; simp [hi]
  · have : (m.set i x).getD (k / 8) 0 = m.getD (k / 8) 0 := by
      simp [Ne.symm h]
    rw [this]; simp [h]

theorem testBit_byte_hi (x j : Nat) (hx : x < 256) (hj : 8 ≤ j) : x.testBit j = false := by
  apply Nat.testBit_lt_two_pow
  calc x < 2 ^ 8 := hx
    _ ≤ 2 ^ j := Nat.pow_le_pow_right (by omega) hj

theorem testBit_mod256 (x j : Nat) : (x % 256).testBit j = (decide (j < 8) && x.testBit j) := by
  have : (256 : Nat) = 2 ^ 8 := rfl
  rw [this, Nat.testBit_mod_two_pow]

theorem testBit_255_shl (k j : Nat) : (255 <<< k).testBit j = (decide (k ≤ j) && decide (j < k + 8)) := by
  rw [Nat.testBit_shiftLeft]
  have : (255 : Nat) = 2 ^ 8 - 1 := rfl
  rw [this, Nat.testBit_two_pow_sub_one]
  by_cases h : k ≤ j <;> simp [h] <;> omega

theorem testBit_not32 (x j : Nat) (hj : j < 32) : (not32 x).testBit j = !x.testBit j := by
  unfold not32
  rw [Nat.testBit_xor]
  have : (4294967295 : Nat) = 2 ^ 32 - 1 := rfl
  rw [this, Nat.testBit_two_pow_sub_one]
  simp [hj]

/-- bit of a byte inside an array -/
theorem bit_at (m : Mem) (i j : Nat) (hj : j < 8) : bit m (8 * i + j) = (m.getD i 0).testBit j := by
  unfold bit
  have h1 : (8 * i + j) / 8 = i := by omega
  have h2 : (8 * i + j) % 8 = j := by omega
  rw [h1, h2]

end Utcp.BB
