import Utcp.Lemmas.Keeps
/-! What the bunch-processing half of the *receive* path (`ReceivedRawBunch` and everything below it) never touches:
the whole packet-notify state and the packet-id counters. -/
namespace Utcp
open Gen

structure SameN (c c' : Conn) : Prop where
  notify : c'.notify = c.notify
  inPacketId : c'.inPacketId = c.inPacketId
  lastNotified : c'.lastNotified = c.lastNotified
  sendActive : c'.sendActive = c.sendActive
  sendNotif : c'.sendNotif = c.sendNotif
  sendBody : c'.sendBody = c.sendBody
  connected : c'.connected = c.connected
  lastRecvMs : c'.lastRecvMs = c.lastRecvMs
  lastSendMs : c'.lastSendMs = c.lastSendMs
  outPacketId : c'.outPacketId = c.outPacketId

theorem SameN.refl (c : Conn) : SameN c c := ⟨rfl, rfl, rfl, rfl, rfl, rfl, rfl, rfl, rfl, rfl⟩
theorem SameN.trans {a b c : Conn} (h1 : SameN a b) (h2 : SameN b c) : SameN a c :=
  ⟨h2.1.trans h1.1, h2.2.trans h1.2, h2.3.trans h1.3, h2.4.trans h1.4, h2.5.trans h1.5, h2.6.trans h1.6, h2.7.trans h1.7, h2.8.trans h1.8, h2.9.trans h1.9, h2.10.trans h1.10⟩

theorem emit_sameN (c : Conn) (ev : Event) : SameN c (c.emit ev) := ⟨rfl, rfl, rfl, rfl, rfl, rfl, rfl, rfl, rfl, rfl⟩
theorem setChan_sameN (c : Conn) (ch : Nat) (x : Channel) : SameN c (c.setChan ch x) := ⟨rfl, rfl, rfl, rfl, rfl, rfl, rfl, rfl, rfl, rfl⟩
theorem markClose_sameN (c : Conn) (r : Nat) : SameN c (c.markClose r) := by
  unfold Conn.markClose; split
  · exact SameN.refl _
  · exact ⟨rfl, rfl, rfl, rfl, rfl, rfl, rfl, rfl, rfl, rfl⟩

theorem freeNodes_sameN (c : Conn) (k : Nat) : SameN c (c.freeNodes k) := by
  unfold Conn.freeNodes
  have : ∀ (l : List Nat) (c : Conn), SameN c (l.foldl (fun c _ => c.emit (.free .node)) c) := by
    intro l
    induction l with
    | nil => intro c; exact SameN.refl _
    | cons a rest ih => intro c; exact (emit_sameN c _).trans (ih _)
  exact this _ _

theorem noteClose_sameN (c : Conn) (b : Bunch) : SameN c (c.noteClose b) := by
  unfold Conn.noteClose
  split
  · exact SameN.refl _
  · dsimp only
    have hc : SameN c (if (b.chIndex == 0) = true then c.markClose crControlChannelClose else c) := by
      split
      · exact markClose_sameN _ _
      · exact SameN.refl _
    generalize (if (b.chIndex == 0) = true then c.markClose crControlChannelClose else c) = c' at *
    split
    · exact hc
    · exact hc.trans ⟨rfl, rfl, rfl, rfl, rfl, rfl, rfl, rfl, rfl, rfl⟩

theorem foldl_noteClose_sameN (g : List Bunch) : ∀ c : Conn, SameN c (g.foldl Conn.noteClose c) := by
  induction g with
  | nil => intro c; exact SameN.refl _
  | cons b rest ih => intro c; exact (noteClose_sameN c b).trans (ih _)

theorem mergePartial_sameN (c : Conn) (x : Channel) (b : Bunch) : SameN c (mergePartial c x b).1 := by
  unfold mergePartial mergeInitial mergeNext
  split
  · split
    · exact SameN.refl _
    · split
      · exact SameN.refl _
      · exact freeNodes_sameN _ _
  · split
    · exact SameN.refl _
    · split
      · exact SameN.refl _
      · split
        · exact SameN.refl _
        · exact freeNodes_sameN _ _

theorem receivedNextBunch_sameN (c : Conn) (b : Bunch) : SameN c (c.receivedNextBunch b).1 := by
  unfold Conn.receivedNextBunch
  split
  · exact emit_sameN _ _
  · rename_i x hx
    dsimp only
    split
    · have hm := mergePartial_sameN c (if b.bReliable = true then { x with inReliable := b.chSeq } else x) b
      generalize hmp : mergePartial c (if b.bReliable = true then { x with inReliable := b.chSeq } else x) b = r at hm
      obtain ⟨c1, x1, res, skip⟩ := r
      simp only at hm ⊢
      have h1 : SameN c (c1.setChan b.chIndex x1) := hm.trans (setChan_sameN _ _ _)
      cases res with
      | succeed => exact h1
      | fatal => exact h1.trans (emit_sameN _ _)
      | failed => exact h1.trans (emit_sameN _ _)
      | available =>
        simp only
        split
        · exact (h1.trans (freeNodes_sameN _ _)).trans ((setChan_sameN _ _ _).trans (markClose_sameN _ _))
        · have h2 := (h1.trans (foldl_noteClose_sameN x1.inPartial _)).trans (emit_sameN _ (.recv x1.inPartial))
          have h3 := h2.trans (freeNodes_sameN _ x1.inPartial.length)
          split
          · exact h3
          · exact h3.trans (setChan_sameN _ _ _)
    · exact (((setChan_sameN c _ _).trans (noteClose_sameN _ _)).trans (emit_sameN _ _)).trans (emit_sameN _ _)

theorem dispatchWaiting_sameN (fuel : Nat) : ∀ (c : Conn) (ch : Nat), SameN c (Conn.dispatchWaiting fuel c ch) := by
  induction fuel with
  | zero => intro c ch; exact SameN.refl _
  | succ f ih =>
    intro c ch
    unfold Conn.dispatchWaiting
    split
    · exact SameN.refl _
    · split
      · exact SameN.refl _
      · split
        · exact SameN.refl _
        · dsimp only
          exact ((setChan_sameN c ch _).trans (receivedNextBunch_sameN _ _)).trans (ih _ _)

theorem createChan_sameN (c : Conn) (ch : Nat) : SameN c (c.createChan ch) := by
  unfold Conn.createChan
  dsimp only
  refine SameN.trans ?_ (setChan_sameN _ _ _)
  split
  · exact emit_sameN _ _
  · split
    · exact ⟨rfl, rfl, rfl, rfl, rfl, rfl, rfl, rfl, rfl, rfl⟩
    · exact ⟨rfl, rfl, rfl, rfl, rfl, rfl, rfl, rfl, rfl, rfl⟩

theorem getOrCreateChan_sameN (c : Conn) (b : Bunch) (inc : Bool) : SameN c (c.getOrCreateChan b inc).1 := by
  unfold Conn.getOrCreateChan
  split
  · exact SameN.refl _
  · split
    · exact createChan_sameN c _
    · exact SameN.refl _

theorem processBunch_sameN (c : Conn) (x : Channel) (b : Bunch) : SameN c (c.processBunch x b).1 := by
  unfold Conn.processBunch
  split
  · exact emit_sameN _ _
  · split
    · split
      · exact emit_sameN _ _
      · split
        · exact setChan_sameN _ _ _
        · exact emit_sameN _ _
    · exact receivedNextBunch_sameN _ _

theorem receivedRawBunch_sameN (c : Conn) (bits : Bits) : SameN c (c.receivedRawBunch bits).1 := by
  unfold Conn.receivedRawBunch
  dsimp only
  have h0 : SameN c (c.emit (.alloc .node)) := emit_sameN _ _
  split
  · exact (h0.trans (markClose_sameN _ _)).trans (emit_sameN _ _)
  · split
    · exact (h0.trans (markClose_sameN _ _)).trans (emit_sameN _ _)
    · split
      · exact (h0.trans (getOrCreateChan_sameN _ _ _)).trans (emit_sameN _ _)
      · exact ((h0.trans (getOrCreateChan_sameN _ _ _)).trans (processBunch_sameN _ _ _)).trans (dispatchWaiting_sameN _ _ _)

/-- **the bunch loop of `ReceivedPacket` never touches the acknowledgement state** -/
theorem bunchLoop_sameN (fuel : Nat) : ∀ (c : Conn) (bits : Bits) (skip : Bool), SameN c (Conn.bunchLoop fuel c bits skip).1 := by
  induction fuel with
  | zero => intro c bits skip; exact SameN.refl _
  | succ f ih =>
    intro c bits skip
    unfold Conn.bunchLoop
    split
    · exact SameN.refl _
    · exact (receivedRawBunch_sameN c bits).trans (ih _ _ _)

end Utcp
