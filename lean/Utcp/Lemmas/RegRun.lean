import Utcp.Props.C02
import Utcp.Props.C18
/-! helper lemmas for `Props/C02_Hist.lean`: the operations other than `ReceivedPacket` leave alone what the register invariant reads -/
namespace Utcp.Props.C02Hist
open Utcp Utcp.Gen Utcp.Props

/-- the fields `RConn` reads are the same -/
structure RegSame (c c' : Conn) : Prop where
  hist : c'.notify.hist = c.notify.hist
  inAckSeq : c'.notify.inAckSeq = c.notify.inAckSeq
  inSeq : c'.notify.inSeq = c.notify.inSeq
  inPacketId : c'.inPacketId = c.inPacketId

theorem RegSame.refl (c : Conn) : RegSame c c := ⟨rfl, rfl, rfl, rfl⟩
theorem RegSame.trans {a b c : Conn} (h1 : RegSame a b) (h2 : RegSame b c) : RegSame a c :=
  ⟨h2.1.trans h1.1, h2.2.trans h1.2, h2.3.trans h1.3, h2.4.trans h1.4⟩
theorem RegSame.of_keeps {c c' : Conn} (h : Keeps c c') : RegSame c c' := ⟨h.hist, h.inAckSeq, h.inSeq, h.inPacketId⟩
theorem RegSame.of_sameN {c c' : Conn} (h : SameN c c') : RegSame c c' := ⟨by rw [h.notify], by rw [h.notify], by rw [h.notify], h.inPacketId⟩

theorem RegSame.rconn {c c' : Conn} {tg calls : List (Int × Bool)} (hs : RegSame c c') (h : C02.RConn c tg calls) : C02.RConn c' tg calls :=
  ⟨by rw [hs.inPacketId]; exact h.reg.congr hs.hist hs.inAckSeq, by rw [hs.inSeq]; exact h.inSeq⟩

theorem sendBunch_regsame (e : Env) (c : Conn) (b : Bunch) : RegSame c (c.sendBunch e b).1 := by
  have hraw : RegSame c (c.sendRaw e b).1 := by
    unfold Conn.sendRaw
    split
    · exact RegSame.refl _
    · unfold Conn.sendCommit
      dsimp only
      have h1 : RegSame c ((c.getOrCreateChan b false).1.noteClose b) :=
        (RegSame.of_sameN (getOrCreateChan_sameN c b false)).trans (RegSame.of_sameN (noteClose_sameN _ b))
      generalize (c.getOrCreateChan b false).1.noteClose b = c1 at h1 ⊢
      split
      · exact h1
      · rename_i x hx
        generalize (if b.bReliable = true then x.outReliable + 1 else 0 : Int) = seq
        generalize (if b.bReliable = true then (encodeBunchHeader { b with chSeq := seq }).getD _ else _) = hdr
        have h2 : RegSame c1 (if b.bReliable = true then c1.setChan b.chIndex { x with outReliable := seq } else c1) := by
          split
          · exact RegSame.of_sameN (setChan_sameN _ _ _)
          · exact RegSame.refl _
        generalize (if b.bReliable = true then c1.setChan b.chIndex { x with outReliable := seq } else c1) = c2 at h2 ⊢
        have h4 : RegSame c ((c2.prepareWrite e (hdr.length + b.data.length)).writeInternal e (hdr ++ b.data)).1 :=
          ((h1.trans h2).trans (RegSame.of_keeps (prepareWrite_keeps e c2 _))).trans (RegSame.of_keeps (writeInternal_keeps e _ _))
        split
        · have h5 : RegSame c (((c2.prepareWrite e (hdr.length + b.data.length)).writeInternal e (hdr ++ b.data)).1.emit (.alloc .node)) :=
            h4.trans (RegSame.of_sameN (emit_sameN _ _))
          refine h5.trans ?_
          unfold Conn.addOutRec
          split
          · exact RegSame.refl _
          · exact RegSame.of_sameN (setChan_sameN _ _ _)
        · exact h4
  unfold Conn.sendBunch
  generalize c.sendRaw e b = r at hraw ⊢
  obtain ⟨c', rr⟩ := r
  simp only at hraw ⊢
  split <;> exact hraw

theorem update_regsame (e : Env) (c : Conn) : RegSame c (c.checkTimeout e).updateTail.1 := by
  have same : ∀ c c' : Conn, c'.notify = c.notify → c'.inPacketId = c.inPacketId → RegSame c c' := fun c c' h1 h2 =>
    ⟨by rw [h1], by rw [h1], by rw [h1], h2⟩
  have h1 : RegSame c (c.checkTimeout e) := by
    unfold Conn.checkTimeout
    split
    · exact RegSame.of_sameN (markClose_sameN _ _)
    · exact RegSame.refl _
  have hfree : ∀ (c : Conn) (x : Channel), RegSame c (c.freeChan x) := by
    intro c x
    unfold Conn.freeChan
    dsimp only
    exact (((RegSame.of_sameN (freeNodes_sameN c _)).trans (RegSame.of_sameN (freeNodes_sameN _ _))).trans (RegSame.of_sameN (freeNodes_sameN _ _))).trans (RegSame.of_sameN (emit_sameN _ _))
  have hd : ∀ c : Conn, RegSame c c.delayClose := by
    intro c
    unfold Conn.delayClose
    split
    · exact RegSame.refl _
    · dsimp only
      have hgen : ∀ (f : Conn → Nat × Channel → Conn), (∀ c p, RegSame c (f c p)) → ∀ (l : List (Nat × Channel)) (c' : Conn), RegSame c' (l.foldl f c') := by
        intro f hf l
        induction l with
        | nil => intro c'; exact RegSame.refl _
        | cons p rest ih => intro c'; exact (hf c' p).trans (ih _)
      refine (same c { c with hasChannelClose := false } rfl rfl).trans (hgen _ ?_ _ _)
      intro c' p
      split
      · exact RegSame.refl _
      · split
        · exact same _ _ rfl rfl
        · exact (hfree c' p.2).trans (same _ _ rfl rfl)
  unfold Conn.updateTail
  dsimp only
  split
  · exact h1.trans (hd _)
  · exact (h1.trans (hd _)).trans (RegSame.of_sameN (emit_sameN _ _))

end Utcp.Props.C02Hist
