import Utcp.Lemmas.ByteCopy
/-! The main path of the bit-run copier, whole: lead-in, byte loop, lead-out. -/
namespace Utcp.BB

theorem shl255_ne (e : Nat) : (255 <<< e ≠ 255) ↔ e ≠ 0 := by
  constructor
  · intro h he; subst he; simp at h
  · intro he h
    rw [Nat.shiftLeft_eq] at h
    have : 2 ≤ 2 ^ e := by
      calc 2 = 2 ^ 1 := rfl
        _ ≤ 2 ^ e := Nat.pow_le_pow_right (by omega) (by omega)
    have : 255 * 2 ≤ 255 * 2 ^ e := Nat.mul_le_mul_left _ this
    omega

/-- the two alignments of the lead-in leave the same situation behind: `off` extra source bytes consumed, a shift `sh`, `s + sh = d + 8 * off` -/
theorem leadIn_spec (src : Mem) (hs : BytesOK src) (S0 s d n L : Nat) (hs8 : s < 8) (hd8 : d < 8) (hn : 9 ≤ n)
    (hlen : 8 * S0 + s + n ≤ 8 * src.length) (hL : L = (d + n) / 8) (srcLoop : Nat) (hsl : srcLoop = (s + n) / 8) :
    ∃ off sh acc0, off ≤ 1 ∧ sh < 8 ∧ s + sh = d + 8 * off ∧ AccOK src S0 sh off acc0 ∧
      (if s ≤ d then
        (rd src S0).bind fun a => some (max L srcLoop, a <<< (d - s), S0, d - s + 8)
       else
        (rd src S0).bind fun a => (rd src (S0 + 1)).bind fun b =>
          some (max L (srcLoop - 1), ((b <<< (d + 8 - s + 8)) + (a <<< (d + 8 - s))) >>> 8, S0 + 1, d + 8 - s + 8))
      = some (L, acc0, S0 + off, sh + 8) := by
  have r0 : rd src S0 = some (src.getD S0 0) := rd_of_lt _ _ (by omega)
  by_cases h : s ≤ d
  · refine ⟨0, d - s, src.getD S0 0 <<< (d - s), by omega, by omega, by omega, accOK_init src hs S0 (d - s), ?_⟩
    rw [if_pos h, r0]
    have : max L srcLoop = L := by
      apply Nat.max_eq_left; omega
    simp [this]
  · have r1 : rd src (S0 + 1) = some (src.getD (S0 + 1) 0) := rd_of_lt _ _ (by omega)
    have hstep := accOK_step src hs S0 (d + 8 - s) 0 _ (by omega) (accOK_init src hs S0 (d + 8 - s))
    refine ⟨1, d + 8 - s, _, by omega, by omega, by omega, hstep, ?_⟩
    rw [if_neg h, r0, r1]
    have : max L (srcLoop - 1) = L := by
      apply Nat.max_eq_left; omega
    simp [this]

end Utcp.BB

namespace Utcp.BB

theorem mask_lo (acc x d j : Nat) (hd : d < 8) :
    (((acc &&& (255 <<< d)) ||| (x &&& not32 (255 <<< d))) % 256).testBit j =
      (decide (j < 8) && if d ≤ j then acc.testBit j else x.testBit j) := by
  rw [testBit_mod256]
  by_cases hj : j < 8
  · rw [Nat.testBit_or, Nat.testBit_and, Nat.testBit_and, testBit_not32 _ _ (by omega), testBit_255_shl]
    by_cases h : d ≤ j
    · have : j < d + 8 := by omega
      simp [hj, h, this]
    · simp [hj, h]
  · simp [hj]

theorem mask_hi (acc x e j : Nat) (he : e < 8) :
    (((x &&& (255 <<< e)) ||| (acc &&& not32 (255 <<< e))) % 256).testBit j =
      (decide (j < 8) && if e ≤ j then x.testBit j else acc.testBit j) := by
  rw [testBit_mod256]
  by_cases hj : j < 8
  · rw [Nat.testBit_or, Nat.testBit_and, Nat.testBit_and, testBit_not32 _ _ (by omega), testBit_255_shl]
    by_cases h : e ≤ j
    · have : j < e + 8 := by omega
      simp [hj, h, this]
    · simp [hj, h]
  · simp [hj]

end Utcp.BB

namespace Utcp.BB

theorem cpyMain_core (dest src : Mem) (hdk : BytesOK dest) (hsk : BytesOK src) (D0 d S0 s n L e : Nat)
    (hd8 : d < 8) (hs8 : s < 8) (he8 : e < 8) (hn : 9 ≤ n) (hde : d + n = 8 * L + e)
    (hdl : 8 * D0 + d + n ≤ 8 * dest.length) (hsl : 8 * S0 + s + n ≤ 8 * src.length) :
    ∃ dest', cpyMain dest (8 * D0 + d) src (8 * S0 + s) n = some dest' ∧ dest'.length = dest.length ∧ BytesOK dest' ∧
      ∀ k, bit dest' k = if 8 * D0 + d ≤ k ∧ k < 8 * D0 + d + n then bit src (8 * S0 + s + (k - (8 * D0 + d))) else bit dest k := by
  have q1 : (8 * D0 + d) / 8 = D0 := by omega
  have q2 : (8 * D0 + d) % 8 = d := by omega
  have q3 : (8 * D0 + d + n) / 8 = D0 + L := by omega
  have q4 : (8 * D0 + d + n) % 8 = e := by omega
  have q5 : (8 * S0 + s) / 8 = S0 := by omega
  have q6 : (8 * S0 + s) % 8 = s := by omega
  have q7 : D0 + L - D0 = L := by omega
  obtain ⟨off, sh, acc0, ho, hsh, hrel, hacc0, hlead⟩ :=
    leadIn_spec src hsk S0 s d n L hs8 hd8 hn hsl (by omega) ((8 * S0 + s + n) / 8 - S0) (by omega)
  have r0 : rd dest D0 = some (dest.getD D0 0) := rd_of_lt _ _ (by omega)
  generalize hv0 : ((acc0 &&& (255 <<< d)) ||| (dest.getD D0 0 &&& not32 (255 <<< d))) = v0
  have w0 : wr dest D0 v0 = some (dest.set D0 (v0 % 256)) := wr_of_lt _ _ _ (by omega)
  have ok1 : BytesOK (dest.set D0 (v0 % 256)) := bytesOK_set dest hdk D0 v0
  obtain ⟨cur, acc1, hloop, hacc1, ok2, len2, bits2⟩ :=
    cpyLoop_spec src hsk S0 sh hsh L (dest.set D0 (v0 % 256)) off (D0 + 1) acc0 hacc0 ok1 (by omega) (by simp; omega)
  have hL1 : 1 ≤ L := by omega
  have e1 : S0 + off + 1 + (L - 1) = S0 + off + L := by omega
  have e2 : D0 + 1 + (L - 1) = D0 + L := by omega
  rw [e1, e2] at hloop
  have e3 : off + (L - 1) + 1 = off + L := by omega
  -- the bits after lead-in and loop
  have bits12 : ∀ k, bit cur k = if 8 * D0 + d ≤ k ∧ k < 8 * (D0 + L) then bit src (8 * S0 + s + (k - (8 * D0 + d))) else bit dest k := by
    intro k
    rw [bits2 k, bit_set _ _ _ _ (by omega)]
    by_cases h1 : 8 * (D0 + 1) ≤ k ∧ k < 8 * (D0 + 1 + (L - 1))
    · have a : 8 * D0 + d ≤ k ∧ k < 8 * (D0 + L) := by omega
      rw [if_pos h1, if_pos a]
      congr 1; omega
    · rw [if_neg h1]
      by_cases h2 : k / 8 = D0
      · rw [if_pos h2, ← hv0, mask_lo _ _ _ _ hd8]
        have a3 : k % 8 < 8 := by omega
        by_cases h3 : d ≤ k % 8
        · have a : 8 * D0 + d ≤ k ∧ k < 8 * (D0 + L) := by omega
          rw [if_pos a, if_pos h3, hacc0 (k % 8)]
          have a4 : sh ≤ 8 * off + k % 8 ∧ k % 8 < sh + 8 := by omega
          have a5 : 8 * S0 + (8 * off + k % 8 - sh) = 8 * S0 + s + (k - (8 * D0 + d)) := by omega
          simp [a3, a4, a5]
        · have a : ¬ (8 * D0 + d ≤ k ∧ k < 8 * (D0 + L)) := by omega
          rw [if_neg a, if_neg h3]
          have : bit dest k = (dest.getD D0 0).testBit (k % 8) := by unfold bit; rw [h2]
          simp [a3, this]
      · have a : ¬ (8 * D0 + d ≤ k ∧ k < 8 * (D0 + L)) := by omega
        rw [if_neg h2, if_neg a]
  unfold cpyMain
  simp only [q1, q2, q3, q4, q5, q6, q7]
  rw [hlead]
  simp only [Option.bind_some, r0, hv0, w0, hloop]
  by_cases he : e = 0
  · have : ¬ (255 <<< e ≠ 255) := by rw [shl255_ne]; omega
    rw [if_neg this]
    refine ⟨cur, rfl, by rw [len2]; simp, ok2, ?_⟩
    intro k
    rw [bits12 k]
    have : 8 * (D0 + L) = 8 * D0 + d + n := by omega
    rw [this]
  · have hne : 255 <<< e ≠ 255 := by rw [shl255_ne]; exact he
    rw [if_pos hne]
    have rl : rd cur (D0 + L) = some (cur.getD (D0 + L) 0) := rd_of_lt _ _ (by rw [len2]; simp; omega)
    -- the accumulator of the lead-out
    have hacc2 : ∃ acc2, (if (8 * S0 + s + n - 1) / 8 = S0 + off + L then (rd src (S0 + off + L)).bind fun b => some (((b <<< (sh + 8)) + acc1) >>> 8)
        else some (acc1 >>> 8)) = some acc2 ∧ ∀ j, j < e → acc2.testBit j = bit src (8 * S0 + s + (8 * (D0 + L) + j - (8 * D0 + d))) := by
      by_cases hc : (8 * S0 + s + n - 1) / 8 = S0 + off + L
      · have rs : rd src (S0 + off + L) = some (src.getD (S0 + off + L) 0) := rd_of_lt _ _ (by omega)
        have hst := accOK_step src hsk S0 sh (off + (L - 1)) acc1 hsh hacc1
        have e4 : S0 + (off + (L - 1)) + 1 = S0 + off + L := by omega
        rw [e4, e3] at hst
        refine ⟨_, by rw [if_pos hc, rs]; rfl, ?_⟩
        intro j hj
        rw [hst j]
        have a4 : sh ≤ 8 * (off + L) + j ∧ j < sh + 8 := by omega
        have a5 : 8 * S0 + (8 * (off + L) + j - sh) = 8 * S0 + s + (8 * (D0 + L) + j - (8 * D0 + d)) := by omega
        simp [a4, a5]
      · refine ⟨_, by rw [if_neg hc], ?_⟩
        intro j hj
        rw [Nat.testBit_shiftRight, hacc1 (8 + j)]
        have a4 : sh ≤ 8 * (off + (L - 1)) + (8 + j) ∧ 8 + j < sh + 8 := by omega
        have a5 : 8 * S0 + (8 * (off + (L - 1)) + (8 + j) - sh) = 8 * S0 + s + (8 * (D0 + L) + j - (8 * D0 + d)) := by omega
        simp [a4, a5]
    obtain ⟨acc2, hacc2e, hacc2b⟩ := hacc2
    rw [hacc2e]
    simp only [Option.bind_some, rl]
    generalize hv1 : ((cur.getD (D0 + L) 0 &&& (255 <<< e)) ||| (acc2 &&& not32 (255 <<< e))) = v1
    have w1 : wr cur (D0 + L) v1 = some (cur.set (D0 + L) (v1 % 256)) := wr_of_lt _ _ _ (by rw [len2]; simp; omega)
    rw [w1]
    refine ⟨_, rfl, by simp [len2], bytesOK_set cur ok2 _ _, ?_⟩
    intro k
    rw [bit_set _ _ _ _ (by rw [len2]; simp; omega)]
    by_cases h2 : k / 8 = D0 + L
    · rw [if_pos h2, ← hv1, mask_hi _ _ _ _ he8]
      have a3 : k % 8 < 8 := by omega
      by_cases h3 : e ≤ k % 8
      · have a : ¬ (8 * D0 + d ≤ k ∧ k < 8 * D0 + d + n) := by omega
        rw [if_pos h3, if_neg a]
        have : bit cur k = (cur.getD (D0 + L) 0).testBit (k % 8) := by unfold bit; rw [h2]
        rw [← this, bits12 k]
        have a' : ¬ (8 * D0 + d ≤ k ∧ k < 8 * (D0 + L)) := by omega
        rw [if_neg a']
        simp [a3]
      · have a : 8 * D0 + d ≤ k ∧ k < 8 * D0 + d + n := by omega
        rw [if_neg h3, if_pos a, hacc2b (k % 8) (by omega)]
        have : 8 * (D0 + L) + k % 8 = k := by omega
        simp [a3, this]
    · rw [if_neg h2, bits12 k]
      by_cases h4 : 8 * D0 + d ≤ k ∧ k < 8 * (D0 + L)
      · have a : 8 * D0 + d ≤ k ∧ k < 8 * D0 + d + n := by omega
        rw [if_pos h4, if_pos a]
      · have a : ¬ (8 * D0 + d ≤ k ∧ k < 8 * D0 + d + n) := by omega
        rw [if_neg h4, if_neg a]

end Utcp.BB
