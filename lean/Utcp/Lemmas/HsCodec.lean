import Utcp.Handshake
import Utcp.Lemmas.BitIO
import Utcp.Lemmas.Frame
/-!
# The handshake datagram codec: what `hsPacket` + `CapHandshakePacket` write, `bitbuf_read_init` + `read_packet_header` +
`ParseHandshakePacket` read back — for every field value, every magic configuration and every padding length the
random stream can choose.
-/
namespace Utcp
open Gen

theorem bitsToBytes_bytesToBits (bs : List UInt8) : bitsToBytes (bytesToBits bs) = bs := by
  induction bs with
  | nil => simp [bytesToBits, bitsToBytes_nil]
  | cons b bs ih =>
    have hlen : (natToBits b.toNat 8).length = 8 := natToBits_length _ _
    have hne : bytesToBits (b :: bs) ≠ [] := by
      intro h
      have := congrArg List.length h
      simp [bytesToBits_length] at this
    rw [bitsToBytes, dif_neg hne]
    have ht : (bytesToBits (b :: bs)).take 8 = natToBits b.toNat 8 := by
      simp only [bytesToBits]
      rw [List.take_append_of_le_length (by omega)]
      rw [List.take_of_length_le (by omega)]
    have hd : (bytesToBits (b :: bs)).drop 8 = bytesToBits bs := by
      simp only [bytesToBits]
      rw [List.drop_append_of_le_length (by omega)]
      rw [List.drop_of_length_le (by omega)]
      rfl
    rw [ht, hd, ih, bitsToNat_natToBits]
    have hb : b.toNat < 256 := b.toNat_lt
    have : b.toNat % 2 ^ 8 = b.toNat := Nat.mod_eq_of_lt (by simpa using hb)
    rw [this]
    simp

/-- the part of a latest-version handshake datagram after the outgoing header -/
def hsBody (restart : Bool) (ptype cnt netVer : Nat) (sid : Bool) (ts : UInt64) (cookie : List UInt8) : Bits :=
  [restart] ++ (writeByte 1 ++ (writeByte 3 ++ (writeByte ptype ++ (writeByte cnt ++ (writeU32 netVer ++ ([sid] ++ (writeU64 ts.toNat ++ bytesBits cookie)))))))

theorem hsBody_length (restart : Bool) (ptype cnt netVer : Nat) (sid : Bool) (ts : UInt64) (cookie : List UInt8) (hc : cookie.length = 20) :
    (hsBody restart ptype cnt netVer sid ts cookie).length = 290 := by
  simp [hsBody, writeByte, writeU32, writeU64, bytesBits, bytesToBits_length, hc]

theorem hsPacket_eq (e : Env) (session client : Nat) (restart : Bool) (ptype cnt netVer : Nat) (sid : Bool) (ts : UInt64) (cookie : List UInt8) :
    hsPacket e 3 session client restart ptype cnt netVer sid ts cookie []
      = hsOutgoingHeader e 3 session client true ++ hsBody restart ptype cnt netVer sid ts cookie := by
  simp [hsPacket, hsBody, bytesBits, bytesToBits]

/-- the initial packet is the common layout with a zero timestamp and a zero cookie -/
theorem initial_eq (e : Env) (client : Nat) (restart : Bool) (cnt netVer : Nat) :
    hsOutgoingHeader e 3 0 client true ++ [restart]
      ++ (if 3 ≥ 1 then writeByte 1 ++ writeByte 3 ++ writeByte ptInitial ++ writeByte cnt else [])
      ++ (if 3 ≥ 2 then writeU32 netVer else [])
      ++ [false] ++ List.replicate 224 false
    = hsOutgoingHeader e 3 0 client true ++ hsBody restart ptInitial cnt netVer false 0 (List.replicate 20 0) := by
  have h : writeU64 (0 : UInt64).toNat ++ bytesBits (List.replicate 20 0) = List.replicate 224 false := by
    set_option maxRecDepth 8192 in decide
  simp only [hsBody, h]
  simp

/-- the padding length `CapHandshakePacket` draws: between 9 and 16 bytes -/
def capLen (rng : Rng) : Nat := 16 - (lcgNext rng.lib) % 8

theorem capLen_range (rng : Rng) : 9 ≤ capLen rng ∧ capLen rng ≤ 16 := by
  unfold capLen
  have : lcgNext rng.lib % 8 < 8 := Nat.mod_lt _ (by decide)
  omega

theorem cap3 (e : Env) (rng : Rng) (bits : Bits) :
    (capHandshake e rng 3 bits).2 = bits ++ List.replicate (8 * capLen rng) false ++ [true] := by
  simp [capHandshake, capLen, Rng.nextLib]

theorem readHeader_hs (e : Env) (s cl : Nat) (h : Bool) (rest : Bits) (hm : e.magic < 2 ^ e.magicBits) :
    readOutgoingHeader e (hsOutgoingHeader e 3 s cl h ++ rest) = .ok (s % 4, cl % 8, h) rest := by
  unfold readOutgoingHeader hsOutgoingHeader
  simp only [ge_iff_le, Nat.le_refl, if_true, List.append_assoc]
  rw [readBits_append' e.magicBits (natToBits e.magic e.magicBits) _ (natToBits_length _ _)]
  have hmag : (e.magicBits != 0 && bitsToNat (natToBits e.magic e.magicBits) != e.magic) = false := by
    rw [bitsToNat_natToBits, Nat.mod_eq_of_lt hm]; simp
  simp only [hmag, Bool.false_eq_true, if_false]
  rw [readBits_append' 2 (natToBits s 2) _ (natToBits_length _ _)]
  simp only
  rw [readBits_append' 3 (natToBits cl 3) _ (natToBits_length _ _)]
  simp only [List.cons_append, List.nil_append, readBit_cons, bitsToNat_natToBits]

/-- `ParseHandshakePacket` reads back every field of a challenge / response / ack / initial packet, whatever the padding
length in the range `CapHandshakePacket` uses -/
theorem parse_hsBody (restart : Bool) (ptype cnt netVer : Nat) (sid : Bool) (ts : UInt64) (cookie : List UInt8) (k : Nat)
    (hc : cookie.length = 20) (hp : ptype ≤ 3) (hcnt : cnt < 256) (hnet : netVer < 4294967296) (hk1 : 9 ≤ k) (hk2 : k ≤ 16) :
    parseHandshake (hsBody restart ptype cnt netVer sid ts cookie ++ List.replicate (8 * k) false)
      = some { restart := restart, minVer := 1, curVer := 3, netVer := netVer, ptype := ptype, sentCount := cnt, secretId := sid,
               ts := ts, cookie := cookie, origCookie := List.replicate 20 0 } := by
  have hlen : (hsBody restart ptype cnt netVer sid ts cookie ++ List.replicate (8 * k) false).length = 290 + 8 * k := by
    rw [List.length_append, hsBody_length _ _ _ _ _ _ _ hc, List.length_replicate]
  unfold parseHandshake
  rw [hlen]
  have hHs : decide (((290 + 8 * k : Nat) : Int) - (Gen.VerRandomizedHandshakePacketSizeBits - 1) ≥ (Gen.BaseRandomDataLengthBytes - Gen.RandomDataLengthVarianceBytes) * 8 ∧
      ((290 + 8 * k : Nat) : Int) - (Gen.HANDSHAKE_PACKET_SIZE_BITS - 1) ≤ Gen.BaseRandomDataLengthBytes * 8) = true := by
    apply decide_eq_true
    simp only [Gen.VerRandomizedHandshakePacketSizeBits, Gen.BaseRandomDataLengthBytes, Gen.RandomDataLengthVarianceBytes,
      Gen.HANDSHAKE_PACKET_SIZE_BITS]
    omega
  have hRR : decide (((290 + 8 * k : Nat) : Int) - (Gen.VerRandomizedRestartResponseSizeBits - 1) ≥ (Gen.BaseRandomDataLengthBytes - Gen.RandomDataLengthVarianceBytes) * 8 ∧
      ((290 + 8 * k : Nat) : Int) - (Gen.RESTART_RESPONSE_SIZE_BITS - 1) ≤ Gen.BaseRandomDataLengthBytes * 8) = false := by
    apply decide_eq_false
    simp only [Gen.VerRandomizedRestartResponseSizeBits, Gen.BaseRandomDataLengthBytes, Gen.RandomDataLengthVarianceBytes,
      Gen.RESTART_RESPONSE_SIZE_BITS]
    omega
  simp only [hHs, hRR]
  simp only [hsBody, List.append_assoc, List.cons_append, List.nil_append, readBit_cons, readByte_write]
  have h3 : (3 % 256 ≥ 2) := by decide
  simp only [h3, if_true, readU32_write, readBit_cons]
  have hpt : ptype % 256 = ptype := Nat.mod_eq_of_lt (by omega)
  have hp' : decide (ptype ≤ 3) = true := by simpa using hp
  simp only [hpt, hp', Bool.and_self, Bool.false_and, Bool.or_false, if_true]
  rw [readBits_append' 64 (writeU64 ts.toNat) _ (by simp [writeU64])]
  simp only
  rw [readBits_append' 160 (bytesBits cookie) _ (by simp [bytesBits, bytesToBits_length, hc])]
  simp only [Bool.false_eq_true, if_false]
  have hts : UInt64.ofNat (bitsToNat (writeU64 ts.toNat)) = ts := by
    unfold writeU64
    rw [bitsToNat_natToBits, Nat.mod_eq_of_lt ts.toNat_lt]
    simp
  have hck : bitsBytes (bytesBits cookie) = cookie := bitsToBytes_bytesToBits cookie
  rw [hts, hck, Nat.mod_eq_of_lt hcnt, Nat.mod_eq_of_lt hnet]

/-- **the handshake wire round trip**: the datagram the sender emits for a latest-version handshake packet is, for the receiver, a
well-terminated datagram with the handshake bit set that parses to exactly the fields written -/
theorem hs_wire (e : Env) (rng : Rng) (session client : Nat) (restart : Bool) (ptype cnt netVer : Nat) (sid : Bool) (ts : UInt64)
    (cookie : List UInt8) (hm : e.magic < 2 ^ e.magicBits)
    (hc : cookie.length = 20) (hp : ptype ≤ 3) (hcnt : cnt < 256) (hnet : netVer < 4294967296) :
    ∃ bits rest,
      readInit (bitsBytes (capHandshake e rng 3 (hsPacket e 3 session client restart ptype cnt netVer sid ts cookie [])).2) = some bits ∧
      readOutgoingHeader e bits = .ok (session % 4, client % 8, true) rest ∧
      parseHandshake rest = some { restart := restart, minVer := 1, curVer := 3, netVer := netVer, ptype := ptype, sentCount := cnt,
                                   secretId := sid, ts := ts, cookie := cookie, origCookie := List.replicate 20 0 } := by
  rw [cap3, hsPacket_eq]
  refine ⟨_, hsBody restart ptype cnt netVer sid ts cookie ++ List.replicate (8 * capLen rng) false, readInit_bitsToBytes _, ?_, ?_⟩
  · rw [List.append_assoc]
    exact readHeader_hs e session client true _ hm
  · exact parse_hsBody restart ptype cnt netVer sid ts cookie (capLen rng) hc hp hcnt hnet (capLen_range rng).1 (capLen_range rng).2

end Utcp
